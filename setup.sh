#!/bin/sh
# setup_cmd: build the whole Coq development from files on disk (offline), after regenerating
# coq/Gen/*.v from /repo's working tree.  Full .vo build (never -vos).
cd "$(dirname "$0")" || exit 2
export PYTHONHASHSEED=0 PYTHONDONTWRITEBYTECODE=1
export PYTHONPATH="/repo:/verif${PYTHONPATH:+:$PYTHONPATH}"
exec /venv/bin/python -m harness.setup
