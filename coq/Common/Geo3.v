(** Geo3 — 3-vectors and 3x3 matrices over an abstract field given as a record of operations
    (C16, C18).  Definitions only (no laws): the laws are Section hypotheses in Geo3Facts.v
    ([field_theory] + [Add Field]), so the same definitions are instantiated at [Q] (to run) and at
    [R] (to reason about sqrt/acos). *)
From Coq Require Import List Bool ZArith.
Import ListNotations.

Record Fops := mkF {
  F :> Type;
  f0 : F; f1 : F;
  fadd : F -> F -> F; fmul : F -> F -> F; fsub : F -> F -> F; fopp : F -> F;
  fdiv : F -> F -> F; finv : F -> F;
  fsqrt : F -> F;                 (* np.sqrt *)
  fleb : F -> F -> bool;          (* a <= b *)
  fltb : F -> F -> bool;          (* a <  b *)
  fpi : F;                        (* np.pi *)
  facos : F -> F;                 (* np.arccos *)
  fatan2 : F -> F -> F            (* np.arctan2 y x *)
}.

Declare Scope F_scope.
Delimit Scope F_scope with F.

Section Vec.
  Variable K : Fops.
  Local Notation "a + b" := (fadd K a b).
  Local Notation "a * b" := (fmul K a b).
  Local Notation "a - b" := (fsub K a b).
  Local Notation "- a" := (fopp K a).
  Local Notation "a / b" := (fdiv K a b).

  Definition vec3 : Type := (K * K * K)%type.
  Definition vx (v : vec3) : K := fst (fst v).
  Definition vy (v : vec3) : K := snd (fst v).
  Definition vz (v : vec3) : K := snd v.

  Definition vmap (f : K -> K) (v : vec3) : vec3 := let '(a, b, c) := v in (f a, f b, f c).
  Definition vzip (f : K -> K -> K) (u v : vec3) : vec3 :=
    let '(a, b, c) := u in let '(d, e, g) := v in (f a d, f b e, f c g).
  Definition vzero : vec3 := (f0 K, f0 K, f0 K).
  Definition vadd (u v : vec3) : vec3 := vzip (fadd K) u v.
  Definition vsub (u v : vec3) : vec3 := vzip (fsub K) u v.
  Definition vneg (v : vec3) : vec3 := vmap (fopp K) v.
  Definition vscale (s : K) (v : vec3) : vec3 := vmap (fmul K s) v.
  Definition vdot (u v : vec3) : K :=
    let '(a, b, c) := u in let '(d, e, g) := v in a * d + b * e + c * g.
  (* np.cross on 3-vectors *)
  Definition vcross (u v : vec3) : vec3 :=
    let '(a, b, c) := u in let '(d, e, g) := v in (b * g - c * e, c * d - a * g, a * e - b * d).
  Definition norm2 (v : vec3) : K := vdot v v.
  Definition vnorm (v : vec3) : K := fsqrt K (norm2 v).
  Definition triple (a b c : vec3) : K := vdot a (vcross b c).

  (** 3x3 matrices as three rows *)
  Definition mat3 : Type := (vec3 * vec3 * vec3)%type.
  Definition mrow0 (m : mat3) : vec3 := fst (fst m).
  Definition mrow1 (m : mat3) : vec3 := snd (fst m).
  Definition mrow2 (m : mat3) : vec3 := snd m.
  Definition mcol0 (m : mat3) : vec3 := let '(r0, r1, r2) := m in (vx r0, vx r1, vx r2).
  Definition mcol1 (m : mat3) : vec3 := let '(r0, r1, r2) := m in (vy r0, vy r1, vy r2).
  Definition mcol2 (m : mat3) : vec3 := let '(r0, r1, r2) := m in (vz r0, vz r1, vz r2).
  Definition mtrans (m : mat3) : mat3 := (mcol0 m, mcol1 m, mcol2 m).
  Definition mident : mat3 := ((f1 K, f0 K, f0 K), (f0 K, f1 K, f0 K), (f0 K, f0 K, f1 K)).
  (* M v (column vector) *)
  Definition mv (m : mat3) (v : vec3) : vec3 := let '(r0, r1, r2) := m in (vdot r0 v, vdot r1 v, vdot r2 v).
  (* v M (row vector times matrix): what np.dot(geom, M) does to each row *)
  Definition vm (v : vec3) (m : mat3) : vec3 := (vdot v (mcol0 m), vdot v (mcol1 m), vdot v (mcol2 m)).
  Definition mmul (a b : mat3) : mat3 := let '(r0, r1, r2) := a in (vm r0 b, vm r1 b, vm r2 b).
  Definition mdet (m : mat3) : K := let '(r0, r1, r2) := m in triple r0 r1 r2.
  Definition mdiag (a b c : K) : mat3 := ((a, f0 K, f0 K), (f0 K, b, f0 K), (f0 K, f0 K, c)).

  (** small integer constants of the field (translated Python literals) *)
  Fixpoint fofpos (p : positive) : K :=
    match p with
    | xH => f1 K
    | xO q => (f1 K + f1 K) * fofpos q
    | xI q => f1 K + (f1 K + f1 K) * fofpos q
    end.
  Definition fofZ (z : Z) : K :=
    match z with Z0 => f0 K | Zpos p => fofpos p | Zneg p => - fofpos p end.

  (** a rigid motion p |-> M p + t *)
  Definition rigid (m : mat3) (t : vec3) (p : vec3) : vec3 := vadd (mv m p) t.
  Definition orthogonal (m : mat3) : Prop := mmul (mtrans m) m = mident.
End Vec.

Arguments vx {K} v. Arguments vy {K} v. Arguments vz {K} v.
Arguments vmap {K} f v. Arguments vzip {K} f u v.
Arguments vadd {K} u v. Arguments vsub {K} u v. Arguments vneg {K} v. Arguments vscale {K} s v.
Arguments vdot {K} u v. Arguments vcross {K} u v. Arguments norm2 {K} v. Arguments vnorm {K} v.
Arguments triple {K} a b c.
Arguments mtrans {K} m. Arguments mv {K} m v. Arguments vm {K} v m. Arguments mmul {K} a b.
Arguments mdet {K} m. Arguments rigid {K} m t p. Arguments orthogonal {K} m.
Arguments mcol0 {K} m. Arguments mcol1 {K} m. Arguments mcol2 {K} m.
Arguments mrow0 {K} m. Arguments mrow1 {K} m. Arguments mrow2 {K} m.
