(** Linear-algebra vocabulary for the alignment properties (C12, C13): an operation record over an
    arbitrary carrier, finite sums over index ranges, 3-vectors, 3x3 matrices as nested tuples.
    Definitions only (the Model files depend on this file); lemmas are in AlignAlgFacts.v.
    Instantiated at Q to run (Model files) and used at an abstract commutative ring / at R to reason. *)
From Coq Require Import List Arith Bool.
Import ListNotations.

Class Ops (K : Type) := {
  k0 : K; k1 : K;
  kadd : K -> K -> K; kmul : K -> K -> K; ksub : K -> K -> K; kopp : K -> K }.

Declare Scope K_scope.
Delimit Scope K_scope with K.
Infix "+" := kadd : K_scope.
Infix "*" := kmul : K_scope.
Infix "-" := ksub : K_scope.
Notation "- x" := (kopp x) : K_scope.
Notation "0" := k0 : K_scope.
Notation "1" := k1 : K_scope.

Definition vec3 (K : Type) := (K * K * K)%type.
Definition mat3 (K : Type) := (vec3 K * vec3 K * vec3 K)%type.      (* three rows *)

Section Defs.
Context {K : Type} {KO : Ops K}.
Local Open Scope K_scope.

(** [bsum n f] = f 0 + ... + f (n-1) *)
Fixpoint bsum (n : nat) (f : nat -> K) : K :=
  match n with O => 0 | S n' => bsum n' f + f n' end.

(** list of f 0 .. f (n-1) *)
Definition tab {A} (n : nat) (f : nat -> A) : list A := map f (seq 0 n).

Definition kdelta (i j : nat) : K := if Nat.eqb i j then 1 else 0.

Definition v0 : vec3 K := (0, 0, 0).
Definition comp (v : vec3 K) (a : nat) : K :=
  let '(x, y, z) := v in match a with O => x | S O => y | _ => z end.
Definition vadd (u v : vec3 K) : vec3 K :=
  let '(a, b, c) := u in let '(x, y, z) := v in (a + x, b + y, c + z).
Definition vsub (u v : vec3 K) : vec3 K :=
  let '(a, b, c) := u in let '(x, y, z) := v in (a - x, b - y, c - z).
Definition vopp (u : vec3 K) : vec3 K := let '(a, b, c) := u in (- a, - b, - c).
Definition vscale (s : K) (u : vec3 K) : vec3 K := let '(a, b, c) := u in (s * a, s * b, s * c).
Definition dot3 (u v : vec3 K) : K :=
  let '(a, b, c) := u in let '(x, y, z) := v in a * x + b * y + c * z.

Definition mrow (M : mat3 K) (a : nat) : vec3 K :=
  let '(r0, r1, r2) := M in match a with O => r0 | S O => r1 | _ => r2 end.
Definition ment (M : mat3 K) (a b : nat) : K := comp (mrow M a) b.
Definition mk3 (f : nat -> nat -> K) : mat3 K :=
  ((f 0%nat 0%nat, f 0%nat 1%nat, f 0%nat 2%nat),
   (f 1%nat 0%nat, f 1%nat 1%nat, f 1%nat 2%nat),
   (f 2%nat 0%nat, f 2%nat 1%nat, f 2%nat 2%nat)).
Definition mtrans (M : mat3 K) : mat3 K := mk3 (fun a b => ment M b a).
Definition mid : mat3 K := ((1, 0, 0), (0, 1, 0), (0, 0, 1)).
Definition mcol (M : mat3 K) (b : nat) : vec3 K := (ment M 0%nat b, ment M 1%nat b, ment M 2%nat b).
(** row vector times matrix: numpy [v.dot(M)] *)
Definition vmat (v : vec3 K) (M : mat3 K) : vec3 K :=
  (dot3 v (mcol M 0%nat), dot3 v (mcol M 1%nat), dot3 v (mcol M 2%nat)).
(** matrix times column vector: numpy [M.dot(v)] *)
Definition mvec (M : mat3 K) (v : vec3 K) : vec3 K :=
  let '(r0, r1, r2) := M in (dot3 r0 v, dot3 r1 v, dot3 r2 v).
(** matrix product: numpy [A.dot(B)] *)
Definition mmul (A B : mat3 K) : mat3 K :=
  let '(r0, r1, r2) := A in (vmat r0 B, vmat r1 B, vmat r2 B).
Definition det3 (M : mat3 K) : K :=
  let '((a, b, c), (d, e, f), (g, h, i)) := M in
  a * (e * i - f * h) - b * (d * i - f * g) + c * (d * h - e * g).

(** [v[1] *= -1.0] when the flag is set *)
Definition mirv (m : bool) (v : vec3 K) : vec3 K :=
  if m then let '(x, y, z) := v in (x, - y, z) else v.

(** flattening of an (n,3) array in C order, and back *)
Fixpoint flat3 (l : list (vec3 K)) : list K :=
  match l with [] => [] | (x, y, z) :: r => x :: y :: z :: flat3 r end.
Definition unflat3 (n : nat) (f : nat -> K) : list (vec3 K) :=
  tab n (fun i => (f (3 * i)%nat, f (3 * i + 1)%nat, f (3 * i + 2)%nat)).

(** pointwise list operations on (n,3) arrays *)
Fixpoint ladd (x y : list (vec3 K)) : list (vec3 K) :=
  match x, y with a :: r, b :: s => vadd a b :: ladd r s | _, _ => [] end.
Definition lscale (s : K) (x : list (vec3 K)) : list (vec3 K) := map (vscale s) x.
Fixpoint ldot (x y : list (vec3 K)) : K :=
  match x, y with a :: r, b :: s => dot3 a b + ldot r s | _, _ => 0 end.
End Defs.
