(** Round-half-even of a rational to a given number of decimals, on exact values (used by C11's model of
    numpy.around / Python round and by C15).  Everything is reduced to integer division. *)
From Coq Require Import ZArith QArith Qabs Lia Lqa Bool.
Open Scope Z_scope.

(** nearest integer to a/b (b > 0), ties to even *)
Definition rhe (a b : Z) : Z :=
  let q := a / b in
  let r := a mod b in
  match 2 * r ?= b with
  | Lt => q
  | Gt => q + 1
  | Eq => if Z.even q then q else q + 1
  end.

Lemma rhe_bounds a b : 0 < b -> 2 * b * rhe a b - b <= 2 * a <= 2 * b * rhe a b + b.
Proof.
  intros Hb. unfold rhe.
  pose proof (Z.div_mod a b ltac:(lia)) as E.
  pose proof (Z.mod_pos_bound a b Hb) as B.
  destruct (2 * (a mod b) ?= b) eqn:C.
  - apply Z.compare_eq in C. destruct (Z.even (a / b)); nia.
  - rewrite Z.compare_lt_iff in C. nia.
  - rewrite Z.compare_gt_iff in C. nia.
Qed.

Lemma rhe_unique a b k : 0 < b -> 2 * b * k - b < 2 * a < 2 * b * k + b -> rhe a b = k.
Proof.
  intros Hb H. pose proof (rhe_bounds a b Hb) as B.
  assert (-(2 * b) < 2 * b * (rhe a b - k) < 2 * b) by nia.
  assert (-1 < rhe a b - k < 1) by nia. lia.
Qed.

Lemma rhe_exact k b : 0 < b -> rhe (k * b) b = k.
Proof. intros Hb. apply rhe_unique; nia. Qed.

(** equal roundings: the arguments are within one unit *)
Lemma rhe_eq_close a a' b : 0 < b -> rhe a b = rhe a' b -> Z.abs (a - a') <= b.
Proof.
  intros Hb E. pose proof (rhe_bounds a b Hb). pose proof (rhe_bounds a' b Hb). rewrite E in *. lia.
Qed.

Lemma rhe_zero_iff_small a b : 0 < b -> 2 * Z.abs a < b -> rhe a b = 0.
Proof. intros Hb H. apply rhe_unique; lia. Qed.

Lemma rhe_neg_nonpos a b : 0 < b -> a <= 0 -> rhe a b <= 0.
Proof. intros Hb Ha. pose proof (rhe_bounds a b Hb). nia. Qed.

Lemma rhe_mono a a' b : 0 < b -> a <= a' -> rhe a b <= rhe a' b.
Proof.
  intros Hb H. pose proof (rhe_bounds a b Hb) as B. pose proof (rhe_bounds a' b Hb) as B'.
  destruct (Z_lt_le_dec (rhe a' b) (rhe a b)) as [L|L]; [|exact L]. exfalso.
  (* rhe a' b + 1 <= rhe a b, so both are ties around the same half-integer: a = a', contradiction with L *)
  assert (rhe a b = rhe a' b + 1 /\ a = a') as [E1 E2] by nia.
  subst a'. lia.
Qed.

(** ---- rationals ---- *)
Definition pow10 (n : Z) : Z := 10 ^ n.
Lemma pow10_pos n : 0 <= n -> 0 < pow10 n.
Proof. intros. unfold pow10. apply Z.pow_pos_nonneg; lia. Qed.

(** round q to n decimals; the result is the integer k with value k·10^-n *)
Definition round_n (n : Z) (q : Q) : Z := rhe (Qnum q * pow10 n) (Zpos (Qden q)).

Open Scope Q_scope.

Definition scaled (n : Z) (q : Q) : Q := q * inject_Z (pow10 n).

Lemma round_n_bounds n q : (0 <= n)%Z ->
  inject_Z (round_n n q) - (1#2) <= scaled n q <= inject_Z (round_n n q) + (1#2).
Proof.
  intros Hn. unfold scaled, round_n. destruct q as [a b]. simpl Qnum; simpl Qden.
  pose proof (rhe_bounds (a * pow10 n) (Zpos b) ltac:(lia)) as B.
  set (k := rhe (a * pow10 n) (Zpos b)) in *.
  unfold Qle, Qminus, Qplus, Qmult, Qopp, inject_Z; simpl.
  rewrite ?Pos2Z.inj_mul. split; nia.
Qed.

Lemma round_n_unique n q k : (0 <= n)%Z ->
  inject_Z k - (1#2) < scaled n q -> scaled n q < inject_Z k + (1#2) -> round_n n q = k.
Proof.
  intros Hn H1 H2. unfold scaled, round_n in *. destruct q as [a b]. simpl Qnum in *; simpl Qden in *.
  apply rhe_unique; [lia|].
  unfold Qlt, Qminus, Qplus, Qmult, Qopp, inject_Z in H1, H2; simpl in H1, H2.
  rewrite ?Pos2Z.inj_mul in *. nia.
Qed.

(** a value is "far from a rounding boundary at n decimals by eps" when no half-integer multiple of 10^-n is
    within eps·10^n of its scaled value *)
Definition far_from_boundary (n : Z) (eps : Q) (x : Q) : Prop :=
  forall j : Z, eps * inject_Z (pow10 n) < Qabs (scaled n x - (inject_Z j + (1#2))).

Lemma scaled_plus n x d : scaled n (x + d) == scaled n x + d * inject_Z (pow10 n).
Proof. unfold scaled. ring. Qed.

Lemma round_n_noise n eps x d : (0 <= n)%Z ->
  Qabs d <= eps -> far_from_boundary n eps x -> round_n n (x + d) = round_n n x.
Proof.
  intros Hn Hd Far.
  pose proof (round_n_bounds n x Hn) as [B1 B2].
  set (k := round_n n x) in *.
  assert (P : 0 < inject_Z (pow10 n)).
  { change 0 with (inject_Z 0). rewrite <- Zlt_Qlt. apply pow10_pos; exact Hn. }
  assert (Hd' : Qabs (d * inject_Z (pow10 n)) <= eps * inject_Z (pow10 n)).
  { rewrite Qabs_Qmult. rewrite (Qabs_pos (inject_Z (pow10 n))) by (apply Qlt_le_weak; exact P).
    apply Qmult_le_compat_r; [exact Hd | apply Qlt_le_weak; exact P]. }
  apply Qabs_Qle_condition in Hd'. destruct Hd' as [D1 D2].
  pose proof (Far k) as F1. pose proof (Far (k - 1)%Z) as F2.
  assert (E : inject_Z (k - 1) == inject_Z k - 1).
  { unfold Zminus. rewrite inject_Z_plus. simpl. ring. }
  rewrite E in F2.
  set (dP := d * inject_Z (pow10 n)) in *. set (eP := eps * inject_Z (pow10 n)) in *.
  set (s := scaled n x) in *. set (K := inject_Z k) in *.
  assert (L1 : K - (1#2) + eP < s).
  { revert F2. apply Qabs_case; intros; lra. }
  assert (L2 : s < K + (1#2) - eP).
  { revert F1. apply Qabs_case; intros; lra. }
  apply round_n_unique; [exact Hn | |]; rewrite scaled_plus; fold dP; fold s; fold K; lra.
Qed.
