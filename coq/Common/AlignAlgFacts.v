(** Lemmas about the vocabulary of AlignAlg.v over an arbitrary commutative ring (Leibniz equality):
    finite sums, 3-vectors, 3x3 matrices, flattening.  Used by Proofs/Mill.v and Proofs/Kabsch.v. *)
From Coq Require Import List Arith Lia Ring Bool.
Require Import QV.Common.AlignAlg.
Import ListNotations.

Class RingLaws (K : Type) {KO : Ops K} :=
  ring_laws : ring_theory k0 k1 kadd kmul ksub kopp (@eq K).

Section Facts.
Context {K : Type} {KO : Ops K} {KR : RingLaws K}.
Add Ring KRing : (@ring_laws K KO KR).
Local Open Scope K_scope.

(** ---- finite sums ---- *)
Lemma bsum_ext n (f g : nat -> K) : (forall i, (i < n)%nat -> f i = g i) -> bsum n f = bsum n g.
Proof.
  induction n as [|n IH]; intros H; simpl; [reflexivity|].
  rewrite IH by (intros; apply H; lia). rewrite (H n) by lia. reflexivity.
Qed.

Lemma bsum_zero n : bsum n (fun _ => 0) = (0 : K).
Proof. induction n; simpl; [reflexivity|]. rewrite IHn. ring. Qed.

Lemma bsum_zero' n f : (forall i, (i < n)%nat -> f i = 0) -> bsum n f = (0 : K).
Proof. intros H. rewrite (bsum_ext n f (fun _ => 0)) by exact H. apply bsum_zero. Qed.

Lemma bsum_add n (f g : nat -> K) : bsum n (fun i => f i + g i) = bsum n f + bsum n g.
Proof. induction n; simpl; [ring|]. rewrite IHn. ring. Qed.

Lemma bsum_scale_l n c (f : nat -> K) : bsum n (fun i => c * f i) = c * bsum n f.
Proof. induction n; simpl; [ring|]. rewrite IHn. ring. Qed.

Lemma bsum_scale_r n c (f : nat -> K) : bsum n (fun i => f i * c) = bsum n f * c.
Proof. induction n; simpl; [ring|]. rewrite IHn. ring. Qed.

Lemma bsum_swap n m (f : nat -> nat -> K) :
  bsum n (fun i => bsum m (fun j => f i j)) = bsum m (fun j => bsum n (fun i => f i j)).
Proof.
  induction n; simpl.
  - symmetry. apply bsum_zero.
  - rewrite IHn. rewrite <- bsum_add. reflexivity.
Qed.

Lemma bsum_delta n j (f : nat -> K) :
  (j < n)%nat -> bsum n (fun i => if Nat.eqb i j then f i else 0) = f j.
Proof.
  induction n; intros Hj; [lia|]. simpl.
  destruct (Nat.eqb n j) eqn:E.
  - apply Nat.eqb_eq in E. subst j.
    rewrite bsum_zero'; [ring|]. intros i Hi. destruct (Nat.eqb i n) eqn:E2; [|reflexivity].
    apply Nat.eqb_eq in E2. lia.
  - apply Nat.eqb_neq in E. rewrite IHn by lia. ring.
Qed.

Lemma bsum_delta_none n j (f : nat -> K) :
  (n <= j)%nat -> bsum n (fun i => if Nat.eqb i j then f i else 0) = 0.
Proof.
  intros Hj. apply bsum_zero'. intros i Hi. destruct (Nat.eqb i j) eqn:E; [|reflexivity].
  apply Nat.eqb_eq in E. lia.
Qed.

Lemma bsum_3 (f : nat -> K) : bsum 3 f = f 0%nat + f 1%nat + f 2%nat.
Proof. simpl. ring. Qed.

Lemma bsum_S n (f : nat -> K) : bsum (S n) f = bsum n f + f n.
Proof. reflexivity. Qed.

Lemma bsum_block3 n (f : nat -> K) :
  bsum (3 * n) f = bsum n (fun i => f (3 * i)%nat + f (3 * i + 1)%nat + f (3 * i + 2)%nat).
Proof.
  induction n.
  - reflexivity.
  - replace (3 * S n)%nat with (S (S (S (3 * n)))) by lia.
    rewrite !bsum_S. rewrite IHn.
    replace (S (3 * n)) with (3 * n + 1)%nat by lia. replace (S (3 * n + 1)) with (3 * n + 2)%nat by lia.
    ring.
Qed.

Lemma kdelta_refl i : kdelta i i = (1 : K).
Proof. unfold kdelta. rewrite Nat.eqb_refl. reflexivity. Qed.
Lemma kdelta_neq i j : i <> j -> kdelta i j = (0 : K).
Proof. intros H. unfold kdelta. apply Nat.eqb_neq in H. rewrite H. reflexivity. Qed.

(** ---- tab ---- *)
Lemma tab_length {A} n (f : nat -> A) : length (tab n f) = n.
Proof. unfold tab. rewrite map_length, seq_length. reflexivity. Qed.

Lemma tab_nth {A} n (f : nat -> A) d k : (k < n)%nat -> nth k (tab n f) d = f k.
Proof.
  intros H. unfold tab. rewrite nth_indep with (d' := f 0%nat) by (rewrite map_length, seq_length; exact H).
  rewrite map_nth. rewrite seq_nth by exact H. reflexivity.
Qed.

Lemma nth_ext_eq {A} (l1 l2 : list A) d :
  length l1 = length l2 -> (forall k, (k < length l1)%nat -> nth k l1 d = nth k l2 d) -> l1 = l2.
Proof.
  revert l2. induction l1 as [|a l1 IH]; intros [|b l2] HL H; simpl in *; try discriminate; [reflexivity|].
  f_equal.
  - apply (H 0%nat). lia.
  - apply IH; [lia|]. intros k Hk. apply (H (S k)). lia.
Qed.

(** ---- vectors and matrices ---- *)
Lemma comp_vadd (u v : vec3 K) a : comp (vadd u v) a = comp u a + comp v a.
Proof. destruct u as [[? ?] ?], v as [[? ?] ?]. destruct a as [|[|a]]; reflexivity. Qed.
Lemma comp_vsub (u v : vec3 K) a : comp (vsub u v) a = comp u a - comp v a.
Proof. destruct u as [[? ?] ?], v as [[? ?] ?]. destruct a as [|[|a]]; reflexivity. Qed.
Lemma comp_vopp (u : vec3 K) a : comp (vopp u) a = - comp u a.
Proof. destruct u as [[? ?] ?]. destruct a as [|[|a]]; reflexivity. Qed.
Lemma comp_vscale s (u : vec3 K) a : comp (vscale s u) a = s * comp u a.
Proof. destruct u as [[? ?] ?]. destruct a as [|[|a]]; reflexivity. Qed.
Lemma comp_v0 a : comp (v0 : vec3 K) a = 0.
Proof. destruct a as [|[|a]]; reflexivity. Qed.

Lemma vec3_ext (u v : vec3 K) : (forall a, (a < 3)%nat -> comp u a = comp v a) -> u = v.
Proof.
  destruct u as [[a b] c], v as [[x y] z]. intros H.
  pose proof (H 0%nat ltac:(lia)) as H0. pose proof (H 1%nat ltac:(lia)) as H1. pose proof (H 2%nat ltac:(lia)) as H2.
  simpl in *. subst. reflexivity.
Qed.

Ltac vec_eq := apply vec3_ext; let a := fresh "a" in let Ha := fresh "Ha" in
  intros a Ha; destruct a as [|[|[|a]]]; [| | |exfalso; lia]; cbv [comp]; ring.

Lemma dot3_sum (u v : vec3 K) : dot3 u v = bsum 3 (fun a => comp u a * comp v a).
Proof. destruct u as [[? ?] ?], v as [[? ?] ?]. simpl. ring. Qed.

Lemma comp_vmat (v : vec3 K) (M : mat3 K) b : (b < 3)%nat ->
  comp (vmat v M) b = comp v 0%nat * ment M 0%nat b + comp v 1%nat * ment M 1%nat b + comp v 2%nat * ment M 2%nat b.
Proof.
  intros Hb. destruct v as [[x y] z], M as [[[[a1 a2] a3] [[b1 b2] b3]] [[c1 c2] c3]].
  destruct b as [|[|[|b]]]; try lia; reflexivity.
Qed.

Lemma comp_mvec (M : mat3 K) (v : vec3 K) a : (a < 3)%nat ->
  comp (mvec M v) a = ment M a 0%nat * comp v 0%nat + ment M a 1%nat * comp v 1%nat + ment M a 2%nat * comp v 2%nat.
Proof.
  intros Ha. destruct v as [[x y] z], M as [[[[a1 a2] a3] [[b1 b2] b3]] [[c1 c2] c3]].
  destruct a as [|[|[|a]]]; try lia; reflexivity.
Qed.

Lemma ment_mk3 (f : nat -> nat -> K) a b : (a < 3)%nat -> (b < 3)%nat -> ment (mk3 f) a b = f a b.
Proof. intros Ha Hb. destruct a as [|[|[|a]]]; try lia; destruct b as [|[|[|b]]]; try lia; reflexivity. Qed.

Lemma ment_mtrans (M : mat3 K) a b : (a < 3)%nat -> (b < 3)%nat -> ment (mtrans M) a b = ment M b a.
Proof. intros. unfold mtrans. rewrite ment_mk3 by assumption. reflexivity. Qed.

Lemma ment_mmul (A B : mat3 K) a b : (a < 3)%nat -> (b < 3)%nat ->
  ment (mmul A B) a b = ment A a 0%nat * ment B 0%nat b + ment A a 1%nat * ment B 1%nat b + ment A a 2%nat * ment B 2%nat b.
Proof.
  intros Ha Hb.
  destruct A as [[[[a1 a2] a3] [[b1 b2] b3]] [[c1 c2] c3]], B as [[[[d1 d2] d3] [[e1 e2] e3]] [[f1 f2] f3]].
  destruct a as [|[|[|a]]]; try lia; destruct b as [|[|[|b]]]; try lia; reflexivity.
Qed.

Lemma ment_mid a b : (a < 3)%nat -> (b < 3)%nat -> ment (mid : mat3 K) a b = kdelta a b.
Proof. intros Ha Hb. destruct a as [|[|[|a]]]; try lia; destruct b as [|[|[|b]]]; try lia; reflexivity. Qed.

Lemma mat3_ext (A B : mat3 K) :
  (forall a b, (a < 3)%nat -> (b < 3)%nat -> ment A a b = ment B a b) -> A = B.
Proof.
  intros H.
  destruct A as [[[[a1 a2] a3] [[b1 b2] b3]] [[c1 c2] c3]], B as [[[[d1 d2] d3] [[e1 e2] e3]] [[f1 f2] f3]].
  pose proof (H 0 0 ltac:(lia) ltac:(lia))%nat. pose proof (H 0 1 ltac:(lia) ltac:(lia))%nat.
  pose proof (H 0 2 ltac:(lia) ltac:(lia))%nat. pose proof (H 1 0 ltac:(lia) ltac:(lia))%nat.
  pose proof (H 1 1 ltac:(lia) ltac:(lia))%nat. pose proof (H 1 2 ltac:(lia) ltac:(lia))%nat.
  pose proof (H 2 0 ltac:(lia) ltac:(lia))%nat. pose proof (H 2 1 ltac:(lia) ltac:(lia))%nat.
  pose proof (H 2 2 ltac:(lia) ltac:(lia))%nat.
  cbv [ment mrow comp] in *. subst. reflexivity.
Qed.

Lemma mk3_ment (M : mat3 K) : mk3 (ment M) = M.
Proof. destruct M as [[[[a1 a2] a3] [[b1 b2] b3]] [[c1 c2] c3]]. reflexivity. Qed.

Lemma mtrans_mtrans (M : mat3 K) : mtrans (mtrans M) = M.
Proof. destruct M as [[[[a1 a2] a3] [[b1 b2] b3]] [[c1 c2] c3]]. reflexivity. Qed.

Lemma vmat_vadd (u v : vec3 K) (M : mat3 K) : vmat (vadd u v) M = vadd (vmat u M) (vmat v M).
Proof.
  destruct u as [[? ?] ?], v as [[? ?] ?], M as [[[[a1 a2] a3] [[b1 b2] b3]] [[c1 c2] c3]].
  cbv [vmat vadd dot3 mcol ment mrow comp]. vec_eq.
Qed.
Lemma vmat_vsub (u v : vec3 K) (M : mat3 K) : vmat (vsub u v) M = vsub (vmat u M) (vmat v M).
Proof.
  destruct u as [[? ?] ?], v as [[? ?] ?], M as [[[[a1 a2] a3] [[b1 b2] b3]] [[c1 c2] c3]].
  cbv [vmat vsub dot3 mcol ment mrow comp]. vec_eq.
Qed.
Lemma vmat_vscale s (u : vec3 K) (M : mat3 K) : vmat (vscale s u) M = vscale s (vmat u M).
Proof.
  destruct u as [[? ?] ?], M as [[[[a1 a2] a3] [[b1 b2] b3]] [[c1 c2] c3]].
  cbv [vmat vscale dot3 mcol ment mrow comp]. vec_eq.
Qed.
Lemma vmat_mmul (v : vec3 K) (A B : mat3 K) : vmat (vmat v A) B = vmat v (mmul A B).
Proof.
  destruct v as [[? ?] ?], A as [[[[a1 a2] a3] [[b1 b2] b3]] [[c1 c2] c3]], B as [[[[d1 d2] d3] [[e1 e2] e3]] [[f1 f2] f3]].
  cbv [vmat mmul dot3 mcol ment mrow comp]. vec_eq.
Qed.
Lemma vmat_mid (v : vec3 K) : vmat v mid = v.
Proof. destruct v as [[x y] z]. cbv [vmat mid dot3 mcol ment mrow comp]. vec_eq. Qed.

Lemma mirv_vadd m (u v : vec3 K) : mirv m (vadd u v) = vadd (mirv m u) (mirv m v).
Proof. destruct u as [[? ?] ?], v as [[? ?] ?]; destruct m; [|reflexivity]. cbv [mirv vadd]. vec_eq. Qed.
Lemma mirv_vscale m s (u : vec3 K) : mirv m (vscale s u) = vscale s (mirv m u).
Proof. destruct u as [[? ?] ?]; destruct m; [|reflexivity]. cbv [mirv vscale]. vec_eq. Qed.
Lemma mirv_mirv m (u : vec3 K) : mirv m (mirv m u) = u.
Proof. destruct u as [[x y] z]; destruct m; [|reflexivity]. cbv [mirv]. vec_eq. Qed.

(** ---- flattening ---- *)
Lemma flat3_length (l : list (vec3 K)) : length (flat3 l) = (3 * length l)%nat.
Proof. induction l as [|[[x y] z] l IH]; simpl; [reflexivity|]. rewrite IH. lia. Qed.

Lemma flat3_nth (l : list (vec3 K)) r : nth r (flat3 l) 0 = comp (nth (r / 3) l v0) (r mod 3).
Proof.
  revert r. induction l as [|[[x y] z] l IH]; intros r.
  - simpl flat3. replace (nth r [] 0) with (0 : K) by (destruct r; reflexivity).
    replace (nth (r / 3) [] v0) with (v0 : vec3 K) by (destruct (r / 3)%nat; reflexivity).
    rewrite comp_v0. reflexivity.
  - destruct r as [|[|[|r]]]; try reflexivity.
    change (nth (S (S (S r))) (flat3 ((x, y, z) :: l)) 0) with (nth r (flat3 l) 0).
    rewrite IH.
    replace (S (S (S r))) with (r + 1 * 3)%nat by lia.
    rewrite Nat.div_add by lia. rewrite Nat.mod_add by lia.
    replace (r / 3 + 1)%nat with (S (r / 3)) by lia. reflexivity.
Qed.

Lemma unflat3_length n (f : nat -> K) : length (unflat3 n f) = n.
Proof. apply tab_length. Qed.

Lemma flat3_unflat3_nth n (f : nat -> K) r : (r < 3 * n)%nat -> nth r (flat3 (unflat3 n f)) 0 = f r.
Proof.
  intros Hr. rewrite flat3_nth.
  assert (Hd : (r / 3 < n)%nat) by (apply Nat.div_lt_upper_bound; lia).
  unfold unflat3. rewrite tab_nth by exact Hd.
  pose proof (Nat.div_mod r 3 ltac:(lia)) as E. pose proof (Nat.mod_upper_bound r 3 ltac:(lia)) as Hm.
  destruct (r mod 3) as [|[|[|m]]] eqn:Em; try lia; cbv [comp]; f_equal; lia.
Qed.

Lemma ladd_length (x y : list (vec3 K)) : length x = length y -> length (ladd x y) = length x.
Proof.
  revert y. induction x as [|a x IH]; intros [|b y] H; simpl in *; try discriminate; [reflexivity|].
  f_equal. apply IH. lia.
Qed.

Lemma ladd_nth (x y : list (vec3 K)) i :
  length x = length y -> nth i (ladd x y) v0 = vadd (nth i x v0) (nth i y v0).
Proof.
  revert y i. induction x as [|a x IH]; intros [|b y] i H; simpl in *; try discriminate.
  - destruct i; cbv [vadd v0]; vec_eq.
  - destruct i; [reflexivity|]. apply IH. lia.
Qed.

Lemma lscale_nth s (x : list (vec3 K)) i : nth i (lscale s x) v0 = vscale s (nth i x v0).
Proof.
  unfold lscale. revert i. induction x as [|a x IH]; intros i; simpl.
  - destruct i; cbv [vscale v0]; vec_eq.
  - destruct i; [reflexivity|]. apply IH.
Qed.

Lemma div3 i k : (k < 3)%nat -> ((3 * i + k) / 3 = i)%nat.
Proof. intros H. symmetry. apply Nat.div_unique with k; lia. Qed.
Lemma mod3 i k : (k < 3)%nat -> ((3 * i + k) mod 3 = k)%nat.
Proof. intros H. symmetry. apply Nat.mod_unique with i; lia. Qed.
Lemma div3_0 i : ((3 * i) / 3 = i)%nat.
Proof. rewrite Nat.mul_comm. apply Nat.div_mul. lia. Qed.
Lemma mod3_0 i : ((3 * i) mod 3 = 0)%nat.
Proof. rewrite Nat.mul_comm. apply Nat.mod_mul. lia. Qed.

Lemma bsum_shift n (f : nat -> K) : bsum (S n) f = f 0%nat + bsum n (fun i => f (S i)).
Proof.
  induction n.
  - simpl. ring.
  - rewrite bsum_S, IHn. rewrite (bsum_S n (fun i => f (S i))). ring.
Qed.

Lemma ldot_bsum (x y : list (vec3 K)) :
  length x = length y -> ldot x y = bsum (length x) (fun i => dot3 (nth i x v0) (nth i y v0)).
Proof.
  revert y. induction x as [|a x IH]; intros [|b y] H; cbn [length] in H; try discriminate.
  - reflexivity.
  - cbn [length]. rewrite bsum_shift. cbn [ldot nth]. f_equal. apply IH. lia.
Qed.

Lemma ldot_sum (x y : list (vec3 K)) :
  length x = length y ->
  ldot x y = bsum (3 * length x) (fun r => nth r (flat3 x) 0 * nth r (flat3 y) 0).
Proof.
  intros HL. rewrite ldot_bsum by exact HL. rewrite bsum_block3.
  apply bsum_ext. intros i Hi. rewrite !flat3_nth.
  rewrite !div3 by lia. rewrite !mod3 by lia. rewrite div3_0, mod3_0.
  destruct (nth i x v0) as [[a b] c], (nth i y v0) as [[p q] r]. reflexivity.
Qed.
End Facts.

(** entrywise equality of 3-vectors / 3x3 matrices by [ring] *)
Ltac vec3_ring := apply vec3_ext; let a := fresh "a" in let Ha := fresh "Ha" in
  intros a Ha; destruct a as [|[|[|a]]]; [| | |exfalso; lia]; cbv [comp]; ring.
Ltac mat3_ring := apply mat3_ext; let a := fresh "a" in let b := fresh "b" in
  let Ha := fresh "Ha" in let Hb := fresh "Hb" in
  intros a b Ha Hb; destruct a as [|[|[|a]]]; [| | |exfalso; lia];
  (destruct b as [|[|[|b]]]; [| | |exfalso; lia]); cbv [ment mrow comp]; ring.
