(** Outcomes of modelled functions: a value, or the class of the Python exception raised. *)
From Coq Require Import Bool.

Inductive ekind :=
| NotAnElement | Validation | MoleculeFormat | DataUnavailable | Dimensionality
| PyValueError | PyKeyError | PyIndexError | PyTypeError | PyAttributeError
| PyAssertion | OutOfFuel.

Inductive outcome (A : Type) := Ok (a : A) | Err (k : ekind).
Arguments Ok {A} a.
Arguments Err {A} k.

Definition ekind_eqb (a b : ekind) : bool :=
  match a, b with
  | NotAnElement, NotAnElement | Validation, Validation | MoleculeFormat, MoleculeFormat
  | DataUnavailable, DataUnavailable | Dimensionality, Dimensionality
  | PyValueError, PyValueError | PyKeyError, PyKeyError | PyIndexError, PyIndexError
  | PyTypeError, PyTypeError | PyAttributeError, PyAttributeError
  | PyAssertion, PyAssertion | OutOfFuel, OutOfFuel => true
  | _, _ => false
  end.

Lemma ekind_eqb_eq a b : ekind_eqb a b = true <-> a = b.
Proof. destruct a, b; simpl; split; intro H; try reflexivity; try discriminate. Qed.

Definition outcome_eqb {A} (eqb : A -> A -> bool) (x y : outcome A) : bool :=
  match x, y with
  | Ok a, Ok b => eqb a b
  | Err j, Err k => ekind_eqb j k
  | _, _ => false
  end.

Definition obind {A B} (x : outcome A) (f : A -> outcome B) : outcome B :=
  match x with Ok a => f a | Err k => Err k end.

Definition is_ok {A} (x : outcome A) : bool := match x with Ok _ => true | Err _ => false end.
