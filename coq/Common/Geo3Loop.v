(** Geo3Loop — the numpy / Python primitives that the body of Molecule._orient_molecule_internal is
    translated into (Gen/OrientBody.v), over an abstract field (C16).  Hand-written semantics of:
    np.average(a, axis=0, weights=w), `a -= row`, np.dot(a, M), abs, and the skeleton of the phase loop
    (for num: for x in range(3): continue / in-place column flip; break when all three are done) with
    the loop's three expressions (skip test, negativity test, multiplier) as parameters supplied by the
    translator from the source text. *)
From Coq Require Import List Bool ZArith.
Require Import QV.Common.Outcome QV.Common.Geo3 QV.Common.Geo3Sum.
Import ListNotations.

Inductive axis := AX | AY | AZ.

Section Loop.
  Variable K : Fops.

  (* Python abs on a float *)
  Definition py_abs (x : K) : K := if fltb K x (f0 K) then fopp K x else x.

  (* np.average(a, axis=0, weights=w): (a * w[:, None]).sum(axis=0) / w.sum(); ZeroDivisionError if the weights sum to zero *)
  Definition np_average0 (a : list (vec3 K)) (w : list K) : outcome (vec3 K) :=
    let scl := fsum K w in
    if negb (fltb K (f0 K) scl) && negb (fltb K scl (f0 K)) then Err PyAssertion
    else
      let aw := combine a w in
      Ok (fdiv K (fsum K (map (fun p : vec3 K * K => fmul K (vx (fst p)) (snd p)) aw)) scl,
          fdiv K (fsum K (map (fun p : vec3 K * K => fmul K (vy (fst p)) (snd p)) aw)) scl,
          fdiv K (fsum K (map (fun p : vec3 K * K => fmul K (vz (fst p)) (snd p)) aw)) scl).

  (* a -= row  (row broadcast over the rows of a) *)
  Definition np_isub_rows (a : list (vec3 K)) (row : vec3 K) : list (vec3 K) := map (fun r => vsub r row) a.
  (* np.dot(a, M) for a of shape (n,3) *)
  Definition np_dot_rows (a : list (vec3 K)) (M : mat3 K) : list (vec3 K) := map (fun r => vm r M) a.

  Definition comp (a : axis) (r : vec3 K) : K := match a with AX => vx r | AY => vy r | AZ => vz r end.
  (* new_geometry[:, x] *= m, on one row *)
  Definition flip (a : axis) (m : K) (r : vec3 K) : vec3 K :=
    let '(x, y, z) := r in
    match a with AX => (fmul K x m, y, z) | AY => (x, fmul K y m, z) | AZ => (x, y, fmul K z m) end.

  Definition chk3 : Type := (bool * bool * bool)%type.
  Definition getc (c : chk3) (a : axis) : bool := let '(c0, c1, c2) := c in match a with AX => c0 | AY => c1 | AZ => c2 end.
  Definition setc (c : chk3) (a : axis) : chk3 :=
    let '(c0, c1, c2) := c in match a with AX => (true, c1, c2) | AY => (c0, true, c2) | AZ => (c0, c1, true) end.
  Definition allc (c : chk3) : bool := let '(c0, c1, c2) := c in c0 && c1 && c2.      (* sum(phase_check) == 3 *)

  Section Body.
    Variable small : K -> bool.     (* the test whose truth means `continue` *)
    Variable neg : K -> bool.       (* the test guarding the in-place flip *)
    Variable mult : K.              (* the multiplier of the flip *)

    (* one pass of the inner loop body for axis a at atom num, on the CURRENT (already partly flipped) geometry *)
    Definition inner_step (num : nat) (a : axis) (st : chk3 * list (vec3 K)) : chk3 * list (vec3 K) :=
      let '(c, g) := st in
      if getc c a then st
      else
        let val := comp a (nth num g (vzero K)) in
        if small val then st
        else if neg val then (setc c a, map (flip a mult) g) else (setc c a, g).
    Definition row_iter (num : nat) (st : chk3 * list (vec3 K)) : chk3 * list (vec3 K) :=
      inner_step num AZ (inner_step num AY (inner_step num AX st)).
    Fixpoint outer (nums : list nat) (st : chk3 * list (vec3 K)) : chk3 * list (vec3 K) :=
      match nums with
      | [] => st
      | num :: tl => let st' := row_iter num st in if allc (fst st') then st' else outer tl st'
      end.
    Definition eager_phase_loop (g : list (vec3 K)) : list (vec3 K) :=
      snd (outer (seq 0 (length g)) ((false, false, false), g)).
  End Body.
End Loop.
