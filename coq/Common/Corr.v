(** Helpers used only by generated correspondence case files. *)
From Coq Require Import NArith List String Ascii.
Import ListNotations.

Fixpoint bad_idx_from {A} (f : A -> bool) (l : list A) (i : N) : list N :=
  match l with
  | [] => []
  | x :: r => if f x then bad_idx_from f r (N.succ i) else i :: bad_idx_from f r (N.succ i)
  end.
Definition bad_idx {A} (f : A -> bool) (l : list A) : list N := bad_idx_from f l 0%N.

(** byte list -> string, for non-printable text in generated cases *)
Fixpoint bs (l : list N) : string :=
  match l with
  | [] => EmptyString
  | c :: r => String (ascii_of_N c) (bs r)
  end.
