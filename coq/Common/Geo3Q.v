(** Geo3Q — the executable instance of [Fops] on [Q], used only to RUN models with vm_compute in the
    correspondence step (the theorems are about any field / about R).
    [fsqrt] is exact when numerator and denominator of the reduced argument are perfect squares and
    otherwise the truncation of the real square root to 16 decimal places; the correspondence compares
    with binary64 results under a stated tolerance (1e-9), so this 1e-16 truncation is immaterial.
    acos / atan2 / pi are not executable: the models are run up to the arguments handed to them. *)
From Coq Require Import ZArith QArith List Bool.
Require Import QV.Common.Geo3.
Import ListNotations.

Definition Qsqrt_run (q : Q) : Q :=
  let r := Qred q in
  let n := Qnum r in
  let d := Zpos (Qden r) in
  if (n <=? 0)%Z then 0
  else
    let sn := Z.sqrt n in
    let sd := Z.sqrt d in
    if ((sn * sn =? n) && (sd * sd =? d))%Z then Qred (Qmake sn (Z.to_pos sd))
    else
      let scale := (10 ^ 32)%Z in
      Qred (Qmake (Z.sqrt (n * scale / d)) (Z.to_pos (10 ^ 16))).

Definition Qltb (a b : Q) : bool := negb (Qle_bool b a).

Definition QK : Fops :=
  mkF Q 0 1 (fun a b => Qred (a + b)) (fun a b => Qred (a * b)) (fun a b => Qred (a - b)) Qopp
      (fun a b => Qred (a / b)) Qinv Qsqrt_run Qle_bool Qltb 0 (fun x => x) (fun y x => y).

Definition Qabs' (a : Q) : Q := if Qle_bool 0 a then a else Qopp a.
(** |a - b| <= tol * (1 + |b|) *)
Definition Qclose (tol a b : Q) : bool := Qle_bool (Qabs' (a - b)) (tol * (1 + Qabs' b)).
