(** ASCII models of the CPython [str]/[int] operations used by the periodic-table and radii lookups:
    [str.lower], [str.upper], [str.capitalize], [int(str)] (base 10), [str(int)].
    Domain: strings whose characters are all < 128.  (For such strings CPython's [int()] treats
    exactly the six C-locale blanks 9-13, 32 as white space; [capitalize] = upper-case the first
    character, lower-case the rest.)  Non-ASCII text is outside the modelled domain. *)
From Coq Require Import ZArith NArith List String Ascii Bool Lia DecimalString.
Require Import QV.Common.Outcome.
Import ListNotations.
Open Scope Z_scope.

(* ------------------------------------------------------------------------------------------ *)
(** * letter case *)

Definition is_upper (c : ascii) : bool :=
  let n := N_of_ascii c in (N.leb 65 n) && (N.leb n 90).
Definition is_lower (c : ascii) : bool :=
  let n := N_of_ascii c in (N.leb 97 n) && (N.leb n 122).
Definition to_lower (c : ascii) : ascii :=
  if is_upper c then ascii_of_N (N_of_ascii c + 32) else c.
Definition to_upper (c : ascii) : ascii :=
  if is_lower c then ascii_of_N (N_of_ascii c - 32) else c.

Fixpoint lower (s : string) : string :=
  match s with
  | EmptyString => EmptyString
  | String c r => String (to_lower c) (lower r)
  end.
Fixpoint upper (s : string) : string :=
  match s with
  | EmptyString => EmptyString
  | String c r => String (to_upper c) (upper r)
  end.
(** str.capitalize() on ASCII *)
Definition capitalize (s : string) : string :=
  match s with
  | EmptyString => EmptyString
  | String c r => String (to_upper c) (lower r)
  end.
(** str.title() restricted to what the generators need is not modelled; only used in Python. *)

Lemma to_lower_idem c : to_lower (to_lower c) = to_lower c.
Proof. destruct c as [[] [] [] [] [] [] [] []]; reflexivity. Qed.
Lemma to_upper_lower c : to_upper (to_lower c) = to_upper c.
Proof. destruct c as [[] [] [] [] [] [] [] []]; reflexivity. Qed.
Lemma to_lower_upper c : to_lower (to_upper c) = to_lower c.
Proof. destruct c as [[] [] [] [] [] [] [] []]; reflexivity. Qed.
Lemma to_upper_idem c : to_upper (to_upper c) = to_upper c.
Proof. destruct c as [[] [] [] [] [] [] [] []]; reflexivity. Qed.

Lemma lower_idem s : lower (lower s) = lower s.
Proof. induction s as [|c r IH]; simpl; [reflexivity|]. now rewrite to_lower_idem, IH. Qed.
Lemma lower_upper s : lower (upper s) = lower s.
Proof. induction s as [|c r IH]; simpl; [reflexivity|]. now rewrite to_lower_upper, IH. Qed.
Lemma capitalize_lower s : capitalize (lower s) = capitalize s.
Proof. destruct s as [|c r]; simpl; [reflexivity|]. now rewrite to_upper_lower, lower_idem. Qed.
Lemma lower_capitalize s : lower (capitalize s) = lower s.
Proof. destruct s as [|c r]; simpl; [reflexivity|]. now rewrite to_lower_upper, lower_idem. Qed.
Lemma capitalize_idem s : capitalize (capitalize s) = capitalize s.
Proof. destruct s as [|c r]; simpl; [reflexivity|]. now rewrite to_upper_idem, lower_idem. Qed.
Lemma capitalize_upper s : capitalize (upper s) = capitalize s.
Proof. rewrite <- (capitalize_lower (upper s)), lower_upper. apply capitalize_lower. Qed.

(** Two strings "differ only in letter case". *)
Definition same_mod_case (s t : string) : Prop := lower s = lower t.

Lemma capitalize_mod_case s t : same_mod_case s t -> capitalize s = capitalize t.
Proof. unfold same_mod_case. intro H. rewrite <- (capitalize_lower s), <- (capitalize_lower t). now rewrite H. Qed.

Lemma same_mod_case_lower s : same_mod_case (lower s) s.
Proof. apply lower_idem. Qed.
Lemma same_mod_case_upper s : same_mod_case (upper s) s.
Proof. apply lower_upper. Qed.
Lemma same_mod_case_capitalize s : same_mod_case (capitalize s) s.
Proof. apply lower_capitalize. Qed.

(* ------------------------------------------------------------------------------------------ *)
(** * int(str), base 10 (CPython 3.12 PyLong_FromString / long_from_non_binary_base) *)

Inductive tok := TSp | TPlus | TMinus | TDig (d : Z) | TUnd | TOther.

Definition classify (c : ascii) : tok :=
  let n := N_of_ascii c in
  if (N.leb 9 n && N.leb n 13) || N.eqb n 32 then TSp
  else if N.eqb n 43 then TPlus
  else if N.eqb n 45 then TMinus
  else if N.eqb n 95 then TUnd
  else if N.leb 48 n && N.leb n 57 then TDig (Z.of_N (n - 48))
  else TOther.

Fixpoint toks (s : string) : list tok :=
  match s with
  | EmptyString => []
  | String c r => classify c :: toks r
  end.

Fixpoint drop_sp (l : list tok) : list tok :=
  match l with
  | TSp :: r => drop_sp r
  | _ => l
  end.

Fixpoint all_sp (l : list tok) : bool :=
  match l with
  | [] => true
  | TSp :: r => all_sp r
  | _ => false
  end.

(** sys.int_info.default_max_str_digits *)
Definition max_str_digits : N := 4300%N.

(** after the first digit: digits and single underscores; trailing white space allowed at the end *)
Fixpoint scan_digits (l : list tok) (acc : Z) (cnt : N) (prev_und : bool) : option (Z * N) :=
  match l with
  | [] => if prev_und then None else Some (acc, cnt)
  | TDig d :: r => scan_digits r (acc * 10 + d) (N.succ cnt) false
  | TUnd :: r => if prev_und then None else scan_digits r acc cnt true
  | TSp :: r => if prev_und then None else if all_sp r then Some (acc, cnt) else None
  | _ => None
  end.

Definition int_of_toks (l : list tok) : outcome Z :=
  let l1 := drop_sp l in
  let '(neg, l2) := match l1 with
                    | TPlus :: r => (false, r)
                    | TMinus :: r => (true, r)
                    | _ => (false, l1)
                    end in
  match l2 with
  | TDig d :: r =>
      match scan_digits r d 1%N false with
      | Some (v, cnt) => if N.ltb max_str_digits cnt then Err PyValueError
                         else Ok (if neg then - v else v)
      | None => Err PyValueError
      end
  | _ => Err PyValueError
  end.

Definition pyint_str (s : string) : outcome Z := int_of_toks (toks s).

Lemma classify_lower c : classify (to_lower c) = classify c.
Proof. destruct c as [[] [] [] [] [] [] [] []]; reflexivity. Qed.
Lemma toks_lower s : toks (lower s) = toks s.
Proof. induction s as [|c r IH]; simpl; [reflexivity|]. now rewrite classify_lower, IH. Qed.
Lemma pyint_str_lower s : pyint_str (lower s) = pyint_str s.
Proof. unfold pyint_str. now rewrite toks_lower. Qed.
Lemma pyint_str_mod_case s t : same_mod_case s t -> pyint_str s = pyint_str t.
Proof. unfold same_mod_case. intro H. rewrite <- (pyint_str_lower s), <- (pyint_str_lower t). now rewrite H. Qed.

(* ------------------------------------------------------------------------------------------ *)
(** * str(int) *)
Definition str_of_Z (z : Z) : string := NilZero.string_of_int (Z.to_int z).

(* ------------------------------------------------------------------------------------------ *)
(** * small string utilities *)
Fixpoint str_mem (k : string) (l : list string) : bool :=
  match l with
  | [] => false
  | x :: r => if String.eqb k x then true else str_mem k r
  end.

Lemma str_mem_In k l : str_mem k l = true <-> In k l.
Proof.
  induction l as [|x r IH]; simpl.
  - split; [discriminate|tauto].
  - destruct (String.eqb_spec k x) as [->|N].
    + split; auto.
    + rewrite IH. split; [auto|]. intros [E|H]; [congruence|exact H].
Qed.
