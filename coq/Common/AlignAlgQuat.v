(** 4-vectors (quaternions) and 4x4 matrices as nested tuples, over the operation record of AlignAlg.v;
    division and comparison operations for the executable part of the Kabsch model (C12).
    Definitions only. *)
From Coq Require Import List Arith Bool.
Require Import QV.Common.AlignAlg.
Import ListNotations.

Definition quat (K : Type) := (K * K * K * K)%type.
Definition mat4 (K : Type) := (quat K * quat K * quat K * quat K)%type.     (* four rows *)

(** division, injection of naturals, comparison: needed to run centroids / RMSD / allclose *)
Class DivOps (K : Type) := { kdiv : K -> K -> K; kofnat : nat -> K; kleb : K -> K -> bool; kabs : K -> K }.

Section Defs.
Context {K : Type} {KO : Ops K}.
Local Open Scope K_scope.

Definition qcomp (q : quat K) (i : nat) : K :=
  let '(a, b, c, d) := q in match i with O => a | S O => b | S (S O) => c | _ => d end.
Definition m4row (M : mat4 K) (i : nat) : quat K :=
  let '(r0, r1, r2, r3) := M in match i with O => r0 | S O => r1 | S (S O) => r2 | _ => r3 end.
Definition m4ent (M : mat4 K) (i j : nat) : K := qcomp (m4row M i) j.
(* column j of a 4x4 matrix: numpy ev[:, j] *)
Definition m4col (M : mat4 K) (j : nat) : quat K :=
  (m4ent M 0%nat j, m4ent M 1%nat j, m4ent M 2%nat j, m4ent M 3%nat j).

Definition qdot (p q : quat K) : K :=
  let '(a, b, c, d) := p in let '(w, x, y, z) := q in a * w + b * x + c * y + d * z.
Definition n2 (q : quat K) : K := qdot q q.                         (* |q|^2 *)
Definition m4vec (M : mat4 K) (q : quat K) : quat K :=
  let '(r0, r1, r2, r3) := M in (qdot r0 q, qdot r1 q, qdot r2 q, qdot r3 q).
Definition quad4 (M : mat4 K) (q : quat K) : K := qdot q (m4vec M q).      (* q^T M q *)
Definition m4trans (M : mat4 K) : mat4 K := (m4col M 0%nat, m4col M 1%nat, m4col M 2%nat, m4col M 3%nat).
Definition m4id : mat4 K := ((1, 0, 0, 0), (0, 1, 0, 0), (0, 0, 1, 0), (0, 0, 0, 1)).
Definition m4diag (w : quat K) : mat4 K :=
  let '(a, b, c, d) := w in ((a, 0, 0, 0), (0, b, 0, 0), (0, 0, c, 0), (0, 0, 0, d)).
(* rows of A times columns of B *)
Definition m4mul (A B : mat4 K) : mat4 K :=
  let Bt := m4trans B in
  let '(r0, r1, r2, r3) := A in (m4vec Bt r0, m4vec Bt r1, m4vec Bt r2, m4vec Bt r3).
(* sum_k w_k c_k^2 *)
Definition wsum (w c : quat K) : K :=
  let '(w0, w1, w2, w3) := w in let '(c0, c1, c2, c3) := c in
  w0 * (c0 * c0) + w1 * (c1 * c1) + w2 * (c2 * c2) + w3 * (c3 * c3).
Definition qscale (s : K) (q : quat K) : quat K := let '(a, b, c, d) := q in (s * a, s * b, s * c, s * d).

(** sums over point lists *)
Definition nsq (v : vec3 K) : K := dot3 v v.
Fixpoint sumsq (l : list (vec3 K)) : K := match l with [] => 0 | v :: r => nsq v + sumsq r end.
Fixpoint vsum (l : list (vec3 K)) : vec3 K := match l with [] => v0 | v :: r => vadd v (vsum r) end.
Definition outer (u v : vec3 K) : mat3 K :=
  let '(a, b, c) := u in (vscale a v, vscale b v, vscale c v).
Definition madd (A B : mat3 K) : mat3 K :=
  let '(a0, a1, a2) := A in let '(b0, b1, b2) := B in (vadd a0 b0, vadd a1 b1, vadd a2 b2).
Definition m0 : mat3 K := (v0, v0, v0).
Definition mscale (s : K) (M : mat3 K) : mat3 K := let '(r0, r1, r2) := M in (vscale s r0, vscale s r1, vscale s r2).
Fixpoint lsub (x y : list (vec3 K)) : list (vec3 K) :=
  match x, y with a :: r, b :: s => vsub a b :: lsub r s | _, _ => [] end.
Definition cross (u v : vec3 K) : vec3 K :=
  let '(a, b, c) := u in let '(x, y, z) := v in (b * z - c * y, c * x - a * z, a * y - b * x).
End Defs.
