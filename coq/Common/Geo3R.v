(** Geo3R — the instance of [Fops] on the real numbers: sqrt, acos from Coq's Reals, and an atan2
    defined from acos with its specification proved ([Ratan2_spec]).  Facts that need the order:
    Cauchy–Schwarz, norms, clipping.  (C16, C18; these lemmas depend on the Reals axioms.) *)
From Coq Require Import Reals Lra Psatz List Bool.
Require Import QV.Common.Geo3 QV.Common.Geo3Facts.
Import ListNotations.
Local Open Scope R_scope.

Definition Rleb (a b : R) : bool := if Rle_dec a b then true else false.
Definition Rltb (a b : R) : bool := if Rlt_dec a b then true else false.

(** atan2 y x for (x, y) <> (0, 0): the angle in [-pi, pi] with the direction of (x, y) *)
Definition Ratan2 (y x : R) : R :=
  let r := sqrt (x * x + y * y) in
  if Rle_dec 0 y then acos (x / r) else - acos (x / r).

Definition RK : Fops := mkF R 0 1 Rplus Rmult Rminus Ropp Rdiv Rinv sqrt Rleb Rltb PI acos Ratan2.

Lemma RK_field : is_field RK.
Proof. exact Rfield. Qed.

Lemma Rleb_true a b : Rleb a b = true <-> a <= b.
Proof. unfold Rleb. destruct (Rle_dec a b); split; intro; try assumption; try reflexivity; try discriminate. contradiction. Qed.
Lemma Rltb_true a b : Rltb a b = true <-> a < b.
Proof. unfold Rltb. destruct (Rlt_dec a b); split; intro; try assumption; try reflexivity; try discriminate. contradiction. Qed.
Lemma Rltb_false a b : Rltb a b = false <-> b <= a.
Proof. unfold Rltb. destruct (Rlt_dec a b); split; intro; try reflexivity; try discriminate; lra. Qed.

(** theta is an argument of the point (x, y) *)
Definition is_arg (y x theta : R) : Prop := exists r, 0 < r /\ y = r * sin theta /\ x = r * cos theta.

Lemma is_arg_scale (k y x theta : R) : 0 < k -> is_arg y x theta -> is_arg (k * y) (k * x) theta.
Proof.
  intros Hk [r [Hr [Hy Hx]]]. exists (k * r). split.
  - apply Rmult_lt_0_compat; assumption.
  - split; [rewrite Hy | rewrite Hx]; ring.
Qed.

Lemma is_arg_flip (y x theta : R) : is_arg y x theta -> is_arg (- y) x (- theta).
Proof.
  intros [r [Hr [Hy Hx]]]. exists r. split; [assumption|]. rewrite sin_neg, cos_neg. split; [rewrite Hy; ring | assumption].
Qed.

Lemma sqrt_sumsq_pos (x y : R) : (x <> 0 \/ y <> 0) -> 0 < sqrt (x * x + y * y).
Proof. intro H. apply sqrt_lt_R0. destruct H; nra. Qed.

Lemma Ratan2_spec (y x : R) : (x <> 0 \/ y <> 0) -> is_arg y x (Ratan2 y x) /\ - PI <= Ratan2 y x <= PI.
Proof.
  intro H. pose proof (sqrt_sumsq_pos x y H) as Hr.
  set (r := sqrt (x * x + y * y)) in *.
  assert (Hrr : r * r = x * x + y * y). { unfold r. apply sqrt_sqrt. nra. }
  assert (Hc : -1 <= x / r <= 1).
  { assert (Hx : - r <= x <= r) by (split; nra).
    split.
    - apply Rmult_le_reg_r with r; [assumption|]. unfold Rdiv. rewrite Rmult_assoc, Rinv_l by lra. lra.
    - apply Rmult_le_reg_r with r; [assumption|]. unfold Rdiv. rewrite Rmult_assoc, Rinv_l by lra. lra. }
  assert (Hsin : sin (acos (x / r)) = Rabs y / r).
  { rewrite sin_acos by assumption.
    replace (1 - (x / r)²) with ((Rabs y / r)²).
    - apply sqrt_Rsqr. apply Rmult_le_pos; [apply Rabs_pos | left; apply Rinv_0_lt_compat; assumption].
    - unfold Rsqr. replace (Rabs y / r * (Rabs y / r)) with ((Rabs y * Rabs y) / (r * r)) by (field; lra).
      replace (Rabs y * Rabs y) with (y * y) by (destruct (Rcase_abs y) as [Hy|Hy]; [rewrite (Rabs_left _ Hy) | rewrite (Rabs_right _ Hy)]; ring).
      replace (y * y) with (r * r - x * x) by lra. field. lra. }
  pose proof (acos_bound (x / r)) as Hb.
  unfold Ratan2. fold r. destruct (Rle_dec 0 y) as [Hy | Hy].
  - split; [| lra]. exists r. split; [assumption|]. rewrite Hsin, cos_acos by assumption.
    rewrite Rabs_right by lra. split; field; lra.
  - split; [| lra]. exists r. split; [assumption|]. rewrite sin_neg, cos_neg, Hsin, cos_acos by assumption.
    rewrite Rabs_left by lra. split; field; lra.
Qed.

(** ** order facts on 3-vectors *)
Lemma norm2_nonneg (a : vec3 RK) : 0 <= norm2 a.
Proof. dvec a. vnormalize. cbn. nra. Qed.

Lemma norm2_zero (a : vec3 RK) : norm2 a = 0 -> a = (0, 0, 0).
Proof. dvec a. vnormalize. cbn. intro H. assert (ax = 0) by nra. assert (ay = 0) by nra. assert (az = 0) by nra. subst. reflexivity. Qed.

Lemma norm2_pos (a : vec3 RK) : a <> (0, 0, 0) -> 0 < norm2 a.
Proof. intro H. destruct (norm2_nonneg a) as [Hp | Hz]; [assumption|]. exfalso. apply H. apply norm2_zero. symmetry. exact Hz. Qed.

Lemma vnorm_sq (a : vec3 RK) : vnorm a * vnorm a = norm2 a.
Proof. unfold vnorm. cbn. apply sqrt_sqrt. apply norm2_nonneg. Qed.

Lemma vnorm_nonneg (a : vec3 RK) : 0 <= vnorm a.
Proof. unfold vnorm. cbn. apply sqrt_pos. Qed.

Lemma vnorm_pos (a : vec3 RK) : a <> (0, 0, 0) -> 0 < vnorm a.
Proof. intro H. unfold vnorm. cbn. apply sqrt_lt_R0. apply norm2_pos. assumption. Qed.

Lemma vsub_nonzero (p q : vec3 RK) : p <> q -> vsub p q <> (0, 0, 0).
Proof.
  dvec p; dvec q. vnormalize. cbn. intros H E. apply H. injection E as E1 E2 E3.
  f_equal; [f_equal|]; lra.
Qed.

Lemma cauchy_schwarz (a b : vec3 RK) : vdot a b * vdot a b <= norm2 a * norm2 b.
Proof.
  pose proof (lagrange RK RK_field a b) as L. pose proof (norm2_nonneg (vcross a b)) as P.
  rewrite L in P. cbn in P. lra.
Qed.

(** the cosine of an angle between non-zero vectors lies in [-1, 1] *)
Lemma cos_bounds (a b : vec3 RK) : a <> (0, 0, 0) -> b <> (0, 0, 0) ->
  -1 <= vdot a b / (vnorm a * vnorm b) <= 1.
Proof.
  intros Ha Hb. pose proof (vnorm_pos a Ha) as Pa. pose proof (vnorm_pos b Hb) as Pb.
  pose proof (cauchy_schwarz a b) as CS. rewrite <- (vnorm_sq a), <- (vnorm_sq b) in CS.
  set (d := vdot a b) in *. set (s := vnorm a) in *. set (t := vnorm b) in *.
  assert (Hst : 0 < s * t) by (apply Rmult_lt_0_compat; assumption).
  assert (Hd : - (s * t) <= d <= s * t) by (split; nra).
  split.
  - apply Rmult_le_reg_r with (s * t); [assumption|]. unfold Rdiv. rewrite Rmult_assoc, Rinv_l by lra. lra.
  - apply Rmult_le_reg_r with (s * t); [assumption|]. unfold Rdiv. rewrite Rmult_assoc, Rinv_l by lra. lra.
Qed.

Lemma vec3_eq_dec_R (p q : vec3 RK) : {p = q} + {p <> q}.
Proof.
  dvec p; dvec q.
  destruct (Req_EM_T px qx) as [->|N1]; [|right; intro E; injection E; intros; contradiction].
  destruct (Req_EM_T py qy) as [->|N2]; [|right; intro E; injection E; intros; contradiction].
  destruct (Req_EM_T pz qz) as [->|N3]; [|right; intro E; injection E; intros; contradiction].
  left. reflexivity.
Qed.

(** an argument of a point is unique in (-pi, pi] *)
Lemma sin_zero_open (h : R) : - PI < h < PI -> sin h = 0 -> h = 0.
Proof.
  intros [L U] S. destruct (Rle_dec 0 h) as [P|N].
  - destruct (sin_eq_O_2PI_0 h P) as [E|[E|E]]; lra.
  - assert (S' : sin (- h) = 0) by (rewrite sin_neg; lra).
    assert (P' : 0 <= - h) by lra.
    destruct (sin_eq_O_2PI_0 (- h) P') as [E|[E|E]]; lra.
Qed.

Lemma is_arg_unique (y x t1 t2 : R) :
  is_arg y x t1 -> is_arg y x t2 -> - PI < t1 <= PI -> - PI < t2 <= PI -> t1 = t2.
Proof.
  intros [r1 [R1 [Y1 X1]]] [r2 [R2 [Y2 X2]]] B1 B2.
  assert (Er : r1 = r2).
  { assert (E : r1 * r1 = r2 * r2).
    { pose proof (sin2_cos2 t1) as P1. pose proof (sin2_cos2 t2) as P2. unfold Rsqr in P1, P2.
      replace (r1 * r1) with ((r1 * sin t1) * (r1 * sin t1) + (r1 * cos t1) * (r1 * cos t1)) by (rewrite <- (Rmult_1_r (r1 * r1)), <- P1; ring).
      replace (r2 * r2) with ((r2 * sin t2) * (r2 * sin t2) + (r2 * cos t2) * (r2 * cos t2)) by (rewrite <- (Rmult_1_r (r2 * r2)), <- P2; ring).
      rewrite <- Y1, <- X1, <- Y2, <- X2. reflexivity. }
    nra. }
  subst r2.
  assert (Es : sin t1 = sin t2) by (apply Rmult_eq_reg_l with r1; lra).
  assert (Ec : cos t1 = cos t2) by (apply Rmult_eq_reg_l with r1; lra).
  set (h := (t1 - t2) / 2).
  assert (Hc : cos (2 * h) = 1).
  { unfold h. replace (2 * ((t1 - t2) / 2)) with (t1 - t2) by field. rewrite cos_minus, Es, Ec.
    pose proof (sin2_cos2 t2) as P. unfold Rsqr in P. lra. }
  assert (Hs : sin h = 0).
  { rewrite cos_2a_sin in Hc. assert (sin h * sin h = 0) by lra. apply Rsqr_0_uniq. exact H. }
  assert (h = 0) by (apply sin_zero_open; [unfold h; lra | exact Hs]).
  unfold h in H. lra.
Qed.

Lemma Ratan2_gt_mPI (y x : R) : (x <> 0 \/ y <> 0) -> - PI < Ratan2 y x.
Proof.
  intro H. pose proof (sqrt_sumsq_pos x y H) as Hr. pose proof PI_RGT_0 as HP.
  unfold Ratan2. set (r := sqrt (x * x + y * y)) in *.
  assert (Hrr : r * r = x * x + y * y) by (unfold r; apply sqrt_sqrt; nra).
  destruct (Rle_dec 0 y) as [Hy|Hy].
  - pose proof (acos_bound (x / r)). lra.
  - assert (Hc : -1 < x / r < 1).
    { assert (Hx : - r < x < r) by (split; nra).
      split; apply Rmult_lt_reg_r with r; try assumption; unfold Rdiv; rewrite Rmult_assoc, Rinv_l by lra; lra. }
    pose proof (acos_bound_lt (x / r) Hc). lra.
Qed.
