(** Insertion sort (stable) and: for a total, transitive, antisymmetric order the sorted list depends only on
    the multiset of elements (used for C11 bond canonicalisation, C15 formula key order). *)
From Coq Require Import List Bool Permutation Sorted.
Import ListNotations.

Section Sort.
  Context {A : Type}.
  Variable leb : A -> A -> bool.

  Fixpoint insert (x : A) (l : list A) : list A :=
    match l with
    | [] => [x]
    | y :: r => if leb x y then x :: y :: r else y :: insert x r
    end.

  Fixpoint isort (l : list A) : list A :=
    match l with
    | [] => []
    | x :: r => insert x (isort r)
    end.

  Lemma insert_perm x l : Permutation (insert x l) (x :: l).
  Proof.
    induction l as [|y r IH]; simpl; [reflexivity|].
    destruct (leb x y); [reflexivity|].
    rewrite IH. apply perm_swap.
  Qed.

  Lemma isort_perm l : Permutation (isort l) l.
  Proof.
    induction l as [|x r IH]; simpl; [constructor|].
    rewrite insert_perm. constructor. exact IH.
  Qed.

  Let R (a b : A) : Prop := leb a b = true.

  Hypothesis leb_total : forall a b, leb a b = true \/ leb b a = true.
  Hypothesis leb_trans : forall a b c, leb a b = true -> leb b c = true -> leb a c = true.

  Lemma insert_sorted x l : StronglySorted R l -> StronglySorted R (insert x l).
  Proof.
    induction 1 as [|y r Hs IH Hall]; simpl.
    - constructor; constructor.
    - destruct (leb x y) eqn:E.
      + constructor; [constructor; assumption|].
        constructor; [exact E|].
        rewrite Forall_forall in *. intros z Hz. apply (leb_trans x y z E). apply Hall, Hz.
      + constructor; [exact IH|].
        assert (Ryx : R y x) by (destruct (leb_total x y) as [H|H]; [congruence|exact H]).
        rewrite Forall_forall in *. intros z Hz.
        apply (Permutation_in _ (insert_perm x r)) in Hz. destruct Hz as [<-|Hz]; [exact Ryx|apply Hall, Hz].
  Qed.

  Lemma isort_sorted l : StronglySorted R (isort l).
  Proof. induction l; simpl; [constructor|apply insert_sorted; assumption]. Qed.

  (** antisymmetry is only required on the elements satisfying [P] (e.g. tuples in normal form) *)
  Variable P : A -> Prop.
  Hypothesis leb_antisym : forall a b, P a -> P b -> leb a b = true -> leb b a = true -> a = b.

  Lemma sorted_perm_eq l : forall l', Forall P l -> StronglySorted R l -> StronglySorted R l' -> Permutation l l' -> l = l'.
  Proof.
    induction l as [|x r IH]; intros l' FP S S' Pm.
    - apply Permutation_nil in Pm. symmetry; exact Pm.
    - destruct l' as [|y r']; [apply Permutation_sym, Permutation_nil in Pm; discriminate|].
      inversion S as [|? ? Sr Hx]; subst. inversion S' as [|? ? Sr' Hy]; subst.
      inversion FP as [|? ? Px FPr]; subst.
      rewrite Forall_forall in Hx, Hy.
      assert (x = y) as ->.
      { assert (Ix : In x (y :: r')) by (apply (Permutation_in _ Pm); left; reflexivity).
        assert (Iy : In y (x :: r)) by (apply (Permutation_in _ (Permutation_sym Pm)); left; reflexivity).
        destruct Ix as [->|Ix]; [reflexivity|]. destruct Iy as [->|Iy]; [reflexivity|].
        apply leb_antisym; [exact Px| |apply Hx, Iy|apply Hy, Ix].
        rewrite Forall_forall in FPr. apply FPr, Iy. }
      f_equal. apply IH; try assumption. eapply Permutation_cons_inv; exact Pm.
  Qed.

  Theorem isort_perm_invariant l l' : Forall P l -> Permutation l l' -> isort l = isort l'.
  Proof.
    intros FP Pm. apply sorted_perm_eq; try apply isort_sorted.
    - rewrite Forall_forall in *. intros x Hx. apply FP. apply (Permutation_in _ (isort_perm l)). exact Hx.
    - rewrite (isort_perm l), (isort_perm l'). exact Pm.
  Qed.

  Lemma isort_idempotent l : Forall P l -> isort (isort l) = isort l.
  Proof.
    intros FP. apply sorted_perm_eq; try apply isort_sorted; [|apply isort_perm].
    rewrite Forall_forall in *. intros x Hx. apply FP.
    apply (Permutation_in _ (isort_perm l)). apply (Permutation_in _ (isort_perm (isort l))). exact Hx.
  Qed.
End Sort.
