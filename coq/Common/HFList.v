(** List facts used by C15: consecutive index blocks, the position of an element in a filtered list (the
    at2at remap), enumerate, sums over permutations and index sets. *)
From Coq Require Import ZArith List Bool Arith Lia Permutation.
Import ListNotations.

Lemma map_nth_seq_mid {A} (d : A) (pre l post : list A) :
  map (fun i => nth i (pre ++ l ++ post) d) (seq (length pre) (length l)) = l.
Proof.
  revert pre. induction l as [|x l IH]; intros pre; simpl; [reflexivity|].
  f_equal.
  - rewrite app_nth2 by lia. rewrite Nat.sub_diag. reflexivity.
  - specialize (IH (pre ++ [x])). rewrite app_length in IH. simpl in IH. rewrite Nat.add_1_r in IH.
    rewrite <- app_assoc in IH. simpl in IH. exact IH.
Qed.

(** position in a filtered list: the k-th kept element *)
Lemma filter_pos {A} (f : nat -> bool) (g : nat -> A) (d : A) : forall n s i,
  s <= i -> i < s + n -> f i = true ->
  nth (length (filter f (seq s (i - s)))) (flat_map (fun j => if f j then [g j] else []) (seq s n)) d = g i.
Proof.
  induction n as [|n IH]; intros s i H1 H2 Hf; [lia|].
  simpl seq. simpl flat_map.
  destruct (Nat.eq_dec i s) as [->|Ne].
  - rewrite Nat.sub_diag. simpl. rewrite Hf. reflexivity.
  - replace (i - s) with (S (i - S s)) by lia. simpl seq. simpl filter.
    destruct (f s) eqn:Fs; simpl.
    + apply IH; try lia. exact Hf.
    + apply IH; try lia. exact Hf.
Qed.

Lemma filter_pos_lt (f : nat -> bool) : forall n s i,
  s <= i -> i < s + n -> f i = true ->
  length (filter f (seq s (i - s))) < length (filter f (seq s n)).
Proof.
  induction n as [|n IH]; intros s i H1 H2 Hf; [lia|].
  simpl seq. destruct (Nat.eq_dec i s) as [->|Ne].
  - rewrite Nat.sub_diag. simpl. rewrite Hf. simpl. lia.
  - replace (i - s) with (S (i - S s)) by lia. simpl seq. simpl filter.
    destruct (f s); simpl; [apply -> Nat.succ_lt_mono|]; apply IH; try lia; exact Hf.
Qed.

Fixpoint enum_from {A} (i : nat) (l : list A) : list (nat * A) :=
  match l with [] => [] | x :: r => (i, x) :: enum_from (S i) r end.

Definition enumerate {A} (l : list A) : list (nat * A) := enum_from 0 l.

Lemma flat_map_enum {A B} (c : nat -> bool) (F : nat -> A -> B) (d : A) : forall (l : list A) i,
  flat_map (fun e : nat * A => if c (fst e) then [F (fst e) (snd e)] else []) (enum_from i l)
  = map (fun k => F k (nth (k - i) l d)) (filter c (seq i (length l))).
Proof.
  induction l as [|x l IH]; intros i; simpl; [reflexivity|].
  rewrite IH. destruct (c i); simpl.
  - rewrite Nat.sub_diag. f_equal. apply map_ext_in. intros k Hk. apply filter_In in Hk. destruct Hk as [Hk _].
    apply in_seq in Hk. replace (k - i) with (S (k - S i)) by lia. reflexivity.
  - apply map_ext_in. intros k Hk. apply filter_In in Hk. destruct Hk as [Hk _].
    apply in_seq in Hk. replace (k - i) with (S (k - S i)) by lia. reflexivity.
Qed.

Open Scope Z_scope.
Notation zsum l := (fold_right Z.add 0 l).

Lemma zsum_app a b : zsum (a ++ b) = zsum a + zsum b.
Proof. induction a; simpl; lia. Qed.

Lemma zsum_perm a b : Permutation a b -> zsum a = zsum b.
Proof. induction 1; simpl; lia. Qed.

Lemma zsum_concat_map {A} (g : A -> Z) (ls : list (list A)) :
  zsum (map g (concat ls)) = zsum (map (fun l => zsum (map g l)) ls).
Proof. induction ls as [|l ls IH]; simpl; [reflexivity|]. rewrite map_app, zsum_app, IH. reflexivity. Qed.

Lemma zsum_map_add {A} (f g : A -> Z) l : zsum (map (fun x => f x + g x) l) = zsum (map f l) + zsum (map g l).
Proof. induction l; simpl; lia. Qed.

Lemma zsum_map_zero {A} (l : list A) : zsum (map (fun _ => 0) l) = 0.
Proof. induction l; simpl; lia. Qed.

Lemma NoDup_app_r {A} (a b : list A) : NoDup (a ++ b) -> NoDup b.
Proof. induction a as [|x a IH]; simpl; intros H; [exact H|]. inversion H; subst. apply IH. assumption. Qed.

Lemma NoDup_app_disj {A} (a b : list A) x : NoDup (a ++ b) -> In x a -> ~ In x b.
Proof.
  induction a as [|y a IH]; simpl; intros H Hin; [contradiction|]. inversion H; subst.
  destruct Hin as [->|Hin]; [intros Hb; apply H2; apply in_or_app; right; exact Hb|apply IH; assumption].
Qed.
