(** Geo3Facts — algebraic facts about 3-vectors / 3x3 matrices over any field (C16, C18).
    All by [ring]/[field] on the Section's [field_theory]; closed under the global context. *)
From Coq Require Import List Bool ZArith Field Ring.
Require Import QV.Common.Geo3.
Import ListNotations.

Ltac vnormalize :=
  unfold rigid, orthogonal, mmul, mtrans, mident, mdet, mv, vm, mcol0, mcol1, mcol2, mdiag,
    vnorm, norm2, triple, vdot, vcross, vsub, vadd, vscale, vneg, vzero, vzip, vmap, vx, vy, vz in *;
  cbn [fst snd] in *.

Ltac dvec v := let a := fresh v "x" in let b := fresh v "y" in let c := fresh v "z" in destruct v as [[a b] c].
Ltac dmat m :=
  let r0 := fresh m "0" in let r1 := fresh m "1" in let r2 := fresh m "2" in
  destruct m as [[r0 r1] r2]; dvec r0; dvec r1; dvec r2.

Definition is_field (K : Fops) : Prop :=
  field_theory (f0 K) (f1 K) (fadd K) (fmul K) (fsub K) (fopp K) (fdiv K) (finv K) eq.

Section Facts.
  Variable K : Fops.
  Hypothesis Kf : is_field K.
  Let Kf' : field_theory (f0 K) (f1 K) (fadd K) (fmul K) (fsub K) (fopp K) (fdiv K) (finv K) eq := Kf.
  Add Field KF : Kf'.
  Local Notation "a + b" := (fadd K a b).
  Local Notation "a * b" := (fmul K a b).
  Local Notation "a - b" := (fsub K a b).
  Local Notation "- a" := (fopp K a).
  Local Notation "a / b" := (fdiv K a b).

  Lemma vec3_eq (a b c d e g : K) : a = d -> b = e -> c = g -> (a, b, c) = (d, e, g).
  Proof. intros; subst; reflexivity. Qed.

  Lemma fdiv_def (a b : K) : a / b = a * finv K b.
  Proof. exact (Fdiv_def Kf a b). Qed.

  Lemma vdot_comm (a b : vec3 K) : vdot a b = vdot b a.
  Proof. dvec a; dvec b; vnormalize; ring. Qed.

  Lemma vsub_swap (p q : vec3 K) : vsub p q = vneg (vsub q p).
  Proof. dvec p; dvec q; vnormalize; apply vec3_eq; ring. Qed.

  Lemma vdot_neg_neg (a b : vec3 K) : vdot (vneg a) (vneg b) = vdot a b.
  Proof. dvec a; dvec b; vnormalize; ring. Qed.

  Lemma vdot_neg_l (a b : vec3 K) : vdot (vneg a) b = - vdot a b.
  Proof. dvec a; dvec b; vnormalize; ring. Qed.

  Lemma vdot_neg_r (a b : vec3 K) : vdot a (vneg b) = - vdot a b.
  Proof. dvec a; dvec b; vnormalize; ring. Qed.

  Lemma norm2_neg (a : vec3 K) : norm2 (vneg a) = norm2 a.
  Proof. unfold norm2. apply vdot_neg_neg. Qed.

  Lemma norm2_sub_swap (p q : vec3 K) : norm2 (vsub p q) = norm2 (vsub q p).
  Proof. rewrite (vsub_swap p q). apply norm2_neg. Qed.

  Lemma vnorm_sub_swap (p q : vec3 K) : vnorm (vsub p q) = vnorm (vsub q p).
  Proof. unfold vnorm. rewrite norm2_sub_swap. reflexivity. Qed.

  Lemma vcross_anticomm (a b : vec3 K) : vcross a b = vneg (vcross b a).
  Proof. dvec a; dvec b; vnormalize; apply vec3_eq; ring. Qed.

  Lemma vcross_self (a : vec3 K) : vcross a a = vzero K.
  Proof. dvec a; vnormalize; apply vec3_eq; ring. Qed.

  Lemma triple_cyclic (a b c : vec3 K) : triple a b c = triple b c a.
  Proof. dvec a; dvec b; dvec c; vnormalize; ring. Qed.

  Lemma triple_swap23 (a b c : vec3 K) : triple a c b = - triple a b c.
  Proof. dvec a; dvec b; dvec c; vnormalize; ring. Qed.

  Lemma triple_neg3 (a b c : vec3 K) : triple (vneg a) (vneg b) (vneg c) = - triple a b c.
  Proof. dvec a; dvec b; dvec c; vnormalize; ring. Qed.

  (** Binet–Cauchy and Lagrange *)
  Lemma binet_cauchy (a b c d : vec3 K) :
    vdot (vcross a b) (vcross c d) = vdot a c * vdot b d - vdot a d * vdot b c.
  Proof. dvec a; dvec b; dvec c; dvec d; vnormalize; ring. Qed.

  Lemma lagrange (a b : vec3 K) : norm2 (vcross a b) = norm2 a * norm2 b - vdot a b * vdot a b.
  Proof. unfold norm2. rewrite binet_cauchy. rewrite (vdot_comm b a). reflexivity. Qed.

  (** rigid motions *)
  Lemma rigid_diff (M : mat3 K) (t p q : vec3 K) : vsub (rigid M t p) (rigid M t q) = mv M (vsub p q).
  Proof. dmat M; dvec t; dvec p; dvec q; vnormalize; apply vec3_eq; ring. Qed.

  Lemma mv_neg (M : mat3 K) (a : vec3 K) : mv M (vneg a) = vneg (mv M a).
  Proof. dmat M; dvec a; vnormalize; apply vec3_eq; ring. Qed.

  (** the Gram form: (M a).(M b) = a^T (M^T M) b *)
  Lemma mv_dot_gram (M : mat3 K) (a b : vec3 K) :
    vdot (mv M a) (mv M b) = vdot a (mv (mmul (mtrans M) M) b).
  Proof. dmat M; dvec a; dvec b; vnormalize; ring. Qed.

  Lemma mv_ident (a : vec3 K) : mv (mident K) a = a.
  Proof. dvec a; vnormalize; apply vec3_eq; ring. Qed.

  Lemma mv_dot (M : mat3 K) (a b : vec3 K) : orthogonal M -> vdot (mv M a) (mv M b) = vdot a b.
  Proof. intro H. rewrite mv_dot_gram. unfold orthogonal in H. rewrite H. rewrite mv_ident. reflexivity. Qed.

  Lemma mv_norm2 (M : mat3 K) (a : vec3 K) : orthogonal M -> norm2 (mv M a) = norm2 a.
  Proof. intro H. unfold norm2. apply mv_dot; assumption. Qed.

  Lemma mv_vnorm (M : mat3 K) (a : vec3 K) : orthogonal M -> vnorm (mv M a) = vnorm a.
  Proof. intro H. unfold vnorm. rewrite mv_norm2 by assumption. reflexivity. Qed.

  (** triple products scale with the determinant (any matrix) *)
  Lemma triple_mv (M : mat3 K) (a b c : vec3 K) :
    triple (mv M a) (mv M b) (mv M c) = mdet M * triple a b c.
  Proof. dmat M; dvec a; dvec b; dvec c; vnormalize; ring. Qed.

  Lemma rigid_norm2 (M : mat3 K) (t p q : vec3 K) :
    orthogonal M -> norm2 (vsub (rigid M t p) (rigid M t q)) = norm2 (vsub p q).
  Proof. intro H. rewrite rigid_diff. apply mv_norm2; assumption. Qed.

  (** small constants *)
  Lemma fofZ_m1 : fofZ K (-1)%Z = fopp K (f1 K). Proof. reflexivity. Qed.
  Lemma fofZ_1 : fofZ K 1%Z = f1 K. Proof. reflexivity. Qed.
End Facts.
