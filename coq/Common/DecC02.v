(** Exact decimals with Python [decimal.Decimal] semantics at the default context
    (prec = 28, ROUND_HALF_EVEN, traps on DivisionByZero / InvalidOperation), as far as
    qcelemental/physical_constants/context.py uses them: construction from a numeric string,
    multiplication, true division, [int * Decimal].  Transcribed from CPython's Lib/_pydecimal.py
    ([Decimal.__new__] on strings, [__mul__], [__truediv__], [_fix]); the C implementation (libmpdec)
    implements the same General Decimal Arithmetic specification.  Tied to the running interpreter by
    the C02 correspondence (every alias value compared digit for digit).
    Not modelled: NaN/Infinity, negative zero, Emax/Emin clamping (|exponent| stays far below 999999 here). *)
From Coq Require Import ZArith List String Ascii Bool QArith.
Require Import QV.Common.Outcome.
Import ListNotations.
Open Scope Z_scope.

Record dec := mkdec { coef : Z; dexp : Z }.      (* value = coef * 10^dexp ; sign carried by coef *)

Definition dec_eqb (a b : dec) : bool := (coef a =? coef b) && (dexp a =? dexp b).

Definition prec : Z := 28.

(* number of decimal digits of |n| ; Python's len(self._int), so 0 has one digit *)
Fixpoint ndig_aux (fuel : nat) (n acc : Z) : Z :=
  match fuel with
  | O => acc
  | S f => if n <? 10 then acc else ndig_aux f (n / 10) (acc + 1)
  end.
Definition ndigits (n : Z) : Z :=
  let a := Z.abs n in ndig_aux (S (Z.to_nat (Z.log2 a))) a 1.

(* Decimal._fix for a finite number whose exponent is well inside [Emin, Emax]: round the coefficient
   to [prec] digits, ties to even; a carry out of 99..9 drops one more digit. *)
Definition dec_fix (d : dec) : dec :=
  let a := Z.abs (coef d) in
  let n := ndigits a in
  if n <=? prec then d
  else
    let k := n - prec in
    let p := 10 ^ k in
    let q := a / p in
    let r := a mod p in
    let q1 := if (2 * r >? p) || ((2 * r =? p) && Z.odd q) then q + 1 else q in
    if q1 =? 10 ^ prec
    then mkdec (Z.sgn (coef d) * (q1 / 10)) (dexp d + k + 1)
    else mkdec (Z.sgn (coef d) * q1) (dexp d + k).

(* the rounding step of [dec_fix] on its own: round a / p to an integer, ties to even (used by the proofs and by [nearest64]) *)
Definition rhe (a p : Z) : Z :=
  let q := a / p in let r := a mod p in
  if (2 * r >? p) || ((2 * r =? p) && Z.odd q) then q + 1 else q.

(* Decimal.__mul__ *)
Definition dec_mul (a b : dec) : dec := dec_fix (mkdec (coef a * coef b) (dexp a + dexp b)).

(* the "result is exact" loop of __truediv__: strip trailing zeros up to the ideal exponent *)
Fixpoint strip_to_ideal (fuel : nat) (c e ideal : Z) : Z * Z :=
  match fuel with
  | O => (c, e)
  | S f => if (e <? ideal) && (c mod 10 =? 0) then strip_to_ideal f (c / 10) (e + 1) ideal else (c, e)
  end.

(* Decimal.__truediv__ ; None = DivisionByZero / InvalidOperation (0/0) *)
Definition dec_div (a b : dec) : option dec :=
  if coef b =? 0 then None
  else if coef a =? 0 then Some (dec_fix (mkdec 0 (dexp a - dexp b)))
  else
    let sgn := Z.sgn (coef a) * Z.sgn (coef b) in
    let x := Z.abs (coef a) in
    let y := Z.abs (coef b) in
    let shift := ndigits y - ndigits x + prec + 1 in
    let e := dexp a - dexp b - shift in
    let '(c, r) := if 0 <=? shift then Z.div_eucl (x * 10 ^ shift) y
                   else Z.div_eucl x (y * 10 ^ (- shift)) in
    let '(c1, e1) :=
      if negb (r =? 0) then ((if c mod 5 =? 0 then c + 1 else c), e)
      else strip_to_ideal (Z.to_nat (ndigits c)) c e (dexp a - dexp b) in
    Some (dec_fix (mkdec (sgn * c1) e1)).

(** ** Decimal(str) on the numeric grammar  [sign] digits [. digits] [(e|E) [sign] digits]  (at least one
    digit before or after the point).  Anything else (NaN, Infinity, underscores, blanks) is [None]
    here; the model then reports the ValueError-like InvalidOperation. *)
Definition is_digit (c : ascii) : bool := let n := N_of_ascii c in (48 <=? n)%N && (n <=? 57)%N.
Definition digit_val (c : ascii) : Z := Z.of_N (N_of_ascii c) - 48.

(* consume a run of digits: (value so far, count, rest) *)
Fixpoint take_digits (s : list ascii) (acc : Z) (cnt : Z) : Z * Z * list ascii :=
  match s with
  | c :: r => if is_digit c then take_digits r (acc * 10 + digit_val c) (cnt + 1) else (acc, cnt, s)
  | [] => (acc, cnt, [])
  end.

Definition take_sign (s : list ascii) : Z * list ascii :=
  match s with
  | "-"%char :: r => (-1, r)
  | "+"%char :: r => (1, r)
  | _ => (1, s)
  end.

Definition parse_dec_chars (s : list ascii) : option dec :=
  let '(sg, s1) := take_sign s in
  let '(ip, ni, s2) := take_digits s1 0 0 in
  let '(cf, nf, s3) :=
    match s2 with
    | "."%char :: r => take_digits r ip 0
    | _ => (ip, 0, s2)
    end in
  if (ni + nf =? 0) then None
  else
    match s3 with
    | [] => Some (mkdec (sg * cf) (- nf))
    | c :: r =>
        if (Ascii.eqb c "e" || Ascii.eqb c "E")%bool then
          let '(esg, s4) := take_sign r in
          let '(ev, ne, s5) := take_digits s4 0 0 in
          match s5 with
          | [] => if ne =? 0 then None else Some (mkdec (sg * cf) (esg * ev - nf))
          | _ => None
          end
        else None
    end.

Definition parse_dec (s : string) : option dec := parse_dec_chars (list_ascii_of_string s).

(** ** Exact rational value *)
Definition dec2Q (d : dec) : Q :=
  if 0 <=? dexp d then inject_Z (coef d * 10 ^ dexp d)
  else Qmake (coef d) (Z.to_pos (10 ^ (- dexp d))).

(** ** The arithmetic expressions of the alias table *)
Inductive dexpr :=
| DConst (key : string)              (* self.pc[key].data *)
| DLit (s : string)                  (* Decimal("s") *)
| DInt (z : Z)                       (* a Python int operand, converted exactly *)
| DPi                                (* _get_pi(from_scratch=False) *)
| DMul (a b : dexpr)
| DDiv (a b : dexpr).

Section Eval.
  Variable lookup : string -> option dec.     (* the constants table at evaluation time *)
  Variable pi_lit : string.

  Fixpoint eval_dec (e : dexpr) : outcome dec :=
    match e with
    | DConst k => match lookup k with Some d => Ok d | None => Err PyKeyError end
    | DLit s => match parse_dec s with Some d => Ok d | None => Err PyValueError end
    | DInt z => Ok (mkdec z 0)
    | DPi => match parse_dec pi_lit with Some d => Ok d | None => Err PyValueError end
    | DMul a b => obind (eval_dec a) (fun x => obind (eval_dec b) (fun y => Ok (dec_mul x y)))
    | DDiv a b => obind (eval_dec a) (fun x => obind (eval_dec b) (fun y =>
                    match dec_div x y with Some q => Ok q | None => Err PyAssertion end))
    end.

  (* the same expression in exact rational arithmetic (no rounding) *)
  Fixpoint eval_Q (e : dexpr) : option Q :=
    match e with
    | DConst k => option_map dec2Q (lookup k)
    | DLit s => option_map dec2Q (parse_dec s)
    | DInt z => Some (inject_Z z)
    | DPi => option_map dec2Q (parse_dec pi_lit)
    | DMul a b => match eval_Q a, eval_Q b with Some x, Some y => Some (Qred (x * y)) | _, _ => None end
    | DDiv a b => match eval_Q a, eval_Q b with
                  | Some x, Some y => if Qeq_bool y 0 then None else Some (Qred (x / y))
                  | _, _ => None end
    end.
End Eval.
