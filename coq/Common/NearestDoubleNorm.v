(** The exponent chosen by [nearest_double_pos] always yields a 53-bit significand: for ALL positive
    decimals c * 10^ex the result m satisfies 2^52 <= m <= 2^53 (pure integer arithmetic, no axioms). *)
From Coq Require Import ZArith Bool Lia.
Require Import QV.Common.NearestDouble.
Open Scope Z_scope.

(** N/D scaled by 2^-e as a fraction with positive denominator *)
Definition sc (N D e : Z) : Z * Z := if 0 <=? e then (N, D * 2 ^ e) else (N * 2 ^ (- e), D).

Lemma pow2_pos e : 0 <= e -> 0 < 2 ^ e.
Proof. intro H. apply Z.pow_pos_nonneg; lia. Qed.

Lemma sc_den_pos N D e : 0 < D -> 0 < snd (sc N D e).
Proof.
  intro HD. unfold sc. destruct (Z.leb_spec 0 e); cbn [fst snd]; [|exact HD].
  apply Z.mul_pos_pos; [exact HD|now apply pow2_pos].
Qed.

(** lowering the exponent by one doubles the scaled value *)
Lemma sc_pred N D e :
  fst (sc N D (e - 1)) * snd (sc N D e) = 2 * fst (sc N D e) * snd (sc N D (e - 1)).
Proof.
  unfold sc.
  destruct (Z.leb_spec 0 e) as [H|H]; destruct (Z.leb_spec 0 (e - 1)) as [H1|H1]; cbn [fst snd].
  - assert (E : 2 ^ e = 2 * 2 ^ (e - 1)).
    { replace e with (Z.succ (e - 1)) at 1 by lia. rewrite Z.pow_succ_r by lia. reflexivity. }
    rewrite E. ring.
  - assert (e = 0) by lia. subst e. change (2 ^ 0) with 1. change (- (0 - 1)) with 1. change (2 ^ 1) with 2. ring.
  - lia.
  - assert (E : 2 ^ (- (e - 1)) = 2 * 2 ^ (- e)).
    { replace (- (e - 1)) with (Z.succ (- e)) by lia. rewrite Z.pow_succ_r by lia. reflexivity. }
    rewrite E. ring.
Qed.

(** at e0 = log2 N - log2 D - 52 the scaled value lies in [2^51, 2^53) *)
Lemma sc_e0_bounds N D :
  1 <= N -> 1 <= D ->
  let e0 := Z.log2 N - Z.log2 D - 52 in
  2 ^ 51 * snd (sc N D e0) <= fst (sc N D e0) /\ fst (sc N D e0) < 2 ^ 53 * snd (sc N D e0).
Proof.
  intros HN HD e0.
  pose proof (Z.log2_spec N ltac:(lia)) as [LN1 LN2].
  pose proof (Z.log2_spec D ltac:(lia)) as [LD1 LD2].
  pose proof (Z.log2_nonneg N) as NN. pose proof (Z.log2_nonneg D) as ND.
  rewrite Z.pow_succ_r in LN2, LD2 by assumption.
  set (ln := Z.log2 N) in *. set (ld := Z.log2 D) in *.
  set (L := 2 ^ ln) in *. set (P := 2 ^ ld) in *.
  assert (PL : 0 < L) by (apply pow2_pos; exact NN).
  assert (PP : 0 < P) by (apply pow2_pos; exact ND).
  change (2 ^ 51) with 2251799813685248. change (2 ^ 53) with 9007199254740992.
  unfold sc. destruct (Z.leb_spec 0 e0) as [H|H]; cbn [fst snd].
  - (* ln = ld + e0 + 52 *)
    assert (E : L = P * 2 ^ e0 * 4503599627370496).
    { unfold L, P. replace ln with (ld + e0 + 52) by (unfold e0; lia).
      rewrite !Z.pow_add_r by lia. reflexivity. }
    set (Q := 2 ^ e0) in *. assert (PQ : 0 < Q) by (apply pow2_pos; exact H).
    split; nia.
  - (* ld + 52 = ln + (-e0) *)
    assert (E : P * 4503599627370496 = L * 2 ^ (- e0)).
    { unfold L, P. change 4503599627370496 with (2 ^ 52). rewrite <- !Z.pow_add_r by lia.
      f_equal. unfold e0. lia. }
    set (F := 2 ^ (- e0)) in *. assert (PF : 0 < F) by (apply pow2_pos; lia).
    split; nia.
Qed.

Lemma rne_between num den : 0 < den -> num / den <= rne num den <= num / den + 1.
Proof.
  intro D. unfold rne.
  destruct (2 * (num mod den) <? den); [lia|].
  destruct (den <? 2 * (num mod den)); [lia|].
  destruct (Z.even (num / den)); lia.
Qed.

Lemma div_bounds num den a b : 0 < den -> a * den <= num -> num < b * den -> a <= num / den < b.
Proof.
  intros D L U. split.
  - apply Z.div_le_lower_bound; lia.
  - apply Z.div_lt_upper_bound; lia.
Qed.

(** [nearest_double_pos] written over N/D *)
Definition ndp (N D : Z) : Z * Z :=
  let e0 := Z.log2 N - Z.log2 D - 52 in
  let q0 := fst (sc N D e0) / snd (sc N D e0) in
  let e := if q0 <? 2 ^ 52 then e0 - 1 else if 2 ^ 53 <=? q0 then e0 + 1 else e0 in
  (rne (fst (sc N D e)) (snd (sc N D e)), e).

Lemma ndp_significand N D : 1 <= N -> 1 <= D -> 2 ^ 52 <= fst (ndp N D) <= 2 ^ 53.
Proof.
  intros HN HD. unfold ndp. cbv zeta. cbn [fst].
  destruct (sc_e0_bounds N D HN HD) as [A1 A2]. cbv zeta in A1, A2.
  set (e0 := Z.log2 N - Z.log2 D - 52) in *.
  pose proof (sc_den_pos N D e0 ltac:(lia)) as D0.
  pose proof (div_bounds _ _ _ _ D0 A1 A2) as [Q1 Q2].
  set (q0 := fst (sc N D e0) / snd (sc N D e0)) in *.
  change (2 ^ 51) with 2251799813685248 in *. change (2 ^ 52) with 4503599627370496.
  change (2 ^ 53) with 9007199254740992 in *.
  destruct (Z.ltb_spec q0 4503599627370496) as [S|S].
  - (* one more bit: e0 - 1 *)
    pose proof (sc_pred N D e0) as HP.
    pose proof (sc_den_pos N D (e0 - 1) ltac:(lia)) as D1.
    assert (U : fst (sc N D e0) < 4503599627370496 * snd (sc N D e0)).
    { unfold q0 in S. apply Z.nle_gt. intro C.
      assert (4503599627370496 <= fst (sc N D e0) / snd (sc N D e0)) by (apply Z.div_le_lower_bound; lia). lia. }
    set (n := fst (sc N D e0)) in *. set (d := snd (sc N D e0)) in *.
    set (n' := fst (sc N D (e0 - 1))) in *. set (d' := snd (sc N D (e0 - 1))) in *.
    assert (B1 : 4503599627370496 * d' <= n') by nia.
    assert (B2 : n' < 9007199254740992 * d') by nia.
    pose proof (div_bounds _ _ _ _ D1 B1 B2) as [R1 R2].
    pose proof (rne_between n' d' D1). lia.
  - destruct (Z.leb_spec 9007199254740992 q0) as [T|T]; [lia|].
    assert (B1 : 4503599627370496 * snd (sc N D e0) <= fst (sc N D e0)).
    { unfold q0 in S. pose proof (Z.mul_div_le (fst (sc N D e0)) (snd (sc N D e0)) D0). nia. }
    pose proof (rne_between (fst (sc N D e0)) (snd (sc N D e0)) D0). fold q0 in H. lia.
Qed.

(** ... which is [nearest_double_pos] *)
Lemma nearest_double_pos_ndp c ex :
  nearest_double_pos c ex =
  ndp (if 0 <=? ex then c * 10 ^ ex else c) (if 0 <=? ex then 1 else 10 ^ (- ex)).
Proof. reflexivity. Qed.

Theorem nearest_double_significand c ex :
  0 < c -> 2 ^ 52 <= fst (nearest_double_pos c ex) <= 2 ^ 53.
Proof.
  intro C. rewrite nearest_double_pos_ndp. apply ndp_significand.
  - destruct (Z.leb_spec 0 ex); [|lia].
    assert (0 < 10 ^ ex) by (apply Z.pow_pos_nonneg; lia). nia.
  - destruct (Z.leb_spec 0 ex); [lia|].
    assert (0 < 10 ^ (- ex)) by (apply Z.pow_pos_nonneg; lia). lia.
Qed.

(** Correct rounding for ALL positive decimals whose result is in the normal exponent range. *)
Theorem nearest_double_correct c ex :
  0 < c ->
  -1074 <= snd (nearest_double_pos c ex) <= 970 ->
  nearest_spec c ex (fst (nearest_double_pos c ex)) (snd (nearest_double_pos c ex)).
Proof.
  intros C E. pose proof (nearest_double_significand c ex C) as S.
  apply nearest_double_pos_spec.
  - unfold normal_ok. destruct (nearest_double_pos c ex) as [m e]. cbn [fst snd] in *.
    rewrite Z.abs_eq by lia. rewrite !andb_true_iff, !Z.leb_le. lia.
  - lia.
Qed.
