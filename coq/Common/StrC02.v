(** ASCII string helpers modelling the [str] methods used by physical_constants/context.py
    ([lower], [translate] with a maketrans table, [replace] of single characters) on ASCII text.
    Bytes >= 128 are left unchanged (non-ASCII text is outside the modelled domain). *)
From Coq Require Import NArith List String Ascii Bool.
Import ListNotations.

Definition lower_ascii (c : ascii) : ascii :=
  let n := N_of_ascii c in
  if (65 <=? n)%N && (n <=? 90)%N then ascii_of_N (n + 32) else c.

Definition upper_ascii (c : ascii) : ascii :=
  let n := N_of_ascii c in
  if (97 <=? n)%N && (n <=? 122)%N then ascii_of_N (n - 32) else c.

Fixpoint smap (f : ascii -> ascii) (s : string) : string :=
  match s with
  | EmptyString => EmptyString
  | String c r => String (f c) (smap f r)
  end.

Definition lower (s : string) : string := smap lower_ascii s.     (* str.lower() *)
Definition upper (s : string) : string := smap upper_ascii s.     (* str.upper() *)

(* two strings that differ at most in the case of their ASCII letters *)
Fixpoint same_mod_case (s t : string) : Prop :=
  match s, t with
  | EmptyString, EmptyString => True
  | String a r, String b r' => lower_ascii a = lower_ascii b /\ same_mod_case r r'
  | _, _ => False
  end.

Fixpoint mem_ascii (c : ascii) (s : string) : bool :=
  match s with
  | EmptyString => false
  | String d r => Ascii.eqb c d || mem_ascii c r
  end.

(* remove every occurrence of the characters of [dels] *)
Fixpoint remove_chars (dels : string) (s : string) : string :=
  match s with
  | EmptyString => EmptyString
  | String c r => if mem_ascii c dels then remove_chars dels r else String c (remove_chars dels r)
  end.

(* the mapping part of str.maketrans(from, to): first... Python builds a dict, so the LAST
   occurrence of a character in [from] wins; we look up accordingly. *)
Fixpoint trans_lookup (c : ascii) (from to : string) (cur : option ascii) : option ascii :=
  match from, to with
  | String f fr, String t tr => trans_lookup c fr tr (if Ascii.eqb c f then Some t else cur)
  | _, _ => cur
  end.

(* s.translate(str.maketrans(from, to, del)): characters of [del] are deleted (the deletion
   entries are written into the table last, so they take precedence), others mapped. *)
Fixpoint translate (from to del : string) (s : string) : string :=
  match s with
  | EmptyString => EmptyString
  | String c r =>
      if mem_ascii c del then translate from to del r
      else String (match trans_lookup c from to None with Some t => t | None => c end)
                  (translate from to del r)
  end.

(* remove every occurrence of the substring "..." *)
Fixpoint remove_ellipsis (s : string) : string :=
  match s with
  | String "."%char (String "."%char (String "."%char r)) => remove_ellipsis r
  | String c r => String c (remove_ellipsis r)
  | EmptyString => EmptyString
  end.
