(** Round-to-nearest-even of an exact decimal  c * 10^ex  to a binary64 significand/exponent pair (m, e),
    value m * 2^e, in pure integer arithmetic (no floats, no axioms).
    [rne num den] is the integer nearest to num/den, ties to even — proved for ALL num, den > 0.
    [nearest_double] picks the exponent so that the significand has 53 bits and rounds there; that the
    significand really lands in [2^52, 2^53] and the exponent in the normal range is *checked* per value
    by [normal_ok] (a theorem over a finite table then evaluates it), not proved in general. *)
From Coq Require Import ZArith Bool Lia.
Open Scope Z_scope.

Definition rne (num den : Z) : Z :=
  let q := num / den in
  let r := num mod den in
  if 2 * r <? den then q
  else if den <? 2 * r then q + 1
  else if Z.even q then q else q + 1.

Lemma rne_spec num den :
  0 < den ->
  2 * Z.abs (num - rne num den * den) <= den /\
  (2 * Z.abs (num - rne num den * den) = den -> Z.even (rne num den) = true).
Proof.
  intro D. unfold rne.
  pose proof (Z.div_mod num den ltac:(lia)) as E.
  pose proof (Z.mod_pos_bound num den D) as B.
  set (q := num / den) in *. set (r := num mod den) in *.
  destruct (Z.ltb_spec (2 * r) den) as [L|L].
  - replace (num - q * den) with r by lia. rewrite Z.abs_eq by lia. split; [lia|lia].
  - destruct (Z.ltb_spec den (2 * r)) as [G|G].
    + replace (num - (q + 1) * den) with (r - den) by lia. rewrite Z.abs_neq by lia. split; [lia|lia].
    + assert (T : 2 * r = den) by lia.
      destruct (Z.even q) eqn:Ev.
      * replace (num - q * den) with r by lia. rewrite Z.abs_eq by lia. split; [lia|intros _; exact Ev].
      * replace (num - (q + 1) * den) with (r - den) by lia. rewrite Z.abs_neq by lia. split; [lia|].
        intros _. rewrite Z.even_add, Ev. reflexivity.
Qed.

(** num/den = c * 10^ex / 2^e, with positive denominators *)
Definition scaled (c ex e : Z) : Z * Z :=
  let num0 := if 0 <=? ex then c * 10 ^ ex else c in
  let den0 := if 0 <=? ex then 1 else 10 ^ (- ex) in
  if 0 <=? e then (num0, den0 * 2 ^ e) else (num0 * 2 ^ (- e), den0).

Lemma scaled_den_pos c ex e : 0 < snd (scaled c ex e).
Proof.
  unfold scaled.
  assert (D0 : 0 < (if 0 <=? ex then 1 else 10 ^ (- ex))).
  { destruct (Z.leb_spec 0 ex); [lia|]. apply Z.pow_pos_nonneg; lia. }
  destruct (Z.leb_spec 0 e); simpl; [|exact D0].
  apply Z.mul_pos_pos; [exact D0|]. apply Z.pow_pos_nonneg; lia.
Qed.

(** for c > 0 *)
Definition nearest_double_pos (c ex : Z) : Z * Z :=
  let num0 := if 0 <=? ex then c * 10 ^ ex else c in
  let den0 := if 0 <=? ex then 1 else 10 ^ (- ex) in
  let e0 := Z.log2 num0 - Z.log2 den0 - 52 in
  let q0 := fst (scaled c ex e0) / snd (scaled c ex e0) in
  let e := if q0 <? 2 ^ 52 then e0 - 1 else if 2 ^ 53 <=? q0 then e0 + 1 else e0 in
  (rne (fst (scaled c ex e)) (snd (scaled c ex e)), e).

(** signed; zero is (0, 0) *)
Definition nearest_double (d : Z * Z) : Z * Z :=
  let (c, ex) := d in
  if c =? 0 then (0, 0)
  else if 0 <? c then nearest_double_pos c ex
  else let (m, e) := nearest_double_pos (- c) ex in (- m, e).

(** the result is a normal binary64: 53-bit significand (2^53 itself = the next power of two), exponent range *)
Definition normal_ok (me : Z * Z) : bool :=
  let (m, e) := me in
  (2 ^ 52 <=? Z.abs m) && (Z.abs m <=? 2 ^ 53) && (-1074 <=? e) && (e <=? 970).

(** equality of the values m1*2^e1 and m2*2^e2 *)
Definition float_eqb (a b : Z * Z) : bool :=
  let mn := Z.min (snd a) (snd b) in
  fst a * 2 ^ (snd a - mn) =? fst b * 2 ^ (snd b - mn).

(** what "m * 2^e is the double nearest to c * 10^ex (ties to even)" means, c > 0 *)
Definition nearest_spec (c ex m e : Z) : Prop :=
  let num := fst (scaled c ex e) in
  let den := snd (scaled c ex e) in
  0 < den /\ 2 ^ 52 <= m <= 2 ^ 53 /\ -1074 <= e <= 970 /\
  2 * Z.abs (num - m * den) <= den /\
  (2 * Z.abs (num - m * den) = den -> Z.even m = true).

Lemma nearest_double_pos_spec c ex :
  normal_ok (nearest_double_pos c ex) = true ->
  0 <= fst (nearest_double_pos c ex) ->
  nearest_spec c ex (fst (nearest_double_pos c ex)) (snd (nearest_double_pos c ex)).
Proof.
  intros N P. unfold nearest_spec.
  unfold nearest_double_pos in *. cbv zeta in *. cbn [fst snd] in *.
  set (e := if _ <? 2 ^ 52 then _ else _) in *.
  pose proof (scaled_den_pos c ex e) as D.
  destruct (rne_spec (fst (scaled c ex e)) (snd (scaled c ex e)) D) as [R1 R2].
  unfold normal_ok in N. rewrite !andb_true_iff, !Z.leb_le in N.
  rewrite Z.abs_eq in N by exact P.
  repeat split; try lia; assumption.
Qed.
