(** JSON values and a JSON-Schema (draft-04) validator for exactly the keywords that the six
    schemas exported by QCElemental use (C09).  Definitions only; lemmas are in Proofs/JsonS.v.

    Numbers: JSON distinguishes (as Python's json module and draft-04's "integer" do) integer
    literals [JInt] from literals with a fraction/exponent [JFloat]; the payload of [JFloat] is the
    exact rational value of the binary64 number, so every comparison below is exact.

    A schema object is the conjunction [SAll] of its validating keywords (annotations: title,
    description, default, units, shape, $schema are dropped by the translator; any keyword that is
    not listed here makes the translator fail closed).  [properties] and [additionalProperties]
    interact and are therefore one constructor [SObj]. *)
From Coq Require Import ZArith NArith QArith List String Bool.
Require Import QV.Common.Outcome.
Import ListNotations.
Open Scope string_scope.

Inductive json :=
| JNull
| JBool (b : bool)
| JInt (z : Z)
| JFloat (q : Q)
| JStr (s : string)
| JArr (l : list json)
| JObj (o : list (string * json)).

Inductive jtype := TyNull | TyBoolean | TyInteger | TyNumber | TyString | TyArray | TyObject.

Inductive schema :=
| SAll (l : list schema)                      (* a schema object / allOf *)
| SAnyOf (l : list schema)                    (* anyOf; [SAnyOf []] is the false schema *)
| SRef (name : string)                        (* "$ref": "#/definitions/<name>" *)
| SType (t : jtype)
| SEnum (vs : list json)
| SPattern (alts : list string)               (* "^(a|b|..)$" expanded to its finite language *)
| SObj (props : list (string * schema)) (addl : option schema)
| SRequired (rs : list string)
| SItems (s : schema)
| SItemsTuple (ss : list schema)              (* items as a list, no additionalItems *)
| SMinItems (n : N)
| SMaxItems (n : N)
| SUnique                                     (* "uniqueItems": true *)
| SMin (q : Q) (excl : bool)                  (* minimum (+ exclusiveMinimum) *)
| SMax (q : Q) (excl : bool)
| SMultipleOf (q : Q).

Definition SFalse : schema := SAnyOf [].

Fixpoint assoc {A} (k : string) (l : list (string * A)) : option A :=
  match l with
  | [] => None
  | (k', v) :: r => if String.eqb k k' then Some v else assoc k r
  end.

Definition has_key {A} (k : string) (l : list (string * A)) : bool :=
  existsb (fun kv => String.eqb k (fst kv)) l.

(** ** JSON equality as JSON Schema defines it (numbers by value, objects as maps). *)
Definition q_is_int (q : Q) : bool := (Qnum q mod Zpos (Qden q) =? 0)%Z.

Fixpoint json_eqb (a b : json) {struct a} : bool :=
  match a, b with
  | JNull, JNull => true
  | JBool x, JBool y => Bool.eqb x y
  | JInt x, JInt y => Z.eqb x y
  | JInt x, JFloat y => Qeq_bool (inject_Z x) y
  | JFloat x, JInt y => Qeq_bool x (inject_Z y)
  | JFloat x, JFloat y => Qeq_bool x y
  | JStr x, JStr y => String.eqb x y
  | JArr l, JArr m =>
      (fix go (l m : list json) {struct l} : bool :=
         match l, m with
         | [], [] => true
         | x :: l', y :: m' => json_eqb x y && go l' m'
         | _, _ => false
         end) l m
  | JObj o, JObj p =>
      Nat.eqb (List.length o) (List.length p) &&
      (fix go (o : list (string * json)) {struct o} : bool :=
         match o with
         | [] => true
         | (k, v) :: o' => match assoc k p with Some w => json_eqb v w | None => false end && go o'
         end) o
  | _, _ => false
  end.

(** exact structural equality (used to compare the modelled emission with the emitted text) *)
Fixpoint json_same (a b : json) {struct a} : bool :=
  match a, b with
  | JNull, JNull => true
  | JBool x, JBool y => Bool.eqb x y
  | JInt x, JInt y => Z.eqb x y
  | JFloat x, JFloat y => Qeq_bool x y
  | JStr x, JStr y => String.eqb x y
  | JArr l, JArr m =>
      (fix go (l m : list json) {struct l} : bool :=
         match l, m with
         | [], [] => true
         | x :: l', y :: m' => json_same x y && go l' m'
         | _, _ => false
         end) l m
  | JObj o, JObj p =>
      (fix go (o p : list (string * json)) {struct o} : bool :=
         match o, p with
         | [], [] => true
         | (k, v) :: o', (k', w) :: p' => String.eqb k k' && json_same v w && go o' p'
         | _, _ => false
         end) o p
  | _, _ => false
  end.

Fixpoint uniqueb (l : list json) : bool :=
  match l with
  | [] => true
  | x :: r => negb (existsb (json_eqb x) r) && uniqueb r
  end.

(** ** Leaf keywords *)
Definition has_type (t : jtype) (j : json) : bool :=
  match t, j with
  | TyNull, JNull => true
  | TyBoolean, JBool _ => true
  | TyInteger, JInt _ => true                 (* draft-04: 1.0 is not an integer *)
  | TyNumber, JInt _ => true
  | TyNumber, JFloat _ => true
  | TyString, JStr _ => true
  | TyArray, JArr _ => true
  | TyObject, JObj _ => true
  | _, _ => false
  end.

Definition num_of (j : json) : option Q :=
  match j with JInt z => Some (inject_Z z) | JFloat q => Some q | _ => None end.

Definition q_ge (x q : Q) (excl : bool) : bool :=
  if excl then negb (Qle_bool x q) else Qle_bool q x.
Definition q_le (x q : Q) (excl : bool) : bool :=
  if excl then negb (Qle_bool q x) else Qle_bool x q.

Definition is_arr (j : json) : bool := match j with JArr _ => true | _ => false end.
Definition is_obj (j : json) : bool := match j with JObj _ => true | _ => false end.

Definition leaf_check (S : schema) (j : json) : bool :=
  match S with
  | SType t => has_type t j
  | SEnum vs => existsb (json_eqb j) vs
  | SPattern alts => match j with JStr s => existsb (String.eqb s) alts | _ => true end
  | SRequired rs => match j with JObj o => forallb (fun r => has_key r o) rs | _ => true end
  | SMinItems n => match j with JArr l => (n <=? N.of_nat (List.length l))%N | _ => true end
  | SMaxItems n => match j with JArr l => (N.of_nat (List.length l) <=? n)%N | _ => true end
  | SUnique => match j with JArr l => uniqueb l | _ => true end
  | SMin q e => match num_of j with Some x => q_ge x q e | None => true end
  | SMax q e => match num_of j with Some x => q_le x q e | None => true end
  | SMultipleOf q => match num_of j with Some x => q_is_int (x / q) | None => true end
  | _ => false
  end.

(** which sub-schema (if any) constrains the member named [k] of an object *)
Definition entry_schema (ps : list (string * schema)) (ap : option schema) (k : string) : option schema :=
  match assoc k ps with Some s => Some s | None => ap end.

Definition defs_t := list (string * schema).

(** ** The specification: validity as a relation (no fuel). *)
Inductive Valid (defs : defs_t) : schema -> json -> Prop :=
| V_all : forall l j, (forall s, In s l -> Valid defs s j) -> Valid defs (SAll l) j
| V_any : forall l s j, In s l -> Valid defs s j -> Valid defs (SAnyOf l) j
| V_ref : forall name s j, assoc name defs = Some s -> Valid defs s j -> Valid defs (SRef name) j
| V_obj : forall ps ap o,
    (forall k v s, In (k, v) o -> entry_schema ps ap k = Some s -> Valid defs s v) ->
    Valid defs (SObj ps ap) (JObj o)
| V_obj_other : forall ps ap j, is_obj j = false -> Valid defs (SObj ps ap) j
| V_items : forall s l, (forall x, In x l -> Valid defs s x) -> Valid defs (SItems s) (JArr l)
| V_items_other : forall s j, is_arr j = false -> Valid defs (SItems s) j
| V_tuple : forall ss l, (forall s x, In (s, x) (combine ss l) -> Valid defs s x) ->
                         Valid defs (SItemsTuple ss) (JArr l)
| V_tuple_other : forall ss j, is_arr j = false -> Valid defs (SItemsTuple ss) j
| V_leaf : forall S j, leaf_check S j = true -> Valid defs S j.

(** ** The executable validator (fuel decreases at every recursive call; running out of fuel or an
    unresolvable $ref is an error, never a verdict). *)
Fixpoint all_o (l : list (outcome bool)) : outcome bool :=
  match l with
  | [] => Ok true
  | x :: r => match x, all_o r with
              | Ok a, Ok b => Ok (a && b)
              | Err k, _ => Err k
              | _, Err k => Err k
              end
  end.

Fixpoint any_o (l : list (outcome bool)) : outcome bool :=
  match l with
  | [] => Ok false
  | x :: r => match x, any_o r with
              | Ok a, Ok b => Ok (a || b)
              | Err k, _ => Err k
              | _, Err k => Err k
              end
  end.

Fixpoint validates (n : nat) (defs : defs_t) (S : schema) (j : json) {struct n} : outcome bool :=
  match n with
  | O => Err OutOfFuel
  | S n' =>
      match S with
      | SAll l => all_o (map (fun s => validates n' defs s j) l)
      | SAnyOf l => any_o (map (fun s => validates n' defs s j) l)
      | SRef name => match assoc name defs with
                     | Some s => validates n' defs s j
                     | None => Err PyKeyError
                     end
      | SObj ps ap =>
          match j with
          | JObj o => all_o (map (fun kv => match entry_schema ps ap (fst kv) with
                                            | Some s => validates n' defs s (snd kv)
                                            | None => Ok true
                                            end) o)
          | _ => Ok true
          end
      | SItems s => match j with
                    | JArr l => all_o (map (fun x => validates n' defs s x) l)
                    | _ => Ok true
                    end
      | SItemsTuple ss => match j with
                          | JArr l => all_o (map (fun sx => validates n' defs (fst sx) (snd sx)) (combine ss l))
                          | _ => Ok true
                          end
      | _ => Ok (leaf_check S j)
      end
  end.

(** the schema with every "uniqueItems" removed (used to state conformance modulo the known finding) *)
Fixpoint strip_unique (S : schema) : schema :=
  match S with
  | SAll l => SAll (map strip_unique l)
  | SAnyOf l => SAnyOf (map strip_unique l)
  | SObj ps ap => SObj (map (fun ks => (fst ks, strip_unique (snd ks))) ps)
                       (match ap with Some s => Some (strip_unique s) | None => None end)
  | SItems s => SItems (strip_unique s)
  | SItemsTuple ss => SItemsTuple (map strip_unique ss)
  | SUnique => SAll []
  | _ => S
  end.
Definition strip_defs (d : defs_t) : defs_t := map (fun ks => (fst ks, strip_unique (snd ks))) d.

Definition default_fuel : nat := 64.
