(** ASCII text helpers shared by the writer model (C08) and the text-parser model (C07):
    the CPython [str] methods the two modules use (lower/upper/capitalize, strip/rstrip,
    split("\n"), join, format-spec padding), decimal printing of integers, string order.
    Domain: all characters < 128 (non-ASCII text is outside the modelled domain). *)
From Coq Require Import ZArith NArith List String Ascii Bool Lia DecimalString.
Import ListNotations.
Open Scope Z_scope.

(* ------------------------------------------------------------------------------------------ *)
(** * characters *)
Definition ch (n : N) : ascii := ascii_of_N n.
Definition code (c : ascii) : N := N_of_ascii c.

Definition c_is_upper (c : ascii) : bool := (N.leb 65 (code c)) && (N.leb (code c) 90).
Definition c_is_lower (c : ascii) : bool := (N.leb 97 (code c)) && (N.leb (code c) 122).
Definition c_is_alpha (c : ascii) : bool := c_is_upper c || c_is_lower c.
Definition c_is_digit (c : ascii) : bool := (N.leb 48 (code c)) && (N.leb (code c) 57).
(** [\w] on ASCII *)
Definition c_is_word (c : ascii) : bool := c_is_alpha c || c_is_digit c || N.eqb (code c) 95.
(** [str.isspace] / regex [\s] (str patterns) on ASCII: 9-13, 28-31, 32 *)
Definition c_is_space (c : ascii) : bool :=
  let n := code c in
  ((N.leb 9 n) && (N.leb n 13)) || ((N.leb 28 n) && (N.leb n 32)).
Definition c_lower (c : ascii) : ascii := if c_is_upper c then ch (code c + 32) else c.
Definition c_upper (c : ascii) : ascii := if c_is_lower c then ch (code c - 32) else c.

Definition c_eqb (a b : ascii) : bool := Ascii.eqb a b.

(* ------------------------------------------------------------------------------------------ *)
(** * str methods *)
Fixpoint s_lower (s : string) : string :=
  match s with EmptyString => EmptyString | String c r => String (c_lower c) (s_lower r) end.
Fixpoint s_upper (s : string) : string :=
  match s with EmptyString => EmptyString | String c r => String (c_upper c) (s_upper r) end.
Definition s_capitalize (s : string) : string :=
  match s with EmptyString => EmptyString | String c r => String (c_upper c) (s_lower r) end.

Fixpoint s_lstrip (s : string) : string :=
  match s with
  | EmptyString => EmptyString
  | String c r => if c_is_space c then s_lstrip r else s
  end.
(** rstrip: drop the trailing white space (one pass, right to left) *)
Fixpoint s_rstrip (s : string) : string :=
  match s with
  | EmptyString => EmptyString
  | String c r =>
      match s_rstrip r with
      | EmptyString => if c_is_space c then EmptyString else String c EmptyString
      | r' => String c r'
      end
  end.
Definition s_strip (s : string) : string := s_rstrip (s_lstrip s).

(** str.split(sep) for a one-character separator: always at least one piece *)
Fixpoint s_split (sep : ascii) (s : string) : list string :=
  match s with
  | EmptyString => [EmptyString]
  | String c r =>
      if c_eqb c sep then EmptyString :: s_split sep r
      else match s_split sep r with
           | [] => [String c EmptyString]          (* unreachable *)
           | p :: ps => String c p :: ps
           end
  end.

Fixpoint s_join (sep : string) (l : list string) : string :=
  match l with
  | [] => EmptyString
  | [x] => x
  | x :: r => (x ++ sep ++ s_join sep r)%string
  end.

Fixpoint s_repeat (c : ascii) (n : nat) : string :=
  match n with O => EmptyString | S k => String c (s_repeat c k) end.
Definition sp : ascii := ch 32.
Definition nl : ascii := ch 10.
(** "{:{w}}" / "{:<w}" on str: pad on the right; "{:>w}": pad on the left. Never truncates. *)
Definition pad_right (w : nat) (s : string) : string := (s ++ s_repeat sp (w - String.length s))%string.
Definition pad_left (w : nat) (s : string) : string := (s_repeat sp (w - String.length s) ++ s)%string.

Definition s_eqb (a b : string) : bool := String.eqb a b.

(** lexicographic order by code point (Python str comparison on ASCII) *)
Fixpoint s_leb (a b : string) : bool :=
  match a, b with
  | EmptyString, _ => true
  | String _ _, EmptyString => false
  | String x a', String y b' =>
      if N.ltb (code x) (code y) then true
      else if N.ltb (code y) (code x) then false
      else s_leb a' b'
  end.

Fixpoint s_all (p : ascii -> bool) (s : string) : bool :=
  match s with EmptyString => true | String c r => p c && s_all p r end.
Fixpoint s_any (p : ascii -> bool) (s : string) : bool :=
  match s with EmptyString => false | String c r => p c || s_any p r end.

Fixpoint s_prefix (p s : string) : bool :=
  match p, s with
  | EmptyString, _ => true
  | String a p', String b s' => c_eqb a b && s_prefix p' s'
  | _, _ => false
  end.
Fixpoint s_drop (n : nat) (s : string) : string :=
  match n, s with
  | O, _ => s
  | S k, String _ r => s_drop k r
  | S _, EmptyString => EmptyString
  end.
Fixpoint s_take (n : nat) (s : string) : string :=
  match n, s with
  | O, _ => EmptyString
  | S k, String c r => String c (s_take k r)
  | S _, EmptyString => EmptyString
  end.

(* ------------------------------------------------------------------------------------------ *)
(** * integers as decimal text: str(int) *)
Definition dec_of_nonneg (z : Z) : string := NilZero.string_of_uint (N.to_uint (Z.to_N z)).
Definition dec_of_Z (z : Z) : string :=
  if z <? 0 then String (ch 45) (dec_of_nonneg (- z)) else dec_of_nonneg z.

(** value of a run of decimal digits (None if empty or a non-digit occurs) *)
Definition digits_val (s : string) : option Z :=
  match s with
  | EmptyString => None
  | _ => match NilEmpty.uint_of_string s with Some u => Some (Z.of_N (N.of_uint u)) | None => None end
  end.

(** Python list slicing helpers on lists *)
Definition slice {A} (l : list A) (a b : nat) : list A := firstn (b - a) (skipn a l).
