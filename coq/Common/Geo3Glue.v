(** Geo3Glue — result type of the translated len(m) -> kernel dispatch of measure_coordinates (C18). *)
From Coq Require Import List ZArith.
Require Import QV.Common.Outcome.
Inductive dispatch :=
| DDistance (passes_degrees : bool) | DAngle (passes_degrees : bool) | DDihedral (passes_degrees : bool)
| DErr (k : ekind).

(** argument and result of measure_coordinates: one measurement (a list of indices; the value is returned bare) or a list of
    measurements (a list of values is returned) *)
Inductive measurements := MOne (m : list Z) | MMany (ms : list (list Z)).
Inductive mresult (V : Type) := ROne (v : V) | RMany (vs : list V).
Arguments ROne {V} v. Arguments RMany {V} vs.
