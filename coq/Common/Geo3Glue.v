(** Geo3Glue — result type of the translated len(m) -> kernel dispatch of measure_coordinates (C18). *)
Require Import QV.Common.Outcome.
Inductive dispatch :=
| DDistance (passes_degrees : bool) | DAngle (passes_degrees : bool) | DDihedral (passes_degrees : bool)
| DErr (k : ekind).
