(** Geo3Np — the few numpy array operations used by qcelemental.util.misc.compute_distance /
    compute_angle / compute_dihedral, with numpy's shapes and broadcasting rules, over an abstract
    field (C18).  The generated file Gen/Dihedral.v is written in terms of these.

    Modelled shapes: scalars [A0], 1-D arrays [A1], 2-D arrays with three columns [A2]
    (rows are [vec3]) and 2-D arrays with one column [Ac] (what [a[:, None]] makes of a 1-D array).  Broadcasting follows numpy: trailing axes are aligned, extent 1 stretches,
    anything else raises ValueError ([Err PyValueError]).  Arrays whose last axis is not 3 where a
    point is expected are outside the model ([Err OutOfFuel]).  Floating-point rounding, inf and nan
    are not modelled: the field is exact. *)
From Coq Require Import List Bool ZArith.
Require Import QV.Common.Outcome QV.Common.Geo3.
Import ListNotations.

Notation "x <- e ;; f" := (obind e (fun x => f)) (at level 61, e at next level, right associativity).

Fixpoint map2 {A B C} (f : A -> B -> C) (la : list A) (lb : list B) : list C :=
  match la, lb with
  | a :: ra, b :: rb => f a b :: map2 f ra rb
  | _, _ => []
  end.

(** elementwise combination of two axes of extents |la| and |lb| under numpy broadcasting *)
Definition bzip {A B C} (f : A -> B -> C) (la : list A) (lb : list B) : outcome (list C) :=
  if Nat.eqb (length la) (length lb) then Ok (map2 f la lb)
  else match la, lb with
       | [a], _ => Ok (map (f a) lb)
       | _, [b] => Ok (map (fun a => f a b) la)
       | _, _ => Err PyValueError
       end.

Section Np.
  Variable K : Fops.

  Inductive arr := A0 (c : K) | A1 (l : list K) | A2 (m : list (vec3 K)) | Ac (l : list K).

  Definition np_atleast_2d (a : arr) : outcome arr :=
    match a with
    | A1 [x; y; z] => Ok (A2 [(x, y, z)])
    | A2 m => Ok (A2 m)
    | _ => Err OutOfFuel           (* last axis is not 3: outside the model *)
    end.

  (** a binary ufunc [op] applied to two arrays *)
  Definition np_bin (op : K -> K -> K) (a b : arr) : outcome arr :=
    match a, b with
    | A0 c, A0 d => Ok (A0 (op c d))
    | A0 c, A1 l => Ok (A1 (map (op c) l))
    | A1 l, A0 d => Ok (A1 (map (fun x => op x d) l))
    | A0 c, A2 m => Ok (A2 (map (vmap (op c)) m))
    | A2 m, A0 d => Ok (A2 (map (vmap (fun x => op x d)) m))
    | A1 l, A1 l' => r <- bzip op l l' ;; Ok (A1 r)
    | A1 l, A2 m =>
        match l with
        | [c] => Ok (A2 (map (vmap (op c)) m))
        | [c0; c1; c2] => Ok (A2 (map (vzip op (c0, c1, c2)) m))      (* aligned with the columns! *)
        | _ => Err PyValueError
        end
    | A2 m, A1 l =>
        match l with
        | [d] => Ok (A2 (map (vmap (fun x => op x d)) m))
        | [d0; d1; d2] => Ok (A2 (map (fun r => vzip op r (d0, d1, d2)) m))
        | _ => Err PyValueError
        end
    | A2 m, A2 m' => r <- bzip (vzip op) m m' ;; Ok (A2 r)
    (* (n,1) against (m,3): the rows are aligned, the single column stretches over the three *)
    | Ac l, A2 m => r <- bzip (fun c row => vmap (op c) row) l m ;; Ok (A2 r)
    | A2 m, Ac l => r <- bzip (fun row d => vmap (fun x => op x d) row) m l ;; Ok (A2 r)
    | A0 c, Ac l => Ok (Ac (map (op c) l))
    | Ac l, A0 d => Ok (Ac (map (fun x => op x d) l))
    | Ac l, Ac l' => r <- bzip op l l' ;; Ok (Ac r)
    | Ac _, A1 _ | A1 _, Ac _ => Err OutOfFuel      (* (n,1) with (m,) gives an (n,m) matrix: outside the model *)
    end.

  (** a[:, None] on a 1-D array: shape (n,) -> (n,1) *)
  Definition np_col (a : arr) : outcome arr :=
    match a with
    | A1 l => Ok (Ac l)
    | A0 _ => Err PyIndexError       (* too many indices for a 0-d array *)
    | _ => Err OutOfFuel             (* would be 3-D: outside the model *)
    end.

  Definition np_add := np_bin (fadd K).
  Definition np_sub := np_bin (fsub K).
  Definition np_mul := np_bin (fmul K).
  Definition np_div := np_bin (fdiv K).

  Definition np_un (f : K -> K) (a : arr) : arr :=
    match a with
    | A0 c => A0 (f c)
    | A1 l => A1 (map f l)
    | A2 m => A2 (map (vmap f) m)
    | Ac l => Ac (map f l)
    end.
  Definition np_neg (a : arr) : outcome arr := Ok (np_un (fopp K) a).
  Definition np_sqrt (a : arr) : outcome arr := Ok (np_un (fsqrt K) a).
  Definition np_arccos (a : arr) : outcome arr := Ok (np_un (facos K) a).

  (** np.einsum("ij,ij->i", a, b): row-wise dot products of two 2-D arrays *)
  Definition np_einsum_ij_ij_i (a b : arr) : outcome arr :=
    match a, b with
    | A2 m, A2 m' => r <- bzip vdot m m' ;; Ok (A1 r)
    | _, _ => Err PyValueError
    end.

  (** np.cross on two 2-D arrays of 3-vectors (row-wise) *)
  Definition np_cross (a b : arr) : outcome arr :=
    match a, b with
    | A2 m, A2 m' => r <- bzip vcross m m' ;; Ok (A2 r)
    | _, _ => Err OutOfFuel
    end.

  Definition clip1 (lo hi x : K) : K := if fltb K x lo then lo else if fltb K hi x then hi else x.
  Definition np_clip (a lo hi : arr) : outcome arr :=
    match lo, hi with
    | A0 l, A0 h => Ok (np_un (clip1 l h) a)
    | _, _ => Err OutOfFuel
    end.

  Definition np_arctan2 (y x : arr) : outcome arr :=
    match y, x with
    | A1 ly, A1 lx => r <- bzip (fatan2 K) ly lx ;; Ok (A1 r)
    | A0 cy, A0 cx => Ok (A0 (fatan2 K cy cx))
    | _, _ => Err OutOfFuel
    end.

  (** np.degrees(a) = a * 180 / pi *)
  Definition deg1 (x : K) : K := fdiv K (fmul K x (fofZ K 180)) (fpi K).
  Definition np_degrees (a : arr) : outcome arr := Ok (np_un deg1 a).

  (** a[0] of a 1-D array *)
  Definition arr_first (a : arr) : outcome K :=
    match a with
    | A1 (x :: _) => Ok x
    | A1 [] => Err PyIndexError
    | _ => Err OutOfFuel
    end.
End Np.

Arguments A0 {K} c. Arguments A1 {K} l. Arguments A2 {K} m. Arguments Ac {K} l.
