(** numpy.around at the binary64 level (C11): around(x, n) = rint(fl(x * 10^n)) / 10^n where fl is the IEEE-754
    round-to-nearest-even of the exact product.  Two facts about fl suffice to say exactly when this agrees with
    exact round-half-even of x * 10^n: fl is monotone and leaves (representable) half-integers alone.  [fl64] is an
    executable integer-only model of that rounding, compared with the machine's multiplication on every run. *)
From Coq Require Import ZArith QArith Qabs Lia Lqa Bool.
Require Import QV.Common.HFRound.
Open Scope Q_scope.

Definition rint (s : Q) : Z := round_n 0 s.                       (* numpy.rint: nearest integer, ties to even *)
Definition is_half (s : Q) : Prop := exists j : Z, s == inject_Z j + (1 # 2).

Lemma scaled0 s : scaled 0 s == s.
Proof. unfold scaled, pow10. simpl. ring. Qed.

Lemma rint_bounds s : inject_Z (rint s) - (1 # 2) <= s <= inject_Z (rint s) + (1 # 2).
Proof. pose proof (round_n_bounds 0 s ltac:(lia)) as H. rewrite scaled0 in H. exact H. Qed.

Lemma rint_unique s k : inject_Z k - (1 # 2) < s -> s < inject_Z k + (1 # 2) -> rint s = k.
Proof. intros H1 H2. apply round_n_unique; [lia| |]; rewrite scaled0; assumption. Qed.

Section Around.
  Variable fl : Q -> Q.
  Variable B : Z.                                                  (* half-integers up to B are representable: 2^52 for binary64 *)
  Hypothesis fl_mono : forall a b, a <= b -> fl a <= fl b.
  Hypothesis fl_half : forall j : Z, (Z.abs j <= B)%Z -> fl (inject_Z j + (1 # 2)) == inject_Z j + (1 # 2).

  (** rint of the rounded product is the exact half-even rounding of the product, unless the rounded product is a
      half-integer (and then the exact product is within one rounding error of that tie) *)
  Theorem rint_fl_exact s : Qabs s <= inject_Z (B - 2) -> ~ is_half (fl s) -> rint (fl s) = rint s.
  Proof.
    intros Hs NH. pose proof (rint_bounds s) as [L U]. set (k := rint s) in *.
    assert (Kb : (Z.abs k <= B - 1)%Z).
    { apply Qabs_Qle_condition in Hs. destruct Hs as [S1 S2].
      assert (E : inject_Z (B - 1) == inject_Z (B - 2) + 1) by (unfold Zminus; rewrite !inject_Z_plus; simpl; ring).
      assert (X1 : inject_Z k < inject_Z (B - 1)) by (rewrite E; set (K := inject_Z k) in *; set (BB := inject_Z (B - 2)) in *; lra).
      assert (E' : inject_Z (- (B - 1)) == - inject_Z (B - 2) - 1) by (rewrite inject_Z_opp, E; ring).
      assert (X2 : inject_Z (- (B - 1)) < inject_Z k) by (rewrite E'; set (K := inject_Z k) in *; set (BB := inject_Z (B - 2)) in *; lra).
      rewrite <- Zlt_Qlt in X1, X2. lia. }
    assert (E1 : inject_Z k - (1 # 2) == inject_Z (k - 1) + (1 # 2)) by (unfold Zminus; rewrite inject_Z_plus; simpl; ring).
    assert (F1 : fl (inject_Z (k - 1) + (1 # 2)) == inject_Z (k - 1) + (1 # 2)) by (apply fl_half; lia).
    assert (F2 : fl (inject_Z k + (1 # 2)) == inject_Z k + (1 # 2)) by (apply fl_half; lia).
    assert (M1 : inject_Z k - (1 # 2) <= fl s).
    { rewrite E1, <- F1. apply fl_mono. rewrite <- E1. exact L. }
    assert (M2 : fl s <= inject_Z k + (1 # 2)).
    { rewrite <- F2. apply fl_mono. exact U. }
    apply rint_unique.
    - destruct (Qlt_le_dec (inject_Z k - (1 # 2)) (fl s)) as [H|H]; [exact H|]. exfalso. apply NH.
      exists (k - 1)%Z. rewrite <- E1. apply Qle_antisym; assumption.
    - destruct (Qlt_le_dec (fl s) (inject_Z k + (1 # 2))) as [H|H]; [exact H|]. exfalso. apply NH.
      exists k. apply Qle_antisym; assumption.
  Qed.

  (** quantitatively: with relative rounding error at most u (2^-53), a product that is farther than u·|s| from every
      half-integer is rounded exactly as its exact value *)
  Variable u : Q.
  Hypothesis fl_err : forall s, Qabs (fl s - s) <= u * Qabs s.

  Corollary rint_fl_exact_far s : Qabs s <= inject_Z (B - 2) ->
    (forall j : Z, u * Qabs s < Qabs (s - (inject_Z j + (1 # 2)))) -> rint (fl s) = rint s.
  Proof.
    intros Hs Far. apply rint_fl_exact; [exact Hs|]. intros [j Hj].
    specialize (Far j). specialize (fl_err s). rewrite Hj in fl_err.
    assert (E : Qabs (inject_Z j + (1 # 2) - s) == Qabs (s - (inject_Z j + (1 # 2)))).
    { rewrite <- Qabs_opp. apply Qabs_wd. ring. }
    rewrite E in fl_err. lra.
  Qed.
End Around.

(** ---- an executable round-to-nearest-even to binary64 (53 significant bits, exponent >= -1074; no overflow) ---- *)
Open Scope Z_scope.
Definition fl64 (q : Q) : Q :=
  let a := Qnum q in
  let b := Zpos (Qden q) in
  if a =? 0 then 0%Q else
  let aa := Z.abs a in
  let e0 := Z.log2 aa - Z.log2 b - 52 in
  (* is aa / (b * 2^e) >= 2^52 ? *)
  let ge52 (e : Z) := if 0 <=? e then 2 ^ 52 * (b * 2 ^ e) <=? aa else 2 ^ 52 * b <=? aa * 2 ^ (- e) in
  let e := Z.max (if ge52 e0 then e0 else e0 - 1) (-1074) in
  let m := if 0 <=? e then rhe aa (b * 2 ^ e) else rhe (aa * 2 ^ (- e)) b in
  let v := if 0 <=? e then inject_Z (m * 2 ^ e) else Qmake m (Z.to_pos (2 ^ (- e))) in
  if a <? 0 then Qopp v else v.

(* numpy.around(x, n) on one binary64 value: the integer k of the result k / 10^n *)
Definition around64 (n : Z) (x : Q) : Z := rint (fl64 (x * inject_Z (pow10 n))).
