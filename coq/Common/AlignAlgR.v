(** The reals as an instance of the operation records of AlignAlg.v / AlignAlgQuat.v. *)
From Coq Require Import Reals.
Require Import QV.Common.AlignAlg QV.Common.AlignAlgFacts QV.Common.AlignAlgQuat.

#[export] Instance ROps : Ops R :=
  {| k0 := 0%R; k1 := 1%R; kadd := Rplus; kmul := Rmult; ksub := Rminus; kopp := Ropp |}.
#[export] Instance RLaws : RingLaws R := RTheory.
#[export] Instance RDiv : DivOps R :=
  {| kdiv := Rdiv; kofnat := INR; kleb := fun a b => if Rle_dec a b then true else false; kabs := Rabs |}.
