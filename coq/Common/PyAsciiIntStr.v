(** int(str(z)) = z for every integer whose decimal text has at most 4300 digits. *)
From Coq Require Import ZArith NArith List String Ascii Bool Lia Decimal DecimalString DecimalPos.
Require Import QV.Common.Outcome QV.Common.PyAscii.
Import ListNotations.
Open Scope Z_scope.

(** Horner value of a digit sequence *)
Fixpoint uval (d : uint) (acc : Z) : Z :=
  match d with
  | Nil => acc
  | D0 l => uval l (acc * 10 + 0) | D1 l => uval l (acc * 10 + 1) | D2 l => uval l (acc * 10 + 2)
  | D3 l => uval l (acc * 10 + 3) | D4 l => uval l (acc * 10 + 4) | D5 l => uval l (acc * 10 + 5)
  | D6 l => uval l (acc * 10 + 6) | D7 l => uval l (acc * 10 + 7) | D8 l => uval l (acc * 10 + 8)
  | D9 l => uval l (acc * 10 + 9)
  end.

Lemma scan_uint d : forall acc cnt,
  scan_digits (toks (NilEmpty.string_of_uint d)) acc cnt false = Some (uval d acc, (cnt + N.of_nat (nb_digits d))%N).
Proof.
  induction d; intros acc cnt; cbn [NilEmpty.string_of_uint toks nb_digits uval];
    try (change (classify "0") with (TDig 0)); try (change (classify "1") with (TDig 1));
    try (change (classify "2") with (TDig 2)); try (change (classify "3") with (TDig 3));
    try (change (classify "4") with (TDig 4)); try (change (classify "5") with (TDig 5));
    try (change (classify "6") with (TDig 6)); try (change (classify "7") with (TDig 7));
    try (change (classify "8") with (TDig 8)); try (change (classify "9") with (TDig 9));
    cbn [scan_digits]; [f_equal; f_equal; lia|..]; rewrite IHd; f_equal; f_equal; lia.
Qed.

Lemma uval_acc_pos d : forall acc, Z.pos (Pos.of_uint_acc d acc) = uval d (Z.pos acc).
Proof. induction d; intro acc; cbn [Pos.of_uint_acc uval]; [reflexivity|..]; rewrite IHd; f_equal; lia. Qed.

Lemma uval_of_uint d : Z.of_N (Pos.of_uint d) = uval d 0.
Proof.
  induction d; cbn [Pos.of_uint uval]; [reflexivity|exact IHd|..];
    cbn [Z.of_N]; rewrite uval_acc_pos; reflexivity.
Qed.

Lemma length_uint d : String.length (NilEmpty.string_of_uint d) = nb_digits d.
Proof. induction d; cbn [NilEmpty.string_of_uint String.length nb_digits]; congruence. Qed.

(** int() of a non-empty digit sequence *)
Lemma int_of_uint d :
  d <> Nil -> (N.of_nat (nb_digits d) <= max_str_digits)%N ->
  int_of_toks (toks (NilEmpty.string_of_uint d)) = Ok (uval d 0).
Proof.
  intros NN L.
  destruct d; [congruence|..]; cbn [NilEmpty.string_of_uint toks];
    try (change (classify "0") with (TDig 0)); try (change (classify "1") with (TDig 1));
    try (change (classify "2") with (TDig 2)); try (change (classify "3") with (TDig 3));
    try (change (classify "4") with (TDig 4)); try (change (classify "5") with (TDig 5));
    try (change (classify "6") with (TDig 6)); try (change (classify "7") with (TDig 7));
    try (change (classify "8") with (TDig 8)); try (change (classify "9") with (TDig 9));
    unfold int_of_toks; cbn [drop_sp]; rewrite scan_uint; cbn [nb_digits] in L;
    (destruct (N.ltb_spec max_str_digits (1 + N.of_nat (nb_digits d))) as [G|G]; [lia|]);
    cbn [uval]; reflexivity.
Qed.

Lemma int_of_uint_neg d :
  d <> Nil -> (N.of_nat (nb_digits d) <= max_str_digits)%N ->
  int_of_toks (TMinus :: toks (NilEmpty.string_of_uint d)) = Ok (- uval d 0).
Proof.
  intros NN L.
  destruct d; [congruence|..]; cbn [NilEmpty.string_of_uint toks];
    try (change (classify "0") with (TDig 0)); try (change (classify "1") with (TDig 1));
    try (change (classify "2") with (TDig 2)); try (change (classify "3") with (TDig 3));
    try (change (classify "4") with (TDig 4)); try (change (classify "5") with (TDig 5));
    try (change (classify "6") with (TDig 6)); try (change (classify "7") with (TDig 7));
    try (change (classify "8") with (TDig 8)); try (change (classify "9") with (TDig 9));
    unfold int_of_toks; cbn [drop_sp]; rewrite scan_uint; cbn [nb_digits] in L;
    (destruct (N.ltb_spec max_str_digits (1 + N.of_nat (nb_digits d))) as [G|G]; [lia|]);
    cbn [uval]; reflexivity.
Qed.

(** number of decimal digits of z (0 has one) *)
Definition ndigits10 (z : Z) : nat :=
  match z with 0 => 1%nat | Z.pos p | Z.neg p => nb_digits (Pos.to_uint p) end.

Theorem pyint_str_of_Z z :
  (N.of_nat (ndigits10 z) <= max_str_digits)%N -> pyint_str (str_of_Z z) = Ok z.
Proof.
  intro L. unfold pyint_str, str_of_Z. destruct z as [|p|p]; cbn [Z.to_int NilZero.string_of_int].
  - reflexivity.
  - pose proof (Unsigned.to_uint_nonnil p) as NN. unfold NilZero.string_of_uint.
    destruct (Pos.to_uint p) eqn:E; [congruence|..]; rewrite <- E in *;
      (rewrite int_of_uint; [|exact NN|exact L]); rewrite <- uval_of_uint, Unsigned.of_to; reflexivity.
  - pose proof (Unsigned.to_uint_nonnil p) as NN. unfold NilZero.string_of_uint.
    destruct (Pos.to_uint p) eqn:E; [congruence|..]; rewrite <- E in *;
      cbn [toks]; change (classify "-") with TMinus;
      (rewrite int_of_uint_neg; [|exact NN|exact L]); rewrite <- uval_of_uint, Unsigned.of_to; reflexivity.
Qed.

(** the text of z has ndigits10 z characters (one more for the sign) *)
Lemma length_str_of_Z z :
  String.length (str_of_Z z) = match z with Z.neg _ => S (ndigits10 z) | _ => ndigits10 z end.
Proof.
  unfold str_of_Z. destruct z as [|p|p]; cbn [Z.to_int NilZero.string_of_int ndigits10]; [reflexivity|..];
    pose proof (Unsigned.to_uint_nonnil p) as NN; unfold NilZero.string_of_uint;
    destruct (Pos.to_uint p) eqn:E; try congruence; rewrite <- E; cbn [String.length]; rewrite length_uint; reflexivity.
Qed.
