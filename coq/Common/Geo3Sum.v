(** Geo3Sum — finite sums over lists in an abstract field and their linearity (C16). *)
From Coq Require Import List Bool ZArith Field Ring.
Require Import QV.Common.Geo3 QV.Common.Geo3Facts.
Import ListNotations.

Definition fsum (K : Fops) (l : list K) : K := fold_right (fadd K) (f0 K) l.

Definition madd {K : Fops} (a b : mat3 K) : mat3 K :=
  let '(a0, a1, a2) := a in let '(b0, b1, b2) := b in (vadd a0 b0, vadd a1 b1, vadd a2 b2).
Definition mzero (K : Fops) : mat3 K := (vzero K, vzero K, vzero K).

Section Sums.
  Variable K : Fops.
  Hypothesis Kf : is_field K.
  Let Kf' : field_theory (f0 K) (f1 K) (fadd K) (fmul K) (fsub K) (fopp K) (fdiv K) (finv K) eq := Kf.
  Add Field KFS : Kf'.
  Local Notation "a + b" := (fadd K a b).
  Local Notation "a * b" := (fmul K a b).
  Local Notation "a - b" := (fsub K a b).

  Lemma fsum_nil : fsum K [] = f0 K. Proof. reflexivity. Qed.
  Lemma fsum_cons (x : K) l : fsum K (x :: l) = x + fsum K l. Proof. reflexivity. Qed.

  Lemma fsum_map_add {A} (f g : A -> K) (l : list A) :
    fsum K (map (fun a => f a + g a) l) = fsum K (map f l) + fsum K (map g l).
  Proof. induction l as [|a l IH]; [unfold fsum; cbn; ring | cbn [map]; rewrite !fsum_cons, IH; ring]. Qed.

  Lemma fsum_map_sub {A} (f g : A -> K) (l : list A) :
    fsum K (map (fun a => f a - g a) l) = fsum K (map f l) - fsum K (map g l).
  Proof. induction l as [|a l IH]; [unfold fsum; cbn; ring | cbn [map]; rewrite !fsum_cons, IH; ring]. Qed.

  Lemma fsum_map_scale_l {A} (c : K) (f : A -> K) (l : list A) :
    fsum K (map (fun a => c * f a) l) = c * fsum K (map f l).
  Proof. induction l as [|a l IH]; [unfold fsum; cbn; ring | cbn [map]; rewrite !fsum_cons, IH; ring]. Qed.

  Lemma fsum_map_scale_r {A} (c : K) (f : A -> K) (l : list A) :
    fsum K (map (fun a => f a * c) l) = fsum K (map f l) * c.
  Proof. induction l as [|a l IH]; [unfold fsum; cbn; ring | cbn [map]; rewrite !fsum_cons, IH; ring]. Qed.

  Lemma fsum_map_ext {A} (f g : A -> K) (l : list A) :
    (forall a, f a = g a) -> fsum K (map f l) = fsum K (map g l).
  Proof. intro H. induction l as [|a l IH]; [reflexivity | cbn [map]; rewrite !fsum_cons, IH, H; reflexivity]. Qed.
End Sums.
