(** C03 — syntax shared by the generated registry (Gen/UregDefs.v) and the model (Model/Units.v). *)
From Coq Require Import ZArith QArith List String.
Import ListNotations.

(** Unit expressions.  Atoms are already resolved to pint's canonical (prefix name, unit name) — pint's
    tokenizer/alias resolution is trusted external code; ["" ] = no prefix. *)
Inductive uexpr :=
| UAtom (pref base : string)
| UNum (q : Q)
| UMul (a b : uexpr)
| UDiv (a b : uexpr)
| UPow (a : uexpr) (n : Z).

(** The transformers registered on pint Contexts by ureg.py *)
Inductive hop :=
| HNamed (right_unit : string) (default : uexpr)      (* build_transformer(right_unit, default) *)
| HMulNA                                              (* lambda ureg, val: val * ureg.N_A *)
| HDivNA.                                             (* lambda ureg, val: val / ureg.N_A *)
