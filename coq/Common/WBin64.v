(** Exact binary64 arithmetic in [Z] for the writer/parser models (C08, C07):
    a finite binary64 value is [(-1)^neg * m * 2^e]; multiplication and division round to nearest,
    ties to even, at 53 bits (gradual underflow at 2^-1074; overflow is outside the modelled domain),
    decimal -> binary64 conversion (CPython [float(str)]) and the ["{:.Nf}"] formatting
    (exact round-half-even of the binary value at N decimals, as CPython's dtoa does). *)
From Coq Require Import ZArith List String Ascii Bool Lia.
Require Import QV.Common.WText.
Import ListNotations.
Open Scope Z_scope.

Record b64 := B64 { bneg : bool; bm : Z; be : Z }.

Definition b64_one : b64 := B64 false 1 0.

Definition bitlen (m : Z) : Z := if m <=? 0 then 0 else Z.log2 m + 1.

(** n / d rounded half-even (n >= 0, d > 0) *)
Definition rhe_div (n d : Z) : Z :=
  let q := n / d in
  let r := n mod d in
  if 2 * r <? d then q else if d <? 2 * r then q + 1 else if Z.even q then q else q + 1.

(** m / 2^s rounded half-even (s <= 0: unchanged) *)
Definition rshift_rne (m s : Z) : Z := if s <=? 0 then m else rhe_div m (2 ^ s).

(** m * 2^e rounded to binary64 precision *)
Definition round53 (m e : Z) : Z * Z :=
  let s := Z.max (Z.max (bitlen m - 53) (-1074 - e)) 0 in
  (rshift_rne m s, e + s).

Definition b64mul (a b : b64) : b64 :=
  let '(m, e) := round53 (bm a * bm b) (be a + be b) in
  B64 (xorb (bneg a) (bneg b)) m e.

(** (p / q) * 2^e rounded to binary64 (p >= 0, q > 0): quotient with >= 56 significant bits and a
    sticky bit, then [round53] *)
Definition round_ratio (p q e : Z) : Z * Z :=
  if p =? 0 then (0, 0) else
  let k := Z.max 0 (57 + bitlen q - bitlen p) in
  let n := p * 2 ^ k in
  let t := n / q in
  let sticky := if n mod q =? 0 then 0 else 1 in
  round53 (2 * t + sticky) (e - k - 1).

Definition b64div (a b : b64) : b64 :=
  let '(m, e) := round_ratio (bm a) (bm b) (be a - be b) in
  B64 (xorb (bneg a) (bneg b)) m e.

(** the binary64 nearest to the decimal [(-1)^neg * coef * 10^ex] (CPython float(str)) *)
Definition b64_of_dec (neg : bool) (coef ex : Z) : b64 :=
  let '(m, e) := if 0 <=? ex then round53 (coef * 10 ^ ex) 0 else round_ratio coef (10 ^ (- ex)) 0 in
  B64 neg m e.

(** same real value (representations are not normalised) *)
Definition b64_eqb (a b : b64) : bool :=
  Bool.eqb (bneg a) (bneg b) &&
  (let e := Z.min (be a) (be b) in (bm a * 2 ^ (be a - e) =? bm b * 2 ^ (be b - e))).

(* ------------------------------------------------------------------------------------------ *)
(** * "{:.Nf}" *)

(** |v| * 10^prec rounded half-even to an integer *)
Definition scaled_round (prec : Z) (v : b64) : Z :=
  let n := bm v * 10 ^ prec in
  if 0 <=? be v then n * 2 ^ (be v) else rhe_div n (2 ^ (- be v)).

Definition zero_ch : ascii := ch 48.

(** digits of [s] with at least [prec+1] digits, decimal point before the last [prec] *)
Definition place_point (prec : nat) (ds : string) : string :=
  let ds' := (s_repeat zero_ch (S prec - String.length ds) ++ ds)%string in
  let k := (String.length ds' - prec)%nat in
  match prec with
  | O => ds'
  | _ => (s_take k ds' ++ String (ch 46) (s_drop k ds'))%string
  end.

Definition fmt_f (prec : nat) (v : b64) : string :=
  let body := place_point prec (dec_of_nonneg (scaled_round (Z.of_nat prec) v)) in
  if bneg v then String (ch 45) body else body.

(** "{:>{width}.{prec}f}" *)
Definition fmt_fw (width prec : nat) (v : b64) : string := pad_left width (fmt_f prec v).
