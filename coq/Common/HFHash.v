(** Tokens of the text that Molecule.get_hash feeds to SHA-1 (the concatenated json.dumps renderings) and the
    unique-readability lemmas for bracketed, comma-separated lists (C11). *)
From Coq Require Import ZArith QArith List String Ascii Bool DecimalString DecimalZ.
Import ListNotations.

(** the names that may occur in Molecule.hash_fields *)
Inductive hfield :=
| HSymbols | HMasses | HCharge | HMult | HReal | HGeometry | HFragments | HFragCharges | HFragMults | HConnectivity.

Inductive token :=
| TOpen | TClose | TSep                 (* "["  "]"  ", " *)
| TStr (s : string)                      (* a JSON string literal *)
| TFlt (k : Z) (n : Z)                   (* repr of the double nearest k·10^-n *)
| TRaw (q : Q)                           (* repr of an unrounded double (reduced fraction) *)
| TNegZero                               (* "-0.0" *)
| TInt (z : Z)
| TBool (b : bool)
| TNull
| TChar (c : ascii).                     (* raw character of a bare scalar (molecular charge, multiplicity) *)

Definition q_eqb (a b : Q) : bool := Z.eqb (Qnum a) (Qnum b) && Pos.eqb (Qden a) (Qden b).

Definition token_eqb (a b : token) : bool :=
  match a, b with
  | TOpen, TOpen | TClose, TClose | TSep, TSep | TNull, TNull | TNegZero, TNegZero => true
  | TStr s, TStr t => String.eqb s t
  | TFlt k n, TFlt k' n' => Z.eqb k k' && Z.eqb n n'
  | TRaw q, TRaw q' => q_eqb q q'
  | TInt z, TInt z' => Z.eqb z z'
  | TBool x, TBool y => Bool.eqb x y
  | TChar c, TChar d => Ascii.eqb c d
  | _, _ => false
  end.

Fixpoint tokens_eqb (a b : list token) : bool :=
  match a, b with
  | [], [] => true
  | x :: a', y :: b' => token_eqb x y && tokens_eqb a' b'
  | _, _ => false
  end.

(** json.dumps of a list whose elements render as [r a]:  "[" r a0 ", " r a1 ... "]" *)
Section Lists.
  Context {A : Type}.
  Variable r : A -> list token.

  Fixpoint jtail (l : list A) : list token :=
    match l with
    | [] => [TClose]
    | a :: t => TSep :: r a ++ jtail t
    end.

  Definition jlist (l : list A) : list token :=
    TOpen :: match l with [] => [TClose] | a :: t => r a ++ jtail t end.

  (** [r] is uniquely readable: a rendering followed by anything determines the element and the rest *)
  Definition selfdelim : Prop := forall a b x y, r a ++ x = r b ++ y -> a = b /\ x = y.
  (** and never starts with the closing bracket *)
  Definition noclose : Prop := forall a x y, r a ++ x <> TClose :: y.

  Hypothesis SD : selfdelim.
  Hypothesis NC : noclose.

  Lemma jtail_inj l : forall l' x y, jtail l ++ x = jtail l' ++ y -> l = l' /\ x = y.
  Proof.
    induction l as [|a t IH]; intros [|b t'] x y H; simpl in H.
    - inversion H; auto.
    - discriminate.
    - discriminate.
    - inversion H as [H1]. rewrite <- !app_assoc in H1. apply SD in H1. destruct H1 as [-> H1].
      apply IH in H1. destruct H1 as [-> ->]. auto.
  Qed.

  Lemma jlist_selfdelim : forall l l' x y, jlist l ++ x = jlist l' ++ y -> l = l' /\ x = y.
  Proof.
    intros [|a t] [|b t'] x y H; unfold jlist in H; simpl in H; inversion H as [H1].
    - auto.
    - exfalso. symmetry in H1. rewrite <- app_assoc in H1. exact (NC _ _ _ H1).
    - exfalso. rewrite <- app_assoc in H1. exact (NC _ _ _ H1).
    - rewrite <- !app_assoc in H1. apply SD in H1. destruct H1 as [-> H1].
      apply jtail_inj in H1. destruct H1 as [-> ->]. auto.
  Qed.

  Lemma jlist_noclose : forall l x y, jlist l ++ x <> TClose :: y.
  Proof. intros l x y H. unfold jlist in H. simpl in H. discriminate. Qed.
End Lists.

(** single-token elements *)
Section Atoms.
  Context {A : Type}.
  Variable f : A -> token.
  Hypothesis f_inj : forall a b, f a = f b -> a = b.
  Hypothesis f_noclose : forall a, f a <> TClose.

  Lemma atom_selfdelim : selfdelim (fun a => [f a]).
  Proof. intros a b x y H. simpl in H. inversion H as [[H1 H2]]. apply f_inj in H1. auto. Qed.
  Lemma atom_noclose : noclose (fun a => [f a]).
  Proof. intros a x y H. simpl in H. inversion H as [[H1 H2]]. exact (f_noclose _ H1). Qed.
End Atoms.

(** decimal digits of an integer, as json.dumps prints a Python int *)
Definition digits (z : Z) : list ascii := list_ascii_of_string (NilEmpty.string_of_int (Z.to_int z)).

Lemma digits_inj a b : digits a = digits b -> a = b.
Proof.
  unfold digits. intros H.
  assert (E : NilEmpty.string_of_int (Z.to_int a) = NilEmpty.string_of_int (Z.to_int b)).
  { rewrite <- (string_of_list_ascii_of_string (NilEmpty.string_of_int (Z.to_int a))).
    rewrite <- (string_of_list_ascii_of_string (NilEmpty.string_of_int (Z.to_int b))). rewrite H. reflexivity. }
  apply (f_equal NilEmpty.int_of_string) in E. rewrite !NilEmpty.isi in E. inversion E as [E1].
  apply DecimalZ.to_int_inj. exact E1.
Qed.

(** a run of raw characters in front of an opening bracket is determined *)
Lemma chars_before_open (l l' : list ascii) x y :
  map TChar l ++ TOpen :: x = map TChar l' ++ TOpen :: y -> l = l' /\ x = y.
Proof.
  revert l'. induction l as [|c t IH]; intros [|d t'] H; simpl in H.
  - inversion H; auto.
  - discriminate.
  - discriminate.
  - inversion H as [[H1 H2]]. apply IH in H2. destruct H2 as [-> ->]. auto.
Qed.
