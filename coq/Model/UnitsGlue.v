(** C03 — the glue of PhysicalConstantsContext.conversion_factor (context.py:278-331) around pint:
    argument normalisation (a str is parsed, a Quantity contributes magnitude and units) and functools.lru_cache
    (maxsize 128, keyed by the argument objects: str by text, pint Quantity by ==/hash, i.e. magnitude in base units and
    base-unit dimension).  Only definitions (proofs in Proofs/UnitsGlue.v). *)
From Coq Require Import ZArith QArith List String Bool.
Require Import QV.Common.Outcome QV.Common.UnitsC03 QV.Gen.UregDefs QV.Model.Units QV.Model.UnitsText.
Import ListNotations.
Open Scope string_scope.

(** an argument: a str (the text itself), a pint Quantity  k * units(e)  ([e] carries no numeric factor of its own when it
    comes from the harness, but nothing below depends on that), or a pint Unit (the units of [e]; neither str nor Quantity, it is
    handed to ureg.convert as it is) *)
Inductive carg := AStr (s : string) | AQty (k : Q) (e : uexpr) | AUnit (e : uexpr).

(* if isinstance(x, str): x = ureg.parse_expression(x) ; if isinstance(x, Quantity): factor *= / /= x.magnitude; x = x.units *)
Definition arg_expr (a : carg) : perr + uexpr :=
  match a with AStr s => parse_text s | AQty k e => inr (UMul (UNum k) e) | AUnit e => inr e end.

(** the body of conversion_factor *)
Definition cf_pure (c : cctx) (a b : carg) : outcome Q :=
  match arg_expr a, arg_expr b with
  | inr ea, inr eb => conv_ctx c ea eb
  | inl Undefined, _ | _, inl Undefined => Err PyAttributeError
  | _, _ => Err PyValueError
  end.

(** pint Quantity.__eq__/__hash__: magnitude after to_base_units() and the base units *)
Definition qty_key (c : cctx) (k : Q) (e : uexpr) : option (Q * dimvec) :=
  match parse (reg c) e with
  | Ok (m, u) => Some (Qred (k * m * cmag (reg c) u), cdim (reg c) u)
  | Err _ => None
  end.
(* pint Unit.__eq__/__hash__: the unit container.  Modelled as equality of the ORDERED containers: pint also identifies permuted
   containers; such a request is recomputed here, which gives the same answer whenever the answer does not depend on the order of
   the factors (always, except a bridge whose source names two NIST units) *)
Fixpoint ucont_eqb (a b : ucont) : bool :=
  match a, b with
  | [], [] => true
  | (k, e) :: r, (k', e') :: r' => key_eqb k k' && (e =? e')%Z && ucont_eqb r r'
  | _, _ => false
  end.
Definition argkey_eqb (c : cctx) (a a' : carg) : bool :=
  match a, a' with
  | AStr s, AStr s' => String.eqb s s'
  | AQty k e, AQty k' e' =>
      match qty_key c k e, qty_key c k' e' with
      | Some (m, d), Some (m', d') => Qeq_bool m m' && dim_eqb d d'
      | _, _ => false
      end
  | AUnit e, AUnit e' =>
      match parse (reg c) e, parse (reg c) e' with
      | Ok (m, u), Ok (m', u') => Qeq_bool m m' && ucont_eqb u u'
      | _, _ => false
      end
  | _, _ => false
  end.

(** functools.lru_cache(maxsize=128): most recently used first; a hit moves the entry to the front; a miss computes, stores
    and evicts the least recently used entry; an exception is not stored *)
Definition centry := (carg * carg * Q)%type.
Definition maxsize : nat := lru_maxsize.        (* Gen/UregDefs.v: functools default, conversion_factor checked verbatim *)
Definition entry_matches (c : cctx) (a b : carg) (e : centry) : bool :=
  argkey_eqb c a (fst (fst e)) && argkey_eqb c b (snd (fst e)).
Fixpoint cache_take (c : cctx) (a b : carg) (ch : list centry) : option (centry * list centry) :=
  match ch with
  | [] => None
  | e :: r => if entry_matches c a b e then Some (e, r)
              else match cache_take c a b r with Some (x, r') => Some (x, e :: r') | None => None end
  end.
Definition cf_cached (c : cctx) (ch : list centry) (a b : carg) : outcome Q * list centry :=
  match cache_take c a b ch with
  | Some (e, rest) => (Ok (snd e), e :: rest)
  | None =>
      match cf_pure c a b with
      | Ok v => (Ok v, firstn maxsize ((a, b, v) :: ch))
      | Err k => (Err k, ch)
      end
  end.
(* a history of calls on one context object, starting from cache [ch] *)
Fixpoint run (c : cctx) (ch : list centry) (calls : list (carg * carg)) : list (outcome Q) :=
  match calls with
  | [] => []
  | (a, b) :: r => let '(o, ch') := cf_cached c ch a b in o :: run c ch' r
  end.

(** correspondence: one history on a fresh context object; every answer compared *)
Definition check_answer (o : outcome Q) (ex : cexpect) : bool :=
  match o, ex with
  | Ok v, CVal n d t => close v (Qmake n (Z.to_pos d)) t
  | Err k, CErr k' => ekind_eqb k k'
  | _, _ => false
  end.
Fixpoint all2 {A B} (f : A -> B -> bool) (l : list A) (m : list B) : bool :=
  match l, m with
  | [], [] => true
  | x :: l', y :: m' => f x y && all2 f l' m'
  | _, _ => false
  end.
Definition check_case_glue (x : Z * list (carg * carg * cexpect)) : bool :=
  let '(y, h) := x in
  all2 check_answer (run (ctx_of y) [] (map fst h)) (map snd h).
