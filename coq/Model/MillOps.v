(** C13 — the numpy array operations that the bodies of AlignmentMill's methods are made of, as combinators
    on the representations of Model/Mill.v.  The translator harness/translate/millgen.py turns the method
    bodies (models/align.py) into let-chains over these combinators (Gen/MillGen.v, regenerated on every
    run); Proofs/MillGen.v proves the generated functions equal to the hand-written model.  Definitions only. *)
From Coq Require Import List Arith Bool.
Require Import QV.Common.Outcome QV.Common.AlignAlg QV.Model.Mill.
Import ListNotations.

Section Ops.
Context {K : Type} {KO : Ops K}.
Local Open Scope K_scope.

(* (n,3) array .dot( (3,3) array ) *)
Definition np_dot_gm (g : list (vec3 K)) (M : mat3 K) : list (vec3 K) := map (fun v => vmat v M) g.
(* (n,3) array +/- (3,) array: broadcasting over rows *)
Definition np_add_gv (g : list (vec3 K)) (s : vec3 K) : list (vec3 K) := map (fun v => vadd v s) g.
Definition np_sub_gv (g : list (vec3 K)) (s : vec3 K) : list (vec3 K) := map (fun v => vsub v s) g.
(* g[:, 1] *= -1.0 *)
Definition col1_neg (g : list (vec3 K)) : list (vec3 K) := map (mirv true) g.
(* out = zeros((n,n,3,3)); for i in range(n): for j in range(n): out[i, j] = f i j *)
Definition fill_blocks (n : nat) (f : nat -> nat -> mat3 K) : list K :=
  flat_map (fun k => mflat (f (k / n) (k mod n))%nat) (seq 0 (n * n)).
(* v[3*p : 3*p + 3] of a 1-d array, as a row *)
Definition slice3 (v : list K) (p : nat) : vec3 K := (nth (3 * p) v 0, nth (3 * p + 1) v 0, nth (3 * p + 2) v 0).
End Ops.
