(** C17: semantics of the Python constructs that CovalentRadii.__init__ / VanderWaalsRadii.__init__ use to build their tables.
    harness/translate/radiiinit.py emits Gen/RadiiInit.v in terms of them; Proofs/RadiiInit.v proves the generated tables equal
    to the hand-written [cov_table] / [vdw_table] of Model/Radii.v.  Definitions only. *)
From Coq Require Import ZArith List String Bool.
Require Import QV.Model.Radii.
Import ListNotations.

(** `d[k] = v` on an (ordered) dict: an existing key keeps its position and gets the new value, a new key is appended *)
Fixpoint dict_set {V} (d : list (string * V)) (k : string) (v : V) : list (string * V) :=
  match d with
  | [] => [(k, v)]
  | (k', v') :: r => if String.eqb k k' then (k', v) :: r else (k', v') :: dict_set r k v
  end.

(** `self.cr[label].data` read while the aliases literal is evaluated (a missing label would raise KeyError out of __init__;
    totalised to "no data", which [get] turns into an error) *)
Definition opt_entry_data (o : option entry) : option (Z * Z) :=
  match o with Some e => en_data e | None => None end.

(** keys of a dict built by [dict_set] are pairwise distinct *)
Fixpoint keys_distinct (ks : list string) : bool :=
  match ks with
  | [] => true
  | k :: r => negb (existsb (String.eqb k) r) && keys_distinct r
  end.
