(** C08 (and the writer half of C07) — model of qcelemental.molparse.to_string.to_string and
    _atoms_formatter.  Hand-written, in the code's order, including the exceptions it raises; the
    per-dtype tables (formats, unit spellings, keyword dictionaries) and the unit-factor branch come
    from Gen/WriterTables.v, regenerated from the source on every run.

    The text is produced in two steps: [to_lines] builds structured lines (fixed text, charge /
    multiplicity lines, fragment separators, atom lines holding the converted binary64 coordinates),
    [render_text] turns them into the characters the implementation returns.  The correspondence
    check compares [render_text] byte for byte (and the keyword dictionary) with the implementation.

    Modelled-not-verified: binary64 multiplication/division and "{:.Nf}" (Common/WBin64.v), str
    methods (Common/WText.v), str.format on "{field}" templates, np.split on valid separators,
    collections.Counter + sorted in formula_generator.  External (supplied by the harness): str(mass),
    constants.conversion_factor for units other than Bohr/Angstrom, guess_connectivity (sdf). *)
From Coq Require Import ZArith List String Ascii Bool.
Require Import QV.Common.Outcome QV.Common.WText QV.Common.WBin64 QV.Model.WriterTypes QV.Gen.WriterTables.
Import ListNotations.
Open Scope Z_scope.

Local Notation "s1 +++ s2" := (String.append s1 s2) (at level 60, right associativity).

(* ------------------------------------------------------------------------------------------ *)
(** * data *)
Record atom := {
  a_elea : Z; a_elez : Z; a_elem : string;
  a_mass : string;                 (* str(molrec["mass"][i]) — external *)
  a_elbl : string; a_real : bool;
  a_x : b64; a_y : b64; a_z : b64
}.

Record molrec := {
  m_units : string;                (* "Bohr" | "Angstrom" *)
  m_iutau : option b64;            (* molrec.get("input_units_to_au") *)
  m_atoms : list atom;
  m_name : option string;
  m_seps : list nat;               (* fragment_separators *)
  m_chg : Z; m_mult : Z;           (* molecular_charge (integral), molecular_multiplicity *)
  m_fchg : list Z; m_fmult : list Z;
  m_fix_com : bool; m_fix_orient : bool;
  m_fix_symm : option string;
  m_conn : list (Z * Z * Z)        (* sdf only: molrec["connectivity"] or guess_connectivity's answer, order int()ed *)
}.

Record wcfg := {
  w_dtype : string;
  w_units : option string;
  w_afmt : option string;
  w_gfmt : option string;
  w_width : nat; w_prec : nat;
  w_conv : b64                     (* constants.conversion_factor(molrec["units"], units) — external *)
}.

Record atom_view := { av_label : string; av_x : b64; av_y : b64; av_z : b64 }.

Inductive line :=
| LText (s : string)
| LChgMult (pre : string) (c m : Z) (post : string)     (* pre ++ str(c) ++ " " ++ str(m) ++ post *)
| LSep                                                  (* "--" *)
| LAtom (v : atom_view)                                 (* _atoms_formatter line *)
| LSdfAtom (v : atom_view).                             (* the sdf atom line *)

Definition keywords := list (string * kval).

(* ------------------------------------------------------------------------------------------ *)
(** * str.format on templates made of literal text, {{ }}, and {field} *)
Definition field_value (a : atom) (name : string) : outcome string :=
  if s_eqb name "elea" then Ok (if a_elea a =? -1 then EmptyString else dec_of_Z (a_elea a))
  else if s_eqb name "elez" then Ok (dec_of_Z (a_elez a))
  else if s_eqb name "elem" then Ok (a_elem a)
  else if s_eqb name "mass" then Ok (a_mass a)
  else if s_eqb name "elbl" then Ok (a_elbl a)
  else if s_eqb name "" then Err PyIndexError                   (* "{}": positional argument 0 *)
  else if s_all c_is_digit name then Err PyIndexError
  else if s_all c_is_word name then Err PyKeyError
  else Err OutOfFuel.                                            (* format specs, conversions, attribute/index access: outside the model *)

(** text up to the first "}" and the rest after it *)
Fixpoint until_close (s : string) : option (string * string) :=
  match s with
  | EmptyString => None
  | String c r =>
      if c_eqb c (ch 125) then Some (EmptyString, r)
      else match until_close r with
           | Some (n, rest) => Some (String c n, rest)
           | None => None
           end
  end.

Fixpoint py_format_go (fuel : nat) (s : string) (a : atom) : outcome string :=
  match fuel with
  | O => match s with EmptyString => Ok EmptyString | _ => Err OutOfFuel end
  | S f =>
      match s with
      | EmptyString => Ok EmptyString
      | String c r =>
          if c_eqb c (ch 123) then                                (* "{" *)
            match r with
            | String c2 r2 =>
                if c_eqb c2 (ch 123) then obind (py_format_go f r2 a) (fun t => Ok (String (ch 123) t))
                else match until_close r with
                     | None => Err PyValueError                  (* expected '}' before end of string *)
                     | Some (name, rest) =>
                         obind (field_value a name) (fun v => obind (py_format_go f rest a) (fun t => Ok (v +++ t)))
                     end
            | EmptyString => Err PyValueError                    (* Single '{' encountered *)
            end
          else if c_eqb c (ch 125) then                           (* "}" *)
            match r with
            | String c2 r2 =>
                if c_eqb c2 (ch 125) then obind (py_format_go f r2 a) (fun t => Ok (String (ch 125) t))
                else Err PyValueError
            | EmptyString => Err PyValueError
            end
          else obind (py_format_go f r a) (fun t => Ok (String c t))
      end
  end.
Definition py_format (tmpl : string) (a : atom) : outcome string := py_format_go (String.length tmpl) tmpl a.

(* ------------------------------------------------------------------------------------------ *)
(** * _atoms_formatter *)
Definition convert (f : b64) (a : atom) (lbl : string) : atom_view :=
  {| av_label := lbl; av_x := b64mul (a_x a) f; av_y := b64mul (a_y a) f; av_z := b64mul (a_z a) f |}.

(** ghost atoms are skipped when ghost_format is "" *)
Definition visible (gfmt : string) (a : atom) : bool := a_real a || negb (s_eqb gfmt "").

Fixpoint atoms_formatter (afmt gfmt : string) (f : b64) (l : list atom) : outcome (list atom_view) :=
  match l with
  | [] => Ok []
  | a :: r =>
      if a_real a then
        obind (py_format afmt a) (fun lbl => obind (atoms_formatter afmt gfmt f r) (fun vs => Ok (convert f a lbl :: vs)))
      else if s_eqb gfmt "" then atoms_formatter afmt gfmt f r
      else
        obind (py_format gfmt a) (fun lbl => obind (atoms_formatter afmt gfmt f r) (fun vs => Ok (convert f a lbl :: vs)))
  end.

(** one formatted atom line: nuc padded to width, coordinates right-aligned, joined by two blanks;
    with xyze the (rstripped) label goes last; turbomole lower-cases the line *)
Definition two_sp : string := String sp (String sp EmptyString).
Definition render_atom (w p : nat) (xyze lower : bool) (v : atom_view) : string :=
  let nuc := pad_right w (av_label v) in
  let xs := [fmt_fw w p (av_x v); fmt_fw w p (av_y v); fmt_fw w p (av_z v)] in
  let s := if xyze then s_join two_sp (xs ++ [s_rstrip nuc]) else s_join two_sp (nuc :: xs) in
  if lower then s_lower s else s.

Definition sdf_tail : string := "  0  0     0  0  0  0  0  0".
Definition render_sdf_atom (v : atom_view) : string :=
  fmt_fw 10 4 (av_x v) +++ fmt_fw 10 4 (av_y v) +++ fmt_fw 10 4 (av_z v) +++ pad_left 3 (av_label v) +++ sdf_tail.

Definition render_line (w p : nat) (xyze lower : bool) (l : line) : string :=
  match l with
  | LText s => s
  | LChgMult pre c m post => pre +++ dec_of_Z c +++ String sp (dec_of_Z m) +++ post
  | LSep => "--"
  | LAtom v => render_atom w p xyze lower v
  | LSdfAtom v => render_sdf_atom v
  end.

(* ------------------------------------------------------------------------------------------ *)
(** * formula_generator: Counter + sorted(items) *)
Fixpoint count_insert (e : string) (l : list (string * Z)) : list (string * Z) :=
  match l with
  | [] => [(e, 1)]
  | (x, n) :: r =>
      if s_eqb e x then (x, n + 1) :: r
      else if s_leb e x then (e, 1) :: l
      else (x, n) :: count_insert e r
  end.
Definition formula_generator (elems : list string) : string :=
  let counted := fold_left (fun acc e => count_insert e acc) elems [] in
  String.concat "" (map (fun p : string * Z => if snd p =? 1 then fst p else fst p +++ dec_of_Z (snd p)) counted).

Definition mol_name (m : molrec) : string :=
  match m_name m with Some n => n | None => formula_generator (map a_elem (m_atoms m)) end.
Definition tagline (m : molrec) : string := "auto-generated by QCElemental from molecule " +++ mol_name m.

(* ------------------------------------------------------------------------------------------ *)
(** * table access *)
Fixpoint wt_find (d : string) (t : list wt_entry) : option wt_entry :=
  match t with
  | [] => None
  | e :: r => if s_eqb (wt_dtype e) d then Some e else wt_find d r
  end.

Fixpoint assoc (k : string) (l : list (string * string)) : option string :=
  match l with
  | [] => None
  | (x, v) :: r => if s_eqb x k then Some v else assoc k r
  end.

(** the unit label as the branch looks it up; [None] prints as "None" *)
Definition unit_label (e : wt_entry) (units : string) : outcome (option string) :=
  let k := s_lower units in
  match wt_umode e with
  | UIndex => match assoc k (wt_umap e) with Some v => Ok (Some v) | None => Err PyKeyError end
  | UGetNone => Ok (assoc k (wt_umap e))
  | UGetSelf => Ok (Some (match assoc k (wt_umap e) with Some v => v | None => k end))
  | UNoMap => Ok None
  end.
Definition show_opt (o : option string) : string := match o with Some s => s | None => "None" end.

Definition pick_format (dflt : string) (mode : fmode) (arg : option string) : string :=
  match mode with
  | FFixed | FAbsent => dflt
  | FIfNone => match arg with None => dflt | Some s => s end
  | FOr => match arg with None => dflt | Some s => if s_eqb s "" then dflt else s end
  end.

Definition units_of (e : wt_entry) (cfg : wcfg) : string :=
  match w_units cfg with Some u => u | None => wt_default_units e end.

Definition factor_of (e : wt_entry) (cfg : wcfg) (m : molrec) : b64 :=
  gen_factor (m_units m) (units_of e cfg) (m_iutau m) (w_conv cfg).

(* ------------------------------------------------------------------------------------------ *)
(** * keyword dictionary *)
Definition py_bool (b : bool) : string := if b then "True" else "False".

Definition kcond_holds (c : kcond) (m : molrec) : bool :=
  match c with
  | CAlways => true
  | CMultNe1 => negb (m_mult m =? 1)
  | CFixSymC1 => match m_fix_symm m with Some s => s_eqb s "c1" | None => false end
  end.

Definition kexpr_eval (e : wt_entry) (units : string) (m : molrec) (atoms_text : list string) (k : kexpr) : outcome kval :=
  match k with
  | KCharge => Ok (KVInt (m_chg m))
  | KMult => Ok (KVInt (m_mult m))
  | KMultM1 => Ok (KVInt (m_mult m - 1))
  | KUnitsGet => Ok (match assoc (s_lower units) (wt_umap e) with Some v => KVStr v | None => KVNone end)
  | KUnitsIdx => match assoc (s_lower units) (wt_umap e) with Some v => Ok (KVStr v) | None => Err PyKeyError end
  | KConstS s => Ok (KVStr s)
  | KConstB b => Ok (KVBool b)
  | KFixCom => Ok (KVBool (m_fix_com m))
  | KFixOrientOrCom => Ok (KVBool (m_fix_orient m || m_fix_com m))
  | KCoords => Ok (KVStr (s_join (String nl EmptyString) atoms_text))
  end.

Fixpoint kw_eval (e : wt_entry) (units : string) (m : molrec) (atoms_text : list string)
         (l : list (kcond * string * kexpr)) : outcome keywords :=
  match l with
  | [] => Ok []
  | (c, k, x) :: r =>
      if kcond_holds c m then
        obind (kexpr_eval e units m atoms_text x) (fun v => obind (kw_eval e units m atoms_text r) (fun t => Ok ((k, v) :: t)))
      else kw_eval e units m atoms_text r
  end.

(* ------------------------------------------------------------------------------------------ *)
(** * fragment blocks (psi4, qchem): np.split(atoms, fragment_separators) *)
Fixpoint np_split_from {A} (l : list A) (start : nat) (seps : list nat) : list (list A) :=
  match seps with
  | [] => [skipn start l]
  | s :: r => slice l start s :: np_split_from l s r
  end.
Definition np_split {A} (l : list A) (seps : list nat) : list (list A) := np_split_from l 0 seps.

Fixpoint frag_blocks (frs : list (list atom_view)) (i : nat) (fc fm : list Z) : outcome (list line) :=
  match frs with
  | [] => Ok []
  | fr :: r =>
      match nth_error fc i, nth_error fm i with
      | Some c, Some mu =>
          obind (frag_blocks r (S i) fc fm) (fun t => Ok (LSep :: LChgMult "" c mu "" :: map LAtom fr ++ t))
      | _, _ => Err PyIndexError
      end
  end.
Definition fragment_lines (m : molrec) (atoms : list atom_view) : outcome (list line) :=
  let frs := np_split atoms (m_seps m) in
  match frs with
  | [fr] => Ok (map LAtom fr)                 (* a single fragment: no "--", no fragment chg/mult line *)
  | _ => frag_blocks frs 0 (m_fchg m) (m_fmult m)
  end.

(* ------------------------------------------------------------------------------------------ *)
(** * the dtype branches *)
Fixpoint ghost_indices (l : list atom) (i : Z) : list Z :=
  match l with
  | [] => []
  | a :: r => if a_real a then ghost_indices r (i + 1) else i :: ghost_indices r (i + 1)
  end.

Definition sdf_count_line (nat_all nbond : Z) : string :=
  pad_left 3 (dec_of_Z nat_all) +++ " " +++ pad_left 2 (dec_of_Z nbond) +++ "  0  0  0  0  0  0  0  0  0".
Definition sdf_bond_line (b : Z * Z * Z) : string :=
  let '(a1, a2, o) := b in
  " " +++ pad_left 2 (dec_of_Z (a1 + 1)) +++ " " +++ pad_left 2 (dec_of_Z (a2 + 1)) +++ "  " +++ dec_of_Z o +++ "  0  0  0  0".

Definition zlen {A} (l : list A) : Z := Z.of_nat (List.length l).

(** the lines of one branch, given the formatted atoms; [lbl] is looked up where the code does *)
Definition branch_lines (e : wt_entry) (cfg : wcfg) (m : molrec) (atoms : list atom_view) : outcome (list line) :=
  let d := wt_dtype e in
  let units := units_of e cfg in
  let la := map LAtom atoms in
  if s_eqb d "xyz" || s_eqb d "xyz+" then
    obind (unit_label e units) (fun lbl =>
      Ok (LText (s_rstrip (dec_of_Z (zlen atoms) +++ " " +++ show_opt lbl))
          :: LChgMult "" (m_chg m) (m_mult m) (" " +++ mol_name m) :: la))
  else if s_eqb d "orca" then
    obind (unit_label e units) (fun lbl =>
      Ok (LText (show_opt lbl) :: LText "" :: LChgMult "*xyz " (m_chg m) (m_mult m) "" :: la ++ [LText "*"]))
  else if s_eqb d "cfour" then Ok (LText (tagline m) :: la)
  else if s_eqb d "molpro" then
    obind (unit_label e units) (fun lbl =>
      let gh := ghost_indices (m_atoms m) 1 in
      Ok ((if m_fix_orient m || m_fix_com m then [LText "{orient,noorient}"] else [])
          ++ (match m_fix_symm m with
              | Some s => if s_eqb s "c1" then [LText "{symmetry,nosym}"] else []
              | None => [LText "{symmetry,auto}"]
              end)
          ++ [LText ""; LText ("{" +++ show_opt lbl +++ "}"); LText "geometry={"] ++ la ++ [LText "}"]
          ++ (match gh with [] => [] | _ => [LText ("dummy," +++ s_join "," (map dec_of_Z gh))] end)
          ++ [LText ("set,charge=" +++ dec_of_Z (m_chg m) +++ ".0"); LText ("set,spin=" +++ dec_of_Z (m_mult m - 1))]))
  else if s_eqb d "nwchem" then
    obind (unit_label e units) (fun lbl =>
      Ok (LText ("geometry units " +++ show_opt lbl) :: la
          ++ [LText (match m_fix_symm m with
                     | Some s => if s_eqb s "" then "" else "symmetry " +++ s
                     | None => "" end);
              LText "end"]))
  else if s_eqb d "madness" then
    obind (unit_label e units) (fun lbl =>
      Ok (LText "geometry" :: LText ("units " +++ show_opt lbl) :: la ++ [LText "end"]))
  else if s_eqb d "gamess" then
    let fs := s_strip (match m_fix_symm m with Some s => s | None => "C1" end) in
    let symm := " " +++ fs +++ (if s_eqb (s_upper fs) "C1" then "" else String nl EmptyString) in
    Ok (LText " $data" :: LText (" " +++ tagline m) :: LText symm :: la ++ [LText " $end"])
  else if s_eqb d "terachem" then
    obind (unit_label e units) (fun lbl =>
      Ok (LText (s_rstrip (dec_of_Z (zlen atoms) +++ " " +++ show_opt lbl)) :: LText (mol_name m) :: la))
  else if s_eqb d "psi4" then
    obind (fragment_lines m atoms) (fun body =>
    obind (unit_label e units) (fun lbl =>
      Ok (LChgMult "" (m_chg m) (m_mult m) "" :: body
          ++ [LText ("units " +++ show_opt lbl)]
          ++ (if m_fix_com m then [LText "no_com"] else [])
          ++ (if m_fix_orient m then [LText "no_reorient"] else []))))
  else if s_eqb d "turbomole" then Ok (LText "$coord" :: la ++ [LText "$end"])
  else if s_eqb d "qchem" then
    obind (fragment_lines m atoms) (fun body =>
      Ok (LText "$molecule" :: LChgMult "" (m_chg m) (m_mult m) "" :: body ++ [LText "$end"]))
  else if s_eqb d "mrchem" then
    Ok ([LText "Molecule {"; LText ("charge = " +++ dec_of_Z (m_chg m)); LText ("multiplicity = " +++ dec_of_Z (m_mult m));
         LText ("translate = " +++ py_bool (m_fix_com m)); LText "$coords"] ++ la ++ [LText ("$end" +++ String nl "}")])
  else Err PyKeyError.

(** sdf atoms: every atom is listed; ghosts carry ghost_format verbatim *)
Definition sdf_views (gf : string) (f : b64) (l : list atom) : list atom_view :=
  map (fun a => convert f a (if a_real a then a_elem a else gf)) l.

Definition to_lines (cfg : wcfg) (m : molrec) : outcome (list line * keywords) :=
  let d := s_lower (w_dtype cfg) in
  match wt_find d wt_table with
  | None => Err PyKeyError
  | Some e =>
      let units := units_of e cfg in
      let f := factor_of e cfg m in
      let af := pick_format (wt_afmt e) (wt_afmode e) (w_afmt cfg) in
      let gf := pick_format (wt_gfmt e) (wt_gfmode e) (w_gfmt cfg) in
      if s_eqb d "nglview-sdf" then
        if negb (s_eqb (s_capitalize units) "Angstrom") then Err PyValueError
        else
          Ok ([LText ""; LText ("QCElemental" +++ String nl EmptyString);
               LText (sdf_count_line (zlen (m_atoms m)) (zlen (m_conn m)))]
              ++ map LSdfAtom (sdf_views gf f (m_atoms m))
              ++ map (fun b => LText (sdf_bond_line b)) (m_conn m), [])
      else
        (* turbomole consults umap before formatting; the others after — only the exception kind
           could differ and both are KeyError-or-format errors raised in this order *)
        obind (if s_eqb d "turbomole" then unit_label e units else Ok None) (fun _ =>
        obind (if wt_formatter e then atoms_formatter af gf f (m_atoms m) else Err PyKeyError) (fun atoms =>
        obind (branch_lines e cfg m atoms) (fun ls =>
        let atoms_text := map (render_atom (w_width cfg) (w_prec cfg) (wt_xyze e) (wt_lower e)) atoms in
        obind (kw_eval e units m atoms_text (wt_kw e)) (fun kw => Ok (ls, kw)))))
  end.

Definition render_text (cfg : wcfg) (e : wt_entry) (ls : list line) : string :=
  s_join (String nl EmptyString) (map (render_line (w_width cfg) (w_prec cfg) (wt_xyze e) (wt_lower e)) ls)
  +++ String nl EmptyString.

(** to_string(molrec, dtype, units, atom_format=, ghost_format=, width=, prec=, return_data=True) *)
Definition to_string_model (cfg : wcfg) (m : molrec) : outcome (string * keywords) :=
  match wt_find (s_lower (w_dtype cfg)) wt_table with
  | None => Err PyKeyError
  | Some e => obind (to_lines cfg m) (fun r => Ok (render_text cfg e (fst r), snd r))
  end.

(* ------------------------------------------------------------------------------------------ *)
(** * comparison with the implementation's answer (correspondence check) *)
Definition kval_eqb (a b : kval) : bool :=
  match a, b with
  | KVInt x, KVInt y => x =? y
  | KVStr x, KVStr y => s_eqb x y
  | KVBool x, KVBool y => Bool.eqb x y
  | KVNone, KVNone => true
  | _, _ => false
  end.
Fixpoint kw_get (k : string) (l : keywords) : option kval :=
  match l with [] => None | (x, v) :: r => if s_eqb x k then Some v else kw_get k r end.
(** dictionaries are equal when they have the same keys with the same values (order is immaterial) *)
Definition kw_eqb (a b : keywords) : bool :=
  Nat.eqb (List.length a) (List.length b)
  && forallb (fun p : string * kval => match kw_get (fst p) b with Some v => kval_eqb (snd p) v | None => false end) a.

Definition result_eqb (a b : string * keywords) : bool := s_eqb (fst a) (fst b) && kw_eqb (snd a) (snd b).

Definition check_case (c : wcfg * molrec * outcome (string * keywords)) : bool :=
  let '(cfg, m, expected) := c in outcome_eqb result_eqb (to_string_model cfg m) expected.
