(** C12 — helpers for the translated random_rotation_matrix (Gen/Rand3dRot.v): matrix subtraction and the
    correspondence checker (the generated term is run at K = Q on the sines/cosines/square roots the
    implementation's own numpy calls produced).  Definitions only. *)
From Coq Require Import List Arith Bool ZArith QArith Qabs.
Require Import QV.Common.Outcome QV.Common.AlignAlg QV.Common.AlignAlgQuat.
Import ListNotations.

Section Ops.
Context {K : Type} {KO : Ops K}.
Definition msub3 (A B : mat3 K) : mat3 K :=
  let '(a0, a1, a2) := A in let '(b0, b1, b2) := B in (vsub a0 b0, vsub a1 b1, vsub a2 b2).
End Ops.
