(** C08 — types of the per-dtype tables that harness/translate/writer_tables.py regenerates from
    qcelemental/molparse/to_string.py into Gen/WriterTables.v.  Hand-written; no definitions that
    depend on the source. *)
From Coq Require Import ZArith List String Bool.
Import ListNotations.

(** how a branch looks the unit label up: [umap[units.lower()]], [umap.get(units.lower())],
    [umap.get(units.lower(), units.lower())], or not at all *)
Inductive umode := UIndex | UGetNone | UGetSelf | UNoMap.

(** how a branch obtains atom_format / ghost_format: a constant (the argument is ignored),
    [X if arg is None else arg], [arg or X], or the name is never assigned *)
Inductive fmode := FFixed | FIfNone | FOr | FAbsent.

(** right-hand sides occurring in [data.keywords] *)
Inductive kexpr :=
| KCharge            (* int(molrec["molecular_charge"]) *)
| KMult              (* molrec["molecular_multiplicity"] *)
| KMultM1            (* molrec["molecular_multiplicity"] - 1 *)
| KUnitsGet          (* umap.get(units.lower()) *)
| KUnitsIdx          (* umap[units.lower()] *)
| KConstS (s : string)
| KConstB (b : bool)
| KFixCom            (* molrec["fix_com"] *)
| KFixOrientOrCom    (* molrec["fix_orientation"] or molrec["fix_com"] *)
| KCoords.           (* "\n".join(atoms) *)

Inductive kcond :=
| CAlways
| CMultNe1           (* molrec["molecular_multiplicity"] != 1 *)
| CFixSymC1.         (* "fix_symmetry" in molrec.keys() and molrec["fix_symmetry"] == "c1" *)

Record wt_entry := {
  wt_dtype : string;
  wt_default_units : string;
  wt_afmt : string; wt_afmode : fmode;
  wt_gfmt : string; wt_gfmode : fmode;
  wt_umap : list (string * string);
  wt_umode : umode;
  wt_formatter : bool;            (* the branch calls _atoms_formatter(molrec, geom, af, gf, width, prec, 2[, xyze]) *)
  wt_xyze : bool;
  wt_lower : bool;                (* atoms = [at.lower() for at in atoms] *)
  wt_kw : list (kcond * string * kexpr)
}.

(** values of the returned keyword dictionary *)
Inductive kval := KVInt (z : Z) | KVStr (s : string) | KVBool (b : bool) | KVNone.
