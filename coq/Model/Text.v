(** C07 — model of qcelemental.molparse.from_string for the Cartesian dtypes xyz, xyz+, psi4, up to the
    intermediate dictionary handed to from_input_arrays ([return_processed=True]); validation after parsing
    is not modelled here (C04/C05/C06 do that).

    Lexical layer: filter_comments, strip, line split, and hand-written recognisers equivalent (on ASCII
    text) to the regular expressions NUMBER, SEP, CHGMULT, CARTXYZ, NUCLEUS, SIMPLENUCLEUS, xyz1, xyz1strict,
    xyz2, com, orient, bohrang, symmetry, the fragment marker, pubchem and efp guards.  Each recogniser is
    tied to [re] differentially on every run (harness/props/c07.py).
    Syntactic layer: _filter_xyz (strict / plus), _filter_pubchem (guard only), _filter_universals,
    _filter_libefp (guard only), _filter_mints (Cartesian), remnant detection -> MoleculeFormatError.
    Numbers: a NUMBER token is kept as an exact decimal [dnum]; [int()] of a digit run keeps CPython's
    4300-digit limit (ValueError). *)
From Coq Require Import ZArith NArith List String Ascii Bool.
Require Import QV.Common.Outcome QV.Common.WText QV.Common.WBin64.
Import ListNotations.
Open Scope Z_scope.

(* ------------------------------------------------------------------------------------------ *)
(** * characters *)
Definition c_hash : ascii := ch 35.
Definition c_bsl : ascii := ch 92.
Definition c_at : ascii := ch 64.
Definition c_dot : ascii := ch 46.
Definition c_us : ascii := ch 95.
Definition c_lpar : ascii := ch 40.
Definition c_rpar : ascii := ch 41.
Definition c_plus : ascii := ch 43.
Definition c_minus : ascii := ch 45.
Definition c_colon : ascii := ch 58.
Definition c_eq : ascii := ch 61.
(** SEP / ENDL character class [\t ,] *)
Definition is_sepc (c : ascii) : bool := N.eqb (code c) 9 || N.eqb (code c) 32 || N.eqb (code c) 44.
(** [\s,] and [\s=] *)
Definition is_ws_comma (c : ascii) : bool := c_is_space c || N.eqb (code c) 44.
Definition is_ws_eq (c : ascii) : bool := c_is_space c || N.eqb (code c) 61.
Definition is_expc (c : ascii) : bool := let n := code c in N.eqb n 68 || N.eqb n 100 || N.eqb n 69 || N.eqb n 101.  (* D d E e *)

(* ------------------------------------------------------------------------------------------ *)
(** * filter_comments: re.sub(r"(^|\n|(?<=[^\\\n]))#.*", "", s)
    A "#" starts a comment (to the end of the line) at the very start of the text, or right after a newline
    (the newline goes with the comment), or after any other character except a backslash (that character stays).
    [skip]: inside a comment; [pok]: a "#" here would start a comment (text start, or the previous character
    is neither a backslash nor a newline). *)
Definition ok_before_hash (c : ascii) : bool := negb (c_eqb c c_bsl) && negb (c_eqb c nl).
Fixpoint fc (s : string) (skip pok : bool) : string :=
  match s with
  | EmptyString => EmptyString
  | String c r =>
      if skip && negb (c_eqb c nl) then fc r true false
      else if c_eqb c c_hash && pok then fc r true false
      else match r with
           | String c2 r2 => if c_eqb c nl && c_eqb c2 c_hash then fc r2 true false else String c (fc r false (ok_before_hash c))
           | EmptyString => String c EmptyString
           end
  end.
Definition filter_comments (s : string) : string := fc s false true.

(* ------------------------------------------------------------------------------------------ *)
(** * generic scanning helpers *)
Fixpoint take_while (p : ascii -> bool) (s : string) : string :=
  match s with
  | String c r => if p c then String c (take_while p r) else EmptyString
  | EmptyString => EmptyString
  end.
Fixpoint drop_while (p : ascii -> bool) (s : string) : string :=
  match s with
  | String c r => if p c then drop_while p r else s
  | EmptyString => EmptyString
  end.
Definition is_empty (s : string) : bool := match s with EmptyString => true | _ => false end.
Definition first_is (p : ascii -> bool) (s : string) : bool := match s with String c _ => p c | EmptyString => false end.
Fixpoint last_is (p : ascii -> bool) (s : string) : bool :=
  match s with
  | EmptyString => false
  | String c EmptyString => p c
  | String _ r => last_is p r
  end.

(** split at every character of class [p] (like re.split on a single character of the class) *)
Fixpoint split_any (p : ascii -> bool) (s : string) : list string :=
  match s with
  | EmptyString => [EmptyString]
  | String c r =>
      if p c then EmptyString :: split_any p r
      else match split_any p r with
           | [] => [String c EmptyString]
           | x :: xs => String c x :: xs
           end
  end.
(** the SEP-separated tokens of a line *)
Definition toks (s : string) : list string := filter (fun t => negb (is_empty t)) (split_any is_sepc s).
(** a pattern "tok SEP tok ... tok" anchored at both ends needs the line to begin and end with a token *)
Definition edges_ok (s : string) : bool := negb (first_is is_sepc s) && negb (last_is is_sepc s).

(* ------------------------------------------------------------------------------------------ *)
(** * NUMBER *)
Record dnum := { dneg : bool; dcoef : Z; dexp : Z }.      (* (-1)^neg * coef * 10^exp *)

Definition digits_or_zero (s : string) : Z := match digits_val s with Some z => z | None => 0 end.

(** optional sign *)
Definition split_sign (s : string) : bool * string :=
  match s with
  | String c r => if c_eqb c c_minus then (true, r) else if c_eqb c c_plus then (false, r) else (false, s)
  | EmptyString => (false, s)
  end.

(** [-+]? ( \d*\.\d+ | \d+\.\d* | \d+ ) ([DdEe][-+]?\d+)?  — full match; value as an exact decimal *)
Definition parse_number (s : string) : option dnum :=
  let '(neg, s1) := split_sign s in
  let ip := take_while c_is_digit s1 in
  let s2 := drop_while c_is_digit s1 in
  let '(has_dot, fp, s3) :=
    match s2 with
    | String c r => if c_eqb c c_dot then (true, take_while c_is_digit r, drop_while c_is_digit r) else (false, EmptyString, s2)
    | EmptyString => (false, EmptyString, s2)
    end in
  if is_empty ip && is_empty fp then None
  else
    let coef := digits_or_zero (ip ++ fp)%string in
    let k := Z.of_nat (String.length fp) in
    match s3 with
    | EmptyString => Some {| dneg := neg; dcoef := coef; dexp := - k |}
    | String c r =>
        if is_expc c then
          let '(eneg, ds) := split_sign r in
          if negb (is_empty ds) && s_all c_is_digit ds then
            let e := digits_or_zero ds in
            Some {| dneg := neg; dcoef := coef; dexp := (if eneg then - e else e) - k |}
          else None
        else None
    end.
Definition is_number (s : string) : bool := match parse_number s with Some _ => true | None => false end.

(** \d+ *)
Definition all_digits (s : string) : bool := negb (is_empty s) && s_all c_is_digit s.

(** CPython int() on a run of decimal digits: more than 4300 digits raise ValueError *)
Definition int_max_str_digits : nat := 4300.
Definition py_int (s : string) : outcome Z :=
  if Nat.ltb int_max_str_digits (String.length s) then Err PyValueError else Ok (digits_or_zero s).

(* ------------------------------------------------------------------------------------------ *)
(** * NUCLEUS (re.IGNORECASE | re.VERBOSE), full match of a token *)
Definition len_between (lo hi : nat) (s : string) : bool := Nat.leb lo (String.length s) && Nat.leb (String.length s) hi.

(** optional user label after the element symbol: (_\w+) | (\d+) | nothing *)
Definition user1_ok (s : string) : bool :=
  match s with
  | EmptyString => true
  | String c r => if c_eqb c c_us then negb (is_empty r) && s_all c_is_word r else all_digits s
  end.
(** optional user label after an atomic number: (_\w+) | nothing *)
Definition user2_ok (s : string) : bool :=
  match s with
  | EmptyString => true
  | String c r => c_eqb c c_us && negb (is_empty r) && s_all c_is_word r
  end.
(** label1 | label2 *)
Definition core_ok (s : string) : bool :=
  let d := take_while c_is_digit s in
  let r1 := drop_while c_is_digit s in
  if first_is c_is_alpha r1 then
    let l := take_while c_is_alpha r1 in
    len_between 1 3 l && user1_ok (drop_while c_is_alpha r1)
  else len_between 1 3 d && user2_ok r1.
(** \d+\.\d+ *)
Definition mass_ok (s : string) : bool :=
  let a := take_while c_is_digit s in
  match drop_while c_is_digit s with
  | String c r => c_eqb c c_dot && negb (is_empty a) && all_digits r
  | EmptyString => false
  end.
Definition not_at (c : ascii) : bool := negb (c_eqb c c_at).
Definition core_mass_ok (s : string) : bool :=
  let core := take_while not_at s in
  match drop_while not_at s with
  | EmptyString => core_ok core
  | String _ m => core_ok core && mass_ok m
  end.
(** text before a final ")" *)
Fixpoint strip_rpar (s : string) : option string :=
  match s with
  | EmptyString => None
  | String c EmptyString => if c_eqb c c_rpar then Some EmptyString else None
  | String c r => match strip_rpar r with Some t => Some (String c t) | None => None end
  end.
Definition is_nucleus (s : string) : bool :=
  match s with
  | String c r =>
      if c_eqb c c_at then core_mass_ok r
      else if s_prefix "gh(" (s_lower s) then
        match strip_rpar (s_drop 3 s) with Some inner => core_mass_ok inner | None => false end
      else core_mass_ok s
  | EmptyString => false
  end.
(** SIMPLENUCLEUS: [A-Z]{1,3} | \d{1,3} *)
Definition is_simple_nucleus (s : string) : bool :=
  len_between 1 3 s && (s_all c_is_alpha s || s_all c_is_digit s).

(* ------------------------------------------------------------------------------------------ *)
(** * line recognisers (applied to stripped lines) *)
(** \A nucleus SEP x SEP y SEP z \Z *)
Definition atom_match (nuc_ok : string -> bool) (line : string) : option (string * dnum * dnum * dnum) :=
  if edges_ok line then
    match toks line with
    | [n; x; y; z] =>
        if nuc_ok n then
          match parse_number x, parse_number y, parse_number z with
          | Some a, Some b, Some c => Some (n, a, b, c)
          | _, _, _ => None
          end
        else None
    | _ => None
    end
  else None.
(** cgmp: \A chg SEP mult \Z — the texts of the two groups *)
Definition cgmp_match (line : string) : option (dnum * string) :=
  if edges_ok line then
    match toks line with
    | [c; m] => match parse_number c with Some q => if all_digits m then Some (q, m) else None | None => None end
    | _ => None
    end
  else None.
(** xyz2: \A chg SEP mult (prefix match) *)
Definition not_sepc (c : ascii) : bool := negb (is_sepc c).
Definition xyz2_match (line : string) : option (dnum * string) :=
  let c := take_while not_sepc line in
  let r := drop_while not_sepc line in
  if is_empty r then None
  else match parse_number c with
       | Some q => let m := take_while c_is_digit (drop_while is_sepc r) in
                   if is_empty m then None else Some (q, m)
       | None => None
       end.
(** xyz1strict: \A\d+\Z ;  xyz1: \A\d+[\s,]*((bohr|au)|(ang))?\Z (IGNORECASE) — Some (Some u) / Some None *)
Definition xyz1_match (line : string) : option (option string) :=
  if first_is c_is_digit line then
    let r := s_lower (drop_while is_ws_comma (drop_while c_is_digit line)) in
    if is_empty r then Some None
    else if s_eqb r "bohr" || s_eqb r "au" then Some (Some "Bohr"%string)
    else if s_eqb r "ang" then Some (Some "Angstrom"%string)
    else None
  else None.

Definition is_com (line : string) : bool := let l := s_lower line in s_eqb l "no_com" || s_eqb l "nocom".
Definition is_orient (line : string) : bool := let l := s_lower line in s_eqb l "no_reorient" || s_eqb l "noreorient".
(** units?[\s=]+((bohr|au|a.u.)|(ang|angstrom)) *)
Definition au_dotted (r : string) : bool :=          (* "a.u." with regex dots: a, any, u, any *)
  match r with
  | String a (String _ (String u (String _ EmptyString))) => c_eqb (c_lower a) (ch 97) && c_eqb (c_lower u) (ch 117)
  | _ => false
  end.
Definition units_match (line : string) : option string :=
  if s_prefix "unit" (s_lower line) then
    let r0 := s_drop 4 line in
    let r1 := match r0 with String c r => if c_eqb (c_lower c) (ch 115) then r else r0 | EmptyString => r0 end in
    if first_is is_ws_eq r1 then
      let w := drop_while is_ws_eq r1 in
      let lw := s_lower w in
      if s_eqb lw "bohr" || s_eqb lw "au" || au_dotted w then Some "Bohr"%string
      else if s_eqb lw "ang" || s_eqb lw "angstrom" then Some "Angstrom"%string
      else None
    else None
  else None.
(** symmetry[\s=]+(\w+) — the point group, lower-cased *)
Definition symmetry_match (line : string) : option string :=
  if s_prefix "symmetry" (s_lower line) then
    let r := s_drop 8 line in
    if first_is is_ws_eq r then
      let w := drop_while is_ws_eq r in
      if negb (is_empty w) && s_all c_is_word w then Some (s_lower w) else None
    else None
  else None.
Definition is_dash (line : string) : bool := s_eqb line "--".
(** pubchem\s*:\s*[\S ]+ — a network lookup: outside the model *)
Definition is_pubchem (line : string) : bool :=
  if s_prefix "pubchem" (s_lower line) then
    match drop_while c_is_space (s_drop 7 line) with
    | String c r => c_eqb c c_colon
                    && (let w := drop_while c_is_space r in
                        negb (is_empty w) && s_all (fun x => negb (c_is_space x) || c_eqb x sp) w)
    | EmptyString => false
    end
  else false.
(** a fragment that starts with "efp" SEP may be an EFP specification: outside the model *)
Definition is_efp_start (line : string) : bool :=
  s_prefix "efp" (s_lower line) && first_is is_sepc (s_drop 3 line).

(* ------------------------------------------------------------------------------------------ *)
(** * the intermediate dictionary *)
Record processed := {
  p_units : option string;
  p_fix_com : bool; p_fix_orient : bool;            (* key present (= True) or absent *)
  p_fix_symm : option string;
  p_molchg : option dnum; p_molmult : option Z;
  p_elbl : list string;
  p_geom : list dnum;
  p_seps : option (list nat);                       (* psi4 only *)
  p_fchg : option (list (option dnum));             (* psi4 only *)
  p_fmult : option (list (option Z))                (* psi4 only *)
}.

Definition stripped_lines (s : string) : list string := map s_strip (s_split nl s).

(* ------------------------------------------------------------------------------------------ *)
(** * _filter_xyz *)
Record xacc := { xa_elbl : list string; xa_geom : list dnum; xa_rem : bool }.

Fixpoint xyz_atoms (nuc_ok : string -> bool) (ls : list string) (a : xacc) : xacc :=
  match ls with
  | [] => a
  | l :: r =>
      match atom_match nuc_ok l with
      | Some (n, x, y, z) => xyz_atoms nuc_ok r {| xa_elbl := xa_elbl a ++ [n]; xa_geom := xa_geom a ++ [x; y; z]; xa_rem := xa_rem a |}
      | None => xyz_atoms nuc_ok r {| xa_elbl := xa_elbl a; xa_geom := xa_geom a; xa_rem := xa_rem a || negb (is_empty l) |}
      end
  end.

Definition parse_xyz_lines (strict : bool) (ls : list string) : outcome processed :=
  match ls with
  | [] => Err OutOfFuel                               (* split never returns an empty list *)
  | l0 :: rest =>
      let '(units, rem0) :=
        if strict then (None, negb (all_digits l0) && negb (is_empty l0))
        else match xyz1_match l0 with
             | Some u => (u, false)
             | None => (None, negb (is_empty l0))
             end in
      let body := match rest with [] => [] | _ :: b => b end in
      let cm : outcome (option (dnum * Z)) :=
        if strict then Ok None
        else match rest with
             | l1 :: _ => match xyz2_match l1 with
                          | Some (q, m) => obind (py_int m) (fun z => Ok (Some (q, z)))
                          | None => Ok None
                          end
             | [] => Ok None
             end in
      obind cm (fun cmv =>
        let a := xyz_atoms (if strict then is_simple_nucleus else is_nucleus) body {| xa_elbl := []; xa_geom := []; xa_rem := rem0 |} in
        if xa_rem a then Err MoleculeFormat
        else Ok {| p_units := Some (match units with Some u => u | None => "Angstrom"%string end);
                   p_fix_com := false; p_fix_orient := false; p_fix_symm := None;
                   p_molchg := match cmv with Some (q, _) => Some q | None => None end;
                   p_molmult := match cmv with Some (_, z) => Some z | None => None end;
                   p_elbl := xa_elbl a; p_geom := xa_geom a; p_seps := None; p_fchg := None; p_fmult := None |})
  end.
Definition parse_xyz (strict : bool) (text : string) : outcome processed := parse_xyz_lines strict (stripped_lines text).

(* ------------------------------------------------------------------------------------------ *)
(** * psi4: _filter_pubchem (guard), _filter_universals, _filter_libefp (guard), _filter_mints *)
Record uacc := { ua_com : bool; ua_orient : bool; ua_units : option string; ua_symm : option string; ua_keep : list string }.

Fixpoint universals (ls : list string) (a : uacc) : uacc :=
  match ls with
  | [] => a
  | l :: r =>
      let keep := {| ua_com := ua_com a; ua_orient := ua_orient a; ua_units := ua_units a; ua_symm := ua_symm a;
                     ua_keep := ua_keep a ++ [l] |} in
      let a' :=
        if negb (ua_com a) && is_com l then
          {| ua_com := true; ua_orient := ua_orient a; ua_units := ua_units a; ua_symm := ua_symm a; ua_keep := ua_keep a |}
        else if negb (ua_orient a) && is_orient l then
          {| ua_com := ua_com a; ua_orient := true; ua_units := ua_units a; ua_symm := ua_symm a; ua_keep := ua_keep a |}
        else match (if ua_units a then None else units_match l) with
             | Some u => {| ua_com := ua_com a; ua_orient := ua_orient a; ua_units := Some u; ua_symm := ua_symm a; ua_keep := ua_keep a |}
             | None =>
                 match (if ua_symm a then None else symmetry_match l) with
                 | Some g => {| ua_com := ua_com a; ua_orient := ua_orient a; ua_units := ua_units a; ua_symm := Some g; ua_keep := ua_keep a |}
                 | None => keep
                 end
             end in
      universals r a'
  end.

(** split at "--" lines; fragments without lines are dropped *)
Fixpoint split_dash (ls : list string) (cur : list string) : list (list string) :=
  match ls with
  | [] => match cur with [] => [] | _ => [cur] end
  | l :: r =>
      if is_dash l then match cur with [] => split_dash r [] | _ => cur :: split_dash r [] end
      else split_dash r (cur ++ [l])
  end.

Record macc := {
  ma_elbl : list string; ma_geom : list dnum; ma_seps : list nat;
  ma_fchg : list (option dnum); ma_fmult : list (option Z); ma_rem : bool
}.

(** the lines of one fragment: the first cgmp line is the fragment's charge/multiplicity *)
Fixpoint frag_lines (ls : list string) (found : option (dnum * Z)) (a : macc) : outcome (option (dnum * Z) * macc) :=
  match ls with
  | [] => Ok (found, a)
  | l :: r =>
      match (match found with None => cgmp_match l | Some _ => None end) with
      | Some (q, m) => obind (py_int m) (fun z => frag_lines r (Some (q, z)) a)
      | None =>
          match atom_match is_nucleus l with
          | Some (n, x, y, z) =>
              frag_lines r found {| ma_elbl := ma_elbl a ++ [n]; ma_geom := ma_geom a ++ [x; y; z]; ma_seps := ma_seps a;
                                    ma_fchg := ma_fchg a; ma_fmult := ma_fmult a; ma_rem := ma_rem a |}
          | None =>
              frag_lines r found {| ma_elbl := ma_elbl a; ma_geom := ma_geom a; ma_seps := ma_seps a;
                                    ma_fchg := ma_fchg a; ma_fmult := ma_fmult a; ma_rem := ma_rem a || negb (is_empty l) |}
          end
      end
  end.

Definition filter_fragment (ls : list string) (a : macc) : outcome macc :=
  let start := List.length (ma_elbl a) in
  let a1 := {| ma_elbl := ma_elbl a; ma_geom := ma_geom a;
               ma_seps := (if Nat.ltb 0 start then ma_seps a ++ [start] else ma_seps a);
               ma_fchg := ma_fchg a; ma_fmult := ma_fmult a; ma_rem := ma_rem a |} in
  obind (frag_lines ls None a1) (fun r =>
    let '(found, a2) := r in
    Ok {| ma_elbl := ma_elbl a2; ma_geom := ma_geom a2; ma_seps := ma_seps a2;
          ma_fchg := ma_fchg a2 ++ [match found with Some (q, _) => Some q | None => None end];
          ma_fmult := ma_fmult a2 ++ [match found with Some (_, z) => Some z | None => None end];
          ma_rem := ma_rem a2 |}).

Fixpoint fragments (frs : list (list string)) (a : macc) : outcome macc :=
  match frs with
  | [] => Ok a
  | f :: r => obind (filter_fragment f a) (fun a' => fragments r a')
  end.

Definition macc0 : macc := {| ma_elbl := []; ma_geom := []; ma_seps := []; ma_fchg := []; ma_fmult := []; ma_rem := false |}.

Definition nonempty (l : string) : bool := negb (is_empty l).
Definition parse_psi4_lines (ls : list string) : outcome processed :=
  if existsb is_pubchem ls then Err OutOfFuel
  else
    let u := universals ls {| ua_com := false; ua_orient := false; ua_units := None; ua_symm := None; ua_keep := [] |} in
    let frs0 := split_dash (ua_keep u) [] in
    let frs := match frs0 with [] => [[]] | _ => frs0 end in
    if existsb (fun f => match f with l :: _ => is_efp_start l | [] => false end) frs then Err OutOfFuel
    else
      (* a first fragment that is a lone chg/mult line states the total charge and multiplicity *)
      let sys : outcome (option (dnum * Z) * list (list string)) :=
        match frs with
        | [l] :: rest =>
            match cgmp_match l with
            | Some (q, m) => obind (py_int m) (fun z => Ok (Some (q, z), rest))
            | None => Ok (None, frs)
            end
        | _ => Ok (None, frs)
        end in
      obind sys (fun sv =>
        let '(cm, frs') := sv in
        obind (fragments frs' macc0) (fun a =>
          if ma_rem a then Err MoleculeFormat
          else Ok {| p_units := ua_units u; p_fix_com := ua_com u; p_fix_orient := ua_orient u; p_fix_symm := ua_symm u;
                     p_molchg := match cm with Some (q, _) => Some q | None => None end;
                     p_molmult := match cm with Some (_, z) => Some z | None => None end;
                     p_elbl := ma_elbl a; p_geom := ma_geom a; p_seps := Some (ma_seps a);
                     p_fchg := Some (ma_fchg a); p_fmult := Some (ma_fmult a) |})).
Definition parse_psi4 (text : string) : outcome processed := parse_psi4_lines (filter nonempty (stripped_lines text)).

(** from_string(text, dtype) up to the call of from_input_arrays: molstr = filter_comments(molstr.strip()) *)
Definition parse (dtype : string) (text : string) : outcome processed :=
  let s := filter_comments (s_strip text) in
  if s_eqb dtype "xyz" then parse_xyz true s
  else if s_eqb dtype "xyz+" then parse_xyz false s
  else if s_eqb dtype "psi4" then parse_psi4 s
  else Err PyKeyError.

(* ------------------------------------------------------------------------------------------ *)
(** * comparison with the implementation (correspondence) *)
(** CPython float(str): the nearest binary64.  Extreme exponents are answered without computing the power of
    ten: a value below 10^-330 rounds to (signed) zero, a value above 10^400 is inf (here: a sentinel that equals no
    finite double; the harness skips texts on which the implementation produced a non-finite float). *)
Definition dnum_to_b64 (d : dnum) : b64 :=
  if dcoef d =? 0 then B64 (dneg d) 0 0
  else
    let nd_hi := (Z.log2 (dcoef d) + 1) * 302 / 1000 + 1 in       (* upper bound on the number of decimal digits *)
    if dexp d + nd_hi <=? -330 then B64 (dneg d) 0 0
    else if 400 <? dexp d then B64 (dneg d) 1 5000
    else b64_of_dec (dneg d) (dcoef d) (dexp d).
Definition dnum_is (d : dnum) (b : b64) : bool := b64_eqb (dnum_to_b64 d) b.
Definition opt_eqb {A B} (f : A -> B -> bool) (a : option A) (b : option B) : bool :=
  match a, b with Some x, Some y => f x y | None, None => true | _, _ => false end.
Fixpoint list_eqb {A B} (f : A -> B -> bool) (a : list A) (b : list B) : bool :=
  match a, b with [] , [] => true | x :: a', y :: b' => f x y && list_eqb f a' b' | _, _ => false end.

(** the implementation's dictionary, floats as exact binary64 *)
Record processed_b := {
  q_units : option string; q_fix_com : bool; q_fix_orient : bool; q_fix_symm : option string;
  q_molchg : option b64; q_molmult : option Z; q_elbl : list string; q_geom : list b64;
  q_seps : option (list nat); q_fchg : option (list (option b64)); q_fmult : option (list (option Z))
}.
Definition processed_eqb (p : processed) (q : processed_b) : bool :=
  opt_eqb s_eqb (p_units p) (q_units q) && Bool.eqb (p_fix_com p) (q_fix_com q) && Bool.eqb (p_fix_orient p) (q_fix_orient q)
  && opt_eqb s_eqb (p_fix_symm p) (q_fix_symm q)
  && opt_eqb dnum_is (p_molchg p) (q_molchg q) && opt_eqb Z.eqb (p_molmult p) (q_molmult q)
  && list_eqb s_eqb (p_elbl p) (q_elbl q) && list_eqb dnum_is (p_geom p) (q_geom q)
  && opt_eqb (list_eqb Nat.eqb) (p_seps p) (q_seps q)
  && opt_eqb (list_eqb (opt_eqb dnum_is)) (p_fchg p) (q_fchg q)
  && opt_eqb (list_eqb (opt_eqb Z.eqb)) (p_fmult p) (q_fmult q).

Definition check_parse (c : string * string * outcome processed_b) : bool :=
  let '(dtype, text, expected) := c in
  match parse dtype text, expected with
  | Ok p, Ok q => processed_eqb p q
  | Err j, Err k => ekind_eqb j k
  | _, _ => false
  end.

(** recognisers against [re] (lexical correspondence): (kind, token/line, expected answer) *)
Definition check_lex (c : string * string * bool) : bool :=
  let '(kind, s, expected) := c in
  Bool.eqb expected
    (if s_eqb kind "NUMBER" then is_number s
     else if s_eqb kind "NUCLEUS" then is_nucleus s
     else if s_eqb kind "SIMPLENUCLEUS" then is_simple_nucleus s
     else if s_eqb kind "atom" then (match atom_match is_nucleus s with Some _ => true | None => false end)
     else if s_eqb kind "atom_strict" then (match atom_match is_simple_nucleus s with Some _ => true | None => false end)
     else if s_eqb kind "cgmp" then (match cgmp_match s with Some _ => true | None => false end)
     else if s_eqb kind "xyz2" then (match xyz2_match s with Some _ => true | None => false end)
     else if s_eqb kind "xyz1" then (match xyz1_match s with Some _ => true | None => false end)
     else if s_eqb kind "xyz1strict" then all_digits s
     else if s_eqb kind "com" then is_com s
     else if s_eqb kind "orient" then is_orient s
     else if s_eqb kind "bohrang" then (match units_match s with Some _ => true | None => false end)
     else if s_eqb kind "symmetry" then (match symmetry_match s with Some _ => true | None => false end)
     else if s_eqb kind "pubchem" then is_pubchem s
     else false).
(** text transformers against the implementation: filter_comments, strip *)
Definition check_text (c : string * string * string) : bool :=
  let '(kind, s, expected) := c in
  s_eqb expected (if s_eqb kind "filter_comments" then filter_comments s else if s_eqb kind "strip" then s_strip s else "?").

(* ------------------------------------------------------------------------------------------ *)
(** * format auto-detection: from_string(text, dtype=None)
    The cascade psi4 -> xyz -> xyz+ -> psi4+; only MoleculeFormatError moves on to the next reader, any other
    exception escapes.  psi4+ (the zmatrix dialect) is outside the model: when the three Cartesian readers
    all refuse the text the model answers [Err OutOfFuel]. *)
Definition tag_with (d : string) (r : outcome processed) : outcome (string * processed) :=
  match r with Ok p => Ok (d, p) | Err k => Err k end.
Definition is_format_error (r : outcome processed) : bool :=
  match r with Err MoleculeFormat => true | _ => false end.
Definition parse_auto (text : string) : outcome (string * processed) :=
  let s := filter_comments (s_strip text) in
  let r1 := parse_psi4 s in
  if is_format_error r1 then
    let r2 := parse_xyz true s in
    if is_format_error r2 then
      let r3 := parse_xyz false s in
      if is_format_error r3 then Err OutOfFuel else tag_with "xyz+" r3
    else tag_with "xyz" r2
  else tag_with "psi4" r1.

Definition check_auto (c : string * outcome processed_b) : bool :=
  let '(text, expected) := c in
  match parse_auto text, expected with
  | Ok (_, p), Ok q => processed_eqb p q
  | Err OutOfFuel, _ => true                     (* psi4+ territory: not compared *)
  | Err j, Err k => ekind_eqb j k
  | _, _ => false
  end.
