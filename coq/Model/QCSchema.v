(** C09 — what a pydantic(v1) model instance is, what it emits, and the static compatibility
    check between field descriptors and an exported JSON schema.  Definitions only.

    [ftype]   the outer type of a field as found in [Model.__fields__] (Gen/FieldTypes.v),
    [pval]    a validated Python value held by a model instance,
    [Inh]     "value v is an inhabitant of descriptor D" (the modelled behaviour of pydantic's
              validation: a field declared with D holds such a value; checked on every generated
              instance by the correspondence step through [inhabitsb]),
    [emit]    Model.json(exclude_unset=True, exclude_none=True): set fields only (a [PModel] lists
              exactly the set fields, by alias), None-valued fields dropped, ndarrays flattened,
    [compat]  descriptor-vs-schema checker; Proofs/QCSchema.v shows
              compat = true -> every inhabitant's emission is Valid. *)
From Coq Require Import ZArith NArith QArith List String Bool.
Require Import QV.Common.Outcome QV.Common.JsonS.
Import ListNotations.
Open Scope string_scope.

Inductive akind := AFloat | AInt | AStr | ABool.

Inductive ftype :=
| TStr | TInt | TFloat | TBool | TAny
| TEnum (vs : list string)                 (* str-Enum, Literal[...], constr(strip, regex="^(a|b)$") *)
| TIntC (ge le : option Z)                 (* ConstrainedInt *)
| TFloatC (ge le : option Q)               (* ConstrainedFloat *)
| TArr (k : akind)                         (* numpy ndarray of that kind, as TypedArray.validate = np.asarray leaves it:
                                              possibly 0-dimensional (see [Inh]) *)
| TArrS (k : akind)                        (* ndarray field that a validator reshapes / takes len() of: never 0-d *)
| TList (t : ftype) (mn mx : option N)     (* List[t] with min_items/max_items *)
| TListU (t : ftype) (mn mx : option N)    (* a List[t] whose emitted items are pairwise different (not a pydantic
                                              notion: used to state conformance of duplicate-free basis sets) *)
| TTuple (ts : list ftype)                 (* Tuple[t1,...,tn] *)
| TDict (t : ftype)                        (* Dict[str, t] *)
| TOpt (t : ftype)                         (* Optional[t] nested inside a container *)
| TUnion (ts : list ftype)
| TModel (name : string).

Record field := { f_alias : string; f_required : bool; f_nullable : bool; f_type : ftype }.
Record model := { m_extra : bool; m_fields : list field }.
Definition env_t := list (string * model).

Inductive pval :=
| PNone
| PBool (b : bool)
| PInt (z : Z)
| PFloat (q : Q)
| PStr (s : string)
| PArr (k : akind) (shape : list N) (data : list pval)   (* data in C order *)
| PList (l : list pval)                                   (* list or tuple *)
| PDict (d : list (string * pval))
| PModel (fs : list (string * pval)).                     (* the fields that are set, by alias *)

Definition is_none (v : pval) : bool := match v with PNone => true | _ => false end.

Fixpoint emit (v : pval) : json :=
  match v with
  | PNone => JNull
  | PBool b => JBool b
  | PInt z => JInt z
  | PFloat q => JFloat q
  | PStr s => JStr s
  | PArr _ sh data =>
      match sh, data with
      | [], [x] => emit x                                  (* 0-d array: ndarray.tolist() is a scalar *)
      | _, _ => JArr (map emit data)
      end
  | PList l => JArr (map emit l)
  | PDict d => JObj (map (fun kv => (fst kv, emit (snd kv))) d)
  | PModel fs =>
      JObj ((fix go (fs : list (string * pval)) : list (string * json) :=
               match fs with
               | [] => []
               | (k, v) :: r => if is_none v then go r else (k, emit v) :: go r
               end) fs)
  end.

Definition scalar_ty (k : akind) : ftype :=
  match k with AFloat => TFloat | AInt => TInt | AStr => TStr | ABool => TBool end.

Definition opt_le_Z (a : option Z) (z : Z) : bool := match a with Some g => (g <=? z)%Z | None => true end.
Definition opt_ge_Z (a : option Z) (z : Z) : bool := match a with Some g => (z <=? g)%Z | None => true end.
Definition opt_le_Q (a : option Q) (q : Q) : bool := match a with Some g => Qle_bool g q | None => true end.
Definition opt_ge_Q (a : option Q) (q : Q) : bool := match a with Some g => Qle_bool q g | None => true end.
Definition len_ok (mn mx : option N) (n : nat) : bool :=
  match mn with Some m => (m <=? N.of_nat n)%N | None => true end &&
  match mx with Some m => (N.of_nat n <=? m)%N | None => true end.

Fixpoint find_field (k : string) (fs : list field) : option field :=
  match fs with
  | [] => None
  | f :: r => if String.eqb k (f_alias f) then Some f else find_field k r
  end.

(** [Inh z env D v]: with [z = false] ndarrays have at least one dimension; [z = true] also admits
    the 0-d arrays that [np.asarray(scalar)] yields for a field without a shape validator. *)
Inductive Inh (z : bool) (env : env_t) : ftype -> pval -> Prop :=
| I_str : forall s, Inh z env TStr (PStr s)
| I_int : forall n, Inh z env TInt (PInt n)
| I_float : forall q, Inh z env TFloat (PFloat q)
| I_bool : forall b, Inh z env TBool (PBool b)
| I_any : forall v, Inh z env TAny v
| I_enum : forall vs s, existsb (String.eqb s) vs = true -> Inh z env (TEnum vs) (PStr s)
| I_intc : forall ge le n, opt_le_Z ge n = true -> opt_ge_Z le n = true -> Inh z env (TIntC ge le) (PInt n)
| I_floatc : forall ge le q, opt_le_Q ge q = true -> opt_ge_Q le q = true -> Inh z env (TFloatC ge le) (PFloat q)
| I_arr : forall k sh data,
    (forall x, In x data -> Inh z env (scalar_ty k) x) ->
    (sh = [] -> z = true /\ exists x, data = [x]) ->
    Inh z env (TArr k) (PArr k sh data)
| I_arrs : forall k sh data,
    (forall x, In x data -> Inh z env (scalar_ty k) x) -> sh <> [] ->
    Inh z env (TArrS k) (PArr k sh data)
| I_list : forall t mn mx l, (forall x, In x l -> Inh z env t x) -> len_ok mn mx (List.length l) = true ->
                             Inh z env (TList t mn mx) (PList l)
| I_listu : forall t mn mx l, (forall x, In x l -> Inh z env t x) -> len_ok mn mx (List.length l) = true ->
                              uniqueb (map emit l) = true -> Inh z env (TListU t mn mx) (PList l)
| I_tuple : forall ts l, Forall2 (Inh z env) ts l -> Inh z env (TTuple ts) (PList l)
| I_dict : forall t d, (forall k v, In (k, v) d -> Inh z env t v) -> Inh z env (TDict t) (PDict d)
| I_opt_none : forall t, Inh z env (TOpt t) PNone
| I_opt_some : forall t v, Inh z env t v -> Inh z env (TOpt t) v
| I_union : forall ts t v, In t ts -> Inh z env t v -> Inh z env (TUnion ts) v
| I_model : forall name m fs,
    assoc name env = Some m ->
    (forall k v f, In (k, v) fs -> find_field k (m_fields m) = Some f ->
                   (v = PNone /\ f_nullable f = true) \/ Inh z env (f_type f) v) ->
    (forall k v, In (k, v) fs -> find_field k (m_fields m) = None -> m_extra m = true) ->
    (forall f, In f (m_fields m) -> f_required f = true -> has_key (f_alias f) fs = true) ->
    Inh z env (TModel name) (PModel fs).

(** the descriptors with the listed (model, field) List fields declared duplicate-free *)
Definition uniq_field (sites : list (string * string)) (mname : string) (f : field) : field :=
  if existsb (fun p => String.eqb (fst p) mname && String.eqb (snd p) (f_alias f)) sites then
    match f_type f with
    | TList t mn mx => {| f_alias := f_alias f; f_required := f_required f; f_nullable := f_nullable f; f_type := TListU t mn mx |}
    | _ => f
    end
  else f.
Definition uniq_env (sites : list (string * string)) (e : env_t) : env_t :=
  map (fun nm => (fst nm, {| m_extra := m_extra (snd nm); m_fields := map (uniq_field sites (fst nm)) (m_fields (snd nm)) |})) e.
(** the descriptors with the listed (model, field) ndarray fields declared never 0-dimensional *)
Definition shape_field (sites : list (string * string)) (mname : string) (f : field) : field :=
  if existsb (fun p => String.eqb (fst p) mname && String.eqb (snd p) (f_alias f)) sites then
    match f_type f with
    | TArr k => {| f_alias := f_alias f; f_required := f_required f; f_nullable := f_nullable f; f_type := TArrS k |}
    | TList (TArr k) mn mx => {| f_alias := f_alias f; f_required := f_required f; f_nullable := f_nullable f;
                                 f_type := TList (TArrS k) mn mx |}
    | _ => f
    end
  else f.
Definition shape_env (sites : list (string * string)) (e : env_t) : env_t :=
  map (fun nm => (fst nm, {| m_extra := m_extra (snd nm); m_fields := map (shape_field sites (fst nm)) (m_fields (snd nm)) |})) e.
(** the ndarray-typed fields (directly, or as list items) that are still plain [TArr] *)
Definition plain_array_fields (e : env_t) : list (string * string) :=
  flat_map (fun nm => flat_map (fun f => match f_type f with
                                         | TArr _ | TList (TArr _) _ _ => [(fst nm, f_alias f)]
                                         | _ => []
                                         end) (m_fields (snd nm))) e.

(** the four List fields of basis.py that carry "uniqueItems" in the exported schema *)
Definition basis_unique_sites : list (string * string) :=
  [("ElectronShell", "angular_momentum"); ("ECPPotential", "angular_momentum");
   ("BasisCenter", "electron_shells"); ("BasisCenter", "ecp_potentials")].

(** executable version (fuel decreases at every call; false when it runs out) *)
Fixpoint forallb2 {A B} (f : A -> B -> bool) (l : list A) (m : list B) : bool :=
  match l, m with
  | [], [] => true
  | x :: l', y :: m' => f x y && forallb2 f l' m'
  | _, _ => false
  end.

Fixpoint inhabitsb (n : nat) (z : bool) (env : env_t) (D : ftype) (v : pval) {struct n} : bool :=
  match n with
  | O => false
  | S n' =>
      match D, v with
      | TStr, PStr _ => true
      | TInt, PInt _ => true
      | TFloat, PFloat _ => true
      | TBool, PBool _ => true
      | TAny, _ => true
      | TEnum vs, PStr s => existsb (String.eqb s) vs
      | TIntC ge le, PInt x => opt_le_Z ge x && opt_ge_Z le x
      | TFloatC ge le, PFloat q => opt_le_Q ge q && opt_ge_Q le q
      | TArr k, PArr k' sh data =>
          match k, k' with AFloat, AFloat | AInt, AInt | AStr, AStr | ABool, ABool => true | _, _ => false end &&
          forallb (inhabitsb n' z env (scalar_ty k)) data &&
          match sh with [] => z && match data with [_] => true | _ => false end | _ => true end
      | TArrS k, PArr k' sh data =>
          match k, k' with AFloat, AFloat | AInt, AInt | AStr, AStr | ABool, ABool => true | _, _ => false end &&
          forallb (inhabitsb n' z env (scalar_ty k)) data &&
          match sh with [] => false | _ => true end
      | TList t mn mx, PList l => forallb (inhabitsb n' z env t) l && len_ok mn mx (List.length l)
      | TListU t mn mx, PList l => forallb (inhabitsb n' z env t) l && len_ok mn mx (List.length l) && uniqueb (map emit l)
      | TTuple ts, PList l => forallb2 (inhabitsb n' z env) ts l
      | TDict t, PDict d => forallb (fun kv => inhabitsb n' z env t (snd kv)) d
      | TOpt t, _ => is_none v || inhabitsb n' z env t v
      | TUnion ts, _ => existsb (fun t => inhabitsb n' z env t v) ts
      | TModel name, PModel fs =>
          match assoc name env with
          | None => false
          | Some m =>
              forallb (fun kv => match find_field (fst kv) (m_fields m) with
                                 | Some f => (is_none (snd kv) && f_nullable f) || inhabitsb n' z env (f_type f) (snd kv)
                                 | None => m_extra m
                                 end) fs &&
              forallb (fun f => negb (f_required f) || has_key (f_alias f) fs) (m_fields m)
          end
      | _, _ => false
      end
  end.

(** ** Descriptor-vs-schema compatibility *)
Inductive jkind := KStr | KInt | KFlt | KBool | KArr | KObj.

Definition kind_of (D : ftype) : option jkind :=
  match D with
  | TStr | TEnum _ => Some KStr
  | TInt | TIntC _ _ => Some KInt
  | TFloat | TFloatC _ _ => Some KFlt
  | TBool => Some KBool
  | TArr _ | TArrS _ | TList _ _ _ | TListU _ _ _ | TTuple _ => Some KArr
  | TDict _ | TModel _ => Some KObj
  | TAny | TOpt _ | TUnion _ => None
  end.

Definition type_ok (k : jkind) (t : jtype) : bool :=
  match k, t with
  | KStr, TyString | KInt, TyInteger | KInt, TyNumber | KFlt, TyNumber | KBool, TyBoolean
  | KArr, TyArray | KObj, TyObject => true
  | _, _ => false
  end.

(** can a value of this descriptor be None (and hence be dropped from the emission)?
    (conservative for a Union nested directly in a Union, which pydantic flattens anyway) *)
Definition maybe_none1 (D : ftype) : bool :=
  match D with TAny | TOpt _ | TUnion _ => true | _ => false end.
Definition can_none (D : ftype) : bool :=
  match D with
  | TAny | TOpt _ => true
  | TUnion ts => existsb maybe_none1 ts
  | _ => false
  end.

Definition is_numk (k : jkind) : bool := match k with KInt | KFlt => true | _ => false end.
Definition is_arrk (k : jkind) : bool := match k with KArr => true | _ => false end.
Definition is_objk (k : jkind) : bool := match k with KObj => true | _ => false end.
Definition is_strk (k : jkind) : bool := match k with KStr => true | _ => false end.

Definition optN0 (o : option N) : N := match o with Some n => n | None => 0%N end.

(** leaf keywords against a descriptor of definite kind [k] *)
Definition leaf_compat (D : ftype) (k : jkind) (S : schema) : bool :=
  match S with
  | SType t => type_ok k t
  | SEnum vs => match D with
                | TEnum es => forallb (fun e => existsb (json_eqb (JStr e)) vs) es
                | _ => false
                end
  | SPattern alts => match D with
                     | TEnum es => forallb (fun e => existsb (String.eqb e) alts) es
                     | _ => negb (is_strk k)
                     end
  | SRequired rs => negb (is_objk k) || match rs with [] => true | _ => false end
  | SMinItems n => match D with
                   | TList _ mn _ | TListU _ mn _ => (n <=? optN0 mn)%N
                   | TTuple ts => (n <=? N.of_nat (List.length ts))%N
                   | TArr _ | TArrS _ => (n =? 0)%N
                   | _ => negb (is_arrk k)
                   end
  | SMaxItems n => match D with
                   | TList _ _ (Some mx) | TListU _ _ (Some mx) => (mx <=? n)%N
                   | TTuple ts => (N.of_nat (List.length ts) <=? n)%N
                   | _ => negb (is_arrk k)
                   end
  | SUnique => match D with
               | TListU _ _ _ => true
               | TList _ _ (Some mx) => (mx <=? 1)%N
               | TTuple ts => (N.of_nat (List.length ts) <=? 1)%N
               | _ => negb (is_arrk k)
               end
  | SMin q e => match D with
                | TIntC (Some g) _ => q_ge (inject_Z g) q e
                | TFloatC (Some g) _ => q_ge g q e
                | _ => negb (is_numk k)
                end
  | SMax q e => match D with
                | TIntC _ (Some g) => q_le (inject_Z g) q e
                | TFloatC _ (Some g) => q_le g q e
                | _ => negb (is_numk k)
                end
  | SMultipleOf q => match k with
                     | KInt => Qeq_bool q 1
                     | KFlt => false
                     | _ => true
                     end
  | _ => false
  end.

Definition is_tarr (D : ftype) : bool := match D with TArr _ => true | _ => false end.

Section Compat.
Variable z : bool.        (* may a plain [TArr] hold a 0-d array? *)
Variable env : env_t.
Variable defs : defs_t.

Fixpoint compat (n : nat) (D : ftype) (S : schema) {struct n} : bool :=
  match n with
  | O => false
  | S n' =>
      if z && is_tarr D then
        (* a 0-d array is emitted as its scalar: both shapes of emission must be acceptable *)
        match D with TArr k => compat n' (TArrS k) S && compat n' (scalar_ty k) S | _ => false end
      else
      match S with
      | SAll l => forallb (compat n' D) l
      | SRef name => match assoc name defs with Some s => compat n' D s | None => false end
      | _ =>
          match D with
          | TUnion ts => forallb (fun t => compat n' t S) ts
          | TOpt t => compat n' t S && outcome_eqb Bool.eqb (validates n' defs S JNull) (Ok true)
          | TAny => match S with SAnyOf l => existsb (compat n' D) l | _ => false end
          | _ =>
              match S with
              | SAnyOf l => existsb (compat n' D) l
              | SItems s =>
                  match D with
                  | TList t _ _ | TListU t _ _ => compat n' t s
                  | TArr k | TArrS k => compat n' (scalar_ty k) s
                  | TTuple ts => forallb (fun t => compat n' t s) ts
                  | _ => true
                  end
              | SItemsTuple ss =>
                  match D with
                  | TList t _ _ | TListU t _ _ => forallb (compat n' t) ss
                  | TArr k | TArrS k => forallb (compat n' (scalar_ty k)) ss
                  | TTuple ts => forallb (fun p => compat n' (fst p) (snd p)) (combine ts ss)
                  | _ => true
                  end
              | SObj ps ap =>
                  match D with
                  | TDict t => forallb (fun p => compat n' t (snd p)) ps &&
                               match ap with Some s => compat n' t s | None => true end
                  | TModel name =>
                      match assoc name env with
                      | None => false
                      | Some m =>
                          forallb (fun f => match entry_schema ps ap (f_alias f) with
                                            | Some s => compat n' (f_type f) s
                                            | None => true
                                            end) (m_fields m) &&
                          (negb (m_extra m) ||
                           (match ap with Some s => compat n' TAny s | None => true end &&
                            forallb (fun p => match find_field (fst p) (m_fields m) with
                                             | Some _ => true
                                             | None => compat n' TAny (snd p)
                                             end) ps))
                      end
                  | _ => true
                  end
              | SRequired rs =>
                  match D with
                  | TModel name =>
                      match assoc name env with
                      | None => false
                      | Some m =>
                          forallb (fun r => match find_field r (m_fields m) with
                                            | Some f => f_required f && negb (f_nullable f) && negb (can_none (f_type f))
                                            | None => false
                                            end) rs
                      end
                  | _ => match kind_of D with Some k => leaf_compat D k S | None => false end
                  end
              | _ => match kind_of D with Some k => leaf_compat D k S | None => false end
              end
          end
      end
  end.
End Compat.

(** ** Which schemas FORCE the duplicate-free descriptors (converse of [compat] at the uniqueItems sites) *)
Definition STrue : schema := SAll [].

Section Enf.
Variable sites : list (string * string).
Variable env : env_t.
Variable defs : defs_t.

(** the conjuncts a schema certainly imposes: SAll and $ref flattened (nothing when the fuel runs out) *)
Fixpoint members (n : nat) (S : schema) {struct n} : list schema :=
  match n with
  | O => []
  | S n' => match S with
            | SAll l => flat_map (members n') l
            | SRef name => match assoc name defs with Some s => members n' s | None => [] end
            | _ => [S]
            end
  end.

Definition is_site (mname alias : string) : bool :=
  existsb (fun p => String.eqb (fst p) mname && String.eqb (snd p) alias) sites.

Definition find_items (ms : list schema) : schema :=
  match find (fun s => match s with SItems _ => true | _ => false end) ms with
  | Some (SItems s) => s
  | _ => STrue
  end.
Definition find_obj (ms : list schema) : list (string * schema) * option schema :=
  match find (fun s => match s with SObj _ _ => true | _ => false end) ms with
  | Some (SObj ps ap) => (ps, ap)
  | _ => ([], None)
  end.
Definition find_anyof (ms : list schema) : option (list schema) :=
  match find (fun s => match s with SAnyOf _ => true | _ => false end) ms with
  | Some (SAnyOf l) => Some l
  | _ => None
  end.
Definition has_unique (ms : list schema) : bool :=
  existsb (fun s => match s with SUnique => true | _ => false end) ms.
(** a conjunct "type": t that no value of kind k satisfies *)
Definition clashes (k : option jkind) (ms : list schema) : bool :=
  match k with
  | Some k => existsb (fun s => match s with SType t => negb (type_ok k t) | _ => false end) ms
  | None => false
  end.
Definition sub_of (o : option schema) : schema := match o with Some s => s | None => STrue end.

(** [enf n D S]: validity against S forces an inhabitant of D (descriptors [env]) to inhabit D under the
    descriptors with the [sites] declared duplicate-free *)
Fixpoint enf (n : nat) (D : ftype) (S : schema) {struct n} : bool :=
  match n with
  | O => false
  | S n' =>
      let ms := members n' S in
      match D with
      | TStr | TInt | TFloat | TBool | TAny | TEnum _ | TIntC _ _ | TFloatC _ _ | TArr _ | TArrS _ => true
      | TList t _ _ => enf n' t (find_items ms)
      | TListU _ _ _ => false
      | TTuple ts => forallb (fun t => enf n' t STrue) ts
      | TDict t => match find_obj ms with
                   | ([], ap) => enf n' t (sub_of ap)
                   | _ => enf n' t STrue
                   end
      | TOpt t => enf n' t S
      | TUnion ts =>
          match find_anyof ms with
          | Some l => forallb (fun t => forallb (fun s => clashes (kind_of t) (members n' s) || enf n' t s) l) ts
          | None => forallb (fun t => enf n' t S) ts
          end
      | TModel name =>
          match assoc name env with
          | None => false
          | Some m =>
              let '(ps, ap) := find_obj ms in
              forallb (fun f =>
                         let sf := sub_of (entry_schema ps ap (f_alias f)) in
                         if is_site name (f_alias f) then
                           match f_type f with
                           | TList t _ _ => has_unique (members n' sf) && enf n' t (find_items (members n' sf))
                           | _ => false
                           end
                         else enf n' (f_type f) sf) (m_fields m)
          end
      end
  end.
End Enf.


(** ** Diagnostics: where does [compat] fail? *)
Definition kw_name (S : schema) : string :=
  match S with
  | SAll _ => "allOf" | SAnyOf _ => "anyOf" | SRef _ => "$ref" | SType _ => "type" | SEnum _ => "enum"
  | SPattern _ => "pattern" | SObj _ _ => "properties/additionalProperties" | SRequired _ => "required"
  | SItems _ => "items" | SItemsTuple _ => "items" | SMinItems _ => "minItems" | SMaxItems _ => "maxItems"
  | SUnique => "uniqueItems" | SMin _ _ => "minimum" | SMax _ _ => "maximum" | SMultipleOf _ => "multipleOf"
  end.

Section Diag.
Variable z : bool.
Variable env : env_t.
Variable defs : defs_t.

(** the sub-obligations [compat] descends into (diagnostic only) *)
Definition children (D : ftype) (S : schema) : list (list string * ftype * schema) :=
  if z && is_tarr D then
    match D with TArr k => [(["<array>"], TArrS k, S); (["<0-d array as scalar>"], scalar_ty k, S)] | _ => [] end
  else
  match S with
  | SAll l => map (fun s => ([], D, s)) l
  | SRef name => match assoc name defs with Some s => [(["#" ++ name], D, s)] | None => [] end
  | _ =>
      match D with
      | TUnion ts => map (fun t => ([], t, S)) ts
      | TOpt t => [([], t, S)]
      | _ =>
          match S with
          | SAnyOf l => map (fun s => (["anyOf"], D, s)) l
          | SItems s =>
              match D with
              | TList t _ _ | TListU t _ _ => [(["items"], t, s)]
              | TArr k | TArrS k => [(["items"], scalar_ty k, s)]
              | TTuple ts => map (fun t => (["items"], t, s)) ts
              | _ => []
              end
          | SItemsTuple ss =>
              match D with
              | TList t _ _ | TListU t _ _ => map (fun s => (["items"], t, s)) ss
              | TArr k | TArrS k => map (fun s => (["items"], scalar_ty k, s)) ss
              | TTuple ts => map (fun p => (["items"], fst p, snd p)) (combine ts ss)
              | _ => []
              end
          | SObj ps ap =>
              match D with
              | TDict t => (map (fun p => ([fst p], t, snd p)) ps ++
                            match ap with Some s => [(["additionalProperties"], t, s)] | None => [] end)%list
              | TModel name =>
                  match assoc name env with
                  | None => []
                  | Some m => flat_map (fun f => match entry_schema ps ap (f_alias f) with
                                                 | Some s => [([f_alias f], f_type f, s)]
                                                 | None => []
                                                 end) (m_fields m)
                  end
              | _ => []
              end
          | _ => []
          end
      end
  end.

(** where [compat] fails: the deepest failing obligations, as schema paths ending in a keyword *)
Fixpoint incompat (n : nat) (path : list string) (D : ftype) (sch : schema) {struct n} : list (list string) :=
  if compat z env defs n D sch then []
  else match n with
       | O => [(path ++ ["<out of fuel>"])%list]
       | Datatypes.S n' =>
           match flat_map (fun c => incompat n' (path ++ fst (fst c))%list (snd (fst c)) (snd c)) (children D sch) with
           | [] => [(path ++ [kw_name sch])%list]
           | bad => bad
           end
       end.

End Diag.
