(** C03 — model of PhysicalConstantsContext.conversion_factor over pint:
    - the registry built by qcelemental/physical_constants/ureg.py (Gen/UregDefs.v: the define() calls, the
      phys_const_map loop; here: the '<a>-<b> relationship' loop transcribed by hand over the shipped CODATA table),
      evaluated lazily (last definition of a name wins) over exact rationals;
    - pint's UnitsContainer arithmetic (insertion-ordered, zero exponents deleted), Quantity parsing of an
      already-resolved unit expression, the Context graph search (at most two hops — the translator checks the
      graph is a star), the transformers [_find_nist_unit]/[build_transformer] incl. pint's prefix parsing of the
      synthesised "<left>_to_<right>" name, and the final plain conversion with its dimensionality check.
    Only definitions here (proofs in Proofs/Units.v). *)
From Coq Require Import ZArith QArith Qabs List String Ascii Bool.
Require Import QV.Common.Outcome QV.Common.DecC02 QV.Common.StrC02 QV.Common.UnitsC03.
Require Import QV.Gen.Codata2014 QV.Gen.Codata2018 QV.Gen.UregDefs.
Import ListNotations.
Open Scope string_scope.

(** * Dimensions: exponents of length, mass, time, current, temperature, substance, luminosity *)
Record dimvec := mkdim { dL : Z; dM : Z; dT : Z; dI : Z; dK : Z; dN : Z; dJ : Z }.
Definition dzero : dimvec := mkdim 0 0 0 0 0 0 0.
Definition dadd (a b : dimvec) : dimvec :=
  mkdim (dL a + dL b) (dM a + dM b) (dT a + dT b) (dI a + dI b) (dK a + dK b) (dN a + dN b) (dJ a + dJ b).
Definition dscale (n : Z) (a : dimvec) : dimvec :=
  mkdim (n * dL a) (n * dM a) (n * dT a) (n * dI a) (n * dK a) (n * dN a) (n * dJ a).
Definition dsub (a b : dimvec) : dimvec := dadd a (dscale (-1) b).
Definition dim_eqb (a b : dimvec) : bool :=
  ((dL a =? dL b) && (dM a =? dM b) && (dT a =? dT b) && (dI a =? dI b) && (dK a =? dK b) && (dN a =? dN b) && (dJ a =? dJ b))%Z.
(* the generated tables carry the seven exponents as a list *)
Definition dim_of_list (l : list Z) : dimvec :=
  match l with
  | [a; b; c; d; e; f; g] => mkdim a b c d e f g
  | _ => dzero
  end.

(** * Strings *)
Fixpoint prefix_of (p s : string) : bool :=
  match p, s with
  | EmptyString, _ => true
  | String a p', String b s' => Ascii.eqb a b && prefix_of p' s'
  | _, _ => false
  end.
Fixpoint contains (needle hay : string) : bool :=          (* Python: needle in hay *)
  prefix_of needle hay || match hay with EmptyString => false | String _ r => contains needle r end.
Fixpoint drop (n : nat) (s : string) : string :=
  match n, s with O, _ => s | S k, String _ r => drop k r | S _, EmptyString => EmptyString end.
(* k.split("-") when there is exactly one '-' *)
Fixpoint split_dash (s : string) : option (string * string) :=
  match s with
  | EmptyString => None
  | String c r => if Ascii.eqb c "-" then (if contains "-" r then None else Some (EmptyString, r))
                  else match split_dash r with Some (a, b) => Some (String c a, b) | None => None end
  end.
(* s.replace(sub, "") for a non-empty sub: [skip] counts the characters of a match still to be dropped *)
Fixpoint remove_sub_aux (sub : string) (skip : nat) (s : string) : string :=
  match s with
  | EmptyString => EmptyString
  | String c r =>
      match skip with
      | S k => remove_sub_aux sub k r
      | O => if prefix_of sub s then remove_sub_aux sub (Nat.pred (String.length sub)) r
             else String c (remove_sub_aux sub O r)
      end
  end.
Definition remove_sub (sub s : string) : string := if String.eqb sub "" then s else remove_sub_aux sub O s.

(** * Prefixes *)
Definition pow10Q (k : Z) : Q := if (0 <=? k)%Z then inject_Z (10 ^ k) else Qmake 1 (Z.to_pos (10 ^ (- k))).
Definition prefix_scale (p : string) : option Q :=
  if String.eqb p "" then Some 1%Q
  else match find (fun e => String.eqb (fst e) p) prefix_table with Some (_, k) => Some (pow10Q k) | None => None end.

Definition ukey0 := (string * string)%type.

(** * The registry *)
Inductive cctx := C2014 | C2018.
Definition shipped (c : cctx) := match c with C2014 => shipped_2014 | C2018 => shipped_2018 end.
Definition au_defs (c : cctx) := match c with C2014 => au_defs_2014 | C2018 => au_defs_2018 end.

(* phys_const[key]["value"] as an exact rational *)
Definition codata_value (c : cctx) (key : string) : option Q :=
  match find (fun r => match r with (k, _, _, _, _) => String.eqb k key end) (shipped c) with
  | Some (_, _, _, v, _) => option_map dec2Q (parse_dec v)
  | None => None
  end.

(* the relationship loop of ureg.py: for every key with "-" and "relationship":
   left_to_right = value / left * right   (inverse_meter spelled 1/meter) *)
Definition rename_unit (u : string) : string :=
  match find (fun e => String.eqb (fst e) u) const_rename with Some (_, v) => v | None => u end.
Definition rel_sides (k : string) : option (string * string) :=
  if contains "-" k && contains "relationship" k then
    match split_dash k with
    | Some (l, r) => Some (rename_unit l, rename_unit (remove_sub " relationship" r))
    | None => None       (* ValueError in Python: never happens on the shipped tables (theorem) *)
    end
  else None.
(* the definition text is parsed by pint: a side is a unit name, possibly carrying a prefix ("kilogram" = kilo + gram) *)
Definition base_names : list string :=
  map fst plain_units ++ map (fun e => match e with (n, _, _, _) => n end) ureg_defs.
Definition static_resolve (u : string) : ukey0 :=
  if existsb (String.eqb u) base_names then ("", u)
  else match find (fun pk => prefix_of (fst pk) u && existsb (String.eqb (drop (String.length (fst pk)) u)) base_names) prefix_table with
       | Some (p, _) => (p, drop (String.length p) u)
       | None => ("", u)
       end.
Definition side_expr (u : string) : uexpr :=
  if String.eqb u "inverse_meter" then UPow (UAtom "" "meter") (-1)
  else UAtom (fst (static_resolve u)) (snd (static_resolve u)).
Definition rel_defs (c : cctx) : list (string * string * uexpr) :=    (* name, CODATA key, rhs *)
  flat_map (fun r => match r with (k, _, _, _, _) =>
     match rel_sides k with
     | Some (l, rt) => [(l ++ "_to_" ++ rt, k, UMul (UDiv (UNum 1) (side_expr l)) (side_expr rt))]
     | None => [] end end) (shipped c).
Definition nist_units (c : cctx) : list string :=
  flat_map (fun r => match r with (k, _, _, _, _) => match rel_sides k with Some (l, _) => [l] | None => [] end end) (shipped c).

(* all definitions a name can have, later ones override earlier ones *)
Inductive uentry := Plain (m : Q) (d : dimvec) | Derived (v : option string) (rhs : uexpr).
Definition all_defs (c : cctx) : list (string * uentry) :=
  map (fun e => (fst e, Plain (fst (snd e)) (dim_of_list (snd (snd e))))) plain_units
  ++ map (fun e => match e with (n, _, k, rhs) => (n, Derived k rhs) end) (firstn au_loop_position ureg_defs)
  ++ map (fun e => match e with (n, k, rhs) => (n, Derived (Some k) rhs) end) (au_defs c)
  ++ map (fun e => match e with (n, _, k, rhs) => (n, Derived k rhs) end) (skipn au_loop_position ureg_defs)
  ++ map (fun e => match e with (n, k, rhs) => (n, Derived (Some k) rhs) end) (rel_defs c).
Definition find_def (c : cctx) (name : string) : option uentry :=
  match find (fun e => String.eqb (fst e) name) (rev (all_defs c)) with Some (_, d) => Some d | None => None end.

(* magnitude (SI) and dimension of an expression, given those of unit names *)
Definition Qpow (x : Q) (n : Z) : Q := Qred (Qpower x n).
Fixpoint expr_md (reg : string -> option (Q * dimvec)) (e : uexpr) : option (Q * dimvec) :=
  match e with
  | UNum q => Some (q, dzero)
  | UAtom p b => match prefix_scale p, reg b with
                 | Some s, Some (m, d) => Some (Qred (s * m), d)
                 | _, _ => None end
  | UMul a b => match expr_md reg a, expr_md reg b with
                | Some (ma, da), Some (mb, db) => Some (Qred (ma * mb), dadd da db) | _, _ => None end
  | UDiv a b => match expr_md reg a, expr_md reg b with
                | Some (ma, da), Some (mb, db) => if Qeq_bool mb 0 then None else Some (Qred (ma / mb), dsub da db)
                | _, _ => None end
  | UPow a n => match expr_md reg a with
                | Some (ma, da) => if Qeq_bool ma 0 && (n <? 0)%Z then None else Some (Qpow ma n, dscale n da)
                | None => None end
  end.

Fixpoint lookup_md (fuel : nat) (c : cctx) (name : string) : option (Q * dimvec) :=
  match fuel with
  | O => None
  | S f =>
      match find_def c name with
      | Some (Plain m d) => Some (m, d)
      | Some (Derived k rhs) =>
          match (match k with Some key => codata_value c key | None => Some 1%Q end), expr_md (lookup_md f c) rhs with
          | Some v, Some (m, d) => Some (Qred (v * m), d)
          | _, _ => None
          end
      | None => None
      end
  end.

Fixpoint dedup_names (l : list string) (seen : list string) : list string :=
  match l with
  | [] => []
  | x :: r => if existsb (String.eqb x) seen then dedup_names r seen else x :: dedup_names r (x :: seen)
  end.
Definition build_table (c : cctx) : list (string * (Q * dimvec)) :=
  flat_map (fun n => match lookup_md 8 c n with Some md => [(n, md)] | None => [] end)
           (dedup_names (map fst (all_defs c)) []).

Definition table_2014 : list (string * (Q * dimvec)) := Eval vm_compute in build_table C2014.
Definition table_2018 : list (string * (Q * dimvec)) := Eval vm_compute in build_table C2018.
Definition table (c : cctx) := match c with C2014 => table_2014 | C2018 => table_2018 end.
Definition nist_2014 : list string := Eval vm_compute in dedup_names (nist_units C2014) [].
Definition nist_2018 : list string := Eval vm_compute in dedup_names (nist_units C2018) [].
Definition nist (c : cctx) := match c with C2014 => nist_2014 | C2018 => nist_2018 end.

Fixpoint assoc {V} (k : string) (l : list (string * V)) : option V :=
  match l with [] => None | (k', v) :: r => if String.eqb k k' then Some v else assoc k r end.
Definition reg (c : cctx) (name : string) : option (Q * dimvec) := assoc name (table c).

(** * pint UnitsContainer (insertion-ordered dict name -> exponent; zero entries are deleted) *)
Definition ukey := (string * string)%type.              (* prefix, unit *)
Definition key_eqb (a b : ukey) : bool := String.eqb (fst a) (fst b) && String.eqb (snd a) (snd b).
Definition key_name (k : ukey) : string := fst k ++ snd k.
Definition ucont := list (ukey * Z).

Fixpoint cadd (k : ukey) (e : Z) (c : ucont) : ucont :=
  match c with
  | [] => if (e =? 0)%Z then [] else [(k, e)]
  | (k', e') :: r => if key_eqb k k' then (if (e' + e =? 0)%Z then r else (k', (e' + e)%Z) :: r)
                     else (k', e') :: cadd k e r
  end.
Definition cmul (a b : ucont) : ucont := fold_left (fun acc ke => cadd (fst ke) (snd ke) acc) b a.
Definition cdiv (a b : ucont) : ucont := fold_left (fun acc ke => cadd (fst ke) (- snd ke) acc) b a.
Definition cpow (a : ucont) (n : Z) : ucont := map (fun ke => (fst ke, (snd ke * n)%Z)) a.

Section Reg.
  Variable rg : string -> option (Q * dimvec).

  Definition atom_md (k : ukey) : option (Q * dimvec) :=
    match prefix_scale (fst k), rg (snd k) with
    | Some s, Some (m, d) => Some ((s * m)%Q, d)
    | _, _ => None
    end.
  Definition atom_mag (k : ukey) : Q := match atom_md k with Some (m, _) => m | None => 1 end.
  Definition atom_dim (k : ukey) : dimvec := match atom_md k with Some (_, d) => d | None => dzero end.

  Fixpoint cmag (c : ucont) : Q :=
    match c with [] => 1 | (k, e) :: r => (Qpower (atom_mag k) e * cmag r)%Q end.
  Fixpoint cdim (c : ucont) : dimvec :=
    match c with [] => dzero | (k, e) :: r => dadd (dscale e (atom_dim k)) (cdim r) end.

  (** ureg.parse_expression on a resolved expression: (magnitude, units) or UndefinedUnitError *)
  Fixpoint parse (e : uexpr) : outcome (Q * ucont) :=
    match e with
    | UNum q => Ok (q, [])
    | UAtom p b => match atom_md (p, b) with Some _ => Ok (1%Q, [((p, b), 1%Z)]) | None => Err PyAttributeError end
    | UMul a b => obind (parse a) (fun x => obind (parse b) (fun y => Ok ((fst x * fst y)%Q, cmul (snd x) (snd y))))
    | UDiv a b => obind (parse a) (fun x => obind (parse b) (fun y =>
                    if Qeq_bool (fst y) 0 then Err PyAssertion       (* ZeroDivisionError *)
                    else Ok ((fst x / fst y)%Q, cdiv (snd x) (snd y))))
    | UPow a n => obind (parse a) (fun x =>
                    if Qeq_bool (fst x) 0 && (n <? 0)%Z then Err PyAssertion
                    else Ok (Qpower (fst x) n, cpow (snd x) n))
    end.

  (** _find_nist_unit *)
  Variable nist_names : list string.
  Fixpoint first_nist (c : ucont) : option string :=
    match c with
    | [] => None
    | (k, e) :: r => if (e <? 1)%Z then first_nist r
                     else if existsb (fun x => contains x (key_name k)) nist_names then Some (key_name k)
                     else first_nist r
    end.
  Definition has_inverse_meter (c : ucont) : bool :=
    existsb (fun ke => String.eqb (key_name (fst ke)) "meter" && (snd ke =? -1)%Z) c.
  Definition find_nist_unit (c : ucont) : option string :=
    match first_nist c with
    | Some n => Some n
    | None => if has_inverse_meter c then Some "inverse_meter" else None
    end.

  (** pint's resolution of a unit name that may carry a (long) prefix: exact name first *)
  Definition resolve_name (s : string) : option ukey :=
    match rg s with
    | Some _ => Some ("", s)
    | None =>
        match find (fun pk => prefix_of (fst pk) s
                              && match rg (drop (String.length (fst pk)) s) with Some _ => true | None => false end) prefix_table with
        | Some (p, _) => Some (p, drop (String.length p) s)
        | None => None
        end
    end.

  Definition apply_hop (h : hop) (x : Q * ucont) : outcome (Q * ucont) :=
    match h with
    | HMulNA => Ok (fst x, cmul (snd x) [(("", "avogadro_constant"), 1%Z)])
    | HDivNA => Ok (fst x, cdiv (snd x) [(("", "avogadro_constant"), 1%Z)])
    | HNamed rightu dflt =>
        match find_nist_unit (snd x) with
        | None => obind (parse dflt) (fun d => Ok ((fst x * fst d)%Q, cmul (snd x) (snd d)))
        | Some leftu =>
            match resolve_name (leftu ++ "_to_" ++ rightu) with
            | Some k => Ok (fst x, cmul (snd x) [(k, 1%Z)])
            | None => Err PyAttributeError                   (* pint.UndefinedUnitError *)
            end
        end
    end.

  (** find_shortest_path in the (star-shaped) context graph: no hop, one hop, or two hops *)
  Definition edge_from_to (a b : dimvec) : option hop :=
    match find (fun e => dim_eqb (dim_of_list (fst (fst e))) a && dim_eqb (dim_of_list (snd (fst e))) b) bridges with
    | Some (_, h) => Some h | None => None end.
  Definition find_path (a b : dimvec) : list hop :=
    if dim_eqb a b then []
    else match edge_from_to a b with
         | Some h => [h]
         | None =>
             match find (fun e => dim_eqb (dim_of_list (fst (fst e))) a
                                  && match edge_from_to (dim_of_list (snd (fst e))) b with Some _ => true | None => false end) bridges with
             | Some (_, mid, h1) => match edge_from_to (dim_of_list mid) b with Some h2 => [h1; h2] | None => [] end
             | None => []
             end
         end.

  Fixpoint apply_hops (hs : list hop) (x : Q * ucont) : outcome (Q * ucont) :=
    match hs with
    | [] => Ok x
    | h :: r => obind (apply_hop h x) (apply_hops r)
    end.

  (** conversion_factor(a, b) *)
  Definition conv (a b : uexpr) : outcome Q :=
    obind (parse a) (fun pa =>
    obind (parse b) (fun pb =>
    if Qeq_bool (fst pb) 0 then Err PyAssertion                      (* factor /= conv_unit.magnitude *)
    else
      obind (apply_hops (find_path (cdim (snd pa)) (cdim (snd pb))) ((fst pa / fst pb)%Q, snd pa)) (fun v =>
      if dim_eqb (cdim (snd v)) (cdim (snd pb))
      then Ok (Qred (fst v * cmag (snd v) / cmag (snd pb)))
      else Err Dimensionality))).
End Reg.

Definition conv_ctx (c : cctx) (a b : uexpr) : outcome Q := conv (reg c) (nist c) a b.

(** * correspondence cases: (year, a, b, expected) with expected = Some (p, q, tolerance exponent) for a float p/q,
    or None + exception kind *)
Inductive cexpect := CVal (num den : Z) (tol_exp : Z) | CErr (k : ekind).
Definition ctx_of (y : Z) : cctx := if (y =? 2014)%Z then C2014 else C2018.
Definition close (x y : Q) (tol_exp : Z) : bool :=       (* |x - y| <= 10^tol_exp * |y| *)
  Qle_bool (Qabs.Qabs (x - y)) (pow10Q tol_exp * Qabs.Qabs y).
Definition check_case (x : Z * uexpr * uexpr * cexpect) : bool :=
  let '(y, a, b, ex) := x in
  match conv_ctx (ctx_of y) a b, ex with
  | Ok v, CVal n d t => close v (Qmake n (Z.to_pos d)) t
  | Err k, CErr k' => ekind_eqb k k'
  | _, _ => false
  end.
