(** C13 — model of qcelemental.util.np_blockwise for 2-d arrays and ANY block shape (br, bc):
    blockwise_expand(a, (br, bc), require_aligned_blocks) as the strided index map on the flat (h,w)
    array, blockwise_contract on the (gr,gc,br,bc) array in C order.  Definitions only. *)
From Coq Require Import List Arith Bool ZArith QArith.
Require Import QV.Common.Outcome QV.Common.AlignAlg QV.Model.Mill.
Import ListNotations.

(* C-order position of [bi,bj,a,b] in an array of shape (gr,gc,br,bc), and np.unravel_index *)
Definition idx4g (gc br bc bi bj a b : nat) : nat := ((bi * gc + bj) * br + a) * bc + b.
Definition unidx4g (gc br bc k : nat) : nat * nat * nat * nat :=
  ((k / (gc * br * bc))%nat, ((k / (br * bc)) mod gc)%nat, ((k / bc) mod br)%nat, (k mod bc)%nat).

Section BW.
Context {K : Type} {KO : Ops K}.

(* outershape = shape // blockshape ; assert shape % blockshape == 0 when require_aligned_blocks ;
   as_strided(a, shape = outershape + blockshape, strides = (br*s0, bc*s1, s0, s1)), s0 = w, s1 = 1 *)
Definition expand_g (h w br bc : nat) (aligned : bool) (H : list K) : outcome (list K) :=
  if aligned && negb (Nat.eqb (h mod br) 0 && Nat.eqb (w mod bc) 0) then Err PyAssertion
  else
    let gr := (h / br)%nat in let gc := (w / bc)%nat in
    let s0 := w in let s1 := 1%nat in
    Ok (tab (gr * gc * br * bc) (fun k =>
          let '(bi, bj, a, b) := unidx4g gc br bc k in
          nth (bi * (br * s0) + bj * (bc * s1) + a * s0 + b * s1)%nat H k0)).

(* reshape(gr*gc, br, bc) ; reshape(h // br, -1, br, bc).swapaxes(1, 2).reshape(h, w), h = gr*br, w = gc*bc *)
Definition contract_g (gr gc br bc : nat) (B : list K) : list K :=
  let w := (gc * bc)%nat in
  tab ((gr * br) * w) (fun k =>
    let r := (k / w)%nat in let c := (k mod w)%nat in
    nth (idx4g gc br bc (r / br) (c / bc) (r mod br) (c mod bc)) B k0).
End BW.

Inductive bcase :=
| BExpand (h w br bc : nat) (aligned : bool) (H : list Q) (out : outcome (list Q))
| BContract (gr gc br bc : nat) (B : list Q) (out : list Q).

Definition check_bcase (c : bcase) : bool :=
  match c with
  | BExpand h w br bc al H out => outcome_eqb (all2 (qclose 0)) (expand_g h w br bc al H) out
  | BContract gr gc br bc B out => all2 (qclose 0) (contract_g gr gc br bc B) out
  end.
