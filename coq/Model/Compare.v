(** C19 — model of the comparison helpers of qcelemental/testing.py:
    compare_values, compare, _compare_recursive, compare_recursive (and _handle_return).
    Hand-written, transcribing the code in the code's order, including the exceptions it raises.
    Tied to the implementation by the correspondence check (harness/props/c19.py), which evaluates
    this file with vm_compute (kernel IEEE-754 binary64 primitives) on the same inputs, bit-exactly.

    Binary64 values are Coq primitive floats ([PrimFloat] only; the [Floats] library with its
    specification axioms is NOT imported).  Python values are the type [tree] below.

    Inputs the model does not describe return [Unmodelled] explicitly (never a guessed verdict);
    every theorem about a verdict therefore excludes them by its very statement ([= Ok b]). *)
From Coq Require Import PrimFloat Uint63 ZArith List Bool String Ascii DecimalString.
Import ListNotations.
Local Open Scope string_scope.

(* ------------------------------------------------------------------------------------------ *)
(** * Results *)

Inductive exc := EValue | EType | EAttribute | EOverflow | EKey.   (* ValueError TypeError AttributeError OverflowError KeyError *)

Inductive res (A : Type) := Ok (a : A) | Raise (k : exc) | Unmodelled.
Arguments Ok {A} a.
Arguments Raise {A} k.
Arguments Unmodelled {A}.

Definition bind {A B} (x : res A) (f : A -> res B) : res B :=
  match x with Ok a => f a | Raise k => Raise k | Unmodelled => Unmodelled end.

(* ------------------------------------------------------------------------------------------ *)
(** * Python values *)

Inductive scalar :=
| SNone
| SBool (b : bool)
| SInt (z : Z)
| SFloat (f : float)
| SCplx (re im : float)
| SStr (s : string)
| SObj.                       (* an opaque object inside an array-like: a dict or a set *)

Inductive dtype := DBool | DInt | DFloat | DCplx | DStr | DObj.   (* bool_ int64 float64 complex128 <U object *)

Inductive tree :=
| TSc (np : bool) (s : scalar)          (* a Python scalar, or (np = true) the numpy scalar of the same kind *)
| TList (l : list tree)                 (* list or tuple *)
| TDict (d : list (string * tree))      (* dict with str keys, in insertion order *)
| TArr (dt : dtype) (sh : list nat) (data : list scalar)   (* numpy.ndarray, C order *)
| TOther.                               (* a value of a type the helpers do not know: a Python set *)

Definition dtype_eqb (a b : dtype) : bool :=
  match a, b with
  | DBool, DBool | DInt, DInt | DFloat, DFloat | DCplx, DCplx | DStr, DStr | DObj, DObj => true
  | _, _ => false
  end.

Fixpoint shape_eqb (a b : list nat) : bool :=
  match a, b with
  | [], [] => true
  | x :: a', y :: b' => Nat.eqb x y && shape_eqb a' b'
  | _, _ => false
  end.

(* ------------------------------------------------------------------------------------------ *)
(** * binary64 helpers *)

Definition fzero : float := 0%float.
Definition fone : float := 1%float.

(** exact for |z| < 2^53; larger Python ints are outside the model *)
Definition Z2f (z : Z) : option float :=
  if (Z.abs z <? 9007199254740992)%Z then
    let m := of_uint63 (Uint63.of_Z (Z.abs z)) in
    Some (if (z <? 0)%Z then PrimFloat.opp m else m)
  else None.

Definition b2f (b : bool) : float := if b then fone else fzero.
Definition b2z (b : bool) : Z := if b then 1%Z else 0%Z.

(** numpy.isclose(c, e, rtol, atol, equal_nan) on float64:
      less_equal(abs(x - y), atol + rtol * abs(y)) & isfinite(y) | (x == y)  [ | isnan(x) & isnan(y) ]
    with x = computed, y = expected; every operation is one binary64 operation. *)
Definition isclose_f (atol rtol : float) (equal_nan : bool) (c e : float) : bool :=
  (PrimFloat.leb (PrimFloat.abs (PrimFloat.sub c e)) (PrimFloat.add atol (PrimFloat.mul rtol (PrimFloat.abs e)))
   && is_finite e)
  || PrimFloat.eqb c e
  || (equal_nan && is_nan c && is_nan e).

(** |re + i im|.  numpy uses C hypot; modelled as: inf if a part is infinite, nan if a part is nan, exact when a
    part is zero, sqrt(re*re + im*im) otherwise (hypot may differ from that by an ulp and does not
    overflow/underflow in the squares: the correspondence keeps complex cases away from those edges). *)
Definition hypot (a b : float) : float :=
  if is_infinity a || is_infinity b then infinity
  else if is_nan a || is_nan b then nan
  else if PrimFloat.eqb b fzero then PrimFloat.abs a
  else if PrimFloat.eqb a fzero then PrimFloat.abs b
  else PrimFloat.sqrt (PrimFloat.add (PrimFloat.mul a a) (PrimFloat.mul b b)).

Definition cnum := (float * float)%type.

Definition isclose_c (atol rtol : float) (equal_nan : bool) (c e : cnum) : bool :=
  let '(cr, ci) := c in
  let '(er, ei) := e in
  (PrimFloat.leb (hypot (PrimFloat.sub cr er) (PrimFloat.sub ci ei))
                 (PrimFloat.add atol (PrimFloat.mul rtol (hypot er ei)))
   && (is_finite er && is_finite ei))
  || (PrimFloat.eqb cr er && PrimFloat.eqb ci ei)
  || (equal_nan && (is_nan cr || is_nan ci) && (is_nan er || is_nan ei)).

Definition neg_c (c : cnum) : cnum := (PrimFloat.opp (fst c), PrimFloat.opp (snd c)).

(* ------------------------------------------------------------------------------------------ *)
(** * np.array(x, dtype=...) *)

Inductive cres (A : Type) := COk (a : A) | CFail | CUnm.     (* cast ok / raises (caught) / outside the model *)
Arguments COk {A} a.
Arguments CFail {A}.
Arguments CUnm {A}.

Definition is_digit (a : ascii) : bool :=
  let n := nat_of_ascii a in Nat.leb 48 n && Nat.leb n 57.

(** Every string accepted by float()/complex() contains a digit, or "nan"/"inf" (an n), or is like "j". *)
Fixpoint str_maybe_numeric (s : string) : bool :=
  match s with
  | EmptyString => false
  | String a r =>
      is_digit a || Ascii.eqb a "n" || Ascii.eqb a "N" || Ascii.eqb a "j" || Ascii.eqb a "J" || str_maybe_numeric r
  end.

(** element -> float64.  Reached only when neither input is a complex object (np.iscomplexobj), so a complex
    element here is a Python complex inside an object / str mixture: float() raises TypeError. *)
Definition to_f (s : scalar) : cres float :=
  match s with
  | SNone => COk nan
  | SBool b => COk (b2f b)
  | SInt z => match Z2f z with Some f => COk f | None => CUnm end
  | SFloat f => COk f
  | SCplx re im => CFail
  | SStr s => if str_maybe_numeric s then CUnm else CFail
  | SObj => CFail
  end.

Definition to_c (s : scalar) : cres cnum :=
  match s with
  | SNone => COk (nan, nan)
  | SBool b => COk (b2f b, fzero)
  | SInt z => match Z2f z with Some f => COk (f, fzero) | None => CUnm end
  | SFloat f => COk (f, fzero)
  | SCplx re im => COk (re, im)
  | SStr s => if str_maybe_numeric s then CUnm else CFail
  | SObj => CFail
  end.

(** a definite failure anywhere raises, whatever the unmodelled elements would have done *)
Fixpoint cast_all {A} (f : scalar -> cres A) (l : list scalar) : cres (list A) :=
  match l with
  | [] => COk []
  | x :: r =>
      match f x, cast_all f r with
      | CFail, _ | _, CFail => CFail
      | CUnm, _ | _, CUnm => CUnm
      | COk a, COk b => COk (a :: b)
      end
  end.

(** shape discovery on nested lists *)
Inductive ndres := NdOk (sh : list nat) (data : list scalar) | NdRagged | NdUnm.

Definition nd_is_unm (r : ndres) : bool := match r with NdUnm => true | _ => false end.
Definition nd_is_ragged (r : ndres) : bool := match r with NdRagged => true | _ => false end.
Definition nd_shape_is (sh : list nat) (r : ndres) : bool :=
  match r with NdOk sh' _ => shape_eqb sh sh' | _ => false end.
Definition nd_data (r : ndres) : list scalar := match r with NdOk _ d => d | _ => [] end.

Definition nest_list (rs : list ndres) : ndres :=
  if existsb nd_is_unm rs then NdUnm
  else if existsb nd_is_ragged rs then NdRagged
  else match rs with
       | [] => NdOk [0%nat] []
       | NdOk sh0 _ :: _ =>
           if forallb (nd_shape_is sh0) rs then NdOk (List.length rs :: sh0) (flat_map nd_data rs) else NdRagged
       | _ => NdUnm
       end.

Fixpoint nest_of (x : tree) : ndres :=
  match x with
  | TSc _ s => NdOk [] [s]
  | TDict _ | TOther => NdOk [] [SObj]      (* numpy treats a dict or a set as one object element *)
  | TArr _ _ _ => NdUnm                       (* arrays nested in lists are outside the model *)
  | TList l => nest_list ((fix mp (l : list tree) : list ndres :=
                             match l with [] => [] | y :: r => nest_of y :: mp r end) l)
  end.

(** (dtype of the source if it is an ndarray, shape and elements) *)
Definition nd_of (x : tree) : option dtype * ndres :=
  match x with
  | TArr dt sh data => (Some dt, NdOk sh data)
  | _ => (None, nest_of x)
  end.

Definition is_obj (s : scalar) : bool := match s with SObj | SNone => true | _ => false end.
Definition is_sobj (s : scalar) : bool := match s with SObj => true | _ => false end.
Definition is_str (s : scalar) : bool := match s with SStr _ => true | _ => false end.
Definition is_cplx (s : scalar) : bool := match s with SCplx _ _ => true | _ => false end.
Definition is_flt (s : scalar) : bool := match s with SFloat _ => true | _ => false end.
Definition is_int (s : scalar) : bool := match s with SInt _ => true | _ => false end.

(** dtype numpy infers for a nest of Python scalars ([None]: a str/number mixture, outside the model) *)
Definition infer_dtype (data : list scalar) : option dtype :=
  if existsb is_obj data then Some DObj
  else if existsb is_str data then (if forallb is_str data then Some DStr else None)
  else if existsb is_cplx data then Some DCplx
  else if existsb is_flt data then Some DFloat
  else if existsb is_int data then Some DInt
  else match data with [] => Some DFloat | _ => Some DBool end.

(** np.iscomplexobj(x): a ragged nest raises ValueError (caught by compare_values' try block since 65b8c68) *)
Definition iscomplexobj (x : tree) : res bool :=
  match nd_of x with
  | (Some dt, _) => Ok (dtype_eqb dt DCplx)
  | (None, NdOk _ data) =>
      Ok (existsb is_cplx data && negb (existsb is_obj data) && negb (existsb is_str data))
  | (None, NdRagged) => Raise EValue
  | (None, NdUnm) => Unmodelled
  end.

(** np.array(x, dtype=float) / np.array(x, dtype=complex): shape and cast elements *)
Definition cast_with {A} (f : scalar -> cres A) (x : tree) : cres (list nat * list A) :=
  match nd_of x with
  | (_, NdOk sh data) =>
      match cast_all f data with
      | COk l => COk (sh, l)
      | CFail => CFail
      | CUnm => CUnm
      end
  | (_, NdRagged) => CFail
  | (_, NdUnm) => CUnm
  end.

(* ------------------------------------------------------------------------------------------ *)
(** * compare_values *)

Record cvopts := { atol : float; rtol : float; equal_nan : bool; cv_phase : bool; passnone : bool }.

Definition is_py_none (x : tree) : bool := match x with TSc false SNone => true | _ => false end.

(** all(close(c_i, e_i)); false on a length mismatch (cannot happen when shapes agree) *)
Fixpoint all2 {A} (close : A -> A -> bool) (cs es : list A) : bool :=
  match cs, es with
  | [], [] => true
  | c :: cs', e :: es' => close c e && all2 close cs' es'
  | _, _ => false
  end.

(** allclose, then the phase retry:  if not allclose and equal_phase: allclose = all(isclose(-cptd, xptd)) *)
Definition judge {A} (close : A -> A -> bool) (neg : A -> A) (phase : bool) (cs es : list A) : bool :=
  if all2 close cs es then true
  else if phase then all2 close (map neg cs) es else false.

(** digits1 = abs(int(np.log10(atol))) + 2  raises for atol <= 0, nan, inf *)
Definition atol_exc (a : float) : option exc :=
  if is_nan a || PrimFloat.ltb a fzero then Some EValue
  else if PrimFloat.eqb a fzero || is_infinity a then Some EOverflow
  else None.

Definition cv_core {A} (close : A -> A -> bool) (neg : A -> A) (o : cvopts)
           (xe xc : cres (list nat * list A)) : res bool :=
  match xe with
  | CFail => Ok false
  | CUnm => Unmodelled
  | COk (she, de) =>
      match xc with
      | CFail => Ok false
      | CUnm => Unmodelled
      | COk (shc, dc) =>
          if negb (shape_eqb she shc) then Ok false
          else match atol_exc (atol o) with
               | Some k => Raise k
               | None =>
                   Ok (judge close neg (cv_phase o) dc de)
               end
      end
  end.

(** np.iscomplexobj(expected) or np.iscomplexobj(computed)   (short-circuit) *)
Definition iscomplex_pair (e c : tree) : res bool :=
  bind (iscomplexobj e) (fun ce => if ce then Ok true else iscomplexobj c).

(** since 65b8c68 the dtype choice sits inside the try block with the two casts: a ragged nest on either side
    (np.iscomplexobj raises ValueError) is reported as "inputs not cast-able", verdict False *)
Definition compare_values (o : cvopts) (e c : tree) : res bool :=
  if passnone o && is_py_none e && is_py_none c then Ok true
  else match iscomplex_pair e c with
       | Raise _ => Ok false
       | Unmodelled => Unmodelled
       | Ok true =>
           cv_core (isclose_c (atol o) (rtol o) (equal_nan o)) neg_c o (cast_with to_c e) (cast_with to_c c)
       | Ok false =>
           cv_core (isclose_f (atol o) (rtol o) (equal_nan o)) PrimFloat.opp o (cast_with to_f e) (cast_with to_f c)
       end.

(* ------------------------------------------------------------------------------------------ *)
(** * compare (exact) *)

(** numeric value as a complex pair; [None] for non-numbers and for ints of 2^53 and above *)
Definition cnum_of (s : scalar) : option cnum :=
  match s with
  | SBool b => Some (b2f b, fzero)
  | SInt z => match Z2f z with Some f => Some (f, fzero) | None => None end
  | SFloat f => Some (f, fzero)
  | SCplx re im => Some (re, im)
  | _ => None
  end.

(** Python / numpy elementwise ==  ([None]: outside the model) *)
Definition sc_eq (a b : scalar) : option bool :=
  match a, b with
  | SObj, _ | _, SObj => None
  | SNone, SNone => Some true
  | SNone, _ | _, SNone => Some false
  | SStr x, SStr y => Some (String.eqb x y)
  | SStr _, _ | _, SStr _ => Some false
  | SBool x, SBool y => Some (Bool.eqb x y)
  | SBool x, SInt y => Some (Z.eqb (b2z x) y)
  | SInt x, SBool y => Some (Z.eqb x (b2z y))
  | SInt x, SInt y => Some (Z.eqb x y)
  | _, _ =>
      match cnum_of a, cnum_of b with
      | Some (ar, ai), Some (br, bi) => Some (PrimFloat.eqb ar br && PrimFloat.eqb ai bi)
      | _, _ => None
      end
  end.

Fixpoint all2o (es cs : list scalar) : option bool :=
  match es, cs with
  | [], [] => Some true
  | e :: es', c :: cs' =>
      match sc_eq e c, all2o es' cs' with
      | Some b1, Some b2 => Some (b1 && b2)
      | _, _ => None
      end
  | _, _ => Some false
  end.

Definition sneg (s : scalar) : scalar :=
  match s with
  | SBool b => SInt (- b2z b)
  | SInt z => SInt (- z)
  | SFloat f => SFloat (PrimFloat.opp f)
  | SCplx re im => SCplx (PrimFloat.opp re) (PrimFloat.opp im)
  | other => other
  end.

Definition negatable (s : scalar) : bool :=
  match s with SBool _ | SInt _ | SFloat _ | SCplx _ _ => true | _ => false end.

(** -cptd : TypeError for bool_ and <U arrays, and for object arrays holding None or str *)
Definition neg_data (dt : dtype) (data : list scalar) : option (list scalar) :=
  match dt with
  | DBool | DStr => None
  | DObj => if forallb negatable data then Some (map sneg data) else None
  | _ => Some (map sneg data)
  end.

Definition dtype_of (src : option dtype) (data : list scalar) : option dtype :=
  match src with Some dt => Some dt | None => infer_dtype data end.

Definition compare (phase : bool) (e c : tree) : res bool :=
  match nd_of e with
  | (_, NdUnm) => Unmodelled
  | (_, NdRagged) => Ok false                       (* np.array raises inside the try *)
  | (se, NdOk she de) =>
      match nd_of c with
      | (_, NdUnm) => Unmodelled
      | (_, NdRagged) => Ok false
      | (sc, NdOk shc dc) =>
          match dtype_of se de, dtype_of sc dc with
          | Some _, Some dtc =>
              if existsb is_sobj de || existsb is_sobj dc then Unmodelled
              else if negb (shape_eqb she shc) then Ok false
              else match all2o de dc with
                   | None => Unmodelled
                   | Some true => Ok true
                   | Some false =>
                       if phase then
                         match neg_data dtc dc with
                         | None => Ok false                (* except TypeError: pass *)
                         | Some ndc => match all2o de ndc with Some b => Ok b | None => Unmodelled end
                         end
                       else Ok false
                   end
          | _, _ => Unmodelled
          end
      end
  end.

(* ------------------------------------------------------------------------------------------ *)
(** * _compare_recursive *)

Record lopts := { l_atol : float; l_rtol : float }.

Definition cv_of (o : lopts) (ph : bool) : cvopts :=
  {| atol := l_atol o; rtol := l_rtol o; equal_nan := false; cv_phase := ph; passnone := false |}.

(** expected != computed  for a str / int / bool / complex [expected]; Ok true = equal *)
Definition exact_ok (s : scalar) (c : tree) : res bool :=
  match c with
  | TSc _ s' => match sc_eq s s' with Some b => Ok b | None => Unmodelled end
  | TArr _ _ _ => Unmodelled         (* truth value of an elementwise comparison *)
  | _ => Ok false
  end.

Definition is_none_tree (c : tree) : bool := match c with TSc _ SNone => true | _ => false end.

(** the isinstance dispatch on a scalar [expected], in the code's order:
    (str, int, bool, complex, np.bool_) exact; float / np.number through compare_values; None by identity *)
Definition leaf_ok (o : lopts) (ph : bool) (np : bool) (s : scalar) (c : tree) : res bool :=
  match s with
  | SStr _ | SCplx _ _ => exact_ok s c
  | SInt _ => if np then compare_values (cv_of o ph) (TSc np s) c else exact_ok s c
  | SBool _ => exact_ok s c
  | SFloat _ => compare_values (cv_of o ph) (TSc np s) c
  | SNone => Ok (is_none_tree c)
  | SObj => Ok false
  end.

(** ndarray [expected]: floating dtype through compare_values, everything else through compare *)
Definition arr_ok (o : lopts) (ph : bool) (dt : dtype) (sh : list nat) (data : list scalar) (c : tree) : res bool :=
  match dt with
  | DFloat => compare_values (cv_of o ph) (TArr dt sh data) c
  | _ => compare ph (TArr dt sh data) c
  end.

(** len(computed) and zip(..., computed) *)
Inductive items := Items (l : list tree) | ItemsNone | ItemsUnm.

Fixpoint chunks (n size : nat) (data : list scalar) : list (list scalar) :=
  match n with
  | O => []
  | S k => firstn size data :: chunks k size (skipn size data)
  end.

Definition dt_is_obj (dt : dtype) : bool := match dt with DObj => true | _ => false end.

Definition as_items (c : tree) : items :=
  match c with
  | TList l => Items l
  | TSc _ (SStr s) => Items (map (fun ch => TSc false (SStr (String ch EmptyString))) (list_ascii_of_string s))
  | TSc _ _ => ItemsNone                                   (* TypeError: no len() *)
  | TDict d => Items (map (fun kv => TSc false (SStr (fst kv))) d)
  | TArr dt sh data =>
      match sh with
      | [] => ItemsNone                                    (* len() of unsized object *)
      | [_] => Items (map (TSc (negb (dt_is_obj dt))) data)
      | n :: rest => Items (map (TArr dt rest) (chunks n (fold_right Nat.mul 1%nat rest) data))
      end
  | TOther => ItemsUnm                                     (* set: iteration order unspecified *)
  end.

Definition str_of_nat (i : nat) : string := NilEmpty.string_of_uint (Nat.to_uint i).
Definition child (name key : string) : string := name ++ "." ++ key.

Fixpoint lookup (k : string) (d : list (string * tree)) : option tree :=
  match d with
  | [] => None
  | (k', v) :: r => if String.eqb k k' then Some v else lookup k r
  end.

Definition keys (d : list (string * tree)) : list string := map fst d.
Definition smem (k : string) (l : list string) : bool := existsb (String.eqb k) l.

Definition ok_errs (name : string) (r : res bool) : res (list string) :=
  bind r (fun b => Ok (if b then [] else [name])).

(** the zip loop over a list, and the loop over the common keys of a dict, with the recursive call abstracted
    (used to state lemmas; [cmp_rec] below inlines the same loops so that the recursion is structural) *)
Section Loops.
  Variable rec : string -> tree -> tree -> res (list string).

  Fixpoint cmp_items (name : string) (es cs : list tree) (i : nat) : res (list string) :=
    match es, cs with
    | e' :: es', c' :: cs' =>
        bind (rec (child name (str_of_nat i)) e' c') (fun a =>
        bind (cmp_items name es' cs' (S i)) (fun b => Ok (a ++ b)%list))
    | _, _ => Ok []
    end.

  Fixpoint cmp_keys (name : string) (ed cd : list (string * tree)) : res (list string) :=
    match ed with
    | [] => Ok []
    | (k, v) :: ed' =>
        match lookup k cd with
        | Some cv =>
            bind (rec (child name k) v cv) (fun a =>
            bind (cmp_keys name ed' cd) (fun b => Ok (a ++ b)%list))
        | None => cmp_keys name ed' cd
        end
    end.
End Loops.

Definition extra_keys (ed cd : list (string * tree)) : bool :=
  existsb (fun k => negb (smem k (keys ed))) (keys cd).         (* computed.keys() - expected.keys() *)
Definition missing_keys (ed cd : list (string * tree)) : bool :=
  existsb (fun k => negb (smem k (keys cd))) (keys ed).         (* expected.keys() - computed.keys() *)

Definition dict_head (name : string) (ed cd : list (string * tree)) : list string :=
  ((if extra_keys ed cd then [name] else []) ++ (if missing_keys ed cd then [name] else []))%list.

(** returns the names of the errors (the message texts are not modelled) *)
Fixpoint cmp_rec (o : lopts) (ph : bool) (name : string) (e c : tree) {struct e} : res (list string) :=
  match e with
  | TSc np s => ok_errs name (leaf_ok o ph np s c)
  | TArr dt sh data => ok_errs name (arr_ok o ph dt sh data c)
  | TOther => Ok [name]                                      (* Type ... not understood *)
  | TList es =>
      match as_items c with
      | ItemsUnm => Unmodelled
      | ItemsNone => Ok [name]                               (* Expected computed to have a __len__() *)
      | Items cs =>
          if negb (Nat.eqb (List.length es) (List.length cs)) then Ok [name]      (* Iterable lengths did not match *)
          else (fix go (es cs : list tree) (i : nat) : res (list string) :=
                  match es, cs with
                  | e' :: es', c' :: cs' =>
                      bind (cmp_rec o ph (child name (str_of_nat i)) e' c') (fun a =>
                      bind (go es' cs' (S i)) (fun b => Ok (a ++ b)%list))
                  | _, _ => Ok []
                  end) es cs 0%nat
      end
  | TDict ed =>
      match c with
      | TDict cd =>
          bind ((fix go (ed : list (string * tree)) : res (list string) :=
                   match ed with
                   | [] => Ok []
                   | (k, v) :: ed' =>
                       match lookup k cd with
                       | Some cv =>
                           bind (cmp_rec o ph (child name k) v cv) (fun a =>
                           bind (go ed') (fun b => Ok (a ++ b)%list))
                       | None => go ed'
                       end
                   end) ed) (fun ch => Ok (dict_head name ed cd ++ ch)%list)
      | _ => Raise EAttribute                                (* computed.keys() *)
      end
  end.

(* ------------------------------------------------------------------------------------------ *)
(** * compare_recursive *)

Inductive epopt := EpBool (b : bool) | EpList (l : list string).

Record cropts := { r_atol : float; r_rtol : float; forgive : list string; r_phase : epopt }.

Definition lo_of (o : cropts) : lopts := {| l_atol := r_atol o; l_rtol := r_rtol o |}.

(** (fg if fg.startswith("root.") else "root." + fg) *)
Definition rootify (s : string) : string := if String.prefix "root." s then s else "root." ++ s.

(** nomatch[0] == fg or nomatch[0].startswith(fg + ".") *)
Definition matches (fg name : string) : bool := String.eqb name fg || String.prefix (fg ++ ".") name.

Fixpoint remove1 (n : string) (l : list string) : list string :=
  match l with
  | [] => []
  | x :: r => if String.eqb x n then r else x :: remove1 n r
  end.

(** for nomatch in sorted(errors): if <pred nomatch>: errors.remove(nomatch)
    (iterates over a snapshot while removing from the live list; the snapshot is walked in list order here —
     sorted() only fixes the order, which does not influence what is left) *)
Definition prune (pred : string -> bool) (errs : list string) : list string :=
  fold_left (fun live n => if pred n then remove1 n live else live) errs errs.

Definition ep_truthy (ep : epopt) : bool :=
  match ep with EpBool b => b | EpList l => negb (Nat.eqb (List.length l) 0) end.

Definition ep_entries (ep : epopt) (errs : list string) : list string :=
  match ep with
  | EpBool true => errs                      (* list(dict(errors).keys()) *)
  | EpBool false => []
  | EpList l => map rootify l
  end.

Definition is_nil {A} (l : list A) : bool := match l with [] => true | _ => false end.

Definition compare_recursive (o : cropts) (e c : tree) : res bool :=
  if PrimFloat.leb fone (r_atol o) then Raise EValue                         (* atol >= 1 *)
  else
    bind (cmp_rec (lo_of o) false "root" e c) (fun errs =>
    bind (if negb (is_nil errs) && ep_truthy (r_phase o) then
            bind (cmp_rec (lo_of o) true "root" e c) (fun nerrs =>
            Ok (prune (fun n => existsb (fun ep => matches ep n) (ep_entries (r_phase o) errs)
                                && negb (smem n nerrs)) errs))
          else Ok errs) (fun errs1 =>
    Ok (is_nil (prune (fun n => existsb (fun fg => matches fg n) (map rootify (forgive o))) errs1)))).

(* ------------------------------------------------------------------------------------------ *)
(** * compare_molrecs (relative_geoms="exact") and ProtoModel.compare *)

(** massage_dicts: the normalisation applied to a deep copy of each molecule record before compare_recursive *)

(** [str(f) for f in dicary["fragment_files"]] — only str entries are modelled *)
Fixpoint norm_files (l : list tree) : res (list tree) :=
  match l with
  | [] => Ok []
  | TSc _ (SStr s) :: r => bind (norm_files r) (fun r' => Ok (TSc false (SStr s) :: r'))
  | _ => Unmodelled
  end.

(** [(s if s is None else int(s)) for s in dicary["fragment_separators"]] — None, bool and (numpy) int entries *)
Definition norm_sep (s : scalar) : option tree :=
  match s with
  | SNone => Some (TSc false SNone)
  | SInt z => Some (TSc false (SInt z))
  | SBool b => Some (TSc false (SInt (b2z b)))
  | _ => None
  end.

Fixpoint norm_seps (l : list scalar) : res (list tree) :=
  match l with
  | [] => Ok []
  | s :: r => match norm_sep s with
              | Some t => bind (norm_seps r) (fun r' => Ok (t :: r'))
              | None => Unmodelled
              end
  end.

Fixpoint scalars_of (l : list tree) : option (list scalar) :=
  match l with
  | [] => Some []
  | TSc _ s :: r => match scalars_of r with Some r' => Some (s :: r') | None => None end
  | _ => None
  end.

Definition norm_separators (v : tree) : res tree :=
  match v with
  | TList l => match scalars_of l with
               | Some ss => bind (norm_seps ss) (fun r => Ok (TList r))
               | None => Unmodelled
               end
  | TArr DInt [_] data => bind (norm_seps data) (fun r => Ok (TList r))
  | _ => Unmodelled
  end.

(** dicary["provenance"].pop("version") *)
Fixpoint remove_key (k : string) (d : list (string * tree)) : list (string * tree) :=
  match d with
  | [] => []
  | (k', v) :: r => if String.eqb k k' then r else (k', v) :: remove_key k r
  end.

Definition norm_provenance (popv : bool) (v : tree) : res tree :=
  if popv then
    match v with
    | TDict d => if smem "version" (keys d) then Ok (TDict (remove_key "version" d)) else Raise EKey
    | _ => Unmodelled
    end
  else Ok v.

(** (min(at1, at2), max(at1, at2), bo): min / max return their FIRST argument on ties *)
Definition bond_key (t : tree) : option Z :=
  match t with
  | TList (TSc _ (SInt a) :: _) => Some a
  | _ => None
  end.

Definition norm_bond (t : tree) : option tree :=
  match t with
  | TList [TSc na (SInt a); TSc nb (SInt b); bo] =>
      let x := TSc na (SInt a) in
      let y := TSc nb (SInt b) in
      Some (TList [if (b <? a)%Z then y else x; if (a <? b)%Z then y else x; bo])
  | _ => None
  end.

Fixpoint norm_bonds (l : list tree) : option (list tree) :=
  match l with
  | [] => Some []
  | t :: r => match norm_bond t, norm_bonds r with
              | Some t', Some r' => Some (t' :: r')
              | _, _ => None
              end
  end.

Definition key_of (t : tree) : Z := match bond_key t with Some z => z | None => 0%Z end.

(** conn.sort(key=lambda tup: tup[0]) — stable *)
Fixpoint insert_bond (x : tree) (s : list tree) : list tree :=
  match s with
  | [] => [x]
  | y :: s' => if (key_of x <=? key_of y)%Z then x :: y :: s' else y :: insert_bond x s'
  end.

Fixpoint sort_bonds (l : list tree) : list tree :=
  match l with
  | [] => []
  | x :: r => insert_bond x (sort_bonds r)
  end.

Definition norm_connectivity (v : tree) : res tree :=
  match v with
  | TList l => match norm_bonds l with
               | Some l' => Ok (TList (sort_bonds l'))
               | None => Unmodelled
               end
  | _ => Unmodelled
  end.

Definition norm_files_v (v : tree) : res tree :=
  match v with
  | TList l => bind (norm_files l) (fun r => Ok (TList r))
  | _ => Unmodelled
  end.

(** one pass over the top-level keys (assignment to an existing key keeps its position) *)
Fixpoint massage_items (popv : bool) (d : list (string * tree)) : res (list (string * tree)) :=
  match d with
  | [] => Ok []
  | (k, v) :: r =>
      bind (if String.eqb k "fragment_files" then norm_files_v v
            else if String.eqb k "fragment_separators" then norm_separators v
            else if String.eqb k "provenance" then norm_provenance popv v
            else if String.eqb k "connectivity" then norm_connectivity v
            else Ok v) (fun v' =>
      bind (massage_items popv r) (fun r' => Ok ((k, v') :: r')))
  end.

(** [popv] = the version entry of provenance is popped (true in the code; false is used to state idempotence:
    a second pop would raise KeyError by construction) *)
Definition massage (popv : bool) (t : tree) : res tree :=
  match t with
  | TDict d => bind (massage_items popv d) (fun d' => Ok (TDict d'))
  | _ => Unmodelled
  end.

(** compare_molrecs has no equal_phase parameter and forwards atol, rtol, forgive only *)
Definition mol_opts (o : cropts) : cropts :=
  {| r_atol := r_atol o; r_rtol := r_rtol o; forgive := forgive o; r_phase := EpBool false |}.

Definition compare_molrecs (o : cropts) (e c : tree) : res bool :=
  bind (massage true e) (fun e' => bind (massage true c) (fun c' => compare_recursive (mol_opts o) e' c')).

(** ProtoModel.compare(self, other, **kwargs) = compare_recursive(self, other, **kwargs); _compare_recursive first
    replaces a model by its .dict(): a model is represented by the tree of that dict *)
Definition protomodel_compare (o : cropts) (self other : tree) : res bool := compare_recursive o self other.

(* ------------------------------------------------------------------------------------------ *)
(** * _handle_return and the reporting options *)

Record ropts := { quiet : bool; return_message : bool }.

Inductive ret := RBool (b : bool) | RPair (b : bool).      (* passfail  |  (passfail, message) *)

Definition handle_return (passfail : bool) (ro : ropts) : ret :=
  if return_message ro then RPair passfail else RBool passfail.

Definition ret_verdict (r : ret) : bool := match r with RBool b | RPair b => b end.

(** the public functions: verdict computed first, then handed to return_handler (default _handle_return) *)
Definition with_handler {R} (H : bool -> ropts -> R) (ro : ropts) (v : res bool) : res R :=
  bind v (fun b => Ok (H b ro)).

Definition compare_values_full {R} (H : bool -> ropts -> R) (ro : ropts) (o : cvopts) (e c : tree) : res R :=
  with_handler H ro (compare_values o e c).
Definition compare_full {R} (H : bool -> ropts -> R) (ro : ropts) (phase : bool) (e c : tree) : res R :=
  with_handler H ro (compare phase e c).
Definition compare_recursive_full {R} (H : bool -> ropts -> R) (ro : ropts) (o : cropts) (e c : tree) : res R :=
  with_handler H ro (compare_recursive o e c).

(** compare_molrecs(..., verbose, return_message, return_handler): quiet=(verbose == 0) *)
Definition compare_molrecs_full {R} (H : bool -> ropts -> R) (verbose : Z) (rm : bool) (o : cropts) (e c : tree) : res R :=
  with_handler H {| quiet := Z.eqb verbose 0; return_message := rm |} (compare_molrecs o e c).

(** ProtoModel.compare(self, other, **kwargs): every keyword is forwarded to compare_recursive *)
Definition protomodel_compare_full {R} (H : bool -> ropts -> R) (ro : ropts) (o : cropts) (self other : tree) : res R :=
  compare_recursive_full H ro o self other.

(* ------------------------------------------------------------------------------------------ *)
(** * The isinstance ladder of _compare_recursive, as data (the ladder, the subclass facts and the floating-dtype
      table are generated from the source and the running numpy into Gen/CompareGlue.v; Proofs/CompareGlue.v proves
      that [cmp_rec] dispatches exactly as the generated ladder says) *)

(** the concrete Python type of a node of [expected] *)
Inductive pyty := PyNone | PyBool | NpBool | PyInt | NpInt | PyFloat | NpFloat | PyComplex | NpComplex | PyStr | NpStr
                | PyList | PyTuple | PyDict | PyNdarray | PySet.

(** the classes named in the isinstance tests *)
Inductive pycls := CStr | CInt | CBool | CComplex | CNpBool | CList | CTuple | CDict | CFloat | CNpNumber | CNdarray
                 | CNoneType | CBaseModel.

(** what a branch does: != / zip loop / key sets and common keys / compare_values / ndarray by dtype / identity with None *)
Inductive action := AExact | ASeq | ADict | AValues | AArray | ANone | AUnknown.

Definition pytype_of (t : tree) : pyty :=
  match t with
  | TSc np s =>
      match s with
      | SNone => PyNone
      | SBool _ => if np then NpBool else PyBool
      | SInt _ => if np then NpInt else PyInt
      | SFloat _ => if np then NpFloat else PyFloat
      | SCplx _ _ => if np then NpComplex else PyComplex
      | SStr _ => if np then NpStr else PyStr
      | SObj => PySet
      end
  | TList _ => PyList          (* or PyTuple: the ladder treats both alike (proved of the generated ladder) *)
  | TDict _ => PyDict
  | TArr _ _ _ => PyNdarray
  | TOther => PySet
  end.

(** first branch one of whose classes the value is an instance of; the final else otherwise *)
Definition dispatch (isinst : pyty -> pycls -> bool) (ladder : list (list pycls * action)) (t : pyty) : action :=
  match find (fun br => existsb (isinst t) (fst br)) ladder with
  | Some br => snd br
  | None => AUnknown
  end.

(** the verdict expression handed to return_handler at a return site *)
Inductive retsite := RTrue | RFalse | RAllclose | RNoErrors.

(* ------------------------------------------------------------------------------------------ *)
(** * Correspondence cases *)

Inductive query :=
| QValues (o : cvopts) (e c : tree)
| QCompare (phase : bool) (e c : tree)
| QRec (o : cropts) (e c : tree)
| QMol (o : cropts) (e c : tree).

Definition run (q : query) : res bool :=
  match q with
  | QValues o e c => compare_values o e c
  | QCompare ph e c => compare ph e c
  | QRec o e c => compare_recursive o e c
  | QMol o e c => compare_molrecs o e c
  end.

Definition exc_eqb (a b : exc) : bool :=
  match a, b with
  | EValue, EValue | EType, EType | EAttribute, EAttribute | EOverflow, EOverflow | EKey, EKey => true
  | _, _ => false
  end.

Definition res_eqb (a b : res bool) : bool :=
  match a, b with
  | Ok x, Ok y => Bool.eqb x y
  | Raise j, Raise k => exc_eqb j k
  | _, _ => false                      (* [Unmodelled] never matches: generators must stay inside the model *)
  end.

Definition check_case (p : query * res bool) : bool := res_eqb (run (fst p)) (snd p).
