(** C15 — model of Molecule.get_fragment (grouped and order-preserving paths, with the at2fr / at2at index
    remap), of the charge / multiplicity validation of the sub-molecule (re-using the C05 model [fill]), of
    Molecule.nelectrons and of the pair terms of Molecule.nuclear_repulsion_energy (qcelemental/models/molecule.py).
    Hand-written, in the code's order; the defaults of the public entry points and the (charge, multiplicity) given to
    ghost fragments come from Gen/FragGlue.v (regenerated from /repo on every run by harness/translate/fragglue.py, which
    also checks the argument-normalising prelude, the overlap test, the totals and the constructor call); tied to the
    implementation by harness/props/c15.py.
    Coordinates and masses are exact rationals; charges and multiplicities are integers (fractional charges are
    outside the model).  The square root in the repulsion energy is outside exact arithmetic: the model produces
    the list of terms (Zeff_i·Zeff_j, d²_ij) in the code's loop order. *)
From Coq Require Import ZArith QArith List String Bool Arith.
Require Import QV.Common.Outcome QV.Common.HFList QV.Model.ChgMult QV.Gen.FragGlue.
Import ListNotations.
Open Scope Z_scope.

Record atom := { a_sym : string; a_Z : Z; a_mass : Q; a_x : Q; a_y : Q; a_z : Q; a_real : bool }.
Definition set_real (b : bool) (a : atom) : atom :=
  {| a_sym := a_sym a; a_Z := a_Z a; a_mass := a_mass a; a_x := a_x a; a_y := a_y a; a_z := a_z a; a_real := b |}.
Definition dflt_atom : atom := {| a_sym := ""; a_Z := 0; a_mass := 0; a_x := 0; a_y := 0; a_z := 0; a_real := false |}.

(** the parent molecule: atoms, fragments as atom-index lists, fragment and total charges / multiplicities *)
Record pmol := { p_atoms : list atom; p_frags : list (list nat); p_fc : list Z; p_fm : list Z; p_c : Z; p_m : Z }.

(** the keyword arguments get_fragment hands to the Molecule constructor *)
Record cdict := { d_atoms : list atom; d_frags : list (list nat); d_fc : list Z; d_fm : list Z; d_cm : option (Z * Z) }.

Definition atom_at (p : pmol) (i : nat) : atom := nth i (p_atoms p) dflt_atom.
Definition frag_at (p : pmol) (f : nat) : list nat := nth f (p_frags p) [].
Definition fc_at (p : pmol) (f : nat) : Z := nth f (p_fc p) 0.
Definition fm_at (p : pmol) (f : nat) : Z := nth f (p_fm p) 1.
Definition memb (x : nat) (l : list nat) : bool := existsb (Nat.eqb x) l.

(* len(set(real) & set(ghost)) *)
Definition overlap (real ghost : list nat) : bool := existsb (fun r => memb r ghost) real.

(* fragments.append(list(range(frag_start, frag_start + frag_size))) *)
Fixpoint blocks (start : nat) (sizes : list nat) : list (list nat) :=
  match sizes with
  | [] => []
  | s :: r => seq start s :: blocks (start + s) r
  end.

Definition frag_atoms (p : pmol) (flag : bool) (f : nat) : list atom :=
  map (fun i => set_real flag (atom_at p i)) (frag_at p f).

(* ---- group_fragments=True ---- *)
Definition grouped (p : pmol) (real ghost : list nat) : cdict :=
  {| d_atoms := flat_map (frag_atoms p true) real ++ flat_map (frag_atoms p false) ghost;
     d_frags := blocks 0 (map (fun f => List.length (frag_at p f)) (real ++ ghost));
     d_fc := map (fc_at p) real ++ map (fun _ => ghost_fc) ghost;
     d_fm := map (fm_at p) real ++ map (fun _ => ghost_fm) ghost;
     d_cm := Some (zsum (map (fc_at p) real), hss (map (fm_at p) real)) |}.

(* ---- group_fragments=False ---- *)
(* at2fr[iat]: the last fragment listing the atom *)
Fixpoint at2fr_from (ifr : nat) (frs : list (list nat)) (iat : nat) (acc : option nat) : option nat :=
  match frs with
  | [] => acc
  | fr :: r => at2fr_from (S ifr) r iat (if memb iat fr then Some ifr else acc)
  end.
Definition at2fr (p : pmol) (iat : nat) : option nat := at2fr_from 0 (p_frags p) iat None.

Definition chosen (real ghost : list nat) (f : nat) : bool := memb f real || memb f ghost.
Definition sel (p : pmol) (real ghost : list nat) (iat : nat) : bool :=
  match at2fr p iat with Some f => chosen real ghost f | None => false end.
Definition sel_real (p : pmol) (real : list nat) (iat : nat) : bool :=
  match at2fr p iat with Some f => memb f real | None => false end.
(* at2at[iat] = number of kept atoms before iat *)
Definition at2at (p : pmol) (real ghost : list nat) (iat : nat) : nat :=
  List.length (filter (sel p real ghost) (seq 0 iat)).

Definition ungrouped (p : pmol) (real ghost : list nat) : cdict :=
  let n := List.length (p_atoms p) in
  {| d_atoms := flat_map (fun iat => if sel p real ghost iat
                                     then [set_real (sel_real p real iat) (atom_at p iat)] else []) (seq 0 n);
     d_frags := flat_map (fun e : nat * list nat => if chosen real ghost (fst e)
                                                    then [map (at2at p real ghost) (snd e)] else []) (enumerate (p_frags p));
     d_fc := flat_map (fun e : nat * list nat => if memb (fst e) real then [fc_at p (fst e)]
                                                 else if memb (fst e) ghost then [ghost_fc] else []) (enumerate (p_frags p));
     d_fm := flat_map (fun e : nat * list nat => if memb (fst e) real then [fm_at p (fst e)]
                                                 else if memb (fst e) ghost then [ghost_fm] else []) (enumerate (p_frags p));
     d_cm := None |}.

(* the constructor arguments, or the exception raised before the constructor is reached *)
Definition get_fragment (p : pmol) (real ghost : list nat) (group : bool) : outcome cdict :=
  if overlap real ghost then Err PyTypeError
  else if group then
    if forallb (fun f => Nat.ltb f (List.length (p_frags p))) (real ++ ghost)
    then let d := grouped p real ghost in
         match d_atoms d with [] => Err PyValueError | _ => Ok d end         (* np.vstack([]) *)
    else Err PyIndexError                                                     (* self.fragments[frag] *)
  else let d := ungrouped p real ghost in
       match d_atoms d with [] => Err PyValueError | _ => Ok d end.

(** ---- validation of the sub-molecule by the constructor: fragments must be contiguous and in order
    (from_schema, throw_reorder) and the charges / multiplicities go through validate_and_fill_chgmult ---- *)
Definition zeff (a : atom) : Z := if a_real a then a_Z a else 0.       (* z * int(real) *)

Fixpoint nat_list_eqb (a b : list nat) : bool :=
  match a, b with
  | [], [] => true
  | x :: a', y :: b' => Nat.eqb x y && nat_list_eqb a' b'
  | _, _ => false
  end.
Definition contiguous (d : cdict) : bool := nat_list_eqb (List.concat (d_frags d)) (seq 0 (List.length (d_atoms d))).

Definition cm_of (d : cdict) : cm_in :=
  {| felez := map (fun fr => map (fun i => zeff (nth i (d_atoms d) dflt_atom)) fr) (d_frags d);
     ic := option_map fst (d_cm d);
     ifc := map Some (d_fc d);
     im := option_map snd (d_cm d);
     ifm := map Some (d_fm d);
     zgf := false |}.

Definition sub_molecule (p : pmol) (real ghost : list nat) (group : bool) : outcome pmol :=
  obind (get_fragment p real ghost group) (fun d =>
  if negb (contiguous d) then Err Validation else
  obind (fill (cm_of d)) (fun r =>
  Ok {| p_atoms := d_atoms d; p_frags := d_frags d; p_fc := ofc r; p_fm := ofm r; p_c := oc r; p_m := om r |})).

(** ---- nelectrons ---- *)
Definition nelectrons (p : pmol) : Z := zsum (map zeff (p_atoms p)) - p_c p.
(* sum([zf for iat, zf in enumerate(Zeff) if iat in self.fragments[ifr]]) - self.fragment_charges[ifr] *)
Definition nelectrons_frag (p : pmol) (ifr : nat) : Z :=
  zsum (map (fun e : nat * atom => if memb (fst e) (frag_at p ifr) then zeff (snd e) else 0) (enumerate (p_atoms p)))
  - fc_at p ifr.

(** ---- nuclear repulsion energy: the terms (Zeff_i·Zeff_j, |r_i - r_j|²) in loop order ---- *)
Definition sqdist (a b : atom) : Q :=
  Qred ((a_x a - a_x b) * (a_x a - a_x b) + (a_y a - a_y b) * (a_y a - a_y b) + (a_z a - a_z b) * (a_z a - a_z b)).
Definition term (a b : atom) : Z * Q := (zeff a * zeff b, sqdist a b).
(* for iat1, at1 in enumerate(atoms): for at2 in atoms[:iat1]: ... *)
Fixpoint terms_from (prev l : list atom) : list (Z * Q) :=
  match l with
  | [] => []
  | a :: r => map (term a) prev ++ terms_from (prev ++ [a]) r
  end.
Definition nre_terms (p : pmol) : list (Z * Q) := terms_from [] (p_atoms p).
Definition nre_terms_frag (p : pmol) (ifr : nat) : list (Z * Q) := terms_from [] (map (atom_at p) (frag_at p ifr)).

(** ---- the public entry points with their argument glue ----
    Molecule.get_fragment(real, ghost=None, orient=False, group_fragments=True): `real` / `ghost` may be one index or a
    list, `ghost` may be absent; the result is what the constructor is handed together with the `orient` it is called with *)
Inductive fsel := SInt (i : nat) | SList (l : list nat).
Definition sel_list (s : fsel) : list nat := match s with SInt i => [i] | SList l => l end.
Definition ghost_list (g : option fsel) : list nat := match g with None => [] | Some s => sel_list s end.
Definition opt_or {A} (d : A) (o : option A) : A := match o with Some x => x | None => d end.
Definition get_fragment_pub (p : pmol) (real : fsel) (ghost : option fsel) (orient group : option bool) : outcome (cdict * bool) :=
  obind (get_fragment p (sel_list real) (ghost_list ghost) (opt_or gf_default_group group))
        (fun d => Ok (d, opt_or gf_default_orient orient)).
Definition sub_molecule_pub (p : pmol) (real : fsel) (ghost : option fsel) (group : option bool) : outcome pmol :=
  sub_molecule p (sel_list real) (ghost_list ghost) (opt_or gf_default_group group).

(* Molecule.nelectrons(ifr=None) / nuclear_repulsion_energy(ifr=None): self.fragments[ifr] raises IndexError *)
Definition nelectrons_pub (p : pmol) (ifr : option nat) : outcome Z :=
  match ifr with
  | None => Ok (nelectrons p)
  | Some k => if Nat.ltb k (List.length (p_frags p)) then Ok (nelectrons_frag p k) else Err PyIndexError
  end.
Definition nre_terms_pub (p : pmol) (ifr : option nat) : outcome (list (Z * Q)) :=
  match ifr with
  | None => Ok (nre_terms p)
  | Some k => if Nat.ltb k (List.length (p_frags p)) then Ok (nre_terms_frag p k) else Err PyIndexError
  end.

(** ---- well-formedness of a parent: index lists in range and forming a partition of the atoms; one charge and
    one multiplicity per fragment ---- *)
Definition wf_pmolb (p : pmol) : bool :=
  let n := List.length (p_atoms p) in
  forallb (fun i => Nat.eqb (List.length (filter (Nat.eqb i) (List.concat (p_frags p)))) 1) (seq 0 n)
  && forallb (fun i => Nat.ltb i n) (List.concat (p_frags p))
  && Nat.eqb (List.length (p_fc p)) (List.length (p_frags p))
  && Nat.eqb (List.length (p_fm p)) (List.length (p_frags p)).

(** ---- correspondence helpers ---- *)
Definition atom_eqb (a b : atom) : bool :=
  String.eqb (a_sym a) (a_sym b) && (a_Z a =? a_Z b) && Qeq_bool (a_mass a) (a_mass b)
  && Qeq_bool (a_x a) (a_x b) && Qeq_bool (a_y a) (a_y b) && Qeq_bool (a_z a) (a_z b) && Bool.eqb (a_real a) (a_real b).
Fixpoint list_eqb {A} (e : A -> A -> bool) (a b : list A) : bool :=
  match a, b with
  | [], [] => true
  | x :: a', y :: b' => e x y && list_eqb e a' b'
  | _, _ => false
  end.
Definition optzz_eqb (a b : option (Z * Z)) : bool :=
  match a, b with
  | None, None => true
  | Some (x, y), Some (u, v) => (x =? u) && (y =? v)
  | _, _ => false
  end.
Definition cdict_eqb (a b : cdict) : bool :=
  list_eqb atom_eqb (d_atoms a) (d_atoms b) && list_eqb nat_list_eqb (d_frags a) (d_frags b)
  && list_eqb Z.eqb (d_fc a) (d_fc b) && list_eqb Z.eqb (d_fm a) (d_fm b) && optzz_eqb (d_cm a) (d_cm b).
Definition pmol_eqb (a b : pmol) : bool :=
  list_eqb atom_eqb (p_atoms a) (p_atoms b) && list_eqb nat_list_eqb (p_frags a) (p_frags b)
  && list_eqb Z.eqb (p_fc a) (p_fc b) && list_eqb Z.eqb (p_fm a) (p_fm b) && (p_c a =? p_c b) && (p_m a =? p_m b).

(* (parent, real, ghost, group, what the constructor was handed / the exception, the validated sub-molecule / exception) *)
Definition check_fragment (c : pmol * list nat * list nat * bool * outcome cdict * outcome pmol) : bool :=
  let '(p, real, ghost, group, ed, em) := c in
  outcome_eqb cdict_eqb (get_fragment p real ghost group) ed
  && outcome_eqb pmol_eqb (sub_molecule p real ghost group) em.

(* the same through the public entry point: (parent, real, ghost, orient, group_fragments as passed (None = left to the default),
   (constructor arguments, orient the constructor was called with) / exception, validated sub-molecule / exception) *)
Definition check_fragment_pub (c : pmol * fsel * option fsel * option bool * option bool * outcome (cdict * bool) * outcome pmol) : bool :=
  let '(p, real, ghost, orient, group, ed, em) := c in
  outcome_eqb (fun a b => cdict_eqb (fst a) (fst b) && Bool.eqb (snd a) (snd b)) (get_fragment_pub p real ghost orient group) ed
  && outcome_eqb pmol_eqb (sub_molecule_pub p real ghost group) em.

(* (molecule, nelectrons(), [nelectrons(ifr)]) *)
Definition check_electrons (c : pmol * Z * list Z) : bool :=
  let '(p, n, nf) := c in
  (nelectrons p =? n) && list_eqb Z.eqb (map (nelectrons_frag p) (seq 0 (List.length (p_frags p)))) nf
  && outcome_eqb Z.eqb (nelectrons_pub p None) (Ok n)
  && list_eqb (outcome_eqb Z.eqb) (map (fun k => nelectrons_pub p (Some k)) (seq 0 (List.length (p_frags p)))) (map (@Ok Z) nf)
  && outcome_eqb Z.eqb (nelectrons_pub p (Some (List.length (p_frags p)))) (Err PyIndexError).

(* nre: the implementation's float (as an exact rational) must lie within tol of sum w / sqrt(d2), the square
   root enclosed with integer square roots at 30 digits *)
Definition inv_sqrt_lo_hi (d2 : Q) : Q * Q :=
  let s := Z.sqrt (Qnum d2 * 10 ^ 60 / Zpos (Qden d2)) in      (* floor(sqrt(d2) * 10^30) *)
  (Qmake (10 ^ 30) (Z.to_pos (s + 1)), Qmake (10 ^ 30) (Z.to_pos (Z.max s 1))).
Definition nre_enclosure (ts : list (Z * Q)) : Q * Q :=
  fold_right (fun t acc => let '(w, d2) := t in
                           if w =? 0 then acc else
                           let '(lo, hi) := inv_sqrt_lo_hi d2 in
                           (fst acc + inject_Z w * lo, snd acc + inject_Z w * hi)%Q) (0%Q, 0%Q) ts.
Definition check_nre (c : pmol * Q * list Q * Q) : bool :=
  let '(p, e, ef, tol) := c in
  let within (ts : list (Z * Q)) (v : Q) :=
      let '(lo, hi) := nre_enclosure ts in (Qle_bool (lo - tol) v && Qle_bool v (hi + tol))%Q in
  within (nre_terms p) e
  && Nat.eqb (List.length ef) (List.length (p_frags p))
  && forallb (fun e : nat * Q => within (nre_terms_frag p (fst e)) (snd e)) (enumerate ef).
