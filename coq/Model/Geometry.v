(** C18 — model of distances / angles / dihedrals / guessed bonds.
    * The arithmetic of compute_distance / compute_angle / compute_dihedral is NOT written here: it is
      Gen/Dihedral.v, regenerated from qcelemental/util/misc.py on every run.
    * Here: the textbook definitions the generated code is proved against, the hand-written model of
      measure_coordinates' dispatch (errors in the code's order), distance_matrix, and
      guess_connectivity's double loop; plus the Q checkers used by the correspondence step. *)
From Coq Require Import List Bool ZArith QArith.
Require Import QV.Common.Outcome QV.Common.Geo3 QV.Common.Geo3Np QV.Common.Geo3Q QV.Gen.Dihedral.
Import ListNotations.

Section Model.
  Variable K : Fops.
  Local Notation "a + b" := (fadd K a b).
  Local Notation "a * b" := (fmul K a b).
  Local Notation "a - b" := (fsub K a b).
  Local Notation "a / b" := (fdiv K a b).

  (** ** Textbook definitions *)
  Definition tb_dist (p q : vec3 K) : K := vnorm (vsub p q).
  (* cosine of the angle at the vertex p2 between p1-p2 and p3-p2 *)
  Definition tb_cos (p1 p2 p3 : vec3 K) : K :=
    vdot (vsub p1 p2) (vsub p3 p2) / (vnorm (vsub p1 p2) * vnorm (vsub p3 p2)).
  (* IUPAC dihedral of p1-p2-p3-p4 with b1 = p2-p1, b2 = p3-p2, b3 = p4-p3:
       atan2( |b2| b1.(b2 x b3) , (b1 x b2).(b2 x b3) ) *)
  Definition tb_dih_y (p1 p2 p3 p4 : vec3 K) : K :=
    vnorm (vsub p3 p2) * triple (vsub p2 p1) (vsub p3 p2) (vsub p4 p3).
  Definition tb_dih_x (p1 p2 p3 p4 : vec3 K) : K :=
    vdot (vcross (vsub p2 p1) (vsub p3 p2)) (vcross (vsub p3 p2) (vsub p4 p3)).

  (** ** distance_matrix(a, b): distm[i] = np.linalg.norm(a[i] - b, axis=1) *)
  Definition distance_matrix (a b : list (vec3 K)) : list (list K) :=
    map (fun ai => map (fun bj => vnorm (vsub ai bj)) b) a.

  (** ** measure_coordinates *)
  Definition vec_arr (p : vec3 K) : arr K := let '(x, y, z) := p in A1 [x; y; z].   (* coordinates[x] *)

  (* numpy row indexing a[i]: negative indices count from the end *)
  Definition py_row (coords : list (vec3 K)) (i : Z) : outcome (vec3 K) :=
    let n := Z.of_nat (length coords) in
    let j := if (i <? 0)%Z then (i + n)%Z else i in
    if ((j <? 0) || (n <=? j))%Z then Err PyIndexError
    else match nth_error coords (Z.to_nat j) with Some p => Ok p | None => Err PyIndexError end.

  Fixpoint omap {A B} (f : A -> outcome B) (l : list A) : outcome (list B) :=
    match l with
    | [] => Ok []
    | a :: r => b <- f a ;; rs <- omap f r ;; Ok (b :: rs)
    end.

  Section Dispatch.
    (* the three functions dispatched to, and what is kept of their result (val[0]) *)
    Variable V : Type.
    Variable f_dist : arr K -> arr K -> outcome V.
    Variable f_ang : arr K -> arr K -> arr K -> bool -> outcome V.
    Variable f_dih : arr K -> arr K -> arr K -> arr K -> bool -> outcome V.

    Definition measure_one (coords : list (vec3 K)) (degrees : bool) (m : list Z) : outcome V :=
      let n := Z.of_nat (length coords) in
      if existsb (fun x => (n <=? x)%Z) m then Err PyValueError          (* "out of bounds" *)
      else match m with
           | [a; b] =>
               pa <- py_row coords a ;; pb <- py_row coords b ;;
               f_dist (vec_arr pa) (vec_arr pb)
           | [a; b; c] =>
               pa <- py_row coords a ;; pb <- py_row coords b ;; pc <- py_row coords c ;;
               f_ang (vec_arr pa) (vec_arr pb) (vec_arr pc) degrees
           | [a; b; c; d] =>
               pa <- py_row coords a ;; pb <- py_row coords b ;; pc <- py_row coords c ;; pd <- py_row coords d ;;
               f_dih (vec_arr pa) (vec_arr pb) (vec_arr pc) (vec_arr pd) degrees
           | _ => Err PyKeyError                                           (* "expected 2-4" *)
           end.

    (* measurements = [[..], [..]]: list of results; [] raises IndexError at measurements[0] *)
    Definition measure_many (coords : list (vec3 K)) (degrees : bool) (ms : list (list Z)) : outcome (list V) :=
      match ms with
      | [] => Err PyIndexError
      | _ => omap (measure_one coords degrees) ms
      end.
  End Dispatch.

  Definition first_of (r : outcome (arr K)) : outcome K := a <- r ;; arr_first K a.

  (* the real thing: distances, angles, dihedrals as numbers *)
  Definition measure1 := measure_one K
    (fun a b => first_of (compute_distance K a b))
    (fun a b c dg => first_of (compute_angle K a b c dg))
    (fun a b c d dg => first_of (compute_dihedral K a b c d dg)).
  Definition measure := measure_many K
    (fun a b => first_of (compute_distance K a b))
    (fun a b c dg => first_of (compute_angle K a b c dg))
    (fun a b c d dg => first_of (compute_dihedral K a b c d dg)).

  (* the same dispatch stopped at the arguments of arccos / arctan2 (what can be executed over Q) *)
  Inductive mval := MDist (d : K) | MCos (c : K) | MYX (y x : K).
  Definition measure_pre := measure_many mval
    (fun a b => d <- first_of (compute_distance K a b) ;; Ok (MDist d))
    (fun a b c _ => c <- first_of (compute_angle_pre K a b c) ;; Ok (MCos c))
    (fun a b c d _ => yx <- compute_dihedral_pre K a b c d ;;
                      y <- arr_first K (fst yx) ;; x <- arr_first K (snd yx) ;; Ok (MYX y x)).

  (** ** guess_connectivity: upper-triangle double loop *)
  Definition atom : Type := (vec3 K * K)%type.        (* position, covalent radius *)
  (* np.sqrt(dists) < (radii[x] + radii[j]) * threshold *)
  Definition bonded (thr : K) (a b : atom) : bool :=
    fltb K (fsqrt K (norm2 (vsub (fst a) (fst b)))) ((snd a + snd b) * thr).
  (* the same decision on squared distances (executable exactly over Q; equivalence proved over R) *)
  Definition bonded_sq (thr : K) (a b : atom) : bool :=
    let c := (snd a + snd b) * thr in
    fltb K (f0 K) c && fltb K (norm2 (vsub (fst a) (fst b))) (c * c).

  Section Conn.
    Variable bd : atom -> atom -> bool.
    Fixpoint conn_row (x : nat) (ax : atom) (j : nat) (rest : list atom) : list (nat * nat) :=
      match rest with
      | [] => []
      | aj :: tl => (if bd ax aj then [(x, j)] else []) ++ conn_row x ax (S j) tl
      end.
    Fixpoint conn_from (x : nat) (atoms : list atom) : list (nat * nat) :=
      match atoms with
      | [] => []
      | ax :: tl => conn_row x ax (S x) tl ++ conn_from (S x) tl
      end.
  End Conn.
  Definition guess_connectivity (thr : K) (atoms : list atom) : list (nat * nat) := conn_from (bonded thr) 0 atoms.
  Definition guess_connectivity_sq (thr : K) (atoms : list atom) : list (nat * nat) := conn_from (bonded_sq thr) 0 atoms.
End Model.

Arguments MDist {K} d. Arguments MCos {K} c. Arguments MYX {K} y x.

(** ** Checkers for the correspondence step (Q instance) *)
Definition tolQ : Q := 1 # 1000000000.

Definition rows (l : list (vec3 QK)) : arr QK := A2 l.

(* implementation distances (binary64 values as exact rationals) against the generated code *)
Definition list_close (tol : Q) (a b : list Q) : bool :=
  Nat.eqb (length a) (length b) && forallb (fun p => Qclose tol (fst p) (snd p)) (combine a b).

Inductive expect (A : Type) := EOk (a : A) | EErr (k : ekind).
Arguments EOk {A} a. Arguments EErr {A} k.

Definition match_outcome {A B} (chk : A -> B -> bool) (m : outcome A) (e : expect B) : bool :=
  match m, e with
  | Ok a, EOk b => chk a b
  | Err j, EErr k => ekind_eqb j k
  | _, _ => false
  end.

Definition arr1 (a : arr QK) : option (list Q) := match a with A1 l => Some l | _ => None end.

(* compute_distance: the implementation's distances *)
Definition chk_distance (c : arr QK * arr QK * expect (list Q)) : bool :=
  let '(p, q, e) := c in
  match_outcome (fun a b => match arr1 a with Some l => list_close tolQ b l | None => false end)
                (compute_distance QK p q) e.

(* compute_angle: the implementation's angles as (cos, sin); the model's clipped cosine c is the
   argument of arccos, and angle = pi - arccos c, i.e. cos angle = -c, sin angle >= 0 *)
Definition chk_angle (c : arr QK * arr QK * arr QK * expect (list (Q * Q))) : bool :=
  let '(p1, p2, p3, e) := c in
  match_outcome (fun a b => match arr1 a with
                            | Some l => list_close tolQ (map fst b) (map Qopp l)
                                        && forallb (fun cs => Qle_bool (- tolQ) (snd cs)) b
                            | None => false end)
                (compute_angle_pre QK p1 p2 p3) e.

(* (y, x) handed to arctan2 against the implementation's (cos, sin) of the dihedral:
   x sin - y cos = 0 and x cos + y sin > 0 *)
Definition yx_matches (y x co si : Q) : bool :=
  let m := Qabs' x + Qabs' y in
  Qle_bool (Qabs' (x * si - y * co)) (tolQ * m) && Qltb 0 (x * co + y * si).

Definition chk_dihedral (c : arr QK * arr QK * arr QK * arr QK * expect (list (Q * Q))) : bool :=
  let '(p1, p2, p3, p4, e) := c in
  match_outcome (fun a b => match arr1 (fst a), arr1 (snd a) with
                            | Some ly, Some lx =>
                                Nat.eqb (length ly) (length b) && Nat.eqb (length lx) (length b)
                                && forallb (fun t => yx_matches (fst (fst t)) (snd (fst t)) (fst (snd t)) (snd (snd t)))
                                           (combine (combine ly lx) b)
                            | _, _ => false end)
                (compute_dihedral_pre QK p1 p2 p3 p4) e.

(* the same for the textbook definitions (rows one by one) *)
Definition chk_textbook (c : list (vec3 QK) * (list Q * list (Q*Q) * list (Q*Q))) : bool :=
  match c with
  | ([p1; p2; p3; p4], ([d12], [(ca, sa)], [(ct, st)])) =>
      Qclose tolQ d12 (tb_dist QK p1 p2)
      && Qclose tolQ ca (tb_cos QK p1 p2 p3) && Qle_bool (- tolQ) sa
      && yx_matches (tb_dih_y QK p1 p2 p3 p4) (tb_dih_x QK p1 p2 p3 p4) ct st
  | _ => false
  end.

(* measure_coordinates: value kinds; distances as numbers, angles / dihedrals as (cos, sin) *)
Inductive mexp := XDist (d : Q) | XAng (co si : Q).
Definition mval_matches (m : mval QK) (e : mexp) : bool :=
  match m, e with
  | MDist d, XDist d' => Qclose tolQ d' d
  | MCos c, XAng co si => Qclose tolQ co (- c) && Qle_bool (- tolQ) si
  | MYX y x, XAng co si => yx_matches y x co si
  | _, _ => false
  end.
Definition chk_measure (c : list (vec3 QK) * list (list Z) * expect (list mexp)) : bool :=
  let '(coords, ms, e) := c in
  match_outcome (fun a b => Nat.eqb (length a) (length b)
                            && forallb (fun p => mval_matches (fst p) (snd p)) (combine a b))
                (measure_pre QK coords false ms) e.

(* distance_matrix *)
(* entrywise: absolutely (1e-9, through the truncated square root) AND relatively on the squares, which are exact over Q:
   |e^2 - |a_i - b_j|^2| <= 1e-9 |a_i - b_j|^2 (+ 1e-26), so that a distance of 1e-6 returned as 0 is a disagreement *)
Definition sq_close (e n2 : Q) : bool := Qle_bool (Qabs' (e * e - n2)) (tolQ * n2 + (1 # 100000000000000000000000000)).
Definition chk_distmat (c : list (vec3 QK) * list (vec3 QK) * list (list Q)) : bool :=
  let '(a, b, e) := c in
  let m := distance_matrix QK a b in
  let m2 := map (fun ai => map (fun bj => norm2 (vsub ai bj)) b) a in
  Nat.eqb (length m) (length e) && forallb (fun p => list_close tolQ (snd p) (fst p)) (combine m e)
  && forallb (fun p => Nat.eqb (length (fst p)) (length (snd p))
                       && forallb (fun q => sq_close (snd q) (fst q)) (combine (fst p) (snd p))) (combine m2 e).

(* guess_connectivity (exact: squared distances) *)
Definition pair_eqb (a b : nat * nat) : bool := Nat.eqb (fst a) (fst b) && Nat.eqb (snd a) (snd b).
Fixpoint list_eqb {A} (eqb : A -> A -> bool) (a b : list A) : bool :=
  match a, b with
  | [], [] => true
  | x :: r, y :: s => eqb x y && list_eqb eqb r s
  | _, _ => false
  end.
Definition chk_conn (c : Q * list (atom QK) * list (nat * nat)) : bool :=
  let '(thr, atoms, e) := c in list_eqb pair_eqb (guess_connectivity_sq QK thr atoms) e.
