(** C09 — what Molecule.__init__ stores as the geometry and what get_hash reads of it (clause C: a Molecule rebuilt from its own
    dictionary).  Definitions only; the branch itself ([init_geometry_action], [validate_flag], [noise_of], the two noise
    constants) is Gen/MolGeomInit.v, regenerated from models/molecule.py on every run.  float_prep and _orient_molecule_internal
    are parameters here (their models are C11's and C16's). *)
From Coq Require Import ZArith Bool List.
Require Import QV.Gen.MolGeomInit.
Import ListNotations.
Open Scope Z_scope.

Section Geometry.
  Variable G : Type.                       (* a geometry (an array of coordinates) *)
  Variable prep : Z -> G -> G.             (* float_prep(array, around) *)
  Variable orient_fn : G -> G.             (* self._orient_molecule_internal() *)

  Definition apply_action (a : geom_action) (g : G) : G :=
    match a with GKeep => g | GPrep n => prep n g | GOrientPrep n => prep n (orient_fn g) end.

  (** Molecule(orient, validate, kwargs...) with kwargs["validated"], kwargs["_geometry_prep"], kwargs["geometry_noise"]:
      the geometry the instance stores, from the geometry pydantic holds after field validation *)
  Definition stored_geometry (orient : bool) (validate_arg : option bool) (validated_kw geometry_prep : bool) (noise_kw : option Z) (g : G) : G :=
    apply_action (init_geometry_action orient (validate_flag validate_arg validated_kw) geometry_prep (noise_of noise_kw)) g.

  (** what get_hash feeds to the digest for the field "geometry" *)
  Definition hashed_geometry (g : G) : G := prep hash_geometry_noise g.
End Geometry.

Definition action_eqb (a b : geom_action) : bool :=
  match a, b with
  | GKeep, GKeep => true
  | GPrep n, GPrep m | GOrientPrep n, GOrientPrep m => n =? m
  | _, _ => false
  end.
(* one observed construction: orient, validate argument, kwargs["validated"], kwargs["_geometry_prep"], kwargs["geometry_noise"],
   and what the implementation was seen to do to the coordinates *)
Definition check_init (c : bool * option bool * bool * bool * option Z * geom_action) : bool :=
  let '(orient, va, vk, gp, nk, seen) := c in
  action_eqb (init_geometry_action orient (validate_flag va vk) gp (noise_of nk)) seen.

