(** C20 — executable model of qcelemental/models/basis.py: ElectronShell.nfunctions, the shell/center
    validators, BasisSet._calculate_nbf and the nbf check.  The two per-L function-count formulas are
    generated from the source (Gen/KeepLists.v: nf_spherical, nf_cartesian). *)
From Coq Require Import ZArith List String Bool.
Require Import QV.Common.Outcome QV.Gen.KeepLists QV.Model.Results.
Import ListNotations.
Local Open Scope string_scope.
Local Open Scope list_scope.
Local Open Scope Z_scope.

(** a shell as far as the validators read it: angular momenta, harmonic type, number of exponents,
    and the length of every coefficient row *)
Record shell := { sh_am : list Z; sh_spherical : bool; sh_nexp : Z; sh_coef : list Z }.

(** `sum((2*L+1) for L in am)` / `sum(((L+1)*(L+2)//2) for L in am)` *)
Definition nfunctions (s : shell) : Z :=
  sumz (map (if sh_spherical s then nf_spherical else nf_cartesian) (sh_am s)).

Definition is_nil {A} (l : list A) : bool := match l with [] => true | _ => false end.

(** pydantic field constraints (min_items=1, NonnegativeInt) and the two `coefficients` validators, in order.
    A field that failed its own validation is missing from `values`, and the validators read
    `values['exponents']` / `values['angular_momentum']` unguarded: that KeyError is not a pydantic error
    and escapes as is. *)
Definition am_ok (s : shell) : bool := negb (is_nil (sh_am s)) && forallb (fun L => 0 <=? L) (sh_am s).
Definition shell_check (s : shell) : outcome unit :=
  if is_nil (sh_coef s) || existsb (fun n => n <=? 0) (sh_coef s)
  then Err Validation                 (* min_items=1 applies to the rows too; the validators are not run *)
  else if negb (0 <? sh_nexp s) then Err PyKeyError                        (* values['exponents'] *)
  else if negb (forallb (fun n => n =? sh_nexp s) (sh_coef s)) then Err Validation
  else if negb (am_ok s) then Err PyKeyError                               (* values['angular_momentum'] *)
  else if (1 <? zlen (sh_am s)) && negb (zlen (sh_am s) =? zlen (sh_coef s)) then Err Validation
  else Ok tt.
Definition shell_ok (s : shell) : bool := match shell_check s with Ok _ => true | Err _ => false end.
Definition shell_keyerror (s : shell) : bool := match shell_check s with Err PyKeyError => true | _ => false end.

Definition centers := list (string * list shell).

(** `for k, center in center_data.items(): center_count[k] = sum(x.nfunctions() for x in shells)` *)
Definition center_count (cd : centers) : list (string * Z) :=
  fold_left (fun acc kc => dset (fst kc) (sumz (map nfunctions (snd kc))) acc) cd [].

(** `for center in atom_map: ret += center_count[center]` *)
Fixpoint nbf_loop (cc : list (string * Z)) (am : list string) (ret : Z) : outcome Z :=
  match am with
  | [] => Ok ret
  | c :: r => match dget c cc with
              | None => Err PyKeyError
              | Some n => nbf_loop cc r (ret + n)
              end
  end.
Definition calculate_nbf (am : list string) (cd : centers) : outcome Z := nbf_loop (center_count cd) am 0.

Record basis_in := { b_centers : centers; b_atom_map : list string; b_nbf : option Z }.

(** BasisSet construction; the result is the stored nbf.
    A failed center_data or atom_map validation makes `_check_nbf` hit its `except KeyError: return v`
    and the construction fails with the collected ValidationError. *)
Definition basis_validate (b : basis_in) : outcome Z :=
  if existsb (fun kc => existsb shell_keyerror (snd kc)) (b_centers b) then Err PyKeyError
  else if negb (forallb (fun kc => negb (is_nil (snd kc)) && forallb shell_ok (snd kc)) (b_centers b))
  then Err Validation
  else if negb (forallb (fun c => smem c (keys (b_centers b))) (b_atom_map b))
  then Err Validation                               (* 'atom_map' contains unknown keys *)
  else match calculate_nbf (b_atom_map b) (b_centers b) with
       | Err k => Err k
       | Ok n => match b_nbf b with
                 | None => Ok n
                 | Some v => if v =? n then Ok v else Err Validation   (* Calculated nbf does not match *)
                 end
       end.

Definition check_basis (c : basis_in * outcome Z) : bool := outcome_eqb Z.eqb (basis_validate (fst c)) (snd c).
