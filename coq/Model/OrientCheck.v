(** C16 — correspondence checker that runs the GENERATED body (Gen/OrientBody.v) over Q next to the hand model. *)
From Coq Require Import List Bool ZArith QArith.
Require Import QV.Common.Outcome QV.Common.Geo3 QV.Common.Geo3Sum QV.Common.Geo3Q QV.Common.Geo3Loop.
Require Import QV.Gen.Inertia QV.Gen.OrientBody QV.Model.Orient.
Import ListNotations.

(* case: atoms, numpy's eigh answer (handed out only if it meets the specification for the tensor asked about),
   the implementation's new geometry (None: ZeroDivisionError) *)
Definition chk_orient_gen (c : list (watom QK) * (vec3 QK * mat3 QK) * option (list (vec3 QK))) : bool :=
  let '(atoms, (lam, V), e) := c in
  let eigh := fun T : mat3 QK => if eigh_ok_b T lam V then (lam, V) else ((0, 0, 0), mzero QK) in
  match orient_internal_gen QK eigh (map fst atoms) (map snd atoms), e with
  | Ok g', Some g => rows_close otol g' g
  | Err PyAssertion, None => true
  | _, _ => false
  end.
