(** C16 — correspondence checker that runs the GENERATED body (Gen/OrientBody.v) over Q next to the hand model. *)
From Coq Require Import List Bool ZArith QArith.
Require Import QV.Common.Outcome QV.Common.Geo3 QV.Common.Geo3Sum QV.Common.Geo3Q QV.Common.Geo3Loop.
Require Import QV.Gen.Inertia QV.Gen.OrientBody QV.Model.Orient.
Import ListNotations.

(* case: atoms, numpy's eigh answer (handed out only if it meets the specification for the tensor asked about),
   the implementation's new geometry (None: ZeroDivisionError) *)
Definition chk_orient_gen (c : list (watom QK) * (vec3 QK * mat3 QK) * option (list (vec3 QK))) : bool :=
  let '(atoms, (lam, V), e) := c in
  let eigh := fun T : mat3 QK => if eigh_ok_b T lam V then (lam, V) else ((0, 0, 0), mzero QK) in
  match orient_internal_gen QK eigh (map fst atoms) (map snd atoms), e with
  | Ok g', Some g => rows_close otol g' g
  | Err PyAssertion, None => true
  | _, _ => false
  end.

(** ** the STORED geometry (Gen/OrientStore.v: float_prep after the internal result), executable over Q *)
Require Import QV.Gen.OrientStore.

(* round half to even of an exact rational *)
Definition q_rint (x : Q) : Z :=
  let n := Qnum x in let d := Zpos (Qden x) in
  let f := (n / d)%Z in
  let r2 := (2 * (n - f * d))%Z in
  if (r2 <? d)%Z then f else if (d <? r2)%Z then (f + 1)%Z else if Z.even f then f else (f + 1)%Z.
(* np.around(x, n) = rint(x * 10^n) / 10^n  (n >= 0) *)
Definition q_around (n : Z) (x : Q) : Q := inject_Z (q_rint (x * inject_Z (10 ^ n))) / inject_Z (10 ^ n).

(* case: atoms, numpy's eigh answer, (geometry_noise, the geometry stored by Molecule(orient=True, ...)); tolerance: one unit of
   the rounding (the exact and the binary64 internal results differ by ~1e-10, which can move a value across a rounding boundary) *)
Definition chk_stored (c : list (watom QK) * (vec3 QK * mat3 QK) * (Z * list (vec3 QK))) : bool :=
  let '(atoms, (lam, V), (gn, g)) := c in
  let eigh := fun T : mat3 QK => if eigh_ok_b T lam V then (lam, V) else ((0, 0, 0), mzero QK) in
  match orient_stored_gen QK eigh q_around gn (map fst atoms) (map snd atoms) with
  | Ok g' => rows_close ((1001 # 1000) / inject_Z (10 ^ gn)) g' g
  | Err _ => false
  end.

Definition list_Qeqb (a b : list Q) : bool :=
  Nat.eqb (length a) (length b) && forallb (fun p => Qeq_bool (fst p) (snd p)) (combine a b).
