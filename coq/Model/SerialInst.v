(** C10 — model instances (the dict() tree of a Molecule, AtomicResult, ...) through the four encodings.

    A [schema] says, per field, what the model's validators do with what comes off the wire: an Array
    field casts to its dtype and reshapes to its shape rule (the reshape rules of C20); an Any-typed
    field keeps what it gets; nested models and lists recurse.  The flat encodings (json, msgpack) write
    `ravel().tolist()`; numpy's element conversion is a section variable with its specification
    (`np.asarray(a.ravel().tolist(), dtype=a.dtype)` has the bytes of `a`). *)
From Coq Require Import ZArith List String Bool Ascii Lia.
Require Import QV.Common.Outcome QV.Gen.SuffixMaps QV.Model.Results QV.Model.Serial.
Import ListNotations.
Local Open Scope string_scope.
Local Open Scope list_scope.
Local Open Scope Z_scope.

Inductive schema :=
| SAny                                              (* Any / plain data *)
| SArr (dts : string) (dims : option (list Z))      (* Array[dtype]; reshape template of its validator, if any *)
| SList (s : schema)
| SModel (fields : list (string * schema)).

Fixpoint sget (k : string) (fields : list (string * schema)) : option schema :=
  match fields with
  | [] => None
  | (k', s) :: r => if String.eqb k k' then Some s else sget k r
  end.

Section Inst.
  (** numpy: `a.ravel().tolist()` and `np.asarray(list, dtype).tobytes()` *)
  Variable elems : ndarray -> list value.
  Variable of_elems : string -> list value -> string.
  Variable sc : ndarray -> value.

  (** JSONArrayEncoder.default / msgpack_encode on a payload *)
  Fixpoint flat_tree (v : value) : value :=
    match v with
    | VList l => VList (map flat_tree l)
    | VTuple l => VTuple (map flat_tree l)
    | VDict d => VDict (map (fun kv => (fst kv, flat_tree (snd kv))) d)
    | VArr a => match shape a with [] => sc a | _ => VList (elems a) end
    | _ => v
    end.

  (** Model.parse_obj on what the loader returned: per field, cast + reshape; extra keys are refused *)
  Fixpoint parse (s : schema) (v : value) {struct v} : outcome value :=
    match v with
    | VNone => Ok VNone
    | VArr a =>
      match s with
      | SAny => Ok v
      | SArr dts None => if String.eqb (dt a) dts then Ok v else Err PyTypeError          (* astype: not modelled *)
      | SArr dts (Some dims) =>
        if String.eqb (dt a) dts
        then match reshape_dims (prodz (shape a)) dims with
             | Ok sh => Ok (VArr {| dt := dt a; shape := sh; data := data a |})
             | Err _ => Err Validation
             end
        else Err PyTypeError
      | _ => Err Validation
      end
    | VList l =>
      match s with
      | SAny => Ok v
      | SArr dts dims =>                              (* a flat list: np.asarray(list, dtype) then the reshape validator *)
        match reshape_dims (zlen l) (match dims with Some d => d | None => [-1] end) with
        | Ok sh => Ok (VArr {| dt := dts; shape := sh; data := of_elems dts l |})
        | Err _ => Err Validation
        end
      | SList s' => obind (omap (parse s') l) (fun l' => Ok (VList l'))
      | SModel _ => Err Validation
      end
    | VDict d =>
      match s with
      | SAny => Ok v
      | SModel fields =>
        obind (omap (fun kv => match fst kv with
                               | KStr k => match sget k fields with
                                           | Some s' => obind (parse s' (snd kv)) (fun x => Ok (fst kv, x))
                                           | None => Err Validation          (* extra fields not permitted *)
                                           end
                               | KBytes _ => Err Validation
                               end) d)
              (fun d' => Ok (VDict d'))
      | _ => Err Validation
      end
    | _ => match s with SAny => Ok v | _ => Err Validation end
    end.

  (** a valid instance of the schema (already in validated form). [flat]: the encoding is json / msgpack *)
  Fixpoint conforms (flat : bool) (s : schema) (v : value) {struct v} : bool :=
    match v with
    | VNone => true
    | VArr a =>
      match s with
      | SAny => negb flat && wf_arrb a
      | SArr dts dims =>
        String.eqb (dt a) dts && wf_arrb a
        && match dims with
           | Some d => match reshape_dims (prodz (shape a)) d with Ok sh => list_eqb Z.eqb sh (shape a) | Err _ => false end
           | None => if flat then Nat.eqb (List.length (shape a)) 1 else true
           end
      | _ => false
      end
    | VList l =>
      match s with
      | SAny => forallb (conforms flat SAny) l
      | SList s' => forallb (conforms flat s') l
      | _ => false
      end
    | VTuple l => match s with SAny => forallb (conforms flat SAny) l | _ => false end
    | VDict d =>
      match s with
      | SAny => forallb (fun kv => match fst kv with KStr k => negb (String.eqb k "_nd_") | KBytes k => negb (String.eqb k "_nd_") end
                                   && conforms flat SAny (snd kv)) d
      | SModel fields =>
        forallb (fun kv => match fst kv with
                           | KStr k => negb (String.eqb k "_nd_")
                                       && match sget k fields with Some s' => conforms flat s' (snd kv) | None => false end
                           | KBytes _ => false
                           end) d
      | _ => false
      end
    | _ => match s with SAny => true | _ => false end
    end.

  (** serialize / parse for the two families of encodings *)
  Definition ser_flat (v : value) : value := normalise (flat_tree v).
  Definition ser_ext (c : extcodec) (v : value) : value := normalise (enc_tree c sc v).
  Definition parse_flat (s : schema) (w : value) : outcome value := parse s w.
  Definition parse_ext (c : extcodec) (s : schema) (w : value) : outcome value := obind (dec_tree c w) (parse s).
End Inst.

(** * the include / exclude options of Model.dict / Model.serialize: a restriction of the top-level keys of the dict() tree *)
Definition restrict (keep : key -> bool) (v : value) : value :=
  match v with VDict d => VDict (filter (fun kv => keep (fst kv)) d) | _ => v end.
Definition excluding (ks : list string) (k : key) : bool := match k with KStr s => negb (smem s ks) | KBytes _ => true end.
Definition including (ks : list string) (k : key) : bool := match k with KStr s => smem s ks | KBytes _ => false end.

(** * correspondence check for model instances.
    numpy's element conversion is instantiated by the table the implementation run produced
    (array -> `ravel().tolist()`); its specification (lengths, leaves) is evaluated on that table. *)
Definition list_value_eqb (a b : list value) : bool := value_eqb (VList a) (VList b).
Definition tbl_elems (tbl : list (ndarray * list value)) (a : ndarray) : list value :=
  match find (fun e => nd_eqb a (fst e)) tbl with Some e => snd e | None => [] end.
Definition tbl_of_elems (tbl : list (ndarray * list value)) (dts : string) (l : list value) : string :=
  match find (fun e => String.eqb (dt (fst e)) dts && list_value_eqb (snd e) l) tbl with Some e => data (fst e) | None => "" end.
Definition is_leafb (v : value) : bool :=
  match v with VList _ | VTuple _ | VDict _ | VArr _ => false | _ => true end.
Definition tbl_ok (tbl : list (ndarray * list value)) : bool :=
  forallb (fun e => (zlen (snd e) =? prodz (shape (fst e))) && forallb is_leafb (snd e) && wf_arrb (fst e)) tbl.

(** encoding: 0 json, 1 json-ext, 2 msgpack, 3 msgpack-ext.  [w]: the plain tree the implementation put on the
    wire; [r]: the dict() of what the implementation parsed back (tuples already turned into lists) *)
Definition check_inst (cse : Z * schema * value * list (ndarray * list value) * value * outcome value) : bool :=
  let '(enc, s, m, tbl, w, r) := cse in
  let flat := (enc =? 0) || (enc =? 2) in
  let c := if enc =? 3 then mp_codec else js_codec in
  tbl_ok tbl && conforms flat s m
  && (if flat
      then value_eqb (ser_flat (tbl_elems tbl) no_scalar m) w
           && outcome_eqb value_eqb (parse_flat (tbl_of_elems tbl) s w) r
      else value_eqb (ser_ext no_scalar c m) w
           && outcome_eqb value_eqb (parse_ext (tbl_of_elems tbl) c s w) r)
  && outcome_eqb value_eqb r (Ok (normalise m)).

(** the same with serialize(enc, exclude=ks): [m] is the full dict() tree, [w] the wire tree of the restricted payload,
    [r] the dict() of what was parsed back without the excluded fields *)
Definition check_inst_excl (cse : list string * (Z * schema * value * list (ndarray * list value) * value * outcome value)) : bool :=
  let '(ks, (enc, s, m, tbl, w, r)) := cse in check_inst (enc, s, restrict (excluding ks) m, tbl, w, r).
