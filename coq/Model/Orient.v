(** C16 — model of Molecule._orient_molecule_internal (qcelemental/models/molecule.py) over a field.
    * The inertia tensor is NOT written here: it is Gen/Inertia.v, regenerated from
      Molecule._inertial_tensor on every run (and [geometry_noise_exp] from GEOMETRY_NOISE).
    * Hand-written, in the code's order: mass-weighted centroid (np.average with weights; zero total
      weight raises ZeroDivisionError), shift, tensor, [np.linalg.eigh] as a PARAMETER [eigh] of the
      model (its specification is the predicate [eigh_ok], checked at run time on what numpy returned),
      rotation geometry.V, the phase loop.
    * Phase loop: the code scans the atoms in order and, per axis, at the first atom whose |coordinate|
      is >= 10^-GEOMETRY_NOISE marks the axis as done and, if that coordinate is negative, multiplies
      the whole column by -1 in place; it stops once all three axes are done.  A column is read only
      before it is flipped, so the model records the signs while scanning and applies them at the end.
    Only the geometry is transformed: symbols, masses, charges, fragments ... are not touched by the
    code (Molecule(orient=True, **self.dict())), and correspondingly do not occur in the model. *)
From Coq Require Import List Bool ZArith QArith.
Require Import QV.Common.Outcome QV.Common.Geo3 QV.Common.Geo3Sum QV.Common.Geo3Q QV.Gen.Inertia.
Import ListNotations.

Notation watom K := (vec3 K * K)%type (only parsing).       (* position, mass *)

Section Model.
  Variable K : Fops.

  Definition fabs (x : K) : K := if fltb K x (f0 K) then fopp K x else x.
  Definition is_zero (x : K) : bool := negb (fltb K (f0 K) x) && negb (fltb K x (f0 K)).

  Definition total_mass (atoms : list (watom K)) : K := fsum K (map snd atoms).
  Definition wsum (atoms : list (watom K)) : vec3 K :=
    (fsum K (map (fun a => fmul K (snd a) (vx (fst a))) atoms),
     fsum K (map (fun a => fmul K (snd a) (vy (fst a))) atoms),
     fsum K (map (fun a => fmul K (snd a) (vz (fst a))) atoms)).
  (* np.average(geometry, axis=0, weights=masses) *)
  Definition centroid (atoms : list (watom K)) : vec3 K :=
    vmap (fun s => fdiv K s (total_mass atoms)) (wsum atoms).
  Definition shift (c : vec3 K) (atoms : list (watom K)) : list (watom K) := map (fun a => (vsub (fst a) c, snd a)) atoms.
  Definition centre (atoms : list (watom K)) : list (watom K) := shift (centroid atoms) atoms.
  (* np.dot(geometry, evecs): every row times the matrix *)
  Definition rotate (V : mat3 K) (atoms : list (watom K)) : list (watom K) := map (fun a => (vm (fst a) V, snd a)) atoms.

  (* geom_noise = 10 ** (-GEOMETRY_NOISE) *)
  Definition noise : K := finv K (fofZ K (10 ^ geometry_noise_exp)).

  (** phase loop *)
  Definition axis_step (nz : K) (st : bool * K) (val : K) : bool * K :=
    if fst st then st
    else if fltb K (fabs val) nz then st
         else (true, if fltb K val (f0 K) then fopp K (f1 K) else f1 K).
  Definition pstate : Type := ((bool * K) * (bool * K) * (bool * K))%type.
  Definition all_checked (st : pstate) : bool := let '(a, b, c) := st in fst a && fst b && fst c.
  Definition row_step (nz : K) (st : pstate) (r : vec3 K) : pstate :=
    let '(a, b, c) := st in (axis_step nz a (vx r), axis_step nz b (vy r), axis_step nz c (vz r)).
  Fixpoint phase_scan (nz : K) (rows : list (vec3 K)) (st : pstate) : pstate :=
    match rows with
    | [] => st
    | r :: tl => let st' := row_step nz st r in
                 if all_checked st' then st' else phase_scan nz tl st'      (* if sum(phase_check) == 3: break *)
    end.
  Definition pstate0 : pstate := ((false, f1 K), (false, f1 K), (false, f1 K)).
  Definition phase_signs (nz : K) (rows : list (vec3 K)) : vec3 K :=
    let '(a, b, c) := phase_scan nz rows pstate0 in (snd a, snd b, snd c).
  Definition apply_signs (s : vec3 K) (rows : list (vec3 K)) : list (vec3 K) := map (vzip (fmul K) s) rows.
  Definition apply_phase (nz : K) (rows : list (vec3 K)) : list (vec3 K) := apply_signs (phase_signs nz rows) rows.

  (** what is required of np.linalg.eigh's answer (w, v) for the symmetric matrix A: v orthogonal,
      A v = v diag(w), w ascending *)
  Definition eigh_ok (A : mat3 K) (r : vec3 K * mat3 K) : Prop :=
    let '(lam, V) := r in
    orthogonal V /\ orthogonal (mtrans V)
    /\ mmul A V = mmul V (mdiag K (vx lam) (vy lam) (vz lam))
    /\ fleb K (vx lam) (vy lam) = true /\ fleb K (vy lam) (vz lam) = true.

  Definition with_masses (rows : list (vec3 K)) (atoms : list (watom K)) : list (watom K) := combine rows (map snd atoms).

  (** _orient_molecule_internal: the new geometry (paired with the unchanged masses) *)
  Definition orient_atoms (eigh : mat3 K -> vec3 K * mat3 K) (atoms : list (watom K)) : outcome (list (watom K)) :=
    if is_zero (total_mass atoms) then Err PyAssertion         (* ZeroDivisionError: weights sum to zero *)
    else
      let c := centre atoms in
      let V := snd (eigh (inertia_tensor K c)) in
      let r := rotate V c in
      Ok (with_masses (apply_phase noise (map fst r)) r).
End Model.

Arguments fabs {K} x.

(** ** Checker for the correspondence step (Q instance) *)
Definition otol : Q := 1 # 1000000000.

Definition vec_close (tol : Q) (a b : vec3 QK) : bool :=
  let '(a0, a1, a2) := a in let '(b0, b1, b2) := b in Qclose tol a0 b0 && Qclose tol a1 b1 && Qclose tol a2 b2.
Definition mat_close (tol : Q) (a b : mat3 QK) : bool :=
  let '(a0, a1, a2) := a in let '(b0, b1, b2) := b in vec_close tol a0 b0 && vec_close tol a1 b1 && vec_close tol a2 b2.
Definition mat_scale (a : mat3 QK) : Q :=
  let '((a00, a01, a02), (a10, a11, a12), (a20, a21, a22)) := a in
  Qabs' a00 + Qabs' a01 + Qabs' a02 + Qabs' a10 + Qabs' a11 + Qabs' a12 + Qabs' a20 + Qabs' a21 + Qabs' a22.

(* numerical version of [eigh_ok] for what numpy returned *)
Definition eigh_ok_b (A : mat3 QK) (lam : vec3 QK) (V : mat3 QK) : bool :=
  mat_close otol (mmul (mtrans V) V) (mident QK)
  && mat_close otol (mmul V (mtrans V)) (mident QK)
  && mat_close (otol * (1 + mat_scale A)) (mmul A V) (mmul V (mdiag QK (vx lam) (vy lam) (vz lam)))
  && Qle_bool (vx lam) (vy lam) && Qle_bool (vy lam) (vz lam).

Fixpoint rows_close (tol : Q) (a b : list (vec3 QK)) : bool :=
  match a, b with
  | [], [] => true
  | x :: r, y :: s => vec_close tol x y && rows_close tol r s
  | _, _ => false
  end.

(* case: atoms (binary64 coordinates and masses as exact rationals), numpy's eigh answer for the tensor,
   and the implementation's new geometry (None: it raised ZeroDivisionError) *)
Definition chk_orient (c : list (watom QK) * (vec3 QK * mat3 QK) * option (list (vec3 QK))) : bool :=
  let '(atoms, (lam, V), e) := c in
  (* the eigh parameter hands out numpy's answer only if it satisfies the specification for the tensor it is asked about *)
  let eigh := fun T : mat3 QK => if eigh_ok_b T lam V then (lam, V) else ((0, 0, 0), mzero QK) in
  match orient_atoms QK eigh atoms, e with
  | Ok r, Some g => rows_close otol (map fst r) g
  | Err PyAssertion, None => true
  | _, _ => false
  end.

(* the generated tensor against Molecule._inertial_tensor on arbitrary (uncentred) atoms *)
Definition chk_tensor (c : list (watom QK) * mat3 QK) : bool :=
  let '(atoms, t) := c in mat_close (otol * (1 + mat_scale t)) (inertia_tensor QK atoms) t.
