(** C17: semantics of the Python constructs that CovalentRadii.get / VanderWaalsRadii.get use beyond those of
    Model/PeriodicTableGlue.v.  harness/translate/radiiglue.py emits Gen/RadiiGlue.v in terms of them;
    Proofs/RadiiGlue.v proves the generated functions equal to the hand-written [get] of Model/Radii.v.  Definitions only. *)
From Coq Require Import ZArith QArith List String Bool.
Require Import QV.Common.Outcome QV.Common.PyAscii.
Require Import QV.Model.PeriodicTable QV.Model.PeriodicTableGlue QV.Model.Radii.
Import ListNotations.

(** `atom in self.cr.keys()`: an int is never equal to a str key *)
Definition py_in_tbl (x : pyval) (t : list (string * entry)) : bool :=
  match x with PStr s => tbl_mem t s | PInt _ => false end.

(** `self.cr[identifier]` *)
Definition py_tbl_item (t : list (string * entry)) (x : pyval) : outcome entry :=
  match x with PStr s => getk (tbl_get t s) | PInt _ => Err PyKeyError end.

Definition is_some {A} (o : option A) : bool := match o with Some _ => true | None => false end.

(** `qca.to_units(units)` on a table entry (Decimal payload): factor * float(data), exact arithmetic *)
Definition py_to_units (e : entry) (factor : string -> Q) : outcome Q :=
  match en_data e with
  | Some d => Ok (factor (en_units e) * dec_Q d)%Q
  | None => Err PyValueError
  end.

(** what the translated get returns: the Datum, the caller's `missing` object as it is (None included), or a number *)
Inductive gres (M : Type) :=
| GDatum (e : entry)
| GMissing (o : option M)
| GValue (v : Q).
Arguments GDatum {M} e.
Arguments GMissing {M} o.
Arguments GValue {M} v.

Definition embed {M} (r : result M) : gres M :=
  match r with RDatum e => GDatum e | RMissing m => GMissing (Some m) | RValue v => GValue v end.
