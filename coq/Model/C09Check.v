(** C09 — check functions evaluated (vm_compute) by the correspondence step on cases produced by the
    implementation.  Definitions only. *)
From Coq Require Import ZArith NArith QArith List String Bool.
Require Import QV.Common.Outcome QV.Common.JsonS QV.Model.QCSchema QV.Gen.Schemas QV.Gen.FieldTypes
               QV.Gen.ToSchemaGen QV.Model.SchemaMol.
Import ListNotations.

Definition verdict_is (r : outcome bool) (b : bool) : bool := outcome_eqb Bool.eqb r (Ok b).

(** one model instance: (model name, does it hold a 0-d array at an unguarded field?, instance as pval, JSON text emitted by the
    implementation, jsonschema's verdict on it, jsonschema's verdict against the schema without uniqueItems) *)
Definition inst_case := (string * bool * pval * json * bool * bool)%type.

Definition check_parts (c : inst_case) : list bool :=
  let '(name, lax, pv, j, expect, expect_stripped) := c in
  match assoc name all_schemas with
  | None => [false]
  | Some (defs, sch) =>
      [ inhabitsb default_fuel true env (TModel name) pv    (* 0-d arrays only where no validator guards the shape *)
      ; Bool.eqb (inhabitsb default_fuel true (shape_env (plain_array_fields env) env) (TModel name) pv) (negb lax)
      ; json_same (emit pv) j
      ; verdict_is (validates default_fuel defs sch j) expect
      ; verdict_is (validates default_fuel (strip_defs defs) (strip_unique sch) j) expect_stripped
        (* among documents that are fine apart from uniqueItems: duplicate-free descriptors <-> fully valid *)
      ; if expect_stripped && inhabitsb default_fuel lax env (TModel name) pv
        then Bool.eqb (inhabitsb default_fuel lax (uniq_env basis_unique_sites env) (TModel name) pv) expect
        else true ]
  end.
Definition check_instance (c : inst_case) : bool := forallb (fun b => b) (check_parts c).

(** one (mutated) JSON document: (model name, document, jsonschema's verdict) *)
Definition check_json (c : string * json * bool) : bool :=
  let '(name, j, expect) := c in
  match assoc name all_schemas with
  | None => false
  | Some (defs, sch) => verdict_is (validates default_fuel defs sch j) expect
  end.

(** to_schema / from_schema index core: (nat, separators, fragments exported by to_schema,
    separators recovered by from_schema) *)
Definition nats (l : list N) : list nat := map N.to_nat l.
Definition check_split (c : N * list N * list (list N) * list N) : bool :=
  let '(n, seps, frags, back) := c in
  let fr := frags_of_seps (N.to_nat n) (nats seps) in
  forallb2 (fun a b => forallb2 Nat.eqb a b) fr (map nats frags) &&
  forallb2 Nat.eqb (seps_of_frags fr) (nats back).

(** unit factor: (molrec units, requested units, input_units_to_au, conversion factor, factor observed
    as the exported coordinate of an atom stored at x = 1.0) *)
Definition check_factor (c : lunit * lunit * option Q * Q * Q) : bool :=
  let '(mu, u, iu, conv, observed) := c in Qeq_bool (geom_factor mu u iu conv) observed.
