(** C09 — the two free-text entries of a molrec through to_schema / from_schema: name and comment.
    Definitions only.  The four pieces ([export_name], [export_comment], [stored_name], [stored_comment]) are
    Gen/SchemaExtras.v, regenerated from the ASTs of to_schema, from_schema, from_arrays and validate_and_fill_units on every run;
    formula_generator (the default name of an unnamed molecule, C14's subject) is a parameter.
    (provenance is not carried: from_schema stamps its own.) *)
From Coq Require Import String Bool.
Require Import QV.Common.Outcome QV.Gen.SchemaExtras.

Record extras := { x_name : option string; x_comment : option string }.

(** to_schema(molrec, 1 | 2): the name / comment keys of the exported molecule ([None] = key absent) *)
Definition to_schema_extras (formula : string) (x : extras) : extras :=
  {| x_name := export_name (x_name x) formula; x_comment := export_comment (x_comment x) |}.
(** from_schema(dict): the name / comment keys of the molrec that comes back *)
Definition from_schema_extras (x : extras) : extras :=
  {| x_name := stored_name (x_name x); x_comment := stored_comment (x_comment x) |}.

Definition ostr_eqb (a b : option string) : bool :=
  match a, b with Some s, Some t => String.eqb s t | None, None => true | _, _ => false end.
Definition extras_eqb (a b : extras) : bool := ostr_eqb (x_name a) (x_name b) && ostr_eqb (x_comment a) (x_comment b).
(** one observed translation: the molrec's name / comment, formula_generator(elem) as the implementation computes it, what
    to_schema exported, what from_schema(to_schema(...)) holds *)
Definition check_extras (c : extras * string * extras * extras) : bool :=
  let '(x, formula, exported, back) := c in
  extras_eqb (to_schema_extras formula x) exported && extras_eqb (from_schema_extras exported) back.
