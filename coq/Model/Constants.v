(** C02 — model of qcelemental.physical_constants.context.PhysicalConstantsContext:
    [__init__] (the insertion/overwrite order of the OrderedDict [pc], the 2018 rename loop, the alias
    table evaluated with Decimal arithmetic BEFORE any alias is inserted, the attribute loop) and [get].
    Data come from Gen (regenerated from /repo on every run); only definitions here. *)
From Coq Require Import ZArith List String Ascii Bool QArith Qabs.
Require Import QV.Common.Outcome QV.Common.DecC02 QV.Common.StrC02.
Require Import QV.Gen.Codata2014 QV.Gen.Codata2018 QV.Gen.Aliases.
Import ListNotations.
Open Scope string_scope.

Inductive cctx := C2014 | C2018.

Record datum := mkdatum {
  d_label : string; d_units : string; d_data : dec; d_comment : string; d_doi : option string }.

Definition opt_str_eqb (a b : option string) : bool :=
  match a, b with Some x, Some y => String.eqb x y | None, None => true | _, _ => false end.
Definition datum_eqb (a b : datum) : bool :=
  String.eqb (d_label a) (d_label b) && String.eqb (d_units a) (d_units b) && dec_eqb (d_data a) (d_data b)
  && String.eqb (d_comment a) (d_comment b) && opt_str_eqb (d_doi a) (d_doi b).

(** OrderedDict: assignment to an existing key keeps its position *)
Fixpoint od_set {V} (k : string) (v : V) (l : list (string * V)) : list (string * V) :=
  match l with
  | [] => [(k, v)]
  | (k', v') :: r => if String.eqb k k' then (k, v) :: r else (k', v') :: od_set k v r
  end.
Fixpoint od_get {V} (k : string) (l : list (string * V)) : option V :=
  match l with
  | [] => None
  | (k', v) :: r => if String.eqb k k' then Some v else od_get k r
  end.

Definition shipped (c : cctx) := match c with C2014 => shipped_2014 | C2018 => shipped_2018 end.
Definition doi_of (c : cctx) := match c with C2014 => doi_2014 | C2018 => doi_2018 end.

Definition pcdict := list (string * datum).

(* for k, v in raw_codata.items(): pc[k] = Datum(quantity, unit, Decimal(value), comment="uncertainty=..", doi) *)
Fixpoint load_raw (doi : string) (rows : list (string * string * string * string * string)) (pc : pcdict)
  : outcome pcdict :=
  match rows with
  | [] => Ok pc
  | (k, q, u, v, unc) :: r =>
      match parse_dec v with
      | None => Err PyValueError             (* decimal.InvalidOperation *)
      | Some d => load_raw doi r (od_set k (mkdatum q u d ("uncertainty=" ++ unc) (Some doi)) pc)
      end
  end.

Fixpoint load_extra (rows : list (string * string * string * string * string)) (pc : pcdict) : outcome pcdict :=
  match rows with
  | [] => Ok pc
  | (k, lab, u, v, com) :: r =>
      match parse_dec v with
      | None => Err PyValueError
      | Some d => load_extra r (od_set k (mkdatum lab u d com None) pc)
      end
  end.

(* for new, old in rename.items(): dm = pc[new.lower()]; pc[old.lower()] = Datum(old, dm.units, dm.data, dm.comment, dm.doi) *)
Fixpoint apply_renames (rn : list (string * string)) (pc : pcdict) : outcome pcdict :=
  match rn with
  | [] => Ok pc
  | (new, old) :: r =>
      match od_get (lower new) pc with
      | None => Err PyKeyError
      | Some dm => apply_renames r (od_set (lower old) (mkdatum old (d_units dm) (d_data dm) (d_comment dm) (d_doi dm)) pc)
      end
  end.

Definition pc_data (pc : pcdict) (k : string) : option dec := option_map d_data (od_get k pc).

(* evaluate a list of alias tuples against the table as it is now *)
Fixpoint eval_aliases (pc : pcdict) (al : list (string * string * dexpr * string))
  : outcome (list (string * string * dec * string)) :=
  match al with
  | [] => Ok []
  | (i, u, e, c) :: r =>
      obind (eval_dec (pc_data pc) pi_literal e) (fun v =>
      obind (eval_aliases pc r) (fun rest => Ok ((i, u, v, c) :: rest)))
  end.

(* for alias in aliases: pc[ident.lower()] = Datum(ident, units, value, comment=comment) *)
Fixpoint insert_aliases (al : list (string * string * dec * string)) (pc : pcdict) : pcdict :=
  match al with
  | [] => pc
  | (i, u, v, c) :: r => insert_aliases r (od_set (lower i) (mkdatum i u v c None) pc)
  end.

Definition build_pc (c : cctx) : outcome pcdict :=
  obind (load_raw (doi_of c) (shipped c) []) (fun pc1 =>
  obind (load_extra extra_relationships pc1) (fun pc2 =>
  match c with
  | C2014 =>
      (* aliases = []; aliases.extend(common); aliases.extend(2014 only) — all evaluated on pc2 *)
      obind (eval_aliases pc2 aliases_common) (fun a1 =>
      obind (eval_aliases pc2 aliases_2014_only) (fun a2 =>
      Ok (insert_aliases (a1 ++ a2) pc2)))
  | C2018 =>
      obind (apply_renames rename_2018_from_2014 pc2) (fun pc3 =>
      obind (eval_aliases pc3 aliases_2018_derived) (fun a0 =>
      obind (eval_aliases pc3 aliases_common) (fun a1 =>
      obind (eval_aliases pc3 aliases_2018_only) (fun a2 =>
      Ok (insert_aliases (a0 ++ a1 ++ a2) pc3)))))
  end)).

(** the tables, computed once *)
Definition pc_2014_o : outcome pcdict := Eval vm_compute in build_pc C2014.
Definition pc_2018_o : outcome pcdict := Eval vm_compute in build_pc C2018.
Definition pc_o (c : cctx) : outcome pcdict := match c with C2014 => pc_2014_o | C2018 => pc_2018_o end.
Definition pc (c : cctx) : pcdict := match pc_o c with Ok l => l | Err _ => [] end.

(** [get(physical_constant, return_tuple=True)] ; [pc[key]] is [od_get] without the lower-casing *)
Definition get (c : cctx) (s : string) : outcome datum :=
  obind (pc_o c) (fun l => match od_get (lower s) l with Some d => Ok d | None => Err PyKeyError end).
Definition getitem (c : cctx) (k : string) : outcome datum :=
  obind (pc_o c) (fun l => match od_get k l with Some d => Ok d | None => Err PyKeyError end).

(** attributes: for qca in pc.values(): setattr(self, qca.label.translate(_transtable), float(qca.data)) *)
Definition mangle (s : string) : string := translate trans_from trans_to trans_del s.
Fixpoint set_attrs (l : pcdict) (acc : list (string * dec)) : list (string * dec) :=
  match l with
  | [] => acc
  | (_, d) :: r => set_attrs r (od_set (mangle (d_label d)) (d_data d) acc)
  end.
Definition attrs_2014 : list (string * dec) := Eval vm_compute in set_attrs (pc C2014) [].
Definition attrs_2018 : list (string * dec) := Eval vm_compute in set_attrs (pc C2018) [].
Definition attrs (c : cctx) := match c with C2014 => attrs_2014 | C2018 => attrs_2018 end.
Definition getattr (c : cctx) (name : string) : outcome dec :=
  obind (pc_o c) (fun _ => match od_get name (attrs c) with Some d => Ok d | None => Err PyAttributeError end).

(** ** float(Decimal): specification of the correctly rounded binary64 result, as an executable
    predicate on the double the interpreter returned (given as  sign * m * 2^e  with 2^52 <= m < 2^53,
    i.e. a normal number).  [d] is nearest to it, ties to even mantissa. *)
Definition Qabs_diff (x y : Q) : Q := Qabs (x - y).
Definition pow2Q (e : Z) : Q := if (0 <=? e)%Z then inject_Z (2 ^ e) else Qmake 1 (Z.to_pos (2 ^ (- e))).
Definition nearest64_ok (neg : bool) (m e : Z) (d : dec) : bool :=
  let x := Qabs (dec2Q d) in
  let f := (inject_Z m * pow2Q e)%Q in
  let sign_ok := if Qeq_bool (dec2Q d) 0 then false else Bool.eqb neg (coef d <? 0)%Z in
  let normal := ((2 ^ 52 <=? m) && (m <? 2 ^ 53) && (-1074 <=? e) && (e <=? 971))%Z in
  let ulp := pow2Q e in
  (* gap to the next double below is half an ulp when m = 2^52 *)
  let gap_lo := if (m =? 2 ^ 52)%Z then (ulp / 2)%Q else ulp in
  let ok_hi := (* x >= f *) let t := (2 * (x - f))%Q in
               (Qle_bool 0 (x - f)) && (negb (Qle_bool ulp t) || (Qeq_bool t ulp && Z.even m)) in
  let ok_lo := (* x < f *) let t := (2 * (f - x))%Q in
               (negb (Qle_bool 0 (x - f))) && (negb (Qle_bool gap_lo t) || (Qeq_bool t gap_lo && Z.even m)) in
  sign_ok && normal && (ok_hi || ok_lo).

(** float(Decimal) as the model computes it: the binary64 nearest to the decimal, ties to even, by integer arithmetic
    (normal range only; [None] otherwise).  That this IS the nearest double is theorem C02_float_is_nearest. *)
Definition nearest64_try (N D e : Z) : option (Z * Z) :=
  let '(num, den) := if (0 <=? e)%Z then (N, (D * 2 ^ e)%Z) else ((N * 2 ^ (- e))%Z, D) in
  let q := (num / den)%Z in
  if ((2 ^ 52 <=? q) && (q <? 2 ^ 53))%Z then
    let m := rhe num den in
    Some (if (m =? 2 ^ 53)%Z then ((2 ^ 52)%Z, (e + 1)%Z) else (m, e))
  else None.
Definition nearest64 (d : dec) : option (bool * Z * Z) :=
  let c := coef d in
  if (c =? 0)%Z then None
  else
    let a := Z.abs c in
    let '(N, D) := if (0 <=? dexp d)%Z then ((a * 10 ^ dexp d)%Z, 1%Z) else (a, (10 ^ (- dexp d))%Z) in
    let e0 := (Z.log2 N - Z.log2 D - 52)%Z in
    let r := match nearest64_try N D e0 with
             | Some r => Some r
             | None => match nearest64_try N D (e0 - 1) with Some r => Some r | None => nearest64_try N D (e0 + 1) end
             end in
    match r with
    | Some (m, e) => if ((-1074 <=? e) && (e <=? 971))%Z then Some ((c <? 0)%Z, m, e) else None
    | None => None
    end.
Definition float_eqb (x : option (bool * Z * Z)) (ng : bool) (m e : Z) : bool :=
  match x with Some (n', m', e') => Bool.eqb ng n' && (m =? m')%Z && (e =? e')%Z | None => false end.

(** ** correspondence cases *)
Inductive route := RGet | RGetTuple | RAttr | RItem.
(* expected result from the implementation *)
Inductive expect :=
| EDatum (label units : string) (c e : Z) (comment : string) (doi : option string)
| EFloat (neg : bool) (m e : Z)
| EErr (k : ekind).

Definition ctx_of (n : Z) : cctx := if (n =? 2014)%Z then C2014 else C2018.

Definition check_case (x : Z * route * string * expect) : bool :=
  let '(y, r, s, ex) := x in
  let c := ctx_of y in
  match r, ex with
  | RGetTuple, EDatum l u cf e cm doi => outcome_eqb datum_eqb (get c s) (Ok (mkdatum l u (mkdec cf e) cm doi))
  | RItem, EDatum l u cf e cm doi => outcome_eqb datum_eqb (getitem c s) (Ok (mkdatum l u (mkdec cf e) cm doi))
  | RGet, EFloat ng m e => match get c s with Ok d => float_eqb (nearest64 (d_data d)) ng m e && nearest64_ok ng m e (d_data d) | Err _ => false end
  | RAttr, EFloat ng m e => match getattr c s with Ok d => float_eqb (nearest64 d) ng m e && nearest64_ok ng m e d | Err _ => false end
  | RGetTuple, EErr k | RGet, EErr k => match get c s with Err k' => ekind_eqb k k' | Ok _ => false end
  | RItem, EErr k => match getitem c s with Err k' => ekind_eqb k k' | Ok _ => false end
  | RAttr, EErr k => match getattr c s with Err k' => ekind_eqb k k' | Ok _ => false end
  | _, _ => false
  end.
