(** C13 — model of qcelemental.models.align.AlignmentMill (align_coordinates forward/reverse,
    align_atoms, align_vector, align_gradient, align_hessian, align_vector_gradient) and of
    qcelemental.util.np_blockwise (blockwise_expand with block shape (3,3), blockwise_contract),
    over an arbitrary carrier with ring operations ([Ops K]).  Hand-written in the code's order;
    tied to the implementation by the correspondence check (harness/props/c13.py) which runs it
    at K = Q.  Definitions only.

    Arrays: an (n,3) array is a [list (vec3 K)]; a (3n,3n) array is its C-order flat [list K]
    together with n; the 4-index array (n,n,3,3) produced by blockwise_expand is its logical
    C-order flat list; [atommap] is a [list nat] (negative indices are outside the model).
    numpy fancy indexing with an out-of-range index raises IndexError: modelled. *)
From Coq Require Import List Arith Bool ZArith QArith Qabs.
Require Import QV.Common.Outcome QV.Common.AlignAlg.
Import ListNotations.

Record mill (K : Type) := {
  shift : vec3 K;         (* (3,)  *)
  rot : mat3 K;           (* (3,3) *)
  amap : list nat;        (* (nat,) *)
  mirror : bool }.
Arguments shift {K} m. Arguments rot {K} m. Arguments amap {K} m. Arguments mirror {K} m.

(** [arr[idx]] for an index array: out[i] = arr[idx[i]] *)
Fixpoint gather {A} (l : list A) (p : list nat) : outcome (list A) :=
  match p with
  | [] => Ok []
  | i :: r => match nth_error l i with
              | None => Err PyIndexError
              | Some a => obind (gather l r) (fun t => Ok (a :: t))
              end
  end.

Section Model.
Context {K : Type} {KO : Ops K}.
Local Open Scope K_scope.

(** ---- align_coordinates ---- *)
Definition fwd_atom (m : mill K) (v : vec3 K) : vec3 K :=      (* mirror; - shift; .dot(rotation) *)
  vmat (vsub (mirv (mirror m) v) (shift m)) (rot m).
Definition rev_atom (m : mill K) (v : vec3 K) : vec3 K :=      (* .dot(rotation); + shift; mirror *)
  mirv (mirror m) (vadd (vmat v (rot m)) (shift m)).
Definition align_coordinates (m : mill K) (reverse : bool) (geom : list (vec3 K)) : outcome (list (vec3 K)) :=
  gather (map (if reverse then rev_atom m else fwd_atom m) geom) (amap m).

(** ---- align_atoms ---- *)
Definition align_atoms {A} (m : mill K) (ats : list A) : outcome (list A) := gather ats (amap m).

(** ---- align_vector ---- *)
Definition align_vector (m : mill K) (v : vec3 K) : vec3 K := vmat v (rot m).

(** ---- align_gradient ---- *)
Definition lin_atom (m : mill K) (v : vec3 K) : vec3 K := vmat (mirv (mirror m) v) (rot m).
Definition align_gradient (m : mill K) (g : list (vec3 K)) : outcome (list (vec3 K)) :=
  gather (map (lin_atom m) g) (amap m).

(** ---- blockwise_expand(a, (3,3)) / blockwise_contract ---- *)
(* C-order position of [I,J,a,b] in an array of shape (gr,gc,3,3) *)
Definition idx4 (gc bi bj a b : nat) : nat := ((bi * gc + bj) * 3 + a) * 3 + b.
(* as_strided(a, shape = (h/3, w/3, 3, 3), strides = (3*s0, 3*s1, s0, s1)) on a C-contiguous
   (h,w) array whose strides in elements are s0 = w, s1 = 1 *)
Definition unidx4 (gc k : nat) : nat * nat * nat * nat :=     (* np.unravel_index(k, (gr,gc,3,3)) *)
  ((k / (9 * gc))%nat, ((k / 9) mod gc)%nat, ((k / 3) mod 3)%nat, (k mod 3)%nat).
Definition expand (gr gc : nat) (H : list K) : list K :=
  let s0 := (3 * gc)%nat in let s1 := 1%nat in
  tab (gr * gc * 9) (fun k =>
    let '(bi, bj, a, b) := unidx4 gc k in
    nth (bi * (3 * s0) + bj * (3 * s1) + a * s0 + b * s1)%nat H 0).
(* reshape(gr*gc,3,3) ; reshape(h//3, -1, 3, 3).swapaxes(1,2).reshape(h, w) with h = 3 gr, w = 3 gc:
   out[3I+a, 3J+b] = arr[I,J,a,b] *)
Definition contract (gr gc : nat) (B : list K) : list K :=
  let w := (3 * gc)%nat in
  tab (3 * gr * w) (fun k =>
    let r := (k / w)%nat in let c := (k mod w)%nat in
    nth (idx4 gc (r / 3) (c / 3) (r mod 3) (c mod 3)) B 0).

(** ---- align_hessian ---- *)
Definition blk (gc : nat) (B : list K) (bi bj : nat) : mat3 K :=
  mk3 (fun a b => nth (idx4 gc bi bj a b) B 0).
(* blocked[:, :, 1, :] *= -1 ; blocked[:, :, :, 1] *= -1 *)
Definition neg_axis2 (B : list K) : list K :=
  tab (length B) (fun k => if Nat.eqb ((k / 3) mod 3) 1 then nth k B 0 * (- (1)) else nth k B 0).
Definition neg_axis3 (B : list K) : list K :=
  tab (length B) (fun k => if Nat.eqb (k mod 3) 1 then nth k B 0 * (- (1)) else nth k B 0).
(* for iat: for jat: alhess[iat, jat] = rotation.T.dot(blocked[iat, jat].dot(rotation)) *)
Definition mflat (M : mat3 K) : list K :=
  let '((a, b, c), (d, e, f), (g, h, i)) := M in [a; b; c; d; e; f; g; h; i].
Definition rot_block (m : mill K) (n : nat) (B : list K) (bi bj : nat) : mat3 K :=
  mmul (mtrans (rot m)) (mmul (blk n B bi bj) (rot m)).
Definition rot_blocks (m : mill K) (n : nat) (B : list K) : list K :=
  flat_map (fun k => mflat (rot_block m n B (k / n) (k mod n))) (seq 0 (n * n)).
(* alhess[np.ix_(atommap, atommap)] *)
Definition ix_blocks (n : nat) (p : list nat) (B : list K) : outcome (list K) :=
  if forallb (fun i => Nat.ltb i n) p then
    let mm := length p in
    Ok (tab (mm * mm * 9) (fun k =>
          let '(bi, bj, a, b) := unidx4 mm k in
          nth (idx4 n (nth bi p O) (nth bj p O) a b) B 0))
  else Err PyIndexError.
Definition align_hessian (m : mill K) (n : nat) (H : list K) : outcome (list K) :=
  let B0 := expand n n H in
  let B1 := if mirror m then neg_axis3 (neg_axis2 B0) else B0 in
  let AL := rot_blocks m n B1 in
  obind (ix_blocks n (amap m) AL) (fun G => Ok (contract (length (amap m)) (length (amap m)) G)).

(** ---- align_vector_gradient ---- *)
(* mu = (mu_x, mu_y, mu_z), each of length 3*nat; result (3, 3*nat) as three rows.
   nat = mu_x.shape[0] // 3 ; for at in range(nat): uses atommap[at] (IndexError if atommap is
   shorter), slices mu_c[3*p : 3*p+3] (an out-of-range p gives an empty slice: ValueError on
   assignment into Datom[0, :]). *)
Definition datom (m : mill K) (mu : list K * list K * list K) (p : nat) : mat3 K :=
  let '(mx, my, mz) := mu in
  let D := ((nth (3 * p) mx 0, nth (3 * p + 1) mx 0, nth (3 * p + 2) mx 0),
            (nth (3 * p) my 0, nth (3 * p + 1) my 0, nth (3 * p + 2) my 0),
            (nth (3 * p) mz 0, nth (3 * p + 1) mz 0, nth (3 * p + 2) mz 0)) in
  mmul (mtrans (rot m)) (mmul D (rot m)).
(* first error met by the loop [for at in range(nat)] *)
Fixpoint vg_scan (n : nat) (ats : list nat) (p : list nat) : option ekind :=
  match ats with
  | [] => None
  | at' :: r => match nth_error p at' with
               | None => Some PyIndexError
               | Some i => if Nat.ltb i n then vg_scan n r p else Some PyValueError
               end
  end.
Definition align_vector_gradient (m : mill K) (mu : list K * list K * list K)
  : outcome (list K * list K * list K) :=
  let '(mx, my, mz) := mu in
  let n := (length mx / 3)%nat in
  if negb (Nat.eqb (length mx) (3 * n) && Nat.eqb (length my) (3 * n) && Nat.eqb (length mz) (3 * n))
  then Err PyTypeError                        (* ragged input: outside the modelled domain *)
  else match vg_scan n (seq 0 n) (amap m) with
  | Some e => Err e
  | None =>
    let ds := map (fun at' => datom m mu (nth at' (amap m) O)) (seq 0 n) in
    let row (a : nat) := flat_map (fun D => [ment D a 0%nat; ment D a 1%nat; ment D a 2%nat]) ds in
    Ok (row 0%nat, row 1%nat, row 2%nat)
  end.

(** ---- specification vocabulary (used by the theorems in Props/C13.v) ---- *)
(* per-atom linear part as a coefficient: (lin_atom m v)_a = sum_b Aent m a b * v_b *)
Definition Aent (m : mill K) (a b : nat) : K :=
  if mirror m && Nat.eqb b 1 then - ment (rot m) b a else ment (rot m) b a.
(* the linear part L of the recipe as a (3n x 3n) block operator: mirror . rotation . permutation *)
Definition Lmat (m : mill K) (r c : nat) : K :=
  if Nat.eqb (c / 3) (nth (r / 3) (amap m) O) then Aent m (r mod 3) (c mod 3) else 0.
(* translation part: - shift . rotation *)
Definition tvec (m : mill K) : vec3 K := vopp (vmat (shift m) (rot m)).
(* inverse recipe (what the aligner returns for a scramble): same shift and mirror, rotation
   transposed, atom map q *)
Definition inv_mill (m : mill K) (q : list nat) : mill K :=
  {| shift := shift m; rot := mtrans (rot m); amap := q; mirror := mirror m |}.
Definition orthogonal (M : mat3 K) : Prop := mmul (mtrans M) M = mid /\ mmul M (mtrans M) = mid.
(* p lists 0..n-1 in some order *)
Definition is_perm (n : nat) (p : list nat) : Prop :=
  length p = n /\ NoDup p /\ Forall (fun i => i < n)%nat p.
End Model.

(** ======== instance at Q and the correspondence checkers (run by vm_compute) ======== *)
(* results are kept in lowest terms ([Qred]) so that numerators/denominators stay small *)
#[export] Instance QOps : Ops Q :=
  {| k0 := 0%Q; k1 := 1%Q;
     kadd := fun a b => Qred (Qplus a b); kmul := fun a b => Qred (Qmult a b);
     ksub := fun a b => Qred (Qminus a b); kopp := Qopp |}.

Definition qclose (tol a b : Q) : bool := Qle_bool (Qabs (a - b)) tol.
Fixpoint all2 {A} (f : A -> A -> bool) (x y : list A) : bool :=
  match x, y with
  | [], [] => true
  | a :: r, b :: s => f a b && all2 f r s
  | _, _ => false
  end.
Definition vclose (tol : Q) (u v : vec3 Q) : bool :=
  let '(a, b, c) := u in let '(x, y, z) := v in qclose tol a x && qclose tol b y && qclose tol c z.
Definition oclose {A} (f : A -> A -> bool) (x y : outcome A) : bool := outcome_eqb f x y.

Inductive mcase :=
| CCoords (tol : Q) (m : mill Q) (rev : bool) (x : list (vec3 Q)) (out : outcome (list (vec3 Q)))
| CAtoms (m : mill Q) (a : list Z) (out : outcome (list Z))
| CVector (tol : Q) (m : mill Q) (v : vec3 Q) (out : vec3 Q)
| CGrad (tol : Q) (m : mill Q) (g : list (vec3 Q)) (out : outcome (list (vec3 Q)))
| CHess (tol : Q) (m : mill Q) (n : nat) (H : list Q) (out : outcome (list Q))
| CVecGrad (tol : Q) (m : mill Q) (mu : list Q * list Q * list Q) (out : outcome (list Q * list Q * list Q))
| CExpand (gr gc : nat) (H : list Q) (out : list Q)
| CContract (gr gc : nat) (B : list Q) (out : list Q).

Definition check_case (c : mcase) : bool :=
  match c with
  | CCoords tol m rev x out => oclose (all2 (vclose tol)) (align_coordinates m rev x) out
  | CAtoms m a out => oclose (all2 Z.eqb) (align_atoms m a) out
  | CVector tol m v out => vclose tol (align_vector m v) out
  | CGrad tol m g out => oclose (all2 (vclose tol)) (align_gradient m g) out
  | CHess tol m n H out => oclose (all2 (qclose tol)) (align_hessian m n H) out
  | CVecGrad tol m mu out =>
      oclose (fun x y => let '(a, b, c) := x in let '(d, e, f) := y in
                         all2 (qclose tol) a d && all2 (qclose tol) b e && all2 (qclose tol) c f)
             (align_vector_gradient m mu) out
  | CExpand gr gc H out => all2 (qclose 0) (expand gr gc H) out
  | CContract gr gc B out => all2 (qclose 0) (contract gr gc B) out
  end.
