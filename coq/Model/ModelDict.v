(** C19 — ProtoModel.dict / .serialize / .json (qcelemental/models/basemodels.py): what a model-to-dict conversion
    hands to pydantic, and what it leaves behind in the class-level configuration that EVERY ProtoModel subclass
    shares (Config.serialize_default_excludes is one Python set object, inherited by all Config classes).
    _compare_recursive converts a model with a plain [.dict()], so the fields a comparison sees are a function of
    that shared object: the model carries it as explicit state, and a history of earlier conversions is a fold.

    Definitions only (proofs: Proofs/ModelDict.v; the statements of ProtoModel.dict are regenerated into
    Gen/CompareGlue.v by harness/translate/cmpglue.py and proved equal to these). *)
From Coq Require Import List Bool String.
Require Import QV.Model.Compare.
Import ListNotations.
Local Open Scope string_scope.

(** the keywords of one .dict(kwargs...) call that ProtoModel.dict itself reads (None = not passed); everything else is
    forwarded to pydantic untouched *)
Record dictkw := { kw_exclude : option (list string); kw_exclude_unset : option bool }.

(** the per-class flags of Config (class attributes, never written by this code) *)
Record clsflags := { skip_defaults : bool; force_skip : bool }.

(** Python's [x or set()] for an optional set, and [a | b] (a NEW set: no operand is modified) *)
Definition or_empty (x : option (list string)) : list string :=
  match x with Some s => s | None => [] end.        (* an empty set is falsy: replaced by the new empty set *)
Fixpoint sunion (a b : list string) : list string :=
  match b with
  | [] => a
  | x :: r => if smem x a then sunion a r else sunion (a ++ [x]) r
  end.

(** kwargs["exclude"] = (kwargs.get("exclude", None) or set()) | self.__config__.serialize_default_excludes
    kwargs.setdefault("exclude_unset", self.__config__.serialize_skip_defaults)
    if self.__config__.force_skip_defaults: kwargs["exclude_unset"] = True
    -> ((exclude, exclude_unset) handed to BaseModel.dict, the shared set afterwards) *)
Definition pm_dict_kwargs (shared : list string) (fl : clsflags) (kw : dictkw) : (list string * bool) * list string :=
  let ex := sunion (or_empty (kw_exclude kw)) shared in
  let eu := if force_skip fl then true else match kw_exclude_unset kw with Some b => b | None => skip_defaults fl end in
  ((ex, eu), shared).

(** serialize(encoding, include=, exclude=, exclude_unset=, ...): `if exclude: kwargs["exclude"] = exclude` — only
    truthy options are forwarded to .dict *)
Definition truthy_set (x : option (list string)) : bool := match x with Some (_ :: _) => true | _ => false end.
Definition truthy_bool (x : option bool) : bool := match x with Some true => true | _ => false end.
Definition serialize_kw (exclude : option (list string)) (exclude_unset : option bool) : dictkw :=
  {| kw_exclude := if truthy_set exclude then exclude else None;
     kw_exclude_unset := if truthy_bool exclude_unset then exclude_unset else None |}.

(** the configuration as the class statement creates it *)
Definition shared0 : list string := [].
Definition protoflags0 : clsflags := {| skip_defaults := false; force_skip := false |}.

(** a model: its fields in declaration order, each with "was it set explicitly" and the tree of its value *)
Definition fields := list (string * (bool * tree)).

(** pydantic's BaseModel.dict(exclude=, exclude_unset=), top level: fields named in [exclude] are dropped, unset fields
    are dropped when exclude_unset (trusted; observed by the correspondence) *)
Definition base_dict (ex : list string) (eu : bool) (m : fields) : tree :=
  TDict (map (fun f => (fst f, snd (snd f)))
             (filter (fun f => negb (smem (fst f) ex) && (negb eu || fst (snd f))) m)).

(** one model-to-dict conversion: the dict, and the shared set afterwards *)
Definition pm_dict (shared : list string) (fl : clsflags) (kw : dictkw) (m : fields) : tree * list string :=
  let '((ex, eu), shared') := pm_dict_kwargs shared fl kw in (base_dict ex eu m, shared').

(** any number of earlier conversions (on any models of any classes, with any keywords) *)
Definition call := (clsflags * dictkw * fields)%type.
Definition after_history (shared : list string) (h : list call) : list string :=
  fold_left (fun s c => snd (pm_dict s (fst (fst c)) (snd (fst c)) (snd c))) h shared.

Definition plain : dictkw := {| kw_exclude := None; kw_exclude_unset := None |}.

(** ProtoModel.compare / compare_recursive on two models after a history: both are converted with a plain .dict()
    (expected first), then compared *)
Definition protomodel_compare_after (h : list call) (o : cropts) (fa fb : clsflags) (a b : fields) : res bool :=
  let s0 := after_history shared0 h in
  let '(ta, s1) := pm_dict s0 fa plain a in
  let '(tb, _) := pm_dict s1 fb plain b in
  protomodel_compare o ta tb.

(** what the comparison is supposed to see: every field (every explicitly set field for the classes whose own
    Config says so) *)
Definition visible (fl : clsflags) (m : fields) : tree :=
  base_dict [] (if force_skip fl then true else skip_defaults fl) m.

(** correspondence: (shared set before, class flags, keywords) against the (exclude, exclude_unset) the implementation
    handed to pydantic and the shared set it left behind *)
Definition sset_eqb (a b : list string) : bool :=
  forallb (fun x => smem x b) a && forallb (fun x => smem x a) b.
Definition dict_keys (t : tree) : list string := match t with TDict d => keys d | _ => [] end.
(** ((shared set, class flags, keywords, fields as (name, set explicitly)),
     ((exclude, exclude_unset) seen by pydantic, shared set afterwards, keys of the returned dict)) *)
Definition check_dict_call (c : (list string * clsflags * dictkw * list (string * bool))
                                * ((list string * bool) * list string * list string)) : bool :=
  let '((s, fl, kw, fs), ((ex, eu), s', ks)) := c in
  let '((mex, meu), ms) := pm_dict_kwargs s fl kw in
  let m : fields := map (fun f => (fst f, (snd f, TSc false SNone))) fs in
  sset_eqb mex ex && Bool.eqb meu eu && sset_eqb ms s' && sset_eqb (dict_keys (fst (pm_dict s fl kw m))) ks.
