(** C12 — correspondence checker for the translated kabsch_align (Gen/KabschAlign.v), weighted and
    unweighted: run at K = Q with LAPACK's top eigenvector and the exact square roots of the weights. *)
From Coq Require Import List Arith Bool ZArith QArith Qabs.
Require Import QV.Common.Outcome QV.Common.AlignAlg QV.Common.AlignAlgQuat QV.Gen.Quat QV.Model.Mill QV.Model.Kabsch
               QV.Gen.KabschAlign.
Import ListNotations.

Inductive wcase :=
(* kabsch_align(R, C, weight=w): sw = sqrt(w) exactly, sumw = sum(w), q = LAPACK's top eigenvector *)
| WAlign (tol : Q) (R C : list (vec3 Q)) (sw : list Q) (sumw : Q) (q : quat Q) (b2a rmsd : Q) (RR : mat3 Q) (TT : vec3 Q).

Definition check_wcase (c : wcase) : bool :=
  match c with
  | WAlign tol R C sw sumw q b2a rmsd RR TT =>
      let o := gen_kabsch_align (fun _ => q) atol_q rtol_q sw R C in
      qm_close tol (k_rot o) RR && qv_close tol (k_shift o) TT
      && qclose tol (rmsd * rmsd * sumw) (k_ssd o * b2a * b2a)
  end.
