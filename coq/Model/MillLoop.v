(** C13 - the statement forms of the atom loop of AlignmentMill.align_vector_gradient (models/align.py) as combinators:
    the (3, 3*nat) result array as its three rows, exception-raising index / slice reads, a slice store, and a
    [for at in range(n)] loop threading the array and stopping at the first exception.  The translator
    harness/translate/millgen.py emits gen_align_vector_gradient over these (Gen/MillGen.v); Proofs/MillGen.v proves
    it equal to the hand-written model.  Definitions only. *)
From Coq Require Import List Arith Bool.
Require Import QV.Common.Outcome QV.Common.AlignAlg QV.Model.Mill QV.Model.MillOps.
Import ListNotations.

Section Loop.
Context {K : Type} {KO : Ops K}.
Local Open Scope K_scope.

Definition rows3 : Type := (list K * list K * list K)%type.
(* one row of np.zeros((3, w)) *)
Definition zeros (w : nat) : list K := repeat 0 w.
(* self.atommap[at] : IndexError past the end (non-negative indices) *)
Definition amap_at (m : mill K) (at' : nat) : outcome nat :=
  match nth_error (amap m) at' with Some p => Ok p | None => Err PyIndexError end.
(* the right-hand side of  Datom[r, :] = v[3*p : 3*p + 3] : a slice running past the end of v has fewer than 3
   entries and the assignment raises ValueError (could not broadcast) *)
Definition slice3o (v : list K) (p : nat) : outcome (vec3 K) :=
  if Nat.leb (3 * p + 3) (length v) then Ok (slice3 v p) else Err PyValueError.
(* row[3*at : 3*at + 3] = v *)
Definition store3 (row : list K) (at' : nat) (v : vec3 K) : list K :=
  let '(a, b, c) := v in firstn (3 * at') row ++ [a; b; c] ++ skipn (3 * at' + 3) row.
(* for at in range(k, k + n): acc = body at acc *)
Fixpoint for_range_from (k n : nat) (body : nat -> rows3 -> outcome rows3) (acc : rows3) : outcome rows3 :=
  match n with
  | O => Ok acc
  | S n' => obind (body k acc) (fun acc' => for_range_from (S k) n' body acc')
  end.
Definition for_range (n : nat) := for_range_from 0 n.
End Loop.
