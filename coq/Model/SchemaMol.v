(** C09 — the index/units core of molparse.to_schema / from_schema (QCSchema dtypes 1 and 2).
    Definitions only.

    to_schema:    fragments = [fr.tolist() for fr in np.split(np.arange(nat), fragment_separators)]
                  geometry  = geom * factor   (factor branch translated in Gen/ToSchemaGen.v)
    from_schema:  contiguize_from_fragment_pattern: vsplt = cumsum(len(fr)); separators = vsplt[:-1];
                  refuses (throw_reorder) unless concatenate(frag_pattern) == arange(nat);
                  the geometry is taken as Bohr. *)
From Coq Require Import Arith List QArith Bool.
Require Import QV.Common.Outcome QV.Gen.ToSchemaGen.
Import ListNotations.
Local Open Scope nat_scope.

(** np.split(np.arange(n), seps): slices [a:b] of arange(n) between consecutive division points
    0 :: seps ++ [n] (Python slice clipping for b > n; separators are non-negative). *)
Fixpoint pieces (a : nat) (seps : list nat) (n : nat) : list (list nat) :=
  match seps with
  | [] => [seq a (Nat.min n n - a)]
  | s :: r => seq a (Nat.min s n - a) :: pieces s r n
  end.
Definition frags_of_seps (n : nat) (seps : list nat) : list (list nat) := pieces 0 seps n.

Fixpoint cumsum_from (a : nat) (l : list nat) : list nat :=
  match l with [] => [] | x :: r => (a + x) :: cumsum_from (a + x) r end.
Definition seps_of_frags (frags : list (list nat)) : list nat :=
  removelast (cumsum_from 0 (map (@List.length nat) frags)).
Definition contiguous (frags : list (list nat)) : Prop :=
  concat frags = seq 0 (List.length (concat frags)).

Fixpoint sorted_from (a : nat) (seps : list nat) (n : nat) : Prop :=
  match seps with [] => a <= n | s :: r => a <= s /\ sorted_from s r n end.
(** separators as from_arrays leaves them: non-decreasing, within 0..nat *)
Definition wf_seps (n : nat) (seps : list nat) : Prop := sorted_from 0 seps n.

Record molcore := { mc_nat : nat; mc_seps : list nat; mc_geom : list Q; mc_units : lunit; mc_iu2au : option Q }.
Record schemacore := { sc_frags : list (list nat); sc_geom : list Q }.

(** to_schema(molrec, dtype in {1,2}, units): [conv] is constants.conversion_factor(molrec units, units) *)
Definition to_schema_core (m : molcore) (units : lunit) (conv : Q) : outcome schemacore :=
  match qcschema_units_guard units with
  | Err k => Err k
  | Ok _ => Ok {| sc_frags := frags_of_seps (mc_nat m) (mc_seps m);
                  sc_geom := map (fun x => (x * geom_factor (mc_units m) units (mc_iu2au m) conv)%Q) (mc_geom m) |}
  end.

Definition from_schema_core (s : schemacore) : molcore :=
  {| mc_nat := List.length (concat (sc_frags s)); mc_seps := seps_of_frags (sc_frags s);
     mc_geom := sc_geom s; mc_units := Bohr; mc_iu2au := None |}.

(** how many Bohr one length unit of the molrec is, as the molrec itself declares it *)
Definition bohr_per_unit (u : lunit) (iu2au : option Q) (conv : Q) : Q :=
  match u with
  | Bohr => 1%Q
  | _ => match iu2au with Some f => f | None => conv end
  end.
