(** C12 — model of qcelemental.molutil.align: kabsch_quaternion (through the generated Gen/Quat.v),
    kabsch_align (weight=None) and the candidate-selection loop of B787, over an arbitrary carrier
    with ring operations, division and comparison.  LAPACK's eigh is a parameter [eigtop] (the last
    column of the eigenvector matrix it returns for F); its specification is a hypothesis of the
    theorems (Proofs/Kabsch.v) and is checked at run time on what LAPACK returned.
    Geometries are lists of points ((n,3) arrays row by row); the (3,N) arrays P = C.T, Q = R.T of
    kabsch_quaternion are the same lists read column by column.  Definitions only. *)
From Coq Require Import List Arith Bool ZArith QArith Qabs.
Require Import QV.Common.Outcome QV.Common.AlignAlg QV.Common.AlignAlgQuat QV.Gen.Quat QV.Model.Mill.
Import ListNotations.

Section Model.
Context {K : Type} {KO : Ops K} {KD : DivOps K}.
Local Open Scope K_scope.

(** cov = Q.dot(P.T):  cov[i][j] = sum_k Q[i,k] * P[j,k] *)
Fixpoint cov_of (Qs Ps : list (vec3 K)) : mat3 K :=
  match Qs, Ps with
  | q :: qr, p :: pr => madd (outer q p) (cov_of qr pr)
  | _, _ => m0
  end.

(** kabsch_quaternion(P, Q): F from cov, q = ev[:, -1] of eigh(F), U from q *)
Definition kabsch_quaternion (eigtop : mat4 K -> quat K) (P Q : list (vec3 K)) : mat3 K :=
  genU (eigtop (genF (cov_of Q P))).

(** X.sum(axis=0) / N *)
Definition vdivs (v : vec3 K) (s : K) : vec3 K := let '(x, y, z) := v in (kdiv x s, kdiv y s, kdiv z s).
Definition centroid (N : nat) (X : list (vec3 K)) : vec3 K := vdivs (vsum X) (kofnat N).

(** np.allclose(R, C): all |r - c| <= atol + rtol * |c| *)
Definition close1 (atol rtol a b : K) : bool := kleb (kabs (a - b)) (atol + rtol * kabs b).
Definition vclose1 (atol rtol : K) (u v : vec3 K) : bool :=
  let '(a, b, c) := u in let '(x, y, z) := v in close1 atol rtol a x && close1 atol rtol b y && close1 atol rtol c z.
Fixpoint allclose (atol rtol : K) (R C : list (vec3 K)) : bool :=
  match R, C with
  | [], [] => true
  | r :: rr, c :: cr => vclose1 atol rtol r c && allclose atol rtol rr cr
  | _, _ => false
  end.

(** X *= np.sqrt(w[:, None]) with sw = np.sqrt(w) *)
Fixpoint scale_rows (sw : list K) (X : list (vec3 K)) : list (vec3 K) :=
  match sw, X with s :: sr, v :: vr => vscale s v :: scale_rows sr vr | _, _ => [] end.

Record kabsch_out := { k_ssd : K;          (* sum of squared residuals: rmsd = sqrt(ssd / N) * bohr2angstroms *)
                       k_rot : mat3 K;     (* RR *)
                       k_shift : vec3 K }. (* TT *)

(** kabsch_align(rgeom, cgeom, weight=None) *)
Definition kabsch_align (eigtop : mat4 K -> quat K) (atol rtol : K) (R C : list (vec3 K)) : kabsch_out :=
  if allclose atol rtol R C then {| k_ssd := 0; k_rot := mid; k_shift := v0 |}
  else
    let N := length R in
    let Rc := centroid N R in
    let Cc := centroid N C in
    let R' := map (fun v => vsub v Rc) R in
    let C' := map (fun v => vsub v Cc) C in
    let RR := kabsch_quaternion eigtop C' R' in        (* kabsch_quaternion(C.T, R.T) *)
    let TT := vsub Cc (mvec RR Rc) in                   (* Ccentroid - RR.dot(Rcentroid) *)
    let C'' := map (fun v => vmat v RR) C' in           (* C.dot(RR) *)
    {| k_ssd := sumsq (lsub R' C''); k_rot := RR; k_shift := TT |}.

(** the recipe B787 builds from a Kabsch result and an ordering, and the residual it then measures:
    tgeom = AlignmentMill(shift=TT, rotation=RR, atommap=ordering).align_coordinates(cgeom) ; |tgeom - rgeom|^2 *)
Definition solution_mill (o : kabsch_out) (ordering : list nat) (mir : bool) : mill K :=
  {| shift := k_shift o; rot := k_rot o; amap := ordering; mirror := mir |}.
Definition applied_ssd (o : kabsch_out) (ordering : list nat) (R C : list (vec3 K)) : outcome K :=
  obind (align_coordinates (solution_mill o ordering false) false C) (fun T => Ok (sumsq (lsub T R))).

(** ---- the selection loop of B787 ---- *)
(* one candidate ordering with the (rounded) RMSD of its plain trial and of its mirror trial *)
Record cand := { c_rmsd : K; c_rmsd_m : K }.
Definition klt (a b : K) : bool := negb (kleb b a).
(* returns (best_rmsd, hold_solution) with hold_solution = Some (index of the ordering, mirror flag) *)
Fixpoint b787_loop (do_mirror run_to_completion : bool) (aconv : K) (cs : list cand) (idx : nat)
         (best : K) (hold : option (nat * bool)) : K * option (nat * bool) :=
  match cs with
  | [] => (best, hold)
  | c :: r =>
    let better := klt (c_rmsd c) best in
    let best1 := if better then c_rmsd c else best in
    let hold1 := if better then Some (idx, false) else hold in
    if better && negb run_to_completion && klt best1 aconv then (best1, hold1)
    else if do_mirror then
      let better_m := klt (c_rmsd_m c) best1 in
      let best2 := if better_m then c_rmsd_m c else best1 in
      let hold2 := if better_m then Some (idx, true) else hold1 in
      if better_m && negb run_to_completion && klt best2 aconv then (best2, hold2)
      else b787_loop do_mirror run_to_completion aconv r (S idx) best2 hold2
    else b787_loop do_mirror run_to_completion aconv r (S idx) best1 hold1
  end.
(* run_mirror and not superimposable ; best_rmsd = 100.0 ; hold_solution = None *)
Definition b787_select (run_mirror superimposable run_to_completion : bool) (aconv hundred : K) (cs : list cand)
  : outcome (K * nat * bool) :=
  match b787_loop (run_mirror && negb superimposable) run_to_completion aconv cs O hundred None with
  | (best, Some (i, mir)) => Ok (best, i, mir)
  | (_, None) => Err PyAttributeError            (* hold_solution is None *)
  end.
End Model.

(** ======== instance at Q and the correspondence checkers ======== *)
#[export] Instance QDiv : DivOps Q :=
  {| kdiv := fun a b => Qred (Qdiv a b); kofnat := fun n => inject_Z (Z.of_nat n); kleb := Qle_bool; kabs := Qabs |}.

Definition qv_close (tol : Q) (u v : vec3 Q) : bool := vclose tol u v.
Definition qm_close (tol : Q) (A B : mat3 Q) : bool :=
  let '(a0, a1, a2) := A in let '(b0, b1, b2) := B in vclose tol a0 b0 && vclose tol a1 b1 && vclose tol a2 b2.
Definition qq_close (tol : Q) (p q : quat Q) : bool :=
  let '(a, b, c, d) := p in let '(w, x, y, z) := q in qclose tol a w && qclose tol b x && qclose tol c y && qclose tol d z.
Definition q4_close (tol : Q) (A B : mat4 Q) : bool :=
  let '(a0, a1, a2, a3) := A in let '(b0, b1, b2, b3) := B in
  qq_close tol a0 b0 && qq_close tol a1 b1 && qq_close tol a2 b2 && qq_close tol a3 b3.

(** executable form of the eigh specification, evaluated on what LAPACK returned:
    |F v_k - w_k v_k|_inf <= tol, |V^T V - I|_inf <= tol, w ascending *)
Definition q4id : mat4 Q := m4id.
Definition eigh_ok (tol : Q) (F : mat4 Q) (w : quat Q) (V : mat4 Q) : bool :=
  let col k := m4col V k in
  let resid k := qq_close tol (m4vec F (col k)) (qscale (qcomp w k) (col k)) in
  let Vt := m4trans V in
  let gram := (m4vec Vt (col 0%nat), m4vec Vt (col 1%nat), m4vec Vt (col 2%nat), m4vec Vt (col 3%nat)) in
  resid 0%nat && resid 1%nat && resid 2%nat && resid 3%nat && q4_close tol gram q4id
  && Qle_bool (qcomp w 0) (qcomp w 1) && Qle_bool (qcomp w 1) (qcomp w 2) && Qle_bool (qcomp w 2) (qcomp w 3).

Inductive kcase :=
(* kabsch_quaternion(P, Q): the F handed to eigh, the (w, V) LAPACK returned, the U returned *)
| KQuat (tol : Q) (P Qs : list (vec3 Q)) (F : mat4 Q) (w : quat Q) (V : mat4 Q) (U : mat3 Q)
(* kabsch_align(R, C): the top eigenvector LAPACK returned, then (rmsd, RR, TT); b2a = bohr2angstroms *)
| KAlign (tol : Q) (R C : list (vec3 Q)) (q : quat Q) (b2a rmsd : Q) (RR : mat3 Q) (TT : vec3 Q)
(* the residual B787 measures after applying the recipe, as rmsd (before rounding) *)
| KApplied (tol : Q) (R C : list (vec3 Q)) (ordering : list nat) (RR : mat3 Q) (TT : vec3 Q) (b2a rmsd : Q)
(* the selection loop *)
| KSelect (run_mirror superimposable rtc : bool) (aconv : Q) (cs : list (Q * Q)) (out : outcome (Q * nat * bool)).

Definition atol_q : Q := 1 # 100000000.
Definition rtol_q : Q := 1 # 100000.

Definition check_kcase (c : kcase) : bool :=
  match c with
  | KQuat tol P Qs F w V U =>
      q4_close tol (genF (cov_of Qs P)) F && eigh_ok tol F w V && qm_close tol (genU (m4col V 3%nat)) U
      && qm_close tol (kabsch_quaternion (fun _ => m4col V 3%nat) P Qs) U
  | KAlign tol R C q b2a rmsd RR TT =>
      let o := kabsch_align (fun _ => q) atol_q rtol_q R C in
      qm_close tol (k_rot o) RR && qv_close tol (k_shift o) TT
      && qclose tol (rmsd * rmsd * inject_Z (Z.of_nat (length R))) (k_ssd o * b2a * b2a)
  | KApplied tol R C ordering RR TT b2a rmsd =>
      match applied_ssd {| k_ssd := 0; k_rot := RR; k_shift := TT |} ordering R C with
      | Ok s => qclose tol (rmsd * rmsd * inject_Z (Z.of_nat (length R))) (s * b2a * b2a)
      | Err _ => false
      end
  | KSelect rm sup rtc aconv cs out =>
      (* same best RMSD and mirror flag; the returned ordering is one that attains it (which of several
         equally good orderings is returned is not part of the property) *)
      let cands := map (fun p => {| c_rmsd := fst p; c_rmsd_m := snd p |}) cs in
      match b787_select rm sup rtc aconv 100 cands, out with
      | Ok (a, _, m), Ok (b, j, m') =>
          Qeq_bool a b && Bool.eqb m m' &&
          match nth_error cs j with
          | Some p => Qeq_bool (if m' then snd p else fst p) b
          | None => false
          end
      | Err e, Err e' => ekind_eqb e e'
      | _, _ => false
      end
  end.
