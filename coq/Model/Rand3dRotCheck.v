(** C12 — correspondence checker for the translated random_rotation_matrix (Gen/Rand3dRot.v): run at K = Q on
    the values of sin/cos/sqrt that numpy produced for the implementation's own theta, phi, z. *)
From Coq Require Import List Arith Bool ZArith QArith Qabs.
Require Import QV.Common.Outcome QV.Common.AlignAlg QV.Common.AlignAlgQuat QV.Gen.Quat QV.Model.Mill QV.Model.Kabsch
               QV.Model.Rand3dRot QV.Gen.Rand3dRot.
Import ListNotations.

Inductive rcase :=
| RCase (tol sp cp r s2 st ct : Q) (M : mat3 Q).

Definition check_rcase (c : rcase) : bool :=
  match c with
  | RCase tol sp cp r s2 st ct M => qm_close tol (gen_rand_rot sp cp r s2 st ct) M
  end.
