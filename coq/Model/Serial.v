(** C10 — executable model of the `_nd_` array extension of qcelemental/util/serialization.py
    (msgpack-ext and json-ext) applied to container trees, and of the automatic encoding / suffix
    choices of basemodels.py and molecule.py (tables in Gen/SuffixMaps.v).

    The json / msgpack wire formats themselves are trusted libraries: a payload is modelled up to the
    point where it is a tree of plain values ([wire]); what the libraries do to that tree on a round
    trip is [normalise] (tuples come back as lists).  No proofs here. *)
From Coq Require Import ZArith List String Bool Ascii.
Require Import QV.Common.Outcome QV.Gen.SuffixMaps QV.Model.Results.
Import ListNotations.
Local Open Scope string_scope.
Local Open Scope list_scope.
Local Open Scope Z_scope.

(** an ndarray as the encoders see it: dtype.str, shape, C-order bytes (one Coq character per byte) *)
Record ndarray := { dt : string; shape : list Z; data : string }.

Inductive value :=
| VNone
| VBool (b : bool)
| VInt (z : Z)
| VFloat (bits : N)               (* the 64 bits of the double *)
| VStr (s : string)
| VBytes (s : string)
| VList (l : list value)
| VTuple (l : list value)
| VDict (d : list (key * value))
| VArr (a : ndarray).

Definition key_eqb (a b : key) : bool :=
  match a, b with
  | KStr x, KStr y => String.eqb x y
  | KBytes x, KBytes y => String.eqb x y
  | _, _ => false
  end.

Fixpoint kget (k : key) (d : list (key * value)) : option value :=
  match d with
  | [] => None
  | (k', v) :: r => if key_eqb k k' then Some v else kget k r
  end.

(** numpy itemsize of a dtype.str such as "<f8", "|b1", ">c16", "<U3", "|S5" *)
Fixpoint digits (s : string) (acc : Z) : option Z :=
  match s with
  | EmptyString => Some acc
  | String c r => let n := Z.of_nat (nat_of_ascii c) in
                  if (48 <=? n) && (n <=? 57) then digits r (10 * acc + (n - 48)) else None
  end.
Definition itemsize (d : string) : option Z :=
  match d with
  | String _ (String k (String c r)) =>
    match digits (String c r) 0 with
    | Some n => Some (if Ascii.eqb k "U"%char then 4 * n else n)
    | None => None
    end
  | _ => None
  end.

(** bytes.hex() / bytes.fromhex() on what hex() produces *)
Definition hexdigit (n : N) : ascii :=
  ascii_of_N (if (n <? 10)%N then 48 + n else 87 + n)%N.
Fixpoint hex (b : string) : string :=
  match b with
  | EmptyString => EmptyString
  | String c r => let n := N_of_ascii c in String (hexdigit (n / 16)) (String (hexdigit (n mod 16)) (hex r))
  end.
Definition unhexdigit (c : ascii) : option N :=
  let n := N_of_ascii c in
  if ((48 <=? n) && (n <=? 57))%N then Some (n - 48)%N
  else if ((97 <=? n) && (n <=? 102))%N then Some (n - 87)%N
  else if ((65 <=? n) && (n <=? 70))%N then Some (n - 55)%N
  else None.
Fixpoint unhex (s : string) : option string :=
  match s with
  | EmptyString => Some EmptyString
  | String a (String b r) =>
    match unhexdigit a, unhexdigit b, unhex r with
    | Some x, Some y, Some t => Some (String (ascii_of_N (16 * x + y)) t)
    | _, _, _ => None
    end
  | _ => None
  end.

(** sequencing a fallible function over a list (first error wins) *)
Section OMap.
  Context {A B : Type}.
  Variable f : A -> outcome B.
  Fixpoint omap (l : list A) : outcome (list B) :=
    match l with
    | [] => Ok []
    | x :: r => obind (f x) (fun x' => obind (omap r) (fun r' => Ok (x' :: r')))
    end.
End OMap.

(** the two extension codecs *)
Record extcodec := {
  k_nd : key; k_dtype : key; k_data : key; k_shape : key;
  rank_gt : Z;                                  (* `shape` is written iff rank > rank_gt *)
  enc_data : string -> value;
  dec_data : value -> option string
}.
Definition mp_codec : extcodec :=
  let '(a, b, c, d) := mp_keys in
  {| k_nd := a; k_dtype := b; k_data := c; k_shape := d; rank_gt := mp_shape_rank_gt;
     enc_data := VBytes; dec_data := fun v => match v with VBytes b => Some b | _ => None end |}.
Definition js_codec : extcodec :=
  let '(a, b, c, d) := js_keys in
  {| k_nd := a; k_dtype := b; k_data := c; k_shape := d; rank_gt := js_shape_rank_gt;
     enc_data := fun b => VStr (hex b);
     dec_data := fun v => match v with VStr s => unhex s | _ => None end |}.

Section Ext.
  Variable c : extcodec.
  (** `obj.tolist()` of a 0-d array: numpy's scalar conversion is not modelled *)
  Variable scalar_of : ndarray -> value.

  (** msgpackext_encode / JSONExtArrayEncoder.default on an ndarray *)
  Definition enc_arr (a : ndarray) : value :=
    match shape a with
    | [] => scalar_of a
    | _ => VDict ([(k_nd c, VBool true); (k_dtype c, VStr (dt a)); (k_data c, enc_data c (data a))]
                  ++ (if rank_gt c <? zlen (shape a) then [(k_shape c, VTuple (map VInt (shape a)))] else []))
    end.

  (** what `default=` does to a payload: every ndarray leaf is replaced *)
  Fixpoint enc_tree (v : value) : value :=
    match v with
    | VList l => VList (map enc_tree l)
    | VTuple l => VTuple (map enc_tree l)
    | VDict d => VDict (map (fun kv => (fst kv, enc_tree (snd kv))) d)
    | VArr a => enc_arr a
    | _ => v
    end.

  (** what the wire does to a plain tree on a round trip *)
  Fixpoint normalise (v : value) : value :=
    match v with
    | VList l => VList (map normalise l)
    | VTuple l => VList (map normalise l)
    | VDict d => VDict (map (fun kv => (fst kv, normalise (snd kv))) d)
    | _ => v
    end.

  Fixpoint ints (l : list value) : option (list Z) :=
    match l with
    | [] => Some []
    | VInt z :: r => match ints r with Some t => Some (z :: t) | None => None end
    | _ => None
    end.

  (** msgpackext_decode / jsonext_decode: the object_hook, called on every decoded dict *)
  Definition dec_hook (d : list (key * value)) : outcome value :=
    match kget (k_nd c) d with
    | None => Ok (VDict d)
    | Some _ =>
      match kget (k_data c) d, kget (k_dtype c) d with
      | Some dv, Some (VStr dts) =>
        match dec_data c dv, itemsize dts with
        | Some bytes, Some isz =>
          (* np.frombuffer *)
          let len := Z.of_nat (String.length bytes) in
          if isz <=? 0 then Err PyValueError
          else if negb (len mod isz =? 0) then Err PyValueError
          else
            let n := len / isz in
            match kget (k_shape c) d with
            | None => Ok (VArr {| dt := dts; shape := [n]; data := bytes |})
            | Some (VList sh) =>
              match ints sh with
              | Some dims =>                        (* arr.shape = obj["shape"] *)
                match reshape_dims n dims with
                | Ok s => Ok (VArr {| dt := dts; shape := s; data := bytes |})
                | Err k => Err k
                end
              | None => Err PyTypeError
              end
            | Some _ => Err PyTypeError
            end
        | _, _ => Err PyTypeError
        end
      | _, _ => Err PyKeyError
      end
    end.

  (** the loader calls the hook bottom-up on every dict *)
  Fixpoint dec_tree (v : value) : outcome value :=
    match v with
    | VList l => obind (omap dec_tree l) (fun l' => Ok (VList l'))
    | VTuple l => obind (omap dec_tree l) (fun l' => Ok (VTuple l'))
    | VDict d => obind (omap (fun kv => obind (dec_tree (snd kv)) (fun x => Ok (fst kv, x))) d) dec_hook
    | _ => Ok v
    end.

  (** serialize then deserialize, as far as the extension is concerned *)
  Definition wire (v : value) : value := normalise (enc_tree v).
  Definition roundtrip (v : value) : outcome value := dec_tree (wire v).
End Ext.

(** well-formed array of rank >= 1: the bytes are exactly itemsize * prod(shape) *)
Definition wf_arrb (a : ndarray) : bool :=
  match itemsize (dt a) with
  | Some isz => (0 <? isz) && (Z.of_nat (String.length (data a)) =? isz * prodz (shape a))
                && forallb (fun d => 0 <=? d) (shape a) && negb (match shape a with [] => true | _ => false end)
  | None => false
  end.


(** * comparison helpers and the correspondence check *)
Definition nd_eqb (a b : ndarray) : bool :=
  String.eqb (dt a) (dt b) && list_eqb Z.eqb (shape a) (shape b) && String.eqb (data a) (data b).

Fixpoint value_eqb (x y : value) : bool :=
  match x, y with
  | VNone, VNone => true
  | VBool a, VBool b => Bool.eqb a b
  | VInt a, VInt b => Z.eqb a b
  | VFloat a, VFloat b => N.eqb a b
  | VStr a, VStr b => String.eqb a b
  | VBytes a, VBytes b => String.eqb a b
  | VList a, VList b | VTuple a, VTuple b =>
    (fix go (a b : list value) : bool :=
       match a, b with
       | [], [] => true
       | x :: a', y :: b' => value_eqb x y && go a' b'
       | _, _ => false
       end) a b
  | VDict a, VDict b =>
    (fix go (a b : list (key * value)) : bool :=
       match a, b with
       | [], [] => true
       | (k, x) :: a', (k', y) :: b' => key_eqb k k' && value_eqb x y && go a' b'
       | _, _ => false
       end) a b
  | VArr a, VArr b => nd_eqb a b
  | _, _ => false
  end.

(** rank-0 arrays are outside the modelled domain of the correspondence cases *)
Definition no_scalar (a : ndarray) : value := VNone.

(** a case: codec (true = msgpack-ext, false = json-ext), payload, the plain tree the implementation put
    on the wire (its blob read back WITHOUT the object hook), what the implementation's loader returned *)
Definition check_case (cse : bool * value * value * outcome value) : bool :=
  let '(mp, v, w, r) := cse in
  let c := if mp then mp_codec else js_codec in
  value_eqb (wire c no_scalar v) w && outcome_eqb value_eqb (dec_tree c w) r.

(** * automatic choices *)
Definition writer_output (w : writer) : blobtype :=
  match w with WJson | WJsonExt => TStr | WMsgpack | WMsgpackExt => TBytes end.
(** a reader reads what a writer wrote: same wire family; arrays written as `_nd_` dictionaries are
    only restored by a reader that installs the hook *)
Definition reads (r : reader) (w : writer) : bool :=
  match r, w with
  | RPlainJson, WJson => true
  | RJsonHook, WJson | RJsonHook, WJsonExt => true
  | RMsgpackHook, WMsgpack | RMsgpackHook, WMsgpackExt => true
  | _, _ => false
  end.
Definition blobtype_eqb (a b : blobtype) : bool := match a, b with TStr, TStr | TBytes, TBytes => true | _, _ => false end.

Fixpoint ends_with_any (sufs : list string) (s : string) : bool :=
  match sufs with [] => false | x :: r => ends_with x s || ends_with_any r s end.

(** ProtoModel.parse_raw: the reader and the blob types it takes for an (explicit or inferred) encoding *)
Definition parse_raw_reader (enc : string) : option (reader * list blobtype) :=
  if ends_with_any parse_raw_pydantic_suffixes enc then
    (if String.eqb enc "json" then Some (RPlainJson, [TStr; TBytes]) else None)     (* javascript / pickle: not modelled *)
  else if smem enc parse_raw_via_deserialize then assoc String.eqb enc deserialize_table
  else None.

Definition parse_raw_auto_ok (t : blobtype) : bool :=
  match assoc blobtype_eqb t parse_raw_auto with
  | None => false
  | Some enc =>
    match assoc String.eqb enc serialize_table, parse_raw_reader enc with
    | Some w, Some (r, types) =>
      blobtype_eqb (writer_output w) t && reads r w && existsb (blobtype_eqb t) types
    | _, _ => false
    end
  end.

(** parse_file reads bytes and hands them to parse_raw with the encoding of the suffix *)
Definition parse_file_ok (suffix : string) : bool :=
  match assoc String.eqb suffix parse_file_suffix with
  | None => false
  | Some enc =>
    match assoc String.eqb enc serialize_table, parse_raw_reader enc with
    | Some w, Some (r, types) => reads r w && existsb (blobtype_eqb TBytes) types
    | _, _ => String.eqb enc "pickle"
    end
  end.

(** Molecule.to_file(suffix) then Molecule.from_file(suffix) for the serialised dtypes *)
Definition molecule_file_ok (suffix : string) : bool :=
  match assoc String.eqb suffix molecule_extension_map with
  | None => false
  | Some dtype =>
    if smem dtype molecule_to_file_serialized then
      match assoc String.eqb dtype serialize_table, assoc String.eqb dtype molecule_from_file with
      | Some w, Some (enc, opened) =>
        match assoc String.eqb enc deserialize_table with
        | Some (r, types) =>
          reads r w
          && blobtype_eqb opened (writer_output w)                                  (* file mode of the reader *)
          && blobtype_eqb (if prefix molecule_to_file_binary_prefix dtype then TBytes else TStr) (writer_output w)
          && existsb (blobtype_eqb opened) types
        | None => false
        end
      | _, _ => false
      end
    else true                                       (* text / numpy formats: other properties *)
  end.

(** Molecule.to_file(suffix) then ProtoModel.parse_file(suffix), for the suffixes both tables know *)
Definition cross_file_ok (suffix : string) : bool :=
  match assoc String.eqb suffix molecule_extension_map, assoc String.eqb suffix parse_file_suffix with
  | Some dtype, Some enc =>
    if smem dtype molecule_to_file_serialized then
      match assoc String.eqb dtype serialize_table, parse_raw_reader enc with
      | Some w, Some (r, types) => reads r w && existsb (blobtype_eqb TBytes) types
      | _, _ => false
      end
    else true
  | _, _ => true
  end.
