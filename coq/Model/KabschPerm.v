(** C12 — model of qcelemental.molutil.align._plausible_atom_orderings(algorithm="permutative"):
    the partition of atoms by their `uniq` label (dict insertion order), itertools.permutations of each
    class of the concern molecule, the distance filter np.allclose(bnbn, cncn, atol=1.0) on consecutive
    distances, itertools.product over the classes, and the assembly of the full ordering.
    Labels are numbers (the harness numbers the distinct strings); the two distance matrices
    (qcelemental.util.distance_matrix, which needs sqrt) are parameters [rr], [cc]: the correspondence
    passes the implementation's own matrices, the theorems state what they need of them.
    Definitions only. *)
From Coq Require Import List Arith Bool ZArith QArith Qabs.
Require Import QV.Common.Outcome QV.Common.AlignAlg QV.Common.AlignAlgQuat QV.Model.Mill QV.Model.Kabsch.
Import ListNotations.

(** where = defaultdict(list); for iuq, uq in enumerate(ref): where[uq].append(iuq)
    — a dict in insertion order: the distinct labels in order of first occurrence, each with the
    increasing list of the positions that carry it *)
Fixpoint dedup (l : list nat) : list nat :=
  match l with
  | [] => []
  | x :: r => x :: filter (fun y => negb (Nat.eqb y x)) (dedup r)
  end.
Definition indices_of (k : nat) (lab : list nat) : list nat :=
  filter (fun i => Nat.eqb (nth i lab O) k) (seq 0 (length lab)).

(** sorted(ref) != sorted(current): multiset comparison of the labels *)
Fixpoint count_nat (k : nat) (l : list nat) : nat :=
  match l with [] => O | x :: r => (if Nat.eqb k x then 1 else 0) + count_nat k r end.
Definition same_multiset (a b : list nat) : bool :=
  Nat.eqb (length a) (length b) && forallb (fun k => Nat.eqb (count_nat k a) (count_nat k b)) a.

(** connect[tuple(where[k])] = tuple(cwhere[k]) for k in where *)
Definition connect (ref cur : list nat) : list (list nat * list nat) :=
  map (fun k => (indices_of k ref, indices_of k cur)) (dedup ref).

(** itertools.permutations(l): lexicographic in positions *)
Fixpoint remove_at {A} (i : nat) (l : list A) : list A :=
  match l, i with
  | [], _ => []
  | _ :: r, O => r
  | x :: r, S j => x :: remove_at j r
  end.
Fixpoint perms_fuel (fuel : nat) (l : list nat) : list (list nat) :=
  match fuel with
  | O => [[]]
  | S f =>
      match l with
      | [] => [[]]
      | _ => flat_map (fun i => map (cons (nth i l O)) (perms_fuel f (remove_at i l))) (seq 0 (length l))
      end
  end.
Definition perms (l : list nat) : list (list nat) := perms_fuel (length l) l.

(** itertools.product over the lists: leftmost slowest *)
Fixpoint cart {A} (ls : list (list A)) : list (list A) :=
  match ls with
  | [] => [[]]
  | l :: r => flat_map (fun x => map (cons x) (cart r)) l
  end.

Definition pairs {A} (l : list A) : list (A * A) := combine l (tl l).      (* zip(l, l[1:]) *)

Section Filter.
Context {K : Type} {KO : Ops K} {KD : DivOps K}.
Variables rr cc : nat -> nat -> K.          (* rrdistmat[i, j], ccdistmat[i, j] *)
Variables atol rtol : K.                    (* 1.0, 1e-5 *)

(* np.allclose(b, c, atol=1.0) on two 1-d lists of equal length *)
Fixpoint allclose1 (b c : list K) : bool :=
  match b, c with
  | [], [] => true
  | x :: br, y :: cr => kleb (kabs (ksub x y)) (kadd atol (kmul rtol (kabs y))) && allclose1 br cr
  | _, _ => false
  end.

Definition filter_permutative (rgp cgp : list nat) : list (list nat) :=
  let bnbn := map (fun p => rr (fst p) (snd p)) (pairs rgp) in
  filter (fun pm => allclose1 bnbn (map (fun p => cc (fst p) (snd p)) (pairs pm))) (perms cgp).

(* atpat[idx] = group[iidx] for idx = keys[igp][iidx] *)
Fixpoint alookup (i : nat) (a : list (nat * nat)) : nat :=
  match a with
  | [] => O
  | (k, v) :: r => if Nat.eqb i k then v else alookup i r
  end.
Definition assemble (n : nat) (keys : list (list nat)) (cpmut : list (list nat)) : list nat :=
  let assoc := concat (map (fun kg : list nat * list nat => combine (fst kg) (snd kg)) (combine keys cpmut)) in
  map (fun i => alookup i assoc) (seq 0 n).

Definition plausible_orderings (ref cur : list nat) : outcome (list (list nat)) :=
  if negb (same_multiset ref cur) then Err Validation
  else
    let con := connect ref cur in
    let cands := map (fun rc : list nat * list nat => filter_permutative (fst rc) (snd rc)) con in
    Ok (map (assemble (length ref) (map fst con)) (cart cands)).
End Filter.

(** ---- correspondence checker (K = Q) ---- *)
Definition mat_fun (n : nat) (flat : list Q) : nat -> nat -> Q := fun i j => nth (i * n + j) flat 0%Q.

Inductive pcase :=
| PCase (ref cur : list nat) (rrflat ccflat : list Q) (out : outcome (list (list nat))).

Definition check_pcase (c : pcase) : bool :=
  match c with
  | PCase ref cur rrf ccf out =>
      let n := length ref in
      outcome_eqb (fun a b => if list_eq_dec (list_eq_dec Nat.eq_dec) a b then true else false)
                  (plausible_orderings (mat_fun n rrf) (mat_fun n ccf) 1%Q (1 # 100000)%Q ref cur) out
  end.
