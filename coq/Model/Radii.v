(** Model of qcelemental/covalent_radii.py (CovalentRadii) and vanderwaals_radii.py (VanderWaalsRadii):
    table construction in __init__ (Datum per row, generic-element aliases), [get] (label-or-element
    resolution through the periodic table's to_E, missing handling, unit conversion, Datum form).
    The unit factor is an input: [factor u] stands for constants.conversion_factor(u, units) as reported
    by the implementation (exact rational value of the float).  Definitions only. *)
From Coq Require Import ZArith NArith QArith Qabs List String Ascii Bool.
Require Import QV.Common.Outcome QV.Common.PyAscii.
Require Import QV.Gen.PTable QV.Gen.Radii QV.Model.PeriodicTable.
Import ListNotations.
Open Scope Z_scope.

(** the fields of a Datum that the radii tables set: label, units, data = Decimal(string), comment *)
Record entry := { en_label : string; en_units : string; en_data : option (Z * Z); en_comment : string }.

(** OrderedDict built by successive assignment: a later assignment to the same key wins *)
Fixpoint alist_get {V} (k : string) (l : list (string * V)) (acc : option V) : option V :=
  match l with
  | [] => acc
  | (k', v) :: r => alist_get k r (if String.eqb k k' then Some v else acc)
  end.

Definition rows_entries (units : string) (rows : list (string * string * string)) : list (string * entry) :=
  map (fun r => let '(l, v, c) := r in
                (l, {| en_label := l; en_units := units; en_data := dec_of_string v; en_comment := c |})) rows.

(** covalent_radii.py:42-71 *)
Definition cov_base : list (string * entry) := rows_entries cov_units cov_rows.
Definition cov_alias_entries : list (string * entry) :=
  map (fun a => let '(ident, u, src, c) := a in
                (capitalize ident,
                 {| en_label := ident; en_units := u;
                    en_data := match alist_get src cov_base None with Some e => en_data e | None => None end;
                    en_comment := c |})) cov_aliases.
Definition cov_table : list (string * entry) := cov_base ++ cov_alias_entries.

(** vanderwaals_radii.py:41-57 (no comment is passed: Datum's default "") *)
Definition vdw_table : list (string * entry) :=
  rows_entries vdw_units (map (fun r => (fst r, snd r, EmptyString)) vdw_rows).

Definition tbl_get (t : list (string * entry)) (k : string) : option entry := alist_get k t None.
Definition tbl_mem (t : list (string * entry)) (k : string) : bool :=
  match tbl_get t k with Some _ => true | None => false end.

(** `if atom in self.cr.keys(): identifier = atom  else: identifier = periodictable.to_E(atom)`
    (an int is never equal to a str key) *)
Definition ident (t : list (string * entry)) (x : pyval) : outcome string :=
  match x with
  | PStr s => if tbl_mem t s then Ok s else to_E x false
  | PInt _ => to_E x false
  end.

(** exact value of a decimal *)
Definition dec_Q (d : Z * Z) : Q :=
  match snd d with
  | Zneg p => Qmake (fst d) (Pos.pow 10 p)
  | e => inject_Z (fst d * 10 ^ e)
  end.

(** what [get] returns: the Datum, the caller's fallback (of any type M, untouched), or a number *)
Inductive result (M : Type) :=
| RDatum (e : entry)
| RMissing (m : M)
| RValue (v : Q).
Arguments RDatum {M} e.
Arguments RMissing {M} m.
Arguments RValue {M} v.

(** get (covalent_radii.py:119-141, vanderwaals_radii.py:105-125); Datum.to_units (datum.py:96-106):
    factor * float(data) — here in exact arithmetic *)
Definition get {M} (t : list (string * entry)) (x : pyval) (missing : option M) (return_tuple : bool)
           (factor : string -> Q) : outcome (result M) :=
  obind (ident t x) (fun id =>
    match tbl_get t id with
    | None => match missing, return_tuple with
              | Some m, false => Ok (RMissing m)
              | _, _ => Err DataUnavailable
              end
    | Some e => if return_tuple then Ok (RDatum e)
                else match en_data e with
                     | Some d => Ok (RValue (factor (en_units e) * dec_Q d)%Q)
                     | None => Err PyValueError
                     end
    end).

(** the plain number: get(atom, units=...) with missing=None, return_tuple=False *)
Definition radius_value (t : list (string * entry)) (x : pyval) (factor : string -> Q) : outcome Q :=
  match get (M := unit) t x None false factor with
  | Ok (RValue v) => Ok v
  | Ok _ => Err PyAssertion
  | Err k => Err k
  end.

(* ------------------------------------------------------------------------------------------ *)
(** * specification helpers *)
Definition dec_le (a b : Z * Z) : bool :=
  let m := Z.min (snd a) (snd b) in
  Z.leb (fst a * 10 ^ (snd a - m)) (fst b * 10 ^ (snd b - m)).

(* ------------------------------------------------------------------------------------------ *)
(** * correspondence *)
Definition opt_pair_eqb (a b : option (Z * Z)) : bool :=
  match a, b with Some x, Some y => pair_eqb x y | None, None => true | _, _ => false end.
Definition entry_eqb (a b : entry) : bool :=
  String.eqb (en_label a) (en_label b) && String.eqb (en_units a) (en_units b) &&
  opt_pair_eqb (en_data a) (en_data b) && String.eqb (en_comment a) (en_comment b).

(** what the implementation answered *)
Inductive rexp :=
| EDatum (label units : string) (data : Z * Z) (comment : string)
| EMissing                      (* returned the very object passed as `missing` *)
| EValue (v : Q)                (* exact value of the float returned *)
| EErr (k : ekind).

(** relative tolerance for factor * float(data): two roundings to nearest (float(data), the product) *)
Definition tol : Q := 1 # (2 ^ 51).

Definition close (impl model : Q) : bool :=
  Qle_bool (Qabs (impl - model)) (tol * Qabs model).

(** case: table (true = covalent), atom, missing given?, return_tuple, factor reported, expected *)
Definition check_get (c : bool * pyval * bool * bool * Q * rexp) : bool :=
  let '(cov, x, has_missing, rt, f, want) := c in
  let t := if cov then cov_table else vdw_table in
  match get t x (if has_missing then Some tt else None) rt (fun _ => f), want with
  | Ok (RDatum e), EDatum l u d cm =>
      entry_eqb e {| en_label := l; en_units := u; en_data := Some d; en_comment := cm |}
  | Ok (RMissing _), EMissing => true
  | Ok (RValue v), EValue w => close w v
  | Err k, EErr k' => ekind_eqb k k'
  | _, _ => false
  end.

(** the constructed tables themselves: (covalent?, key, label, units, data, comment) as found in .cr / .vdwr *)
Definition check_entry (c : bool * string * string * string * (Z * Z) * string) : bool :=
  let '(cov, k, l, u, d, cm) := c in
  match tbl_get (if cov then cov_table else vdw_table) k with
  | Some e => entry_eqb e {| en_label := l; en_units := u; en_data := Some d; en_comment := cm |}
  | None => false
  end.
Definition table_keys (cov : bool) : list string := map fst (if cov then cov_table else vdw_table).

(** the key sets of the constructed dictionaries: (covalent?, list(self.cr.keys())) *)
Definition check_keys (c : bool * list string) : bool :=
  let ks := table_keys (fst c) in
  forallb (fun k => str_mem k ks) (snd c) && forallb (fun k => str_mem k (snd c)) ks.

(** Datum.to_units on a scalar payload: (factor reported, payload, result) as exact rationals *)
Definition datum_to_units (factor data : Q) : Q := factor * data.
Definition check_to_units (c : Q * Q * Q) : bool :=
  let '(f, d, r) := c in close r (datum_to_units f d).
