(** C11 — model of the molecular hash: qcelemental/models/molecule.py float_prep / get_hash / __eq__ and the
    default-filling getters, and of the bond canonicalisation in molparse/from_arrays.py.
    Hand-written, in the code's order; the rounding constants, the hash_fields list, the field -> float_prep
    mapping, the zero-flush threshold and the bond sort key come from Gen/HashConsts.v (regenerated from /repo on
    every run).  Numbers are exact rationals (every binary64 value is one); numpy.around and Python round are
    modelled as exact round-half-even of that value (see the level note for the near-tie caveat).
    SHA-1 is not modelled: [mol_hash] is parametrised by it. *)
From Coq Require Import ZArith QArith List String Ascii Bool.
Require Import QV.Common.Outcome QV.Common.HFRound QV.Common.HFBin64 QV.Common.HFSort QV.Common.HFHash QV.Gen.HashConsts.
Import ListNotations.
Open Scope Z_scope.

(** a binary64 value: a rational or the negative zero *)
Inductive fl := FNegZero | FQ (q : Q).
(** the result of rounding to n decimals: k·10^-n or the negative zero *)
Inductive rv := RNegZero | RK (k : Z).

(* np.around(x, n) / round(x, n): the sign of a zero result is the sign of the argument *)
Definition around (n : Z) (x : fl) : rv :=
  match x with
  | FNegZero => RNegZero
  | FQ q => let k := round_n n q in if (k =? 0) && (Qnum q <? 0) then RNegZero else RK k
  end.

(* np.abs(array) < flush_num * flush_base ** (-(n + 1)), on an entry k·10^-n *)
Definition below_flush (n k : Z) : bool := Z.abs k * flush_base ^ (n + 1) <? flush_num * 10 ^ n.

(* float_prep, list / ndarray branch (one entry); the result is the integer k of the stored value k·10^-n;
   a flushed entry is +0.0 *)
Definition prep_arr (n : Z) (x : fl) : Z :=
  match around n x with
  | RNegZero => 0
  | RK k => if below_flush n k then 0 else k
  end.

(* the same with numpy's actual algorithm on binary64: rint(fl(x * 10^n)) / 10^n (Common/HFBin64.v); it differs from
   [prep_arr] only when the rounded product fl(x * 10^n) is a half-integer that the exact product is not *)
Definition prep_arr64 (n : Z) (x : fl) : Z :=
  match x with
  | FNegZero => 0
  | FQ q => let k := around64 n q in if below_flush n k then 0 else k
  end.

(* float_prep, float / int branch: round, then -0.0 -> 0.0 *)
Definition prep_scalar (n : Z) (x : fl) : Z :=
  match around n x with
  | RNegZero => 0
  | RK k => k
  end.

(** the value a prepared number denotes, to feed it to float_prep again (geometry is prepared at construction
    and again when hashing) *)
Definition of_units (n k : Z) : fl := FQ (Qmake k (Z.to_pos (10 ^ n))).

(** ---- rendering ---- *)
Definition raw_token (x : fl) : token := match x with FNegZero => TNegZero | FQ q => TRaw (Qred q) end.
Definition ftok (no : option Z) (x : fl) : token :=
  match no with Some n => TFlt (prep_arr n x) n | None => raw_token x end.

Definition digit (d : Z) : ascii := ascii_of_N (48 + Z.to_N d).
Fixpoint fixed_digits (n : nat) (v : Z) : list ascii :=      (* the n low decimal digits of v, high first *)
  match n with
  | O => []
  | S m => digit (v / 10 ^ Z.of_nat m) :: fixed_digits m (v mod 10 ^ Z.of_nat m)
  end.
Fixpoint drop_zeros (l : list ascii) : list ascii :=
  match l with
  | c :: r => if Ascii.eqb c "0"%char then drop_zeros r else l
  | [] => []
  end.
Definition strip_trailing_zeros (l : list ascii) : list ascii :=
  match rev (drop_zeros (rev l)) with [] => ["0"%char] | s => s end.
(* repr of the double k·10^-n, 0 <= n <= 4 (positional notation) *)
Definition repr_dec (k n : Z) : list ascii :=
  (if k <? 0 then ["-"%char] else []) ++ digits (Z.abs k / 10 ^ n) ++ ["."%char]
  ++ strip_trailing_zeros (fixed_digits (Z.to_nat n) (Z.abs k mod 10 ^ n)).

Definition scalar_tokens (no : option Z) (x : fl) : list token :=
  match no with
  | Some n => map TChar (repr_dec (prep_scalar n x) n)
  | None => [raw_token x]
  end.

Definition bond := (Z * Z * Q)%type.
Definition bond_tokens (b : bond) : list token :=
  let '(a1, a2, o) := b in jlist (fun t : token => [t]) [TInt a1; TInt a2; TRaw (Qred o)].

(** ---- the molecule as stored (the part of Molecule.__dict__ that the getters read) ---- *)
Record mol := {
  symbols : list string;
  masses_ : option (list fl);
  mcharge : fl;
  mmult : Z;
  real_ : option (list bool);
  geometry : list fl;                          (* flat, 3 per atom: x.ravel().tolist() *)
  fragments_ : option (list (list Z));
  fcharges_ : option (list fl);
  fmults_ : option (list Z);
  connectivity_ : option (list bond);
  others : list string                          (* name, comment, identifiers, provenance, extras, labels, ... *)
}.

Fixpoint zrange (lo : Z) (n : nat) : list Z := match n with O => [] | S k => lo :: zrange (lo + 1) k end.

Section Getters.
  Variable to_mass : string -> fl.               (* periodictable.to_mass: the environment (see C01) *)

  Definition masses (m : mol) : list fl :=
    match masses_ m with Some l => l | None => map to_mass (symbols m) end.
  Definition real (m : mol) : list bool :=
    match real_ m with Some l => l | None => map (fun _ => true) (symbols m) end.
  Definition fragments (m : mol) : list (list Z) :=
    match fragments_ m with Some l => l | None => [zrange 0 (List.length (symbols m))] end.
  Definition fcharges (m : mol) : list fl :=
    match fcharges_ m with Some l => l | None => [mcharge m] end.
  Definition fmults (m : mol) : list Z :=
    match fmults_ m with Some l => l | None => [mmult m] end.

  (* one iteration of the loop in get_hash *)
  Definition render (f : hfield) (m : mol) : list token :=
    match f with
    | HSymbols => jlist (fun s => [TStr s]) (symbols m)
    | HMasses => jlist (fun x => [ftok (noise_of HMasses) x]) (masses m)
    | HCharge => scalar_tokens (noise_of HCharge) (mcharge m)
    | HMult => map TChar (digits (mmult m))
    | HReal => jlist (fun b => [TBool b]) (real m)
    | HGeometry => jlist (fun x => [ftok (noise_of HGeometry) x]) (geometry m)
    | HFragments => jlist (jlist (fun z => [TInt z])) (fragments m)
    | HFragCharges => jlist (fun x => [ftok (noise_of HFragCharges) x]) (fcharges m)
    | HFragMults => jlist (fun z => [TInt z]) (fmults m)
    | HConnectivity => match connectivity_ m with None => [TNull] | Some l => jlist bond_tokens l end
    end.

  (* concat: the text fed to SHA-1 *)
  Definition canon (m : mol) : list token := flat_map (fun f => render f m) hash_fields.

  (** the molecule with every defaulted field written out *)
  Definition explicit (m : mol) : mol :=
    {| symbols := symbols m; masses_ := Some (masses m); mcharge := mcharge m; mmult := mmult m;
       real_ := Some (real m); geometry := geometry m; fragments_ := Some (fragments m);
       fcharges_ := Some (fcharges m); fmults_ := Some (fmults m); connectivity_ := connectivity_ m;
       others := others m |}.

  Definition bonds_repr (m : mol) : option (list bond) :=
    option_map (map (fun b : bond => let '(a1, a2, o) := b in (a1, a2, Qred o))) (connectivity_ m).

  (** "agree after the rounding" on the listed fields *)
  Definition agree (m m' : mol) : Prop :=
    symbols m = symbols m'
    /\ map (prep_arr mass_noise) (masses m) = map (prep_arr mass_noise) (masses m')
    /\ prep_scalar charge_noise (mcharge m) = prep_scalar charge_noise (mcharge m')
    /\ mmult m = mmult m'
    /\ real m = real m'
    /\ map (prep_arr geometry_noise) (geometry m) = map (prep_arr geometry_noise) (geometry m')
    /\ fragments m = fragments m'
    /\ map (prep_arr charge_noise) (fcharges m) = map (prep_arr charge_noise) (fcharges m')
    /\ fmults m = fmults m'
    /\ bonds_repr m = bonds_repr m'.

  Definition zsum (l : list Z) : Z := fold_right Z.add 0 l.
  (** the total charge is the sum of the fragment charges (in units of 10^-charge_noise, after preparation).
      Holds for every validated molecule with integer charges; it is what makes the boundary between the two
      bare scalars  molecular_charge || molecular_multiplicity  readable. *)
  Definition wf (m : mol) : Prop :=
    prep_scalar charge_noise (mcharge m) = zsum (map (prep_arr charge_noise) (fcharges m)).
  Definition wfb (m : mol) : bool :=
    prep_scalar charge_noise (mcharge m) =? zsum (map (prep_arr charge_noise) (fcharges m)).

  Section Sha1.
    Context {D : Type}.
    Variable sha1 : list token -> D.
    Definition mol_hash (m : mol) : D := sha1 (canon m).            (* get_hash *)
    Definition mol_eq (m m' : mol) : Prop := mol_hash m = mol_hash m'.   (* __eq__ *)
  End Sha1.
End Getters.

(** ---- bond canonicalisation in from_arrays.validate_and_fill_units ---- *)
Definition norm_bond (b : bond) : bond :=
  let '(a1, a2, o) := b in (Z.min a1 a2, Z.max a1 a2, Qred o).
Definition bond_leb_whole (x y : bond) : bool :=            (* tuple comparison *)
  let '(a1, a2, o) := x in let '(b1, b2, p) := y in
  if a1 <? b1 then true else if b1 <? a1 then false else
  if a2 <? b2 then true else if b2 <? a2 then false else Qle_bool o p.
Definition bond_leb_first (x y : bond) : bool := fst (fst x) <=? fst (fst y).
Definition bond_leb : bond -> bond -> bool := if bond_sort_whole then bond_leb_whole else bond_leb_first.
Definition canon_bonds (l : list bond) : list bond := isort bond_leb (map norm_bond l).
Definition bond_ok (b : bond) : bool :=
  let '(a1, a2, o) := b in (0 <=? a1) && (0 <=? a2) && Qle_bool 0 o && Qle_bool o 5.
Definition validate_bonds (l : list bond) : outcome (list bond) :=
  if forallb bond_ok l then Ok (canon_bonds l) else Err Validation.

(* listing a bond in the other orientation *)
Definition flip_bond (b : bond) : bond := let '(a1, a2, o) := b in (a2, a1, o).
Fixpoint flip_by (bs : list bool) (l : list bond) : list bond :=
  match bs, l with
  | true :: bs', b :: l' => flip_bond b :: flip_by bs' l'
  | false :: bs', b :: l' => b :: flip_by bs' l'
  | [], _ => l
  | _, [] => []
  end.

(** ---- correspondence helpers ---- *)
Definition env_mass (env : list (string * fl)) (s : string) : fl :=
  match find (fun p => String.eqb (fst p) s) env with Some p => snd p | None => FQ 0 end.
(* (molecule, default masses by symbol, tokens of the text the implementation hashed) *)
Definition check_canon (c : mol * list (string * fl) * list token) : bool :=
  let '(m, env, expected) := c in tokens_eqb (canon (env_mass env) m) expected.
(* (molecule a, molecule b, masses, did the implementation give equal hashes) *)
Definition check_pair (c : mol * mol * list (string * fl) * bool) : bool :=
  let '(a, b, env, same) := c in Bool.eqb (tokens_eqb (canon (env_mass env) a) (canon (env_mass env) b)) same.
(* float_prep on one entry: (array branch?, n, x, k) *)
Definition check_prep (c : bool * Z * fl * Z) : bool :=
  let '(arr, n, x, k) := c in (if arr then prep_arr n x else prep_scalar n x) =? k.
(* numpy's algorithm: (n, x, k) *)
Definition check_prep64 (c : Z * fl * Z) : bool := let '(n, x, k) := c in prep_arr64 n x =? k.
(* the binary64 product: (x, n, x * 10.0**n as computed by the machine) *)
Definition check_fl64 (c : Q * Z * Q) : bool := let '(x, n, y) := c in Qeq_bool (fl64 (x * inject_Z (pow10 n))) y.
Fixpoint bonds_eqb (a b : list bond) : bool :=
  match a, b with
  | [], [] => true
  | (a1, a2, o) :: a', (b1, b2, p) :: b' => (a1 =? b1) && (a2 =? b2) && q_eqb o p && bonds_eqb a' b'
  | _, _ => false
  end.
Definition check_bonds (c : list bond * outcome (list bond)) : bool :=
  outcome_eqb bonds_eqb (validate_bonds (fst c)) (snd c).
