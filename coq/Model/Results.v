(** C20 — executable model of the result-model validators of
    qcelemental/models/results.py (AtomicResultProperties, WavefunctionProperties, AtomicResult) and
    qcelemental/models/procedures.py (OptimizationResult._trajectory_protocol).

    The protocol tables, field tables and reshape templates come from Gen/KeepLists.v, which the
    translator regenerates from the source on every run; this file interprets them in the code's order,
    including the exceptions the code raises.  No proofs here. *)
From Coq Require Import ZArith List String Bool Ascii.
Require Import QV.Common.Outcome QV.Gen.KeepLists.
Import ListNotations.
Local Open Scope string_scope.
Local Open Scope list_scope.
Local Open Scope Z_scope.

(** * Python dicts with string keys: association lists, first match wins, [dset] replaces in place. *)
Section Dict.
  Context {V : Type}.
  Fixpoint dget (k : string) (d : list (string * V)) : option V :=
    match d with
    | [] => None
    | (k', v) :: r => if String.eqb k k' then Some v else dget k r
    end.
  Fixpoint dset (k : string) (v : V) (d : list (string * V)) : list (string * V) :=
    match d with
    | [] => [(k, v)]
    | (k', v') :: r => if String.eqb k k' then (k, v) :: r else (k', v') :: dset k v r
    end.
  Definition keys (d : list (string * V)) : list string := map fst d.
End Dict.

Definition smem (k : string) (l : list string) : bool := existsb (String.eqb k) l.

(** [str.endswith] *)
Fixpoint ends_with (suf s : string) : bool :=
  if String.eqb s suf then true
  else match s with EmptyString => false | String _ r => ends_with suf r end.

Definition zlen {A} (l : list A) : Z := Z.of_nat (List.length l).
Definition prodz (l : list Z) : Z := fold_right Z.mul 1 l.
Definition sumz (l : list Z) : Z := fold_right Z.add 0 l.

(** * Arrays: logical (C-order) element sequence + shape.  Elements are integers (the generators use
    integer-valued floats, so the element type plays no role in any validator). *)
Record arr := { dat : list Z; shp : list Z }.

(** numpy [reshape]: a negative entry is the (single) unknown dimension. *)
Definition reshape_dims (size : Z) (dims : list Z) : outcome (list Z) :=
  let known := prodz (filter (fun d => 0 <=? d) dims) in
  match filter (fun d => d <? 0) dims with
  | [] => if known =? size then Ok dims else Err PyValueError
  | [_] => if known =? 0 then Err PyValueError
           else if size mod known =? 0
                then Ok (map (fun d => if d <? 0 then size / known else d) dims)
                else Err PyValueError
  | _ => Err PyValueError
  end.

Definition reshape (a : arr) (dims : list Z) : outcome arr :=
  obind (reshape_dims (zlen (dat a)) dims) (fun s => Ok {| dat := dat a; shp := s |}).

(** instantiate a shape template; [nbf] and [nat] are only read by the templates that mention them *)
Definition dim_val (nbf nat : Z) (d : dim) : Z :=
  match d with
  | DConst z => z | DAny => -1 | DNbf => nbf | DNao => nbf | DNmo => -1 | DNat => nat | DNat3 => 3 * nat
  end.
Definition inst (nbf nat : Z) (t : list dim) : list Z := map (dim_val nbf nat) t.
Definition uses_nbf (t : list dim) : bool := existsb (fun d => match d with DNbf => true | _ => false end) t.

(** pydantic reports every ValueError/TypeError/AssertionError raised in a validator as ValidationError *)
Definition as_validation {A} (x : outcome A) : outcome A :=
  match x with
  | Ok a => Ok a
  | Err PyValueError | Err PyTypeError | Err PyAssertion | Err Validation => Err Validation
  | Err k => Err k
  end.

(** * Wavefunction dictionaries *)
Inductive wval :=
| WNone
| WBool (b : bool)
| WBasis (nbf : Z)
| WStr (s : string)
| WArr (a : arr).
Definition wdict := list (string * wval).

Definition truthy (v : wval) : bool :=
  match v with
  | WNone => false | WBool b => b | WBasis _ => true
  | WStr s => negb (String.eqb s "") | WArr _ => true
  end.

Definition drop_b (w : wdict) : wdict := filter (fun kv => negb (ends_with "_b" (fst kv))) w.

(** the loop `for rk in return_keep: key = wfn.get(rk); if key is None: continue;
    if key not in wfn: raise ValueError(...); ret_wfn[rk] = key; ret_wfn[key] = wfn[key]` *)
Fixpoint keep_loop (l : list string) (w ret : wdict) : outcome wdict :=
  match l with
  | [] => Ok ret
  | rk :: r =>
    match dget rk w with
    | None | Some WNone => keep_loop r w ret
    | Some (WStr key) =>
      match dget key w with
      | None => Err Validation                      (* Return quantity does not exist (ValueError) *)
      | Some v => keep_loop r w (dset key v (dset rk (WStr key) ret))
      end
    | Some _ => Err Validation                      (* not a str: `key not in wfn` is True or raises TypeError *)
    end
  end.

Definition ret_init (restricted : wval) (w : wdict) : wdict :=
  match dget "basis" w with
  | Some b => [("restricted"%string, restricted); ("basis"%string, b)]
  | None => [("restricted"%string, restricted)]
  end.

Definition assoc {K V} (eqb : K -> K -> bool) (k : K) (t : list (K * V)) : option V :=
  match find (fun kv => eqb k (fst kv)) t with Some kv => Some (snd kv) | None => None end.

(** AtomicResult._wavefunction_protocol (pre-validator) on a dict value.
    [proto]: the validated protocols.wavefunction; [None] = the `protocols` field failed validation. *)
Definition wfn_filter (act : keep_action) (w : wdict) : outcome (option wdict) :=
  match dget "restricted" w with
  | None | Some WNone => Err Validation              (* `restricted` is required *)
  | Some r =>
    let w1 := if truthy r then drop_b w else w in
    match act with
    | KeepAll => Ok (Some w1)
    | KeepNothing => Ok None
    | KeepList l => obind (keep_loop l w1 (ret_init r w1)) (fun x => Ok (Some x))
    end
  end.

Definition wfn_pre (proto : option string) (value : option wdict) : outcome (option wdict) :=
  match value with
  | None => Ok None
  | Some w =>
    match proto with
    | None => Err Validation                         (* Protocols was not properly formed *)
    | Some p =>
      match assoc String.eqb p wfn_keep_table with
      | None => Err Validation                       (* not understood / `restricted` is required *)
      | Some act => wfn_filter act w
      end
    end
  end.

(** WavefunctionProperties built from the dict w: fields in declaration order; errors are collected (all ValidationError) *)
Definition wfn_field (w : wdict) (st : wdict * bool) (f : string * fkind) : wdict * bool :=
  let '(values, bad) := st in
  let '(name, kind) := f in
  match dget name w with
  | None => match kind with
            | FBasis | FRestricted => (values, true)     (* field required *)
            | _ => (values, bad)
            end
  | Some v =>
    match kind, v with
    | FBasis, WBasis n => (values ++ [(name, v)], bad)
    | FRestricted, WBool b => (values ++ [(name, v)], bad)
    | FArr None _, WNone => (values ++ [(name, WNone)], bad)
    | FArr None _, WArr a => (values ++ [(name, v)], bad)
    | FArr (Some t) _, WArr a =>
      match (if uses_nbf t then dget "basis" values else Some (WBasis 0)) with
      | Some (WBasis nbf) =>
        match reshape a (inst nbf 0 t) with
        | Ok a' => (values ++ [(name, WArr a')], bad)
        | Err _ => (values, true)
        end
      | _ => (values ++ [(name, v)], bad)                (* bas is None: return v *)
      end
    | FPtr, WStr s =>
      match dget s values with
      | None | Some WNone => (values, true)              (* Return quantity does not exist *)
      | Some _ => (values ++ [(name, v)], bad)
      end
    | _, _ => (values, true)
    end
  end.

Definition wfn_validate (w : wdict) : outcome wdict :=
  if negb (forallb (fun k => smem k (keys wfn_fields)) (keys w)) then Err Validation   (* extra fields *)
  else let '(values, bad) := fold_left (wfn_field w) wfn_fields ([], false) in
       if bad then Err Validation else Ok values.

Definition wfn_stage (proto : option string) (value : option wdict) : outcome (option wdict) :=
  obind (wfn_pre proto value)
        (fun o => match o with
                  | None => Ok None
                  | Some w => obind (wfn_validate w) (fun w' => Ok (Some w'))
                  end).

(** * stdout / native_files *)
Definition stdout_protocol (p : option bool) (value : option string) : outcome (option string) :=
  match p with
  | None => Err Validation
  | Some b => match assoc Bool.eqb b stdout_table with
              | Some StdKeep => Ok value
              | Some StdDrop => Ok None
              | None => Err Validation
              end
  end.

Definition ndict := list (string * option string).
Definition native_keep (l : list string) (files : ndict) : ndict :=
  fold_left (fun ret rk => dset rk (match dget rk files with Some v => v | None => None end) ret) l [].
Definition native_protocol (p : string) (value : ndict) : outcome ndict :=
  match assoc String.eqb p native_table with
  | Some NatAll => Ok value
  | Some NatNothing => Ok []
  | Some (NatList l) => Ok (native_keep l value)
  | None => Err Validation
  end.

(** * trajectory *)
Section Traj.
  Context {A : Type}.
  Definition py_index (v : list A) (i : Z) : outcome A :=
    let n := zlen v in
    let j := if i <? 0 then i + n else i in
    if (0 <=? j) && (j <? n)
    then match nth_error v (Z.to_nat j) with Some x => Ok x | None => Err PyIndexError end
    else Err PyIndexError.
  Fixpoint select (v : list A) (idx : list Z) : outcome (list A) :=
    match idx with
    | [] => Ok []
    | i :: r => obind (py_index v i) (fun x => obind (select v r) (fun xs => Ok (x :: xs)))
    end.
  Definition traj_action_run (a : traj_action) (v : list A) : outcome (list A) :=
    match a with
    | TrajAll => Ok v
    | TrajNothing => Ok []
    | TrajSelect guarded n idx =>
      if (if guarded then match v with [] => false | _ => true end else true) && negb (zlen v =? n)
      then select v idx else Ok v
    end.
  (** [p = None]: the protocols field failed validation *)
  Definition traj_protocol (p : option string) (v : list A) : outcome (list A) :=
    match p with
    | None => Err Validation
    | Some s => match assoc String.eqb s traj_table with
                | None => Err Validation
                | Some a => traj_action_run a v
                end
    end.
End Traj.

(** * return_result by driver *)
Inductive rval := RFloat (z : Z) | RArr (a : arr).
Definition to_arr (r : rval) : arr :=
  match r with RFloat z => {| dat := [z]; shp := [] |} | RArr a => a end.
(** Union[float, Array[float], ...]: float() succeeds on numbers and on 0-d arrays *)
Definition coerce_rr (r : rval) : rval :=
  match r with
  | RArr {| dat := [z]; shp := [] |} => RFloat z
  | _ => r
  end.
Definition return_result (driver : string) (r : rval) : outcome rval :=
  let r := coerce_rr r in
  match assoc String.eqb driver rr_table with
  | None => Ok r
  | Some (RRReshape t) => obind (as_validation (reshape (to_arr r) (inst 0 0 t))) (fun a => Ok (RArr a))
  | Some RRSquare =>
    let a := to_arr r in
    let size := zlen (dat a) in
    let nsq := Z.sqrt size in                        (* int(v.size ** 0.5); v.reshape(nsq, nsq) *)
    if nsq * nsq =? size then Ok (RArr {| dat := dat a; shp := [nsq; nsq] |}) else Err Validation
  end.

(** * AtomicResult: the four protocol-governed fields together.
    Protocol entries: [None] = not supplied (default from the generated table);
    an entry outside its enum makes the whole `protocols` field invalid. *)
Record ar_in := {
  a_driver : string;
  a_pw : option string; a_pstdout : option bool; a_pnative : option string;
  a_wfn : option wdict;
  a_rr : rval;
  a_stdout : option string;
  a_native : option ndict            (* None: field not supplied *)
}.
Record ar_out := { o_wfn : option wdict; o_rr : rval; o_stdout : option string; o_native : ndict }.

Definition protocols_ok (i : ar_in) : bool :=
  smem (match a_pw i with Some p => p | None => default_wavefunction end) enum_wavefunction
  && smem (match a_pnative i with Some p => p | None => default_native_files end) enum_native_files.

Definition atomic_result (i : ar_in) : outcome ar_out :=
  let pok := protocols_ok i in
  let pw := if pok then Some (match a_pw i with Some p => p | None => default_wavefunction end) else None in
  let ps := if pok then Some (match a_pstdout i with Some b => b | None => default_stdout end) else None in
  let pn := match a_pnative i with Some p => p | None => default_native_files end in
  (* field order: protocols, ..., wavefunction (pre), return_result, stdout, native_files *)
  (* the wavefunction stage only ever fails with a validation error (Proofs: wfn_stage_err) *)
  let w := wfn_stage pw (a_wfn i) in
  let r := return_result (a_driver i) (a_rr i) in
  let s := stdout_protocol ps (a_stdout i) in
  let n := match a_native i with
           | None => Ok []
           | Some v => if pok then native_protocol pn v else Err PyKeyError   (* values['protocols'] *)
           end in
  match n with
  | Err PyKeyError => Err PyKeyError
  | _ =>
    match w, r, s, n with
    | Ok w', Ok r', Ok s', Ok n' =>
      if pok then Ok {| o_wfn := w'; o_rr := r'; o_stdout := s'; o_native := n' |} else Err Validation
    | _, _, _, _ => Err Validation
    end
  end.

(** * AtomicResultProperties: pole / derivative reshaping *)
Definition prop_shape (name : string) (k : pkind) (natom : option Z) : outcome (option (list Z)) :=
  match k with
  | VNone => Ok None
  | VPole => if ends_with "_dipole_moment" name then Ok (Some [3])
             else if ends_with "_quadrupole_moment" name then Ok (Some [3; 3])
             else Err PyAssertion                    (* UnboundLocalError: `order` *)
  | VDeriv => match natom with
              | None => Err Validation               (* Please also set calcinfo_natom *)
              | Some n => if ends_with "_gradient" name then Ok (Some [n; 3])
                          else if ends_with "_hessian" name then Ok (Some [3 * n; 3 * n])
                          else Err PyAssertion
              end
  end.

Definition prop_lookup (name : string) : option pkind :=
  match find (fun f => String.eqb name (fst (fst f))) prop_fields with
  | Some f => Some (snd (fst f)) | None => None
  end.

Definition prop_field (natom : option Z) (f : string * arr) : outcome (string * arr) :=
  match prop_lookup (fst f) with
  | None => Err Validation                           (* not an array field of the model *)
  | Some k =>
    obind (prop_shape (fst f) k natom)
          (fun s => match s with
                    | None => Ok f
                    | Some dims => obind (as_validation (reshape (snd f) dims)) (fun a => Ok (fst f, a))
                    end)
  end.

Fixpoint props_fields (natom : option Z) (fs : list (string * arr)) : outcome (list (string * arr)) :=
  match fs with
  | [] => Ok []
  | f :: r =>
    match prop_field natom f, props_fields natom r with
    | Ok f', Ok r' => Ok (f' :: r')
    | Err PyAssertion, _ => Err PyAssertion
    | _, Err PyAssertion => Err PyAssertion
    | _, _ => Err Validation
    end
  end.

(** * comparison helpers for the correspondence cases *)
Definition list_eqb {A} (e : A -> A -> bool) :=
  fix go (x y : list A) : bool :=
    match x, y with
    | [], [] => true
    | a :: x', b :: y' => e a b && go x' y'
    | _, _ => false
    end.
Definition opt_eqb {A} (e : A -> A -> bool) (x y : option A) : bool :=
  match x, y with Some a, Some b => e a b | None, None => true | _, _ => false end.
Definition arr_eqb (a b : arr) : bool := list_eqb Z.eqb (dat a) (dat b) && list_eqb Z.eqb (shp a) (shp b).
Definition wval_eqb (a b : wval) : bool :=
  match a, b with
  | WNone, WNone => true
  | WBool x, WBool y => Bool.eqb x y
  | WBasis x, WBasis y => Z.eqb x y
  | WStr x, WStr y => String.eqb x y
  | WArr x, WArr y => arr_eqb x y
  | _, _ => false
  end.
(** equality of dicts as finite maps (keys are unique on both sides) *)
Definition dict_eqb {V} (e : V -> V -> bool) (a b : list (string * V)) : bool :=
  Nat.eqb (List.length a) (List.length b)
  && forallb (fun kv => opt_eqb e (Some (snd kv)) (dget (fst kv) b)) a
  && forallb (fun kv => opt_eqb e (Some (snd kv)) (dget (fst kv) a)) b.
Definition rval_eqb (a b : rval) : bool :=
  match a, b with
  | RFloat x, RFloat y => Z.eqb x y
  | RArr x, RArr y => arr_eqb x y
  | _, _ => false
  end.
Definition ar_out_eqb (a b : ar_out) : bool :=
  opt_eqb (dict_eqb wval_eqb) (o_wfn a) (o_wfn b) && rval_eqb (o_rr a) (o_rr b)
  && opt_eqb String.eqb (o_stdout a) (o_stdout b)
  && dict_eqb (opt_eqb String.eqb) (o_native a) (o_native b).

Inductive c20case :=
| CAtomic (i : ar_in) (e : outcome ar_out)
| CWfnProps (w : wdict) (e : outcome wdict)
| CProps (natom : option Z) (f : list (string * arr)) (e : outcome (list (string * arr)))
| CTraj (p : option string) (v : list Z) (e : outcome (list Z)).

Definition check_case (c : c20case) : bool :=
  match c with
  | CAtomic i e => outcome_eqb ar_out_eqb (atomic_result i) e
  | CWfnProps w e => outcome_eqb (dict_eqb wval_eqb) (wfn_validate w) e
  | CProps n f e =>
    outcome_eqb (list_eqb (fun x y => String.eqb (fst x) (fst y) && arr_eqb (snd x) (snd y))) (props_fields n f) e
  | CTraj p v e =>
    outcome_eqb (list_eqb Z.eqb) (traj_protocol (Some (match p with Some s => s | None => default_trajectory end)) v) e
  end.
