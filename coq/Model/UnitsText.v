(** C03 — from TEXT to unit expressions: a model of the part of pint's expression reader that the corpus exercises.
    - tokenizer: identifiers, decimal numbers (with exponent), [*], [/], [**] or [^], parentheses, blanks;
      juxtaposition (blank or nothing between two factors) is multiplication with the precedence of [*] (left to right),
      [**] binds tighter and takes a signed integer exponent, possibly parenthesised;
    - identifier resolution: an exact spelling (name, symbol or alias — Gen.ident_table) wins; otherwise the first prefix
      spelling (long names before symbols, Gen.prefix_spellings) whose remainder is an exact spelling.
    The set of spellings is the modelled subset (ureg.py's own names and aliases + the whitelisted plain units); pint's
    thousands of other units are outside it — the correspondence only sends texts whose identifiers pint itself resolves
    inside the subset (or not at all). Then [conv_text] = parse both sides and convert with Model/Units.v. *)
From Coq Require Import ZArith QArith List String Ascii Bool.
Require Import QV.Common.Outcome QV.Common.DecC02 QV.Common.UnitsC03.
Require Import QV.Gen.UregDefs QV.Model.Units.
Import ListNotations.
Open Scope string_scope.

Inductive tok := TNum (q : Q) | TId (s : string) | TMul | TDiv | TPow | TMinus | TLp | TRp.

Definition is_alpha (c : ascii) : bool :=
  let n := N_of_ascii c in ((65 <=? n) && (n <=? 90) || (97 <=? n) && (n <=? 122) || (n =? 95))%N.
Definition is_dig (c : ascii) : bool := let n := N_of_ascii c in ((48 <=? n) && (n <=? 57))%N.
Definition is_blank (c : ascii) : bool := let n := N_of_ascii c in ((n =? 32) || (n =? 9))%N.

Fixpoint span (f : ascii -> bool) (l : list ascii) : list ascii * list ascii :=
  match l with
  | c :: r => if f c then let '(a, b) := span f r in (c :: a, b) else ([], l)
  | [] => ([], [])
  end.

(* a number literal: digits [. digits] [(e|E) [+|-] digits] ; value via the Decimal parser *)
Definition lex_number (l : list ascii) : option (Q * list ascii) :=
  let '(ip, r1) := span is_dig l in
  let '(fp, r2) := match r1 with "."%char :: r => let '(f, r') := span is_dig r in ("."%char :: f, r') | _ => ([], r1) end in
  let '(ex, r3) :=
    match r2 with
    | c :: r => if (Ascii.eqb c "e" || Ascii.eqb c "E")%bool then
                  match r with
                  | s :: r' => if (Ascii.eqb s "-" || Ascii.eqb s "+")%bool
                               then (match span is_dig r' with ([], _) => ([], r2) | (d, r'') => (c :: s :: d, r'') end)
                               else (match span is_dig r with ([], _) => ([], r2) | (d, r'') => (c :: d, r'') end)
                  | [] => ([], r2)
                  end
                else ([], r2)
    | [] => ([], r2)
    end in
  match parse_dec_chars (ip ++ fp ++ ex) with
  | Some d => Some (dec2Q d, r3)
  | None => None
  end.

Fixpoint lex (fuel : nat) (l : list ascii) : option (list tok) :=
  match fuel with
  | O => None
  | S f =>
      match l with
      | [] => Some []
      | c :: r =>
          if is_blank c then lex f r
          else if is_alpha c then
            let '(w, r') := span (fun x => is_alpha x || is_dig x) l in
            option_map (cons (TId (string_of_list_ascii w))) (lex f r')
          else if is_dig c then
            match lex_number l with
            | Some (q, r') => option_map (cons (TNum q)) (lex f r')
            | None => None
            end
          else if Ascii.eqb c "*" then
            match r with
            | "*"%char :: r' => option_map (cons TPow) (lex f r')
            | _ => option_map (cons TMul) (lex f r)
            end
          else if Ascii.eqb c "^" then option_map (cons TPow) (lex f r)
          else if Ascii.eqb c "/" then option_map (cons TDiv) (lex f r)
          else if Ascii.eqb c "-" then option_map (cons TMinus) (lex f r)
          else if Ascii.eqb c "(" then option_map (cons TLp) (lex f r)
          else if Ascii.eqb c ")" then option_map (cons TRp) (lex f r)
          else None
      end
  end.

(** identifier resolution *)
Definition resolve_ident (s : string) : option (string * string) :=
  match assoc s ident_table with
  | Some b => Some ("", b)
  | None =>
      match find (fun ps => prefix_of (fst ps) s
                            && match assoc (drop (String.length (fst ps)) s) ident_table with Some _ => true | None => false end)
                 prefix_spellings with
      | Some (sp, p) => match assoc (drop (String.length sp) s) ident_table with Some b => Some (p, b) | None => None end
      | None => None
      end
  end.

(* signed integer exponent: n | -n | (n) | (-n) *)
Definition is_int (q : Q) : option Z := if (Zpos (Qden q) =? 1)%Z then Some (Qnum q) else None.
Definition parse_exponent (ts : list tok) : option (Z * list tok) :=
  match ts with
  | TNum q :: r => option_map (fun z => (z, r)) (is_int q)
  | TMinus :: TNum q :: r => option_map (fun z => ((- z)%Z, r)) (is_int q)
  | TLp :: TNum q :: TRp :: r => option_map (fun z => (z, r)) (is_int q)
  | TLp :: TMinus :: TNum q :: TRp :: r => option_map (fun z => ((- z)%Z, r)) (is_int q)
  | _ => None
  end.

Inductive perr := Syntax | Undefined.

(* expr := term { op term } with op = times, divide or juxtaposition ; term := atom [ power exponent ] ; atom := number, identifier or parenthesised expr *)
Fixpoint parse_expr (fuel : nat) (ts : list tok) : perr + (uexpr * list tok) :=
  match fuel with
  | O => inl Syntax
  | S f =>
      let atom (ts : list tok) : perr + (uexpr * list tok) :=
        match ts with
        | TNum q :: r => inr (UNum q, r)
        | TId s :: r => match resolve_ident s with Some (p, b) => inr (UAtom p b, r) | None => inl Undefined end
        | TLp :: r => match parse_expr f r with
                      | inr (e, TRp :: r') => inr (e, r')
                      | inr _ => inl Syntax
                      | inl x => inl x
                      end
        | _ => inl Syntax
        end in
      let term (ts : list tok) : perr + (uexpr * list tok) :=
        match atom ts with
        | inr (a, TPow :: r) => match parse_exponent r with Some (n, r') => inr (UPow a n, r') | None => inl Syntax end
        | x => x
        end in
      let fix tail (k : nat) (acc : uexpr) (ts : list tok) : perr + (uexpr * list tok) :=
        match k with
        | O => inl Syntax
        | S k' =>
            match ts with
            | TMul :: r => match term r with inr (b, r') => tail k' (UMul acc b) r' | inl x => inl x end
            | TDiv :: r => match term r with inr (b, r') => tail k' (UDiv acc b) r' | inl x => inl x end
            | TNum _ :: _ | TId _ :: _ | TLp :: _ =>
                match term ts with inr (b, r') => tail k' (UMul acc b) r' | inl x => inl x end
            | _ => inr (acc, ts)
            end
        end in
      match term ts with
      | inr (a, r) => tail (S (List.length r)) a r
      | inl x => inl x
      end
  end.

Definition parse_text (s : string) : perr + uexpr :=
  let cs := list_ascii_of_string s in
  match lex (S (List.length cs)) cs with
  | None => inl Syntax
  | Some ts =>
      match parse_expr (S (List.length ts)) ts with
      | inr (e, []) => inr e
      | inr _ => inl Syntax
      | inl x => inl x
      end
  end.

Definition conv_text (c : cctx) (a b : string) : outcome Q :=
  match parse_text a, parse_text b with
  | inr ea, inr eb => conv_ctx c ea eb
  | inl Undefined, _ | _, inl Undefined => Err PyAttributeError          (* pint.UndefinedUnitError *)
  | _, _ => Err PyValueError                                             (* a syntax error: outside the modelled texts *)
  end.

Definition check_case_text (x : Z * string * string * cexpect) : bool :=
  let '(y, a, b, ex) := x in
  match conv_text (ctx_of y) a b, ex with
  | Ok v, CVal n d t => close v (Qmake n (Z.to_pos d)) t
  | Err k, CErr k' => ekind_eqb k k'
  | _, _ => false
  end.
