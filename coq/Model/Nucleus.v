(** C06 — model of qcelemental.molparse.nucleus (reconcile_nucleus, parse_nucleus_label) over the
    shipped periodic table (Gen/PTable.v, regenerated from /repo on every run).
    Hand-written, in the code's order, with the exceptions the code raises; tied to the implementation
    by the correspondence check (harness/props/c06.py).  Masses are exact rationals ([Q]); the
    implementation's binary64 arithmetic is compared only where both agree (see the harness).
    Text is ASCII ([string]).  No proofs in this file. *)
From Coq Require Import ZArith NArith List Bool String Ascii QArith Qabs Qround DecimalString.
Require Import QV.Common.Outcome QV.Gen.PTable.
Import ListNotations.
Open Scope list_scope.
Open Scope Z_scope.

(* ------------------------------------------------------------------------------------------ *)
(** * ASCII text *)

Definition acode (c : ascii) : N := N_of_ascii c.
Definition is_digit (c : ascii) : bool := (48 <=? acode c)%N && (acode c <=? 57)%N.
Definition is_upper (c : ascii) : bool := (65 <=? acode c)%N && (acode c <=? 90)%N.
Definition is_lower (c : ascii) : bool := (97 <=? acode c)%N && (acode c <=? 122)%N.
Definition is_alpha (c : ascii) : bool := is_upper c || is_lower c.
Definition is_word (c : ascii) : bool := is_alpha c || is_digit c || (acode c =? 95)%N.   (* \w on ASCII *)
Definition lower_c (c : ascii) : ascii := if is_upper c then ascii_of_N (acode c + 32) else c.
Definition upper_c (c : ascii) : ascii := if is_lower c then ascii_of_N (acode c - 32) else c.

Fixpoint smap (f : ascii -> ascii) (s : string) : string :=
  match s with EmptyString => EmptyString | String c r => String (f c) (smap f r) end.
Definition lower (s : string) : string := smap lower_c s.                     (* str.lower() *)
Definition capitalize (s : string) : string :=                                (* str.capitalize() *)
  match s with EmptyString => EmptyString | String c r => String (upper_c c) (lower r) end.
Fixpoint sforall (p : ascii -> bool) (s : string) : bool :=
  match s with EmptyString => true | String c r => p c && sforall p r end.

(** int() of a digit sequence (most significant first) *)
Definition digit_val (c : ascii) : Z := Z.of_N (acode c) - 48.
Definition int_of_digits (l : list ascii) : Z := fold_left (fun acc c => acc * 10 + digit_val c) l 0.
(** str(int) *)
Definition str_of_Z (z : Z) : string := NilZero.string_of_int (Z.to_int z).

(* ------------------------------------------------------------------------------------------ *)
(** * Exact masses *)

Definition dec_to_Q (p : Z * Z) : Q :=
  let '(c, e) := p in
  if 0 <=? e then (c * 10 ^ e) # 1 else c # (Z.to_pos (10 ^ (- e))).

Definition Qlt_b (x y : Q) : bool := negb (Qle_bool y x).

(** round(m, 0) on the exact value: nearest integer, ties to even *)
Definition round_half_even (q : Q) : Z :=
  let f := Qfloor q in
  match Qcompare (q - inject_Z f) (1 # 2) with
  | Lt => f
  | Gt => f + 1
  | Eq => if Z.even f then f else f + 1
  end.

(* ------------------------------------------------------------------------------------------ *)
(** * Periodic-table lookups (the dicts built in PeriodicTable.__init__) *)

Fixpoint assoc {B} (k : string) (l : list (string * B)) : option B :=
  match l with
  | [] => None
  | (k', v) :: r => if String.eqb k k' then Some v else assoc k r
  end.
Fixpoint zassoc {B} (k : Z) (l : list (Z * B)) : option B :=
  match l with
  | [] => None
  | (k', v) :: r => if k =? k' then Some v else zassoc k r
  end.

Definition pt_massQ : list Q := Eval vm_compute in map dec_to_Q pt_mass.
Definition t_el2z : list (string * Z) := Eval vm_compute in combine pt_E pt_Z.
Definition t_z2el : list (Z * string) := Eval vm_compute in combine pt_Z pt_E.
Definition t_element2el : list (string * string) := Eval vm_compute in combine pt_name pt_E.
Definition t_eliso2mass : list (string * Q) := Eval vm_compute in combine pt_EA pt_massQ.
Definition t_eliso2el : list (string * string) := Eval vm_compute in combine pt_EA pt_EE.
Definition t_eliso2a : list (string * Z) := Eval vm_compute in combine pt_EA pt_A.
(** rows (EE, (A, mass)) from which _el2a2mass is filled *)
Definition t_rows : list (string * (Z * Q)) := Eval vm_compute in combine pt_EE (combine pt_A pt_massQ).

Definition rows_of (e : string) : list (Z * Q) :=
  map snd (filter (fun r => String.eqb (fst r) e) t_rows).
(** the defaultdict _el2a2mass, grouped by element (as association list; duplicates of a mass number kept:
    only min/max of keys and values are ever used) *)
Definition t_el2a2mass : list (string * list (Z * Q)) := Eval vm_compute in map (fun e => (e, rows_of e)) pt_E.
Definition el2a2mass (e : string) : list (Z * Q) :=
  match assoc e t_el2a2mass with Some l => l | None => [] end.

Definition sval {A} (o : option A) (k : ekind) : outcome A :=
  match o with Some a => Ok a | None => Err k end.

(** _resolve_atom_to_key on a str (modelled domain: ASCII letters and digits) *)
Definition resolve_str (s : string) (strict : bool) : outcome string :=
  let c := capitalize s in
  obind
    (match assoc c t_eliso2mass with
     | Some _ => Ok c
     | None =>
         match (if (negb (String.eqb s EmptyString)) && sforall is_digit s
                then zassoc (int_of_digits (list_ascii_of_string s)) t_z2el else None) with
         | Some e => Ok e
         | None => sval (assoc c t_element2el) NotAnElement
         end
     end)
    (fun eliso => if strict && negb (existsb (String.eqb eliso) pt_E) then Err NotAnElement else Ok eliso).

(** _resolve_atom_to_key on an int *)
Definition resolve_int (z : Z) : outcome string := sval (zassoc z t_z2el) NotAnElement.

Definition to_Z_strict (e : string) : outcome Z :=
  obind (resolve_str e true) (fun k => obind (sval (assoc k t_eliso2el) PyKeyError) (fun el => sval (assoc el t_el2z) PyKeyError)).
Definition to_E_int (z : Z) : outcome string :=
  obind (resolve_int z) (fun k => sval (assoc k t_eliso2el) PyKeyError).
Definition to_mass_int (z : Z) : outcome Q :=
  obind (resolve_int z) (fun k => sval (assoc k t_eliso2mass) PyKeyError).
Definition to_A_int (z : Z) : outcome Z :=
  obind (resolve_int z) (fun k => sval (assoc k t_eliso2a) PyKeyError).
Definition to_mass_str (s : string) : outcome Q :=
  obind (resolve_str s false) (fun k => sval (assoc k t_eliso2mass) PyKeyError).

(** periodictable.to_mass(E + str(a)) *)
Definition nuclide_mass (e : string) (a : Z) : outcome Q := to_mass_str (String.append e (str_of_Z a)).

(* ------------------------------------------------------------------------------------------ *)
(** * parse_nucleus_label: recogniser for  \A NUCLEUS \Z  under IGNORECASE|VERBOSE (ASCII) *)

Record label_fields := {
  lA : option Z; lZ : option Z; lE : option string; lmass : option Q; lreal : bool; luser : option string }.

Inductive ghost := GhNone | Gh1 | Gh2.

Fixpoint span (p : ascii -> bool) (l : list ascii) : list ascii * list ascii :=
  match l with
  | c :: r => if p c then let '(a, b) := span p r in (c :: a, b) else ([], l)
  | [] => ([], [])
  end.

Definition is_nil {A} (l : list A) : bool := match l with [] => true | _ => false end.
Definition ch (n : N) : ascii := ascii_of_N n.
Definition c_eq (c : ascii) (n : N) : bool := (acode c =? n)%N.

(** (?(gh2)\)) \Z *)
Definition close (g : ghost) (r : list ascii) : bool :=
  match g with
  | Gh2 => match r with [c] => c_eq c 41 | _ => false end
  | _ => is_nil r
  end.

(** float("ddd.ddd") as an exact rational *)
Definition mass_of (d1 d2 : list ascii) : Q :=
  int_of_digits (List.app d1 d2) # Z.to_pos (10 ^ Z.of_nat (List.length d2)).

(** (?:@(?P<mass>\d+\.\d+))? (?(gh2)\)) \Z  — returns Some mass-group on a match *)
Definition tail (g : ghost) (r : list ascii) : option (option Q) :=
  let nomass := if close g r then Some None else None in
  match r with
  | c :: r1 =>
      if c_eq c 64 then
        let '(d1, r2) := span is_digit r1 in
        match is_nil d1, r2 with
        | false, dot :: r3 =>
            if c_eq dot 46 then
              let '(d2, r4) := span is_digit r3 in
              if negb (is_nil d2) && close g r4 then Some (Some (mass_of d1 d2)) else nomass
            else nomass
        | _, _ => nomass
        end
      else nomass
  | [] => nomass
  end.

Definition first_some {A} (a b : option A) : option A := match a with Some _ => a | None => b end.

(** (?P<user1>(_\w+)|(\d+))? then the tail *)
Definition user1_tail (g : ghost) (r : list ascii) : option (option string * option Q) :=
  let with_user (u : list ascii) (rest : list ascii) :=
      match tail g rest with Some m => Some (Some (string_of_list_ascii u), m) | None => None end in
  let alt_underscore :=
      match r with
      | c :: w => if c_eq c 95 then
                    let '(ws, r3) := span is_word w in
                    if is_nil ws then None else with_user (c :: ws) r3
                  else None
      | [] => None
      end in
  let alt_digits :=
      let '(ds, r3) := span is_digit r in
      if is_nil ds then None else with_user ds r3 in
  let alt_none := match tail g r with Some m => Some (None, m) | None => None end in
  first_some alt_underscore (first_some alt_digits alt_none).

(** (?P<user2>(_\w+))? then the tail *)
Definition user2_tail (g : ghost) (r : list ascii) : option (option string * option Q) :=
  let alt_underscore :=
      match r with
      | c :: w => if c_eq c 95 then
                    let '(ws, r3) := span is_word w in
                    if is_nil ws then None else
                      match tail g r3 with Some m => Some (Some (string_of_list_ascii (c :: ws)), m) | None => None end
                  else None
      | [] => None
      end in
  let alt_none := match tail g r with Some m => Some (None, m) | None => None end in
  first_some alt_underscore alt_none.

(** exactly n characters satisfying p at the front *)
Definition take_n (p : ascii -> bool) (n : nat) (r : list ascii) : option (list ascii * list ascii) :=
  let a := firstn n r in
  if Nat.eqb (List.length a) n && forallb p a then Some (a, skipn n r) else None.

Definition real_of (g : ghost) : bool := match g with GhNone => true | _ => false end.

(** label1: (?P<A>\d+)? (?P<E>[A-Z]{1,3}) user1?   — E greedy: 3, then 2, then 1 letters *)
Definition label1 (g : ghost) (s : list ascii) : option label_fields :=
  let '(ds, r) := span is_digit s in
  let a := if is_nil ds then None else Some (int_of_digits ds) in
  let try_E (n : nat) :=
      match take_n is_alpha n r with
      | Some (e, r2) =>
          match user1_tail g r2 with
          | Some (u, m) => Some {| lA := a; lZ := None; lE := Some (string_of_list_ascii e); lmass := m;
                                   lreal := real_of g; luser := u |}
          | None => None
          end
      | None => None
      end in
  first_some (try_E 3%nat) (first_some (try_E 2%nat) (try_E 1%nat)).

(** label2: (?P<Z>\d{1,3}) user2?   — Z greedy: 3, then 2, then 1 digits *)
Definition label2 (g : ghost) (s : list ascii) : option label_fields :=
  let try_Z (n : nat) :=
      match take_n is_digit n s with
      | Some (z, r2) =>
          match user2_tail g r2 with
          | Some (u, m) => Some {| lA := None; lZ := Some (int_of_digits z); lE := None; lmass := m;
                                   lreal := real_of g; luser := u |}
          | None => None
          end
      | None => None
      end in
  first_some (try_Z 3%nat) (first_some (try_Z 2%nat) (try_Z 1%nat)).

Definition body (g : ghost) (s : list ascii) : option label_fields := first_some (label1 g s) (label2 g s).

Definition match_label (s : list ascii) : option label_fields :=
  let plain := body GhNone s in
  match s with
  | c0 :: r0 =>
      if c_eq c0 64 then first_some (body Gh1 r0) plain                       (* (?P<gh1>@) *)
      else
        match r0 with
        | c1 :: c2 :: r2 =>
            if (c_eq c0 71 || c_eq c0 103) && (c_eq c1 72 || c_eq c1 104) && c_eq c2 40   (* (?P<gh2>Gh\() *)
            then first_some (body Gh2 r2) plain
            else plain
        | _ => plain
        end
  | [] => plain
  end.

Definition parse_label (s : string) : outcome label_fields :=
  sval (match_label (list_ascii_of_string s)) Validation.

(* ------------------------------------------------------------------------------------------ *)
(** * reconcile_nucleus *)

Record nuc_in := {
  nA : option Z; nZ : option Z; nE : option string; nmass : option Q; nreal : option bool;
  nlabel : option string; speclabel : bool; nonphysical : bool; mtol : Q }.

Record nuc_out := { oA : Z; oZ : Z; oE : string; omass : Q; oreal : bool; ouser : string }.

(** the range predicates, as data *)
Inductive atest := AEq (a : Z) | ANonphys | ARange (amin amax : Z).
Inductive mtest := MEq (m : Q) | MNear (a_mass : Q) | MNonphys | MRange (mmin mmax : Q).

Definition a_ok (t : atest) (x : Z) : bool :=
  match t with
  | AEq a => x =? a
  | ANonphys => (x =? -1) || (1 <=? x)
  | ARange lo hi => (x =? -1) || ((lo <=? x) && (x <=? hi))
  end.

Definition mmtol : Q := 1 # 2.

Definition m_ok (tol : Q) (t : mtest) (x : Q) : bool :=
  match t with
  | MEq m => Qeq_bool x m
  | MNear am => Qle_bool (Qabs (x - am)) tol            (* abs(x - a_mass) <= mtol *)
  | MNonphys => Qlt_b mmtol x
  | MRange lo hi => Qle_bool (lo - mmtol) x && Qle_bool x (hi + mmtol)
  end.

Definition zmin (l : list Z) (d : Z) : Z := fold_left Z.min l d.
Definition zmax (l : list Z) (d : Z) : Z := fold_left Z.max l d.
Definition qmin (l : list Q) (d : Q) : Q := fold_left (fun a b => if Qle_bool a b then a else b) l d.
Definition qmax (l : list Q) (d : Q) : Q := fold_left (fun a b => if Qle_bool a b then b else a) l d.

(** what offer_atomic_number(z) contributes *)
Record zinfo := { zi_z : Z; zi_E : string; zi_a : Z; zi_at : atest; zi_m : Q; zi_mt : mtest }.

(** min/max of the keys and of the values of _el2a2mass[symbol] *)
Definition key_range (e : string) : option (Z * Z) :=
  match map fst (el2a2mass e) with [] => None | a0 :: ks => Some (zmin ks a0, zmax ks a0) end.
Definition mass_range (e : string) : option (Q * Q) :=
  match map snd (el2a2mass e) with [] => None | m0 :: vs => Some (qmin vs m0, qmax vs m0) end.

Definition offer_atomic_number (np : bool) (z : Z) : outcome zinfo :=
  obind (to_E_int z) (fun sym =>
  obind (to_mass_int z) (fun zm =>
  obind (to_A_int z) (fun za =>
  obind (sval (key_range sym) PyValueError) (fun kr =>        (* min() of an empty sequence *)
  obind (sval (mass_range sym) PyValueError) (fun mr =>
  Ok {| zi_z := z; zi_E := sym; zi_a := za;
        zi_at := if np then ANonphys else ARange (fst kr) (snd kr);
        zi_m := zm;
        zi_mt := if np then MNonphys else MRange (fst mr) (snd mr) |}))))).

Inductive zclue := ZNum (z : Z) | ZSym (e : string).

Definition offer_z (np : bool) (c : zclue) : outcome zinfo :=
  match c with
  | ZNum z => offer_atomic_number np z
  | ZSym e => obind (to_Z_strict e) (offer_atomic_number np)      (* offer_element_symbol *)
  end.

Fixpoint mapM {A B} (f : A -> outcome B) (l : list A) : outcome (list B) :=
  match l with
  | [] => Ok []
  | x :: r => obind (f x) (fun y => obind (mapM f r) (fun ys => Ok (y :: ys)))
  end.

Definition opt {A B} (f : A -> B) (o : option A) : list B := match o with Some a => [f a] | None => [] end.

(** second round of evidence *)
Inductive clue := CA (a : Z) | CM (m : Q) | CR (b : bool) | CU (s : string).
Inductive cinfo := IA (a : Z) (a_mass : Q) | IM (m_a : Z) (m : Q) | IR (b : bool) | IU (s : string).

Definition mass_number_of (e : string) (tol : Q) (m : Q) : Z :=
  let ma := round_half_even m in
  match nuclide_mass e ma with
  | Ok t => if Qlt_b tol (Qabs (t - m)) then -1 else ma
  | Err _ => -1                         (* except NotAnElementError (the only class to_mass raises here) *)
  end.

Definition offer_c (e : string) (tol : Q) (c : clue) : outcome cinfo :=
  match c with
  | CA a => obind (nuclide_mass e a) (fun am => Ok (IA a am))          (* offer_mass_number *)
  | CM m => Ok (IM (mass_number_of e tol m) m)                          (* offer_mass_value *)
  | CR b => Ok (IR b)                                                   (* offer_reality *)
  | CU s => Ok (IU (lower s))                                           (* offer_user_label *)
  end.

Definition ci_ax (c : cinfo) : list Z := match c with IA a _ => [a] | IM ma _ => [ma] | _ => [] end.
Definition ci_at (c : cinfo) : list atest := match c with IA a _ => [AEq a] | IM ma _ => [AEq ma] | _ => [] end.
Definition ci_mx (c : cinfo) : list Q := match c with IA _ am => [am] | IM _ m => [m] | _ => [] end.
Definition ci_mt (c : cinfo) : list mtest := match c with IA _ am => [MNear am] | IM _ m => [MEq m] | _ => [] end.
Definition ci_r (c : cinfo) : list bool := match c with IR b => [b] | _ => [] end.
Definition ci_l (c : cinfo) : list string := match c with IU s => [s] | _ => [] end.

(** reconcile(exact, tests, feature): first candidate passing every test *)
Definition pick {A T} (ok : T -> A -> bool) (exact : list A) (tests : list T) : outcome A :=
  sval (find (fun c => forallb (fun t => ok t c) tests) exact) Validation.

Definition zclues_args (i : nuc_in) : list zclue := opt ZNum (nZ i) ++ opt ZSym (nE i).
Definition zclues_label (l : option label_fields) : list zclue :=
  match l with Some f => opt ZNum (lZ f) ++ opt ZSym (lE f) | None => [] end.

Definition clues (i : nuc_in) (l : option label_fields) : list clue :=
  opt CA (nA i) ++ opt CM (nmass i) ++ opt CR (nreal i) ++
  match nlabel i with
  | None => []
  | Some s =>
      if speclabel i then
        match l with
        | Some f => [CR (lreal f)] ++ opt CA (lA f) ++ opt CM (lmass f) ++ opt CU (luser f)
        | None => []
        end
      else [CU s]
  end.

Definition beqb (a b : bool) : bool := Bool.eqb a b.

(** the label is parsed only when given and speclabel is True *)
Definition parse_stage (i : nuc_in) : outcome (option label_fields) :=
  match nlabel i with
  | Some s => if speclabel i then obind (parse_label s) (fun f => Ok (Some f)) else Ok None
  | None => Ok None
  end.

Definition reconcile (i : nuc_in) : outcome nuc_out :=
  obind (mapM (offer_z (nonphysical i)) (zclues_args i)) (fun zi1 =>
  obind (parse_stage i) (fun lbl =>
  obind (mapM (offer_z (nonphysical i)) (zclues_label lbl)) (fun zi2 =>
  let zi := zi1 ++ zi2 in
  obind (pick (fun t x => x =? t) (map zi_z zi) (map zi_z zi)) (fun zf =>
  obind (to_E_int zf) (fun ef =>
  obind (mapM (offer_c ef (mtol i)) (clues i lbl)) (fun ci =>
  obind (pick (m_ok (mtol i)) (map zi_m zi ++ flat_map ci_mx ci) (map zi_mt zi ++ flat_map ci_mt ci)) (fun mf =>
  obind (pick a_ok (map zi_a zi ++ flat_map ci_ax ci) (map zi_at zi ++ flat_map ci_at ci)) (fun af =>
  obind (pick (fun t x => beqb x t) (true :: flat_map ci_r ci) (flat_map ci_r ci)) (fun rf =>
  obind (pick (fun t x => String.eqb x t) (EmptyString :: flat_map ci_l ci) (flat_map ci_l ci)) (fun lf =>
  Ok {| oA := af; oZ := zf; oE := ef; omass := mf; oreal := rf; ouser := lf |})))))))))).

(* ------------------------------------------------------------------------------------------ *)
(** * Comparison with the implementation's answers (correspondence) *)

Definition out_eqb (a b : nuc_out) : bool :=
  (oA a =? oA b) && (oZ a =? oZ b) && String.eqb (oE a) (oE b) && Qeq_bool (omass a) (omass b)
  && beqb (oreal a) (oreal b) && String.eqb (ouser a) (ouser b).

Definition check_case (p : nuc_in * outcome nuc_out) : bool :=
  outcome_eqb out_eqb (reconcile (fst p)) (snd p).

Definition oz_eqb (a b : option Z) : bool :=
  match a, b with Some x, Some y => x =? y | None, None => true | _, _ => false end.
Definition os_eqb (a b : option string) : bool :=
  match a, b with Some x, Some y => String.eqb x y | None, None => true | _, _ => false end.
Definition oq_eqb (a b : option Q) : bool :=
  match a, b with Some x, Some y => Qeq_bool x y | None, None => true | _, _ => false end.
Definition lf_eqb (a b : label_fields) : bool :=
  oz_eqb (lA a) (lA b) && oz_eqb (lZ a) (lZ b) && os_eqb (lE a) (lE b) && oq_eqb (lmass a) (lmass b)
  && beqb (lreal a) (lreal b) && os_eqb (luser a) (luser b).
Definition check_label (p : string * outcome label_fields) : bool :=
  outcome_eqb lf_eqb (parse_label (fst p)) (snd p).
