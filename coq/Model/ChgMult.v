(** C05 — model of qcelemental.molparse.chgmult.validate_and_fill_chgmult (integer charges).
    Hand-written; tied to the implementation by the correspondence check (harness/props/c05.py).
    The candidate lists S1–S7, the rule list R1–R9 and the first-match search over
    itertools.product are transcribed in the code's order. *)
From Coq Require Import ZArith List Bool.
Require Import QV.Common.Outcome.
Import ListNotations.
Open Scope Z_scope.

Record cm_in := {
  felez : list (list Z);          (* np.split(zeff, fragment_separators) *)
  ic : option Z;                  (* molecular_charge *)
  ifc : list (option Z);          (* fragment_charges *)
  im : option Z;                  (* molecular_multiplicity *)
  ifm : list (option Z);          (* fragment_multiplicities *)
  zgf : bool                      (* zero_ghost_fragments *)
}.

Record cm_out := { oc : Z; ofc : list Z; om : Z; ofm : list Z }.

Definition zsum (l : list Z) : Z := fold_right Z.add 0 l.

Definition is_ghost (f : list Z) : bool := forallb (fun z => z =? 0) f.    (* all(f == 0 for f in felez[ifr]) *)
Definition fzel (i : cm_in) : list Z := map zsum (felez i).
Definition zel (i : cm_in) : Z := zsum (fzel i).
Definition ghosts (i : cm_in) : list bool := map is_ghost (felez i).

(* _high_spin_sum *)
Definition hss (l : list Z) : Z := fold_left (fun mm m => mm + (m - 1)) l 1.
Definition apply_default (l : list (option Z)) (d : Z) : list Z :=
  map (fun c => match c with None => d | Some v => v end) l.

Definition is_none {A} (o : option A) : bool := match o with None => true | Some _ => false end.
Definition known_sum (l : list (option Z)) : Z :=        (* sum(filter(None, l)) *)
  zsum (map (fun c => match c with None => 0 | Some v => v end) l).

(* the pre-check: (m and m < 1) or any(f < 1 for f in fm if f) *)
Definition bad_mult (o : option Z) : bool :=
  match o with Some v => negb (v =? 0) && (v <? 1) | None => false end.

(* zero_ghost_fragments adjustment *)
Definition adjust (i : cm_in) : cm_in :=
  if zgf i && existsb (fun g => g) (ghosts i) then
    {| felez := felez i;
       ic := None;
       ifc := map (fun p : bool * option Z => if fst p then Some 0 else snd p) (combine (ghosts i) (ifc i));
       im := None;
       ifm := map (fun p : bool * option Z => if fst p then Some 1 else snd p) (combine (ghosts i) (ifm i));
       zgf := zgf i |}
  else i.

(* range(lo, lo+n) *)
Fixpoint zrange (lo : Z) (n : nat) : list Z :=
  match n with O => [] | S k => lo :: zrange (lo + 1) k end.
Definition py_range (lo hi1 : Z) : list Z := zrange lo (Z.to_nat (hi1 - lo)).   (* range(lo, hi1) *)

(* list.remove(None): remove the first None *)
Fixpoint remove_first_none (l : list (option Z)) : list (option Z) :=
  match l with
  | [] => []
  | None :: r => r
  | Some v :: r => Some v :: remove_first_none r
  end.

Fixpoint dedup_aux (seen : list Z) (l : list Z) : list Z :=
  match l with
  | [] => []
  | x :: r => if existsb (Z.eqb x) seen then dedup_aux seen r else x :: dedup_aux (x :: seen) r
  end.
Definition dedup (l : list Z) : list Z := dedup_aux [] l.            (* unique_everseen *)

(* itertools.product over the lists: leftmost slowest *)
Fixpoint cart (ls : list (list Z)) : list (list Z) :=
  match ls with
  | [] => [[]]
  | l :: r => flat_map (fun x => map (cons x) (cart r)) l
  end.

Definition exact_c (i : cm_in) : list Z :=
  (match ic i with Some c => [c] | None => [] end) ++ [known_sum (ifc i)].

Definition missing_chg (i : cm_in) : Z :=
  (match ic i with Some c => c | None => 0 end) - known_sum (ifc i).

Definition exact_fc (i : cm_in) : list (list Z) :=
  map (fun c => match c with Some v => [v] | None => [missing_chg i; 0] end) (ifc i).

Definition r8_active (i : cm_in) : bool := is_none (im i) || existsb is_none (ifm i).

Definition exact_m (i : cm_in) : list Z :=
  match im i with
  | Some m => [m]
  | None => py_range (hss (apply_default (ifm i) 1)) (hss (apply_default (ifm i) 2) + 1)
  end.

Definition missing_mult_bounds (i : cm_in) : Z * Z :=    (* (lo, hi) *)
  match im i with
  | Some m =>
      if existsb is_none (ifm i) then
        let l := remove_first_none (ifm i) in
        (m - hss (apply_default l 2) + 1, m - hss (apply_default l 1) + 1)
      else (0, 0)
  | None => (0, 0)
  end.

Definition exact_fm (i : cm_in) : list (list Z) :=
  let '(lo, hi) := missing_mult_bounds i in
  map (fun c => match c with
                | Some v => [v]
                | None => rev (py_range (Z.max lo 1) (hi + 1)) ++ [1; 2]
                end) (ifm i).

(* the rule list, as one predicate *)
Definition sufficient (z c m : Z) : bool := m - 1 <=? z - c.
Definition parity_ok (z c m : Z) : bool := negb (m mod 2 =? (z - c) mod 2).

Fixpoint all3 (f : Z -> Z -> Z -> bool) (a b c : list Z) : bool :=
  match a, b, c with
  | x :: a', y :: b', z :: c' => f x y z && all3 f a' b' c'
  | _, _, _ => true
  end.

Fixpoint match_inputs (spec : list (option Z)) (v : list Z) : bool :=
  match spec, v with
  | Some s :: spec', x :: v' => (x =? s) && match_inputs spec' v'
  | None :: spec', _ :: v' => match_inputs spec' v'
  | _, _ => true
  end.

Fixpoint ghost_rule (g : list bool) (fc fm : list Z) : bool :=
  match g, fc, fm with
  | b :: g', c :: fc', m :: fm' => (if b then (c =? 0) && (m =? 1) else true) && ghost_rule g' fc' fm'
  | _, _, _ => true
  end.

Definition rules_ok (i : cm_in) (r : cm_out) : bool :=
  (oc r =? zsum (ofc r))                                                   (* R2 *)
  && (1 <=? om r) && forallb (fun m => 1 <=? m) (ofm r)                    (* R3 *)
  && sufficient (zel i) (oc r) (om r) && all3 sufficient (fzel i) (ofc r) (ofm r)     (* R4 *)
  && parity_ok (zel i) (oc r) (om r) && all3 parity_ok (fzel i) (ofc r) (ofm r)       (* R5 *)
  && match ic i with Some c => oc r =? c | None => true end                (* R6 *)
  && match_inputs (ifc i) (ofc r)
  && match im i with Some m => om r =? m | None => true end                (* R7 *)
  && match_inputs (ifm i) (ofm r)
  && (if r8_active i then om r =? hss (ofm r) else true)                   (* R8 *)
  && ghost_rule (ghosts i) (ofc r) (ofm r).                                (* R9 *)

Definition candidates (i : cm_in) : list cm_out :=
  flat_map (fun c =>
    flat_map (fun fc =>
      flat_map (fun m =>
        map (fun fm => {| oc := c; ofc := fc; om := m; ofm := fm |})
            (cart (map dedup (exact_fm i))))
        (dedup (exact_m i)))
      (cart (map dedup (exact_fc i))))
    (dedup (exact_c i)).

Definition wf_in (i : cm_in) : Prop :=
  length (ifc i) = length (felez i) /\ length (ifm i) = length (felez i).
Definition wf_inb (i : cm_in) : bool :=
  Nat.eqb (length (ifc i)) (length (felez i)) && Nat.eqb (length (ifm i)) (length (felez i)).

Definition fill (i : cm_in) : outcome cm_out :=
  if bad_mult (im i) || existsb bad_mult (ifm i) then Err Validation
  else
    let i' := adjust i in
    match find (rules_ok i') (candidates i') with
    | Some r => Ok r
    | None => Err Validation
    end.

(* equality on results, for the correspondence check *)
Fixpoint zlist_eqb (a b : list Z) : bool :=
  match a, b with
  | [], [] => true
  | x :: a', y :: b' => (x =? y) && zlist_eqb a' b'
  | _, _ => false
  end.
Definition cm_out_eqb (a b : cm_out) : bool :=
  (oc a =? oc b) && zlist_eqb (ofc a) (ofc b) && (om a =? om b) && zlist_eqb (ofm a) (ofm b).
Definition check_case (p : cm_in * outcome cm_out) : bool :=
  outcome_eqb cm_out_eqb (fill (fst p)) (snd p).
