(** C01, float form of the mass: to_mass(atom) = float(mass string), modelled as the correctly rounded
    (nearest, ties-to-even) binary64 of the exact decimal, as significand/exponent pair (m, e) = m * 2^e
    (Common/NearestDouble.v; integer arithmetic only). *)
From Coq Require Import ZArith List String Bool.
Require Import QV.Common.Outcome QV.Common.PyAscii QV.Common.NearestDouble.
Require Import QV.Gen.PTable QV.Model.PeriodicTable.
Import ListNotations.
Open Scope Z_scope.

Definition key_mass_float (k : string) : outcome (Z * Z) :=
  obind (key_mass_dec k) (fun d => Ok (nearest_double d)).
Definition to_mass_float (x : pyval) : outcome (Z * Z) := obind (resolve x false) key_mass_float.

(** (atom, what the implementation returned: the float decomposed exactly into m * 2^e, or the error) *)
Definition check_fmass (c : pyval * outcome (Z * Z)) : bool :=
  outcome_eqb float_eqb (to_mass_float (fst c)) (snd c).

(** per key: the model's float is a normal double (53-bit significand, exponent in range) or exactly zero *)
Definition key_float_ok (k : string) : bool :=
  match key_mass_dec k with
  | Ok (c, ex) => (0 <=? c) && ((c =? 0) || (normal_ok (nearest_double_pos c ex) && (0 <=? fst (nearest_double_pos c ex))))
  | Err _ => false
  end.
