(** C01, float form of the mass: to_mass(atom) = float(mass string), modelled as the correctly rounded
    (nearest, ties-to-even) binary64 of the exact decimal, as significand/exponent pair (m, e) = m * 2^e
    (Common/NearestDouble.v; integer arithmetic only). *)
From Coq Require Import ZArith NArith List String Ascii Bool.
Require Import QV.Common.Outcome QV.Common.PyAscii QV.Common.NearestDouble QV.Common.NearestDoubleNorm.
Require Import QV.Gen.PTable QV.Model.PeriodicTable.
Import ListNotations.
Open Scope Z_scope.

Definition key_mass_float (k : string) : outcome (Z * Z) :=
  obind (key_mass_dec k) (fun d => Ok (nearest_double d)).
Definition to_mass_float (x : pyval) : outcome (Z * Z) := obind (resolve x false) key_mass_float.

(** float(str) modelled on the decimal digit string itself: the string  d...d[.d...d]  denotes n / 10^k (n = the
    integer spelt by all its digits, k = the number of digits after the point); [float_of_decstr] rounds that fraction
    to the nearest binary64 directly ([ndp], Common/NearestDoubleNorm.v). *)
Fixpoint fs_scan (s : string) (num k : Z) (ndig : N) (infrac : bool) : option (Z * Z) :=
  match s with
  | EmptyString => if N.eqb ndig 0 then None else Some (num, k)
  | String c r =>
      match digit_val c with
      | Some d => fs_scan r (num * 10 + d) (if infrac then k + 1 else k) (N.succ ndig) infrac
      | None => if Ascii.eqb c "."%char then (if infrac then None else fs_scan r num k ndig true) else None
      end
  end.

(** the fraction n / 10^k denoted by the string *)
Definition decstr_frac (s : string) : option (Z * Z) :=
  match fs_scan s 0 0 0%N false with Some (n, k) => Some (n, 10 ^ k) | None => None end.

Definition float_of_decstr (s : string) : option (Z * Z) :=
  match fs_scan s 0 0 0%N false with
  | Some (n, k) => Some (if n =? 0 then (0, 0) else ndp n (10 ^ k))
  | None => None
  end.

(** what the result means, stated on the fraction n/d denoted by the string (n > 0): with the fraction scaled by 2^-e
    ([sc]), m has 53 bits (or is 2^53), is within 1/2 of it, and is even on a tie *)
Definition frac_nearest (n d m e : Z) : Prop :=
  let num := fst (sc n d e) in
  let den := snd (sc n d e) in
  0 < den /\ 2 ^ 52 <= m <= 2 ^ 53 /\
  2 * Z.abs (num - m * den) <= den /\ (2 * Z.abs (num - m * den) = den -> Z.even m = true).


(** to_mass(atom) = float(self._eliso2mass[key]) on the shipped string *)
Definition key_mass_float_str (k : string) : outcome (Z * Z) :=
  obind (key_mass_str k) (fun s => match float_of_decstr s with Some f => Ok f | None => Err PyValueError end).
Definition to_mass_float_str (x : pyval) : outcome (Z * Z) := obind (resolve x false) key_mass_float_str.

(** (atom, what the implementation returned: the float decomposed exactly into m * 2^e, or the error) *)
Definition check_fmass (c : pyval * outcome (Z * Z)) : bool :=
  outcome_eqb float_eqb (to_mass_float_str (fst c)) (snd c).

(** per key: the model's float is a normal double (53-bit significand, exponent in range) or exactly zero *)
Definition key_float_ok (k : string) : bool :=
  match key_mass_dec k with
  | Ok (c, ex) => (0 <=? c) && ((c =? 0) || (normal_ok (nearest_double_pos c ex) && (0 <=? fst (nearest_double_pos c ex))))
  | Err _ => false
  end.
