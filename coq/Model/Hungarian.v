(** C14 — model of qcelemental/util/scipy_hungarian.py (linear_sum_assignment, return_cost=True).
    Hand-written transcription over Z; tied to the implementation on every run by differential
    execution of full state traces (harness/props/c14.py).  Definitions only (no proofs).

    Conventions.  A matrix is a list of rows.  numpy whole-array operations are written as
    tabulations over the shape ([tab]); point updates as [mset]/[upd].  Scan orders are numpy's:
    np.nonzero is row-major, np.argmax returns the first maximum (index 0 when nothing matches).
    The loops (`while step is not None`, the `while True` loops of _step4 and _step5) run on fuel
    and return [Err OutOfFuel] when it is exhausted. *)
From Coq Require Import ZArith List Bool Arith Lia.
Require Import QV.Common.Outcome.
Import ListNotations.
Open Scope Z_scope.

Definition mat := list (list Z).
Definition mget (M : mat) (i j : nat) : Z := nth j (nth i M []) 0.
Definition bget (l : list bool) (i : nat) : bool := nth i l false.

Fixpoint upd {A} (l : list A) (i : nat) (v : A) : list A :=
  match l, i with
  | [], _ => []
  | _ :: r, O => v :: r
  | x :: r, S k => x :: upd r k v
  end.
Definition mset (M : mat) (i j : nat) (v : Z) : mat := upd M i (upd (nth i M []) j v).

Definition tab (n m : nat) (f : nat -> nat -> Z) : mat :=
  map (fun i => map (fun j => f i j) (seq 0 m)) (seq 0 n).
Definition btab (n : nat) (f : nat -> bool) : list bool := map f (seq 0 n).

Fixpoint mapi_from {A B} (k : nat) (f : nat -> A -> B) (l : list A) : list B :=
  match l with [] => [] | x :: r => f k x :: mapi_from (S k) f r end.
Definition mapi {A B} (f : nat -> A -> B) (l : list A) : list B := mapi_from O f l.

Definition nrows (M : mat) : nat := length M.
Definition ncols (M : mat) : nat := match M with [] => O | r :: _ => length r end.
Definition rectb (M : mat) (n m : nat) : bool :=
  Nat.eqb (length M) n && forallb (fun r => Nat.eqb (length r) m) M.

Definition transpose (M : mat) : mat := tab (ncols M) (nrows M) (fun i j => mget M j i).

Fixpoint first_idx {A} (p : A -> bool) (l : list A) : option nat :=
  match l with
  | [] => None
  | x :: r => if p x then Some O else option_map S (first_idx p r)
  end.

(* all index pairs of an n x m array in row-major (C) order *)
Definition positions (n m : nat) : list (nat * nat) :=
  flat_map (fun i => map (fun j => (i, j)) (seq 0 m)) (seq 0 n).

Definition lmin (l : list Z) : Z := match l with [] => 0 | x :: r => fold_left Z.min r x end.

Record hstate := {
  hC : mat;                 (* state.C *)
  rowunc : list bool;       (* state.row_uncovered *)
  colunc : list bool;       (* state.col_uncovered *)
  marked : mat;             (* state.marked: 0, 1 (starred), 2 (primed) *)
  z0r : nat; z0c : nat      (* state.Z0_r, state.Z0_c *)
}.
(* state.path is scratch space of _step5 (rewritten from index 0 on every call); it is local to
   [step5] below, where its capacity n+m is kept (IndexError when exceeded). *)

Inductive hstep := S1 | S3 | S4 | S5 | S6 | Done.

Definition init_state (C : mat) : hstate :=
  {| hC := C; rowunc := repeat true (nrows C); colunc := repeat true (ncols C);
     marked := tab (nrows C) (ncols C) (fun _ _ => 0); z0r := O; z0c := O |}.

(** _step1 *)
Definition sub_rowmin (C : mat) : mat := map (fun row => let mn := lmin row in map (fun x => x - mn) row) C.

Definition greedy_one (C : mat) (st : mat * list bool * list bool) (p : nat * nat) : mat * list bool * list bool :=
  let '(mk, ru, cu) := st in
  let '(i, j) := p in
  if (mget C i j =? 0) && bget cu j && bget ru i
  then (mset mk i j 1, upd ru i false, upd cu j false) else st.

Definition step1 (s : hstate) : hstep * hstate :=
  let n := nrows (hC s) in let m := ncols (hC s) in
  let C := sub_rowmin (hC s) in
  let '(mk, _, _) := fold_left (greedy_one C) (positions n m) (marked s, rowunc s, colunc s) in
  (S3, {| hC := C; rowunc := repeat true n; colunc := repeat true m; marked := mk;
          z0r := z0r s; z0c := z0c s |}).

(** _step3 *)
Definition star_in_col (mk : mat) (j : nat) : bool := existsb (fun row => nth j row 0 =? 1) mk.
Definition count_stars (mk : mat) : nat :=
  fold_right (fun row acc => Nat.add (length (filter (fun x => x =? 1) row)) acc) O mk.

Definition step3 (s : hstate) : hstep * hstate :=
  let n := nrows (hC s) in let m := ncols (hC s) in
  let cu := btab m (fun j => if star_in_col (marked s) j then false else bget (colunc s) j) in
  let s' := {| hC := hC s; rowunc := rowunc s; colunc := cu; marked := marked s; z0r := z0r s; z0c := z0c s |} in
  if (count_stars (marked s) <? n)%nat then (S4, s') else (Done, s').

(** _step4 *)
Definition bmat := list (list bool).
Definition bmtab (n m : nat) (f : nat -> nat -> bool) : bmat :=
  map (fun i => map (fun j => f i j) (seq 0 m)) (seq 0 n).
Definition bmget (M : bmat) (i j : nat) : bool := nth j (nth i M []) false.

(* np.unravel_index(np.argmax(covered_C), (n, m)) on a 0/1 array + the test covered_C[row, col] == 0 *)
Fixpoint find_first (M : bmat) : option (nat * nat) :=
  match M with
  | [] => None
  | row :: rest =>
      match first_idx (fun b : bool => b) row with
      | Some j => Some (O, j)
      | None => match find_first rest with Some (i, j) => Some (S i, j) | None => None end
      end
  end.

Fixpoint step4_loop (fuel : nat) (C : mat) (n m : nat) (cov : bmat) (s : hstate) : outcome (hstep * hstate) :=
  match fuel with
  | O => Err OutOfFuel
  | S f =>
      match find_first cov with
      | None => Ok (S6, s)
      | Some (row, col) =>
          let mk := mset (marked s) row col 2 in
          match first_idx (fun x => x =? 1) (nth row mk []) with
          | None => Ok (S5, {| hC := hC s; rowunc := rowunc s; colunc := colunc s; marked := mk;
                               z0r := row; z0c := col |})
          | Some sc =>
              let ru := upd (rowunc s) row false in
              let cu := upd (colunc s) sc true in
              (* covered_C[:, col] = C[:, col] * row_uncovered ; covered_C[row] = 0 *)
              let cov1 := mapi (fun i r => upd r sc ((mget C i sc =? 0) && bget ru i)) cov in
              let cov2 := upd cov1 row (repeat false m) in
              step4_loop f C n m cov2
                {| hC := hC s; rowunc := ru; colunc := cu; marked := mk; z0r := z0r s; z0c := z0c s |}
          end
      end
  end.

Definition step4 (s : hstate) : outcome (hstep * hstate) :=
  let n := nrows (hC s) in let m := ncols (hC s) in
  let cov := bmtab n m (fun i j => (mget (hC s) i j =? 0) && bget (rowunc s) i && bget (colunc s) j) in
  step4_loop (S n) (hC s) n m cov s.

(** _step5 *)
Definition column (mk : mat) (c : nat) : list Z := map (fun r => nth c r 0) mk.

(* acc is the path in reverse; [count] is the index of its last entry; [c] = path[count, 1].
   A missing prime gives col = -1, which numpy resolves to the last column m-1 in every later use. *)
Fixpoint build_path (fuel : nat) (mk : mat) (n m : nat) (count : nat) (c : nat) (acc : list (nat * nat))
  : outcome (list (nat * nat)) :=
  match fuel with
  | O => Err OutOfFuel
  | S f =>
      match first_idx (fun x => x =? 1) (column mk c) with
      | None => Ok acc
      | Some row =>
          if (count + 1 <? n + m)%nat then
            let col := match first_idx (fun x => x =? 2) (nth row mk []) with
                       | Some c' => c' | None => (m - 1)%nat end in
            if (count + 2 <? n + m)%nat
            then build_path f mk n m (count + 2)%nat col ((row, col) :: (row, c) :: acc)
            else Err PyIndexError
          else Err PyIndexError
      end
  end.

Definition toggle (mk : mat) (p : nat * nat) : mat :=
  let '(i, j) := p in if mget mk i j =? 1 then mset mk i j 0 else mset mk i j 1.

Definition erase_primes (mk : mat) : mat := map (map (fun x => if x =? 2 then 0 else x)) mk.

Definition step5 (s : hstate) : outcome (hstep * hstate) :=
  let n := nrows (hC s) in let m := ncols (hC s) in
  match build_path (S (n + m)) (marked s) n m O (z0c s) [(z0r s, z0c s)] with
  | Err k => Err k
  | Ok racc =>
      let mk := fold_left toggle (rev racc) (marked s) in
      Ok (S3, {| hC := hC s; rowunc := repeat true n; colunc := repeat true m; marked := erase_primes mk;
                 z0r := z0r s; z0c := z0c s |})
  end.

(** _step6 *)
Definition uncovered_vals (C : mat) (ru cu : list bool) : list Z :=
  flat_map (fun p : nat * nat => let '(i, j) := p in if bget ru i && bget cu j then [mget C i j] else [])
           (positions (nrows C) (ncols C)).

Definition step6 (s : hstate) : hstep * hstate :=
  let n := nrows (hC s) in let m := ncols (hC s) in
  if existsb (fun b : bool => b) (rowunc s) && existsb (fun b : bool => b) (colunc s) then
    let minval := lmin (uncovered_vals (hC s) (rowunc s) (colunc s)) in
    let C := tab n m (fun i j => mget (hC s) i j + (if bget (rowunc s) i then 0 else minval)
                                                 - (if bget (colunc s) j then minval else 0)) in
    (S4, {| hC := C; rowunc := rowunc s; colunc := colunc s; marked := marked s; z0r := z0r s; z0c := z0c s |})
  else (S4, s).

Definition step (k : hstep) (s : hstate) : outcome (hstep * hstate) :=
  match k with
  | S1 => Ok (step1 s)
  | S3 => Ok (step3 s)
  | S4 => step4 s
  | S5 => step5 s
  | S6 => Ok (step6 s)
  | Done => Ok (Done, s)
  end.

(** while step is not None: step = step(state) *)
Fixpoint run (fuel : nat) (k : hstep) (s : hstate) : outcome hstate :=
  match k with
  | Done => Ok s
  | _ => match fuel with
         | O => Err OutOfFuel
         | S f => match step k s with
                  | Err e => Err e
                  | Ok (k', s') => run f k' s'
                  end
         end
  end.

(** np.nonzero(marked == 1): row-major *)
Definition nonzero1 (M : mat) : list (nat * nat) :=
  filter (fun p : nat * nat => mget M (fst p) (snd p) =? 1) (positions (nrows M) (ncols M)).

Definition result := (list nat * list nat * mat)%type.     (* row_ind, col_ind, reduced cost *)

Definition finish (tr : bool) (s : hstate) : result :=
  let mk := if tr then transpose (marked s) else marked s in
  let R := if tr then transpose (hC s) else hC s in
  let nz := nonzero1 mk in
  (map fst nz, map snd nz, R).

(** linear_sum_assignment(cost, return_cost=True) on a finite integer n x m matrix *)
Definition lsa_fuel (fuel : nat) (C : mat) : outcome result :=
  let n := nrows C in let m := ncols C in
  if Nat.eqb n 0 || Nat.eqb m 0 then Ok ([], [], C)              (* step = None if 0 in shape *)
  else
    let tr := (m <? n)%nat in
    let Cw := if tr then transpose C else C in
    match run fuel S1 (init_state Cw) with
    | Err e => Err e
    | Ok s => Ok (finish tr s)
    end.

Definition default_fuel (C : mat) : nat :=
  let n := Nat.min (nrows C) (ncols C) in ((n + 2) * (2 * n + 8))%nat.
Definition lsa (C : mat) : outcome result := lsa_fuel (default_fuel C) C.

(** input refusal: np.asarray on ragged rows raises ValueError; isinf|isnan raises ValueError *)
Inductive cell := Fin (z : Z) | PInf | NInf | NaN.
Definition is_fin (c : cell) : bool := match c with Fin _ => true | _ => false end.
Definition cell_val (c : cell) : Z := match c with Fin z => z | _ => 0 end.
Definition lsa_in (M : list (list cell)) : outcome result :=
  let m := match M with [] => O | r :: _ => length r end in
  if negb (forallb (fun r => Nat.eqb (length r) m) M) then Err PyValueError
  else if negb (forallb (forallb is_fin) M) then Err PyValueError
  else lsa (map (map cell_val) M).

(** ------------------------------------------------------------------------------------------
    The certificate checker (dual feasibility + complementary slackness), any n x m. *)
Definition dget (C R : mat) (i j : nat) : Z := mget C i j - mget R i j.      (* = u_i + v_j *)
Definition pot_u (C R : mat) (i : nat) : Z := dget C R i 0.
Definition pot_v (C R : mat) (j : nat) : Z := dget C R 0 j - dget C R 0 0.

Fixpoint increasing (l : list nat) : bool :=
  match l with
  | [] => true
  | x :: r => match r with [] => true | y :: _ => (x <? y)%nat end && increasing r
  end.
Fixpoint nodupb (l : list nat) : bool :=
  match l with [] => true | x :: r => negb (existsb (Nat.eqb x) r) && nodupb r end.
Definition memb (x : nat) (l : list nat) : bool := existsb (Nat.eqb x) l.

Definition check_cert (C : mat) (res : result) : bool :=
  let '(rows, cols, R) := res in
  let n := nrows C in let m := ncols C in
  let k := Nat.min n m in
  rectb C n m && rectb R n m
  && Nat.eqb (length rows) k && Nat.eqb (length cols) k
  && increasing rows && nodupb cols
  && forallb (fun i => (i <? n)%nat) rows && forallb (fun j => (j <? m)%nat) cols
  && forallb (forallb (fun x => 0 <=? x)) R
  && forallb (fun p : nat * nat => mget R (fst p) (snd p) =? 0) (combine rows cols)
  && forallb (fun p : nat * nat => dget C R (fst p) (snd p) =? pot_u C R (fst p) + pot_v C R (snd p)) (positions n m)
  && forallb (fun j => memb j cols || forallb (fun j' => pot_v C R j' <=? pot_v C R j) (seq 0 m)) (seq 0 m)
  && forallb (fun i => memb i rows || forallb (fun i' => pot_u C R i' <=? pot_u C R i) (seq 0 n)) (seq 0 n).

(** ------------------------------------------------------------------------------------------
    Correspondence helpers: the same run with a rolling digest of every intermediate state. *)
Definition dP : Z := 18446744073709551615.    (* 2^64 - 1, used as a bit mask: reduction mod 2^64 *)
Definition dB : Z := 1048583.   (* 2^20 + 7 *)
Definition dstep (h x : Z) : Z := Z.land (dB * h + x + 1) dP.
Definition b2z (b : bool) : Z := if b then 1 else 0.
Definition step_code (k : hstep) : Z :=
  match k with S1 => 1 | S3 => 3 | S4 => 4 | S5 => 5 | S6 => 6 | Done => 0 end.
Definition state_words (k : hstep) (s : hstate) : list Z :=
  step_code k :: Z.of_nat (z0r s) :: Z.of_nat (z0c s) ::
  concat (hC s) ++ map b2z (rowunc s) ++ map b2z (colunc s) ++ concat (marked s).
Definition digest_state (h : Z) (k : hstep) (s : hstate) : Z := fold_left dstep (state_words k s) h.

Fixpoint run_tr (fuel : nat) (k : hstep) (s : hstate) (h : Z) (cnt : Z) : outcome hstate * Z * Z :=
  match k with
  | Done => (Ok s, h, cnt)
  | _ => match fuel with
         | O => (Err OutOfFuel, h, cnt)
         | S f => match step k s with
                  | Err e => (Err e, h, cnt)
                  | Ok (k', s') => run_tr f k' s' (digest_state h k' s') (cnt + 1)
                  end
         end
  end.

(* full trace, for the exact-trace stream and diagnostics *)
Fixpoint run_trace (fuel : nat) (k : hstep) (s : hstate) : list (Z * hstate) :=
  match k with
  | Done => []
  | _ => match fuel with
         | O => []
         | S f => match step k s with
                  | Err e => []
                  | Ok (k', s') => (step_code k', s') :: run_trace f k' s'
                  end
         end
  end.

Definition result_words (r : result) : list Z :=
  let '(rows, cols, R) := r in map Z.of_nat rows ++ map Z.of_nat cols ++ concat R.

(* (result, number of steps, digest of all states and of the result) *)
Definition lsa_tr (C : mat) : outcome result * Z * Z :=
  let n := nrows C in let m := ncols C in
  if Nat.eqb n 0 || Nat.eqb m 0 then (Ok ([], [], C), 0, fold_left dstep (result_words ([], [], C)) 7)
  else
    let tr := (m <? n)%nat in
    let Cw := if tr then transpose C else C in
    match run_tr (default_fuel C) S1 (init_state Cw) 7 0 with
    | (Err e, h, cnt) => (Err e, cnt, h)
    | (Ok s, h, cnt) => let r := finish tr s in (Ok r, cnt, fold_left dstep (result_words r) h)
    end.

Definition list_eqb {A} (e : A -> A -> bool) := fix go (a b : list A) : bool :=
  match a, b with
  | [], [] => true
  | x :: a', y :: b' => e x y && go a' b'
  | _, _ => false
  end.
Definition mat_eqb : mat -> mat -> bool := list_eqb (list_eqb Z.eqb).
Definition result_eqb (a b : result) : bool :=
  let '(r1, c1, m1) := a in let '(r2, c2, m2) := b in
  list_eqb Nat.eqb r1 r2 && list_eqb Nat.eqb c1 c2 && mat_eqb m1 m2.

(* full case: input, the implementation's outcome, its number of steps and its digest;
   for Ok outcomes the certificate checker is also run on the implementation's answer *)
Definition check_full (c : mat * outcome result * Z * Z) : bool :=
  let '(C, exp, cnt, dg) := c in
  let '(got, cnt', dg') := lsa_tr C in
  outcome_eqb result_eqb got exp && (cnt' =? cnt) && (dg' =? dg)
  && match exp with Ok r => check_cert C r | Err _ => true end.

(* enumerated case: the k-th n x m matrix over {0..b-1} (row-major, least significant digit first) *)
Fixpoint digits (b : Z) (len : nat) (k : Z) : list Z :=
  match len with O => [] | S l => (k mod b) :: digits b l (k / b) end.
Fixpoint chunk (m : nat) (n : nat) (l : list Z) : mat :=
  match n with O => [] | S n' => firstn m l :: chunk m n' (skipn m l) end.
Definition enum_mat (n m : nat) (b k : Z) : mat := chunk m n (digits b (n * m) k).
Definition check_enum (c : nat * nat * Z * Z * Z * Z) : bool :=
  let '(n, m, b, k, cnt, dg) := c in
  let C := enum_mat n m b k in
  let '(got, cnt', dg') := lsa_tr C in
  (cnt' =? cnt) && (dg' =? dg) && match got with Ok r => check_cert C r | Err _ => false end.

(* exact trace case *)
Definition state_eqb (a b : hstate) : bool :=
  mat_eqb (hC a) (hC b) && list_eqb Bool.eqb (rowunc a) (rowunc b) && list_eqb Bool.eqb (colunc a) (colunc b)
  && mat_eqb (marked a) (marked b) && Nat.eqb (z0r a) (z0r b) && Nat.eqb (z0c a) (z0c b).
Definition check_trace (c : mat * list (Z * hstate)) : bool :=
  let '(Cw, tr) := c in
  list_eqb (fun x y : Z * hstate => (fst x =? fst y) && state_eqb (snd x) (snd y))
           (run_trace (default_fuel Cw) S1 (init_state Cw)) tr.

Definition check_refuse (c : list (list cell) * outcome result) : bool :=
  let '(M, exp) := c in outcome_eqb result_eqb (lsa_in M) exp.
