(** C17: the default (Bohr) value tied to the CODATA data.  Datum.to_units converts with the module singleton
    `constants` (CODATA set [default_codata_year]); pint defines  bohr = <"bohr radius" value> * meter  and
    angstrom = 1e-10 meter, so the exact Angstrom -> Bohr factor is  1 / bohr2angstroms  with
    bohr2angstroms = "bohr radius" * 1.E10 (the alias expression translated from context.py, Gen/Aliases.v). *)
From Coq Require Import ZArith QArith Qabs List String Bool.
Require Import QV.Common.Outcome QV.Common.PyAscii QV.Common.DecC02 QV.Common.NearestDouble.
Require Import QV.Gen.Codata2014 QV.Gen.Codata2018 QV.Gen.Aliases QV.Gen.Radii.
Require Import QV.Model.PeriodicTable QV.Model.Radii.
Import ListNotations.
Open Scope Z_scope.

Definition shipped_default : list (string * string * string * string * string) :=
  if default_codata_year =? 2014 then shipped_2014 else shipped_2018.

(** self.pc[key].data = Decimal(value string) of the shipped CODATA row *)
Fixpoint codata_find (k : string) (rows : list (string * string * string * string * string)) : option string :=
  match rows with
  | [] => None
  | (key, _, _, v, _) :: r => if String.eqb k key then Some v else codata_find k r
  end.
Definition codata_lookup (k : string) : option dec :=
  match codata_find k shipped_default with Some v => parse_dec v | None => None end.

Fixpoint alias_expr (name : string) (l : list (string * string * dexpr * string)) : option dexpr :=
  match l with
  | [] => None
  | (n, _, e, _) :: r => if String.eqb name n then Some e else alias_expr name r
  end.

(** bohr2angstroms: as the Decimal the context computes (28-digit arithmetic) and as the exact rational *)
Definition b2a_expr : option dexpr := alias_expr "bohr2angstroms" aliases_common.
Definition b2a_dec : option dec :=
  match b2a_expr with
  | Some e => match eval_dec codata_lookup pi_literal e with Ok d => Some d | Err _ => None end
  | None => None
  end.
Definition b2a_Q : option Q :=
  match b2a_expr with Some e => eval_Q codata_lookup pi_literal e | None => None end.

(** the default call get(atom): units="bohr", missing=None, return_tuple=False, in exact arithmetic *)
Definition radius_bohr (t : list (string * entry)) (x : pyval) : outcome Q :=
  match b2a_Q with
  | Some b => radius_value t x (fun _ => / b)%Q
  | None => Err PyKeyError
  end.

(** correspondence: (covalent?, atom, exact value of the float the implementation returned by default, or error) *)
Definition tolB : Q := 1 # (2 ^ 50).
Definition check_bohr (c : bool * pyval * outcome Q) : bool :=
  let '(cov, x, want) := c in
  match radius_bohr (if cov then cov_table else vdw_table) x, want with
  | Ok v, Ok w => Qle_bool (Qabs (w - v)) (tolB * Qabs v)
  | Err k, Err k' => ekind_eqb k k'
  | _, _ => false
  end.

(** correspondence: constants.bohr2angstroms (float, decomposed m * 2^e) is the double nearest to the Decimal,
    and the context's name is the translated year *)
Definition check_b2a (c : Z * (Z * Z)) : bool :=
  let '(year, f) := c in
  (year =? default_codata_year) &&
  match b2a_dec with
  | Some d => float_eqb (nearest_double (coef d, dexp d)) f
  | None => false
  end.
