(** C12 — model of the B787 driver for algorithm='permutative' as ONE function: the validation, the
    candidate orderings (Model/KabschPerm.v), the body of the loop for each candidate (kabsch_align on
    cgeom[ordering], the AlignmentMill it builds, the RMSD it measures by applying that recipe to cgeom, the
    same for the y-mirrored geometry when mirror trials are on) and the selection loop (Model/Kabsch.v).
    The candidates are evaluated eagerly (the code consumes a generator and may stop early: the trials it
    then skips cannot raise, see C12_driver_total).  [rmsd_of ssd nat] stands for
    np.around(np.sqrt(ssd) * bohr2angstroms / np.sqrt(nat), decimals=8)  (needs sqrt: a parameter).
    Definitions only. *)
From Coq Require Import List Arith Bool.
Require Import QV.Common.Outcome QV.Common.AlignAlg QV.Common.AlignAlgQuat QV.Gen.Quat QV.Model.Mill QV.Model.Kabsch QV.Model.KabschPerm.
Import ListNotations.

Fixpoint omap {A B} (f : A -> outcome B) (l : list A) : outcome (list B) :=
  match l with
  | [] => Ok []
  | a :: r => obind (f a) (fun b => obind (omap f r) (fun t => Ok (b :: t)))
  end.

Section Driver.
Context {K : Type} {KO : Ops K} {KD : DivOps K}.
Variable eigtop : mat4 K -> quat K.          (* LAPACK: last column of eigh's eigenvector matrix *)
Variables katol krtol : K.                   (* np.allclose defaults in kabsch_align: 1e-8, 1e-5 *)
Variable rmsd_of : K -> nat -> K.
Variables rr cc : nat -> nat -> K.           (* distance matrices of rgeom, cgeom *)
Variables patol prtol : K.                   (* np.allclose(bnbn, cncn, atol=1.0): 1.0, 1e-5 *)

(* icgeom = np.copy(cgeom); icgeom[:, 1] *= -1.0 *)
Definition mirror_geom (C : list (vec3 K)) : list (vec3 K) := map (mirv true) C.

(* one trial of the loop body: (temp_rmsd, temp_solution) *)
Definition trial (mir : bool) (R C : list (vec3 K)) (ordering : list nat) : outcome (K * mill K) :=
  obind (gather (if mir then mirror_geom C else C) ordering) (fun Cp =>
    let o := kabsch_align eigtop katol krtol R Cp in
    let sol := solution_mill o ordering mir in
    obind (align_coordinates sol false C) (fun T => Ok (rmsd_of (sumsq (lsub T R)) (length R), sol))).

Definition trials (dm : bool) (R C : list (vec3 K)) (ordering : list nat) : outcome ((K * mill K) * (K * mill K)) :=
  obind (trial false R C ordering) (fun t1 =>
    if dm then obind (trial true R C ordering) (fun t2 => Ok (t1, t2)) else Ok (t1, t1)).

Definition cand_of (ts : (K * mill K) * (K * mill K)) : cand := {| c_rmsd := fst (fst ts); c_rmsd_m := fst (snd ts) |}.

(* B787(cgeom, rgeom, cuniq, runiq, atoms_map=False, algorithm='permutative', run_mirror, mols_align, run_to_completion)
   -> (rmsd before the final recomputation, hold_solution) *)
Definition b787_permutative (run_mirror superimposable rtc : bool) (aconv hundred : K)
    (runiq cuniq : list nat) (R C : list (vec3 K)) : outcome (K * mill K) :=
  if negb (Nat.eqb (length R) (length C)) then Err Validation
  else
    obind (plausible_orderings rr cc patol prtol runiq cuniq) (fun L =>
    obind (omap (trials (run_mirror && negb superimposable) R C) L) (fun TS =>
    match b787_select run_mirror superimposable rtc aconv hundred (map cand_of TS) with
    | Ok (best, i, mir) =>
        match nth_error TS i with
        | Some ts => Ok (best, snd (if mir then snd ts else fst ts))
        | None => Err PyIndexError
        end
    | Err e => Err e
    end)).
End Driver.

(** ---- correspondence checker (K = Q): one trial of the real loop of B787, observed by tapping kabsch_align,
    numpy.linalg.eigh and AlignmentMill.align_coordinates during a B787 call ---- *)
From Coq Require Import ZArith QArith Qabs.
Inductive dcase :=
| DTrial (tol : Q) (mir : bool) (R C : list (vec3 Q)) (ordering : list nat) (q : quat Q) (b2a rmsd : Q)
         (RR : mat3 Q) (TT : vec3 Q) (T : list (vec3 Q)).

Definition check_dcase (c : dcase) : bool :=
  match c with
  | DTrial tol mir R C ordering q b2a rmsd RR TT T =>
      match trial (fun _ => q) atol_q rtol_q (fun s _ => s) mir R C ordering with
      | Ok (ssd, sol) =>
          qm_close tol (Mill.rot sol) RR && qv_close tol (Mill.shift sol) TT
          && (if list_eq_dec Nat.eq_dec (Mill.amap sol) ordering then true else false) && Bool.eqb (Mill.mirror sol) mir
          && qclose tol (rmsd * rmsd * inject_Z (Z.of_nat (length R))) (ssd * b2a * b2a)
          && match align_coordinates sol false C with Ok T' => all2 (vclose tol) T' T | Err _ => false end
      | Err _ => false
      end
  end.
