(** Model of qcelemental/periodic_table.py (class PeriodicTable) over the generated tables
    Gen/PTable.v (shipped nist_2011_atomic_weights arrays) and Gen/PeriodGroup.v (the period ladder
    and group membership chain), plus the *specification side*: what NIST SRD-144 (Gen/Srd144.v, raw
    JSON strings) says about every element and isotope, recomputed here in Gallina.
    Definitions only (no proofs) so that the model still runs when a proof breaks. *)
From Coq Require Import ZArith NArith List String Ascii Bool.
Require Import QV.Common.Outcome QV.Common.PyAscii.
Require Import QV.Gen.PTable QV.Gen.PeriodGroup QV.Gen.Srd144.
Import ListNotations.
Open Scope Z_scope.

(* ------------------------------------------------------------------------------------------ *)
(** * Python values accepted as atom identifiers: int or (ASCII) str *)
Inductive pyval := PInt (z : Z) | PStr (s : string).

(** dict(zip(keys, values)) [k]: zip stops at the shorter list; a later duplicate key wins. *)
Fixpoint zip_get {K V} (eqb : K -> K -> bool) (k : K) (ks : list K) (vs : list V) (acc : option V) : option V :=
  match ks, vs with
  | k' :: kr, v :: vr => zip_get eqb k kr vr (if eqb k k' then Some v else acc)
  | _, _ => acc
  end.
Definition sdict {V} (ks : list string) (vs : list V) (k : string) : option V := zip_get String.eqb k ks vs None.
Definition zdict {V} (ks : list Z) (vs : list V) (k : Z) : option V := zip_get Z.eqb k ks vs None.

(** __init__ (periodic_table.py:42-66) *)
Definition el2z : string -> option Z := sdict pt_E pt_Z.
Definition z2el : Z -> option string := zdict pt_Z pt_E.
Definition element2el : string -> option string := sdict pt_name pt_E.
Definition el2element : string -> option string := sdict pt_E pt_name.
Definition eliso2mass : string -> option string := sdict pt_EA pt_mass_str.
Definition eliso2el : string -> option string := sdict pt_EA pt_EE.
Definition eliso2a : string -> option Z := sdict pt_EA pt_A.

(** int(atom) for the two identifier types *)
Definition pyint (x : pyval) : outcome Z :=
  match x with
  | PInt z => Ok z
  | PStr s => pyint_str s
  end.

(** resolve_eliso (periodic_table.py:74-91): the try/except cascade.
    step 1  self._eliso2mass[atom.capitalize()]      (int has no .capitalize -> AttributeError -> step 2)
    step 2  self._z2el[int(atom)]                    (ValueError / KeyError -> step 3)
    step 3  self._element2el[atom.capitalize()]      (KeyError / AttributeError -> NotAnElementError) *)
Definition step3 (x : pyval) : outcome string :=
  match x with
  | PStr s => match element2el (capitalize s) with Some e => Ok e | None => Err NotAnElement end
  | PInt _ => Err NotAnElement
  end.
Definition step2 (x : pyval) : outcome string :=
  match pyint x with
  | Ok z => match z2el z with Some e => Ok e | None => step3 x end
  | Err _ => step3 x
  end.
Definition resolve_eliso (x : pyval) : outcome string :=
  match x with
  | PStr s => match eliso2mass (capitalize s) with Some _ => Ok (capitalize s) | None => step2 x end
  | PInt _ => step2 x
  end.

(** _resolve_atom_to_key (periodic_table.py:68-98): `if strict and eliso not in self.E: raise` *)
Definition strict_filter (strict : bool) (k : string) : outcome string :=
  if strict && negb (str_mem k pt_E) then Err NotAnElement else Ok k.
Definition resolve (x : pyval) (strict : bool) : outcome string :=
  obind (resolve_eliso x) (strict_filter strict).

(** a missing dictionary key is a KeyError *)
Definition getk {A} (o : option A) : outcome A := match o with Some a => Ok a | None => Err PyKeyError end.

(** Decimal(str) for plain decimal literals  digits [. digits]  ->  (coefficient, exponent);
    anything else (signs, exponents, NaN, ...) is not produced by the shipped table: ValueError here. *)
Definition digit_val (c : ascii) : option Z :=
  let n := N_of_ascii c in if N.leb 48 n && N.leb n 57 then Some (Z.of_N (n - 48)) else None.
Fixpoint dec_scan (s : string) (coef : Z) (ndig : N) (frac : option Z) : option (Z * Z) :=
  match s with
  | EmptyString => if N.eqb ndig 0 then None else Some (coef, match frac with Some f => - f | None => 0 end)
  | String c r =>
      match digit_val c with
      | Some d => dec_scan r (coef * 10 + d) (N.succ ndig) (match frac with Some f => Some (f + 1) | None => None end)
      | None => if Ascii.eqb c "."%char
                then match frac with None => dec_scan r coef ndig (Some 0) | Some _ => None end
                else None
      end
  end.
Definition dec_of_string (s : string) : option (Z * Z) := dec_scan s 0 0%N None.
Definition pydecimal (m : string) : outcome (Z * Z) :=
  match dec_of_string m with Some d => Ok d | None => Err PyValueError end.

(** what each accessor does with the resolved key *)
Definition key_E (k : string) : outcome string := getk (eliso2el k).
Definition key_Z (k : string) : outcome Z := obind (key_E k) (fun e => getk (el2z e)).
Definition key_name (k : string) : outcome string := obind (key_E k) (fun e => getk (el2element e)).
Definition key_A (k : string) : outcome Z := getk (eliso2a k).
Definition key_mass_str (k : string) : outcome string := getk (eliso2mass k).
Definition key_mass_dec (k : string) : outcome (Z * Z) := obind (key_mass_str k) pydecimal.

(** the accessors *)
Definition to_Z (x : pyval) (strict : bool) : outcome Z := obind (resolve x strict) key_Z.
Definition to_E (x : pyval) (strict : bool) : outcome string := obind (resolve x strict) key_E.
Definition to_element (x : pyval) (strict : bool) : outcome string := obind (resolve x strict) key_name.
Definition to_A (x : pyval) : outcome Z := obind (resolve x false) key_A.
(** to_mass(..., return_decimal=True): Decimal(mass string) as (coefficient, exponent) *)
Definition to_mass_str (x : pyval) : outcome string := obind (resolve x false) key_mass_str.
Definition to_mass_dec (x : pyval) : outcome (Z * Z) := obind (resolve x false) key_mass_dec.
Definition to_period (x : pyval) : outcome (option Z) := obind (to_Z x false) (fun z => Ok (gen_period z)).
Definition to_group (x : pyval) : outcome (option Z) := obind (to_Z x false) (fun z => Ok (gen_group z)).

(* ------------------------------------------------------------------------------------------ *)
(** * Specification side: NIST SRD-144 read from the raw JSON strings *)

(** regex (?P<value>[\d.]+)(?P<uncertainty>\([\d#]+\))? matched at the start: the value is the longest
    prefix of digits and dots *)
Fixpoint value_part (s : string) : string :=
  match s with
  | EmptyString => EmptyString
  | String c r => match digit_val c with
                  | Some _ => String c (value_part r)
                  | None => if Ascii.eqb c "."%char then String c (value_part r) else EmptyString
                  end
  end.

Fixpoint assoc_s {V} (k : string) (l : list (string * V)) : option V :=
  match l with
  | [] => None
  | (k', v) :: r => if String.eqb k k' then Some v else assoc_s k r
  end.

(** 2016 IUPAC names for the three placeholder symbols of the 2011 table *)
Definition rename (s : string) : string := match assoc_s s srd_newnames with Some n => n | None => s end.

Definition zint (s : string) : option Z := match pyint_str s with Ok z => Some z | Err _ => None end.

Definition e_sym (e : srd_elem) : string := rename (fst (fst e)).
Definition e_Z (e : srd_elem) : option Z := zint (snd (fst e)).
Definition e_isos (e : srd_elem) : list srd_iso := snd e.
Definition i_sym (i : srd_iso) : string := match i with (s, _, _, _) => rename s end.
Definition i_Astr (i : srd_iso) : string := match i with (_, a, _, _) => a end.
Definition i_A (i : srd_iso) : option Z := zint (i_Astr i).
Definition i_mass_str (i : srd_iso) : string := match i with (_, _, m, _) => value_part m end.
Definition i_mass (i : srd_iso) : option (Z * Z) := dec_of_string (i_mass_str i).
Definition i_comp (i : srd_iso) : option (Z * Z) :=
  match i with (_, _, _, Some c) => dec_of_string (value_part c) | _ => None end.

(** Names of an isotope of element [S]: the systematic label S ++ mass number; an isotope carrying
    its own symbol in the NIST table (D, T) is addressable by that symbol too. *)
Definition i_labels (S : string) (i : srd_iso) : list string :=
  if String.eqb (i_sym i) S then [S ++ i_Astr i]%string else [i_sym i; (S ++ i_Astr i)%string].

(** exact comparison of decimals  c1*10^e1 > c2*10^e2 *)
Definition dec_gt (a b : Z * Z) : bool :=
  let m := Z.min (snd a) (snd b) in
  Z.gtb (fst a * 10 ^ (snd a - m)) (fst b * 10 ^ (snd b - m)).

(** most abundant isotope: strictly larger composition replaces the current choice, starting from 0 *)
Fixpoint most_abundant (isos : list srd_iso) (best : option srd_iso) (bestc : Z * Z) : option srd_iso :=
  match isos with
  | [] => best
  | i :: r => match i_comp i with
              | Some c => if dec_gt c bestc then most_abundant r (Some i) c else most_abundant r best bestc
              | None => most_abundant r best bestc
              end
  end.

Fixpoint find_A (a : Z) (isos : list srd_iso) : option srd_iso :=
  match isos with
  | [] => None
  | i :: r => match i_A i with
              | Some a' => if Z.eqb a a' then Some i else find_A a r
              | None => find_A a r
              end
  end.

(** the isotope a bare element stands for: most abundant, else the tabulated longest-lived one *)
Definition default_iso (e : srd_elem) : option srd_iso :=
  match most_abundant (e_isos e) None (0, 0) with
  | Some i => Some i
  | None => match assoc_s (e_sym e) srd_longest_lived with
            | Some a => find_A a (e_isos e)
            | None => None
            end
  end.

Definition e_name (e : srd_elem) : option string :=
  match e_Z e with
  | Some z => if Z.leb 1 z then option_map capitalize (nth_error srd_names (Z.to_nat (z - 1))) else None
  | None => None
  end.

(** the dummy rows of build_periodic_table.py (Gen/Srd144.v): species (EE, EA, A, mass string) *)
Definition dm_EE (r : string * string * Z * string) : string := match r with (ee, _, _, _) => ee end.
Definition dm_EA (r : string * string * Z * string) : string := match r with (_, ea, _, _) => ea end.
Definition dm_A (r : string * string * Z * string) : Z := match r with (_, _, a, _) => a end.
Definition dm_mass (r : string * string * Z * string) : string := match r with (_, _, _, m) => m end.
Definition dummy_labels : list string := map dm_EA srd_dummy_species.

(** Standard 18-column layout written from the noble-gas boundaries 2,10,18,36,54,86,118. *)
Definition nobles : list Z := [2; 10; 18; 36; 54; 86; 118].
Definition ref_period (z : Z) : Z := 1 + Z.of_nat (List.length (filter (fun n => Z.ltb n z) nobles)).
(** start (alkali / hydrogen) of the period containing z, for 1 <= z <= 118 *)
Definition period_start (z : Z) : Z := 1 + fold_left (fun acc n => if Z.ltb n z then n else acc) nobles 0.
Definition ref_group (z : Z) : option Z :=
  if (z <? 1) || (118 <? z) then None else
  let p := z - period_start z in        (* 0-based position in the period *)
  match ref_period z with
  | 1 => if p =? 0 then Some 1 else Some 18
  | 2 | 3 => if p <? 2 then Some (p + 1) else Some (p + 11)         (* 8 columns: 1,2,13..18 *)
  | 4 | 5 => Some (p + 1)                                            (* 18 columns *)
  | _ => if p <? 2 then Some (p + 1)                                 (* 32: 1,2, 15 f-block (no group), 4..18 *)
         else if p <? 17 then None else Some (p - 13)
  end.

(* ------------------------------------------------------------------------------------------ *)
(** * One observation = everything the public accessors say about one identifier *)
Record obs := {
  o_keyF : outcome string; o_keyT : outcome string;
  o_ZF : outcome Z; o_ZT : outcome Z;
  o_EF : outcome string; o_ET : outcome string;
  o_nameF : outcome string; o_nameT : outcome string;
  o_A : outcome Z; o_mass : outcome (Z * Z);
  o_period : outcome (option Z); o_group : outcome (option Z) }.

(** the record of accessor calls, as stated *)
Definition observe_spec (x : pyval) : obs :=
  {| o_keyF := resolve x false; o_keyT := resolve x true;
     o_ZF := to_Z x false; o_ZT := to_Z x true;
     o_EF := to_E x false; o_ET := to_E x true;
     o_nameF := to_element x false; o_nameT := to_element x true;
     o_A := to_A x; o_mass := to_mass_dec x;
     o_period := to_period x; o_group := to_group x |}.

(** the same record computed with sharing (one resolution, one table walk per column); proved equal
    to [observe_spec] in Proofs/PeriodicTable.v *)
Definition gate {A} (k : outcome string) (v : outcome A) : outcome A :=
  match k with Ok _ => v | Err e => Err e end.
Definition observe (x : pyval) : obs :=
  match resolve_eliso x with
  | Err e => {| o_keyF := Err e; o_keyT := Err e; o_ZF := Err e; o_ZT := Err e; o_EF := Err e; o_ET := Err e;
                o_nameF := Err e; o_nameT := Err e; o_A := Err e; o_mass := Err e;
                o_period := Err e; o_group := Err e |}
  | Ok k =>
      let kT := strict_filter true k in
      let e := key_E k in
      let z := obind e (fun e => getk (el2z e)) in
      let n := obind e (fun e => getk (el2element e)) in
      {| o_keyF := Ok k; o_keyT := kT; o_ZF := z; o_ZT := gate kT z; o_EF := e; o_ET := gate kT e;
         o_nameF := n; o_nameT := gate kT n; o_A := key_A k; o_mass := key_mass_dec k;
         o_period := obind z (fun z => Ok (gen_period z)); o_group := obind z (fun z => Ok (gen_group z)) |}
  end.

Definition pair_eqb (a b : Z * Z) : bool := Z.eqb (fst a) (fst b) && Z.eqb (snd a) (snd b).
Definition optz_eqb (a b : option Z) : bool :=
  match a, b with Some x, Some y => Z.eqb x y | None, None => true | _, _ => false end.

Definition obs_eqb (a b : obs) : bool :=
  outcome_eqb String.eqb (o_keyF a) (o_keyF b) && outcome_eqb String.eqb (o_keyT a) (o_keyT b) &&
  outcome_eqb Z.eqb (o_ZF a) (o_ZF b) && outcome_eqb Z.eqb (o_ZT a) (o_ZT b) &&
  outcome_eqb String.eqb (o_EF a) (o_EF b) && outcome_eqb String.eqb (o_ET a) (o_ET b) &&
  outcome_eqb String.eqb (o_nameF a) (o_nameF b) && outcome_eqb String.eqb (o_nameT a) (o_nameT b) &&
  outcome_eqb Z.eqb (o_A a) (o_A b) && outcome_eqb pair_eqb (o_mass a) (o_mass b) &&
  outcome_eqb optz_eqb (o_period a) (o_period b) && outcome_eqb optz_eqb (o_group a) (o_group b).

(** compact encodings of what the implementation answered (rendered by harness/props/c01.py) *)
Inductive expected :=
| XAll (key : string) (z : Z) (e name : string) (a : Z) (mass : Z * Z) (p g : option Z) (strict_ok : bool)
| XErr (k : ekind)
| XGen (o : obs).

Definition if_strict {A} (sok : bool) (v : A) : outcome A := if sok then Ok v else Err NotAnElement.
Definition expand (x : expected) : obs :=
  match x with
  | XAll key z e name a m p g sok =>
      {| o_keyF := Ok key; o_keyT := if_strict sok key; o_ZF := Ok z; o_ZT := if_strict sok z;
         o_EF := Ok e; o_ET := if_strict sok e;
         o_nameF := Ok name; o_nameT := if_strict sok name; o_A := Ok a; o_mass := Ok m;
         o_period := Ok p; o_group := Ok g |}
  | XErr k =>
      {| o_keyF := Err k; o_keyT := Err k; o_ZF := Err k; o_ZT := Err k; o_EF := Err k; o_ET := Err k;
         o_nameF := Err k; o_nameT := Err k; o_A := Err k; o_mass := Err k;
         o_period := Err k; o_group := Err k |}
  | XGen o => o
  end.

Definition check_case (c : pyval * expected) : bool := obs_eqb (observe (fst c)) (expand (snd c)).

(** correspondence of the int() model on its own: (string, what CPython's int() returned) *)
Definition check_int (c : string * outcome Z) : bool := outcome_eqb Z.eqb (pyint_str (fst c)) (snd c).
(** ... and of capitalize / lower / str(int) *)
Definition check_cap (c : string * (string * string)) : bool :=
  String.eqb (capitalize (fst c)) (fst (snd c)) && String.eqb (lower (fst c)) (snd (snd c)).
Definition check_str_of_Z (c : Z * string) : bool := String.eqb (str_of_Z (fst c)) (snd c).
