(** C04 — model of the two other entry points of molecule validation, as far as they are logic of their own:
    - qcelemental.molparse.from_schema: schema_name / schema_version sniffing, the default fragment pattern,
      contiguize_from_fragment_pattern (cumulative sizes, the "nothing to do" fast path, the skipped-atom test, the
      reorder test with throw_reorder=True, the geometry / column length checks and the fancy-index reordering itself),
      then the hand-over to from_arrays (Model/MolRec.v) with units Bohr, speclabel False and default settings;
    - qcelemental.molparse.to_schema (dtype 1 and 2) on Bohr records;
    - the fragment bookkeeping of Molecule.__init__(validate=True): _filter_defaults drops a single all-atom
      fragment, and {**kwargs, **schema} then keeps whatever the caller passed.
    Hand-written in the code's order, with the exceptions the code raises; the constants (sniffed name prefixes and
    versions, from_arrays keyword defaults) come from Gen/MolConsts.v, regenerated from /repo on every run.
    Tied to the implementation by the correspondence check (harness/props/c04.py, stream "schema").
    No proofs in this file. *)
From Coq Require Import ZArith List Bool String Ascii QArith.
Require Import QV.Common.Outcome QV.Model.Nucleus QV.Model.ChgMult QV.Gen.MolConsts QV.Model.MolRec.
Import ListNotations.
Open Scope list_scope.
Open Scope Z_scope.

(** a QCSchema molecule dictionary; [None] = key absent.  schema_version 1 wraps the body under "molecule". *)
Record schema := {
  sc_name : option string; sc_version : option Z;
  sc_symbols : list string; sc_geom : list Q;
  sc_elea : option (list (option Z)); sc_elez : option (list (option Z)); sc_mass : option (list (option Q));
  sc_real : option (list (option bool)); sc_elbl : option (list (option string));
  sc_frags : option (list (list Z));
  sc_fchg : option (list (option Z)); sc_fmult : option (list (option Z)); sc_chg : option Z; sc_mult : option Z;
  sc_fix_com : option bool; sc_fix_orientation : option bool; sc_fix_symmetry : option string;
  sc_conn : option (list (Z * Z * Q)) }.

(* ------------------------------------------------------------------------------------------ *)
(** * schema_name / schema_version *)

Definition sniff (s : schema) : outcome unit :=
  let nm := match sc_name s with Some n => n | None => EmptyString end in
  let ver v := match sc_version s with Some x => x =? v | None => false end in
  if existsb (fun p => String.prefix p nm) sniff_v1_prefixes && ver sniff_v1_version then Ok tt
  else if String.prefix sniff_v2_prefix nm && ver sniff_v2_version then Ok tt
  else Err Validation.

(* ------------------------------------------------------------------------------------------ *)
(** * contiguize_from_fragment_pattern (throw_reorder = True) *)

Fixpoint cumsum (acc : Z) (l : list Z) : list Z :=
  match l with [] => [] | x :: r => (acc + x) :: cumsum (acc + x) r end.
Definition lens (p : list (list Z)) : list Z := map (fun fr => Z.of_nat (List.length fr)) p.
(** np.all(np.diff(fr) == 1) *)
Fixpoint diffs_one (fr : list Z) : bool :=
  match fr with a :: ((b :: _) as r) => (b - a =? 1) && diffs_one r | _ => true end.
(** len(fr) == 0 or fr[0] == 0 *)
Definition starts_at_zero (fr : list Z) : bool := match fr with [] => true | x :: _ => x =? 0 end.
(** np.arange(n) *)
Definition zseq (n : Z) : list Z := map Z.of_nat (seq 0 (Z.to_nat n)).

(** arr[fr] with numpy's fancy-index semantics (negative indices wrap, out of range raises IndexError) *)
Definition take_idx {A} (arr : list A) (fr : list Z) : outcome (list A) :=
  mapM (fun i => let n := Z.of_nat (List.length arr) in
                 let j := if i <? 0 then i + n else i in
                 if (0 <=? j) && (j <? n) then sval (nth_error arr (Z.to_nat j)) PyIndexError else Err PyIndexError) fr.

(** reorder(arr) *)
Definition reorder {A} (nat : Z) (pat : list (list Z)) (arr : list A) : outcome (list A) :=
  if negb (Z.of_nat (List.length arr) =? nat) then Err Validation      (* "wrong number of atoms in array" *)
  else obind (mapM (take_idx arr) pat) (fun ps => Ok (List.concat ps)).
Definition reorder_opt {A} (nat : Z) (pat : list (list Z)) (o : option (list A)) : outcome (option (list A)) :=
  match o with None => Ok None | Some a => obind (reorder nat pat a) (fun x => Ok (Some x)) end.

Record contig := {
  c_seps : list Z; c_geom : list Q;
  c_elea : option (list (option Z)); c_elez : option (list (option Z)); c_elem : option (list (option string));
  c_mass : option (list (option Q)); c_real : option (list (option bool)); c_elbl : option (list (option string)) }.

(** _as_nat_by_3 and the "dropped atoms" test *)
Definition geom_rows (nat : Z) (g : list Q) : outcome (list (Q * Q * Q)) :=
  obind (triples g) (fun pts => if negb (Z.of_nat (List.length pts) =? nat) then Err Validation else Ok pts).

Definition contiguize (pat : list (list Z)) (g : list Q)
    (ea ez : option (list (option Z))) (ee : option (list (option string))) (em : option (list (option Q)))
    (er : option (list (option bool))) (el : option (list (option string))) : outcome contig :=
  if is_nil pat then Err Validation else                     (* "Fragmentation pattern is empty" (since 361a5b1) *)
  match rev (cumsum 0 (lens pat)) with
  | [] => Err PyIndexError                                   (* unreachable: vsplt[-1] of a non-empty cumsum *)
  | nat :: rseps =>
      let seps := rev rseps in
      if (match pat with [fr] => diffs_one fr && starts_at_zero fr | _ => false end) then
        (* "Nothing to do for len = 1 and ordered" (since 2b49794 only for a run that starts at atom 0):
           everything handed through as it came *)
        obind (geom_rows nat g) (fun _ =>
        Ok {| c_seps := seps; c_geom := g; c_elea := ea; c_elez := ez; c_elem := ee; c_mass := em; c_real := er; c_elbl := el |})
      else if negb (list_eqb Z.eqb (sort_by Z.leb (List.concat pat)) (zseq nat)) then Err Validation   (* skips atoms *)
      else if negb (list_eqb Z.eqb (List.concat pat) (zseq nat)) then Err Validation                    (* would reorder *)
      else
        obind (geom_rows nat g) (fun pts =>
        obind (reorder nat pat pts) (fun pts' =>
        obind (reorder_opt nat pat ea) (fun ea' =>
        obind (reorder_opt nat pat ez) (fun ez' =>
        obind (reorder_opt nat pat ee) (fun ee' =>
        obind (reorder_opt nat pat em) (fun em' =>
        obind (reorder_opt nat pat er) (fun er' =>
        obind (reorder_opt nat pat el) (fun el' =>
        Ok {| c_seps := seps; c_geom := flatten3 pts'; c_elea := ea'; c_elez := ez'; c_elem := ee'; c_mass := em';
              c_real := er'; c_elbl := el' |}))))))))
  end.

(* ------------------------------------------------------------------------------------------ *)
(** * from_schema *)

Definition frag_pattern (s : schema) : list (list Z) :=
  match sc_frags s with Some p => p | None => [zseq (Z.of_nat (List.length (sc_symbols s)))] end.

Definition schema_raw (s : schema) (np : bool) (c : contig) : raw :=
  {| r_geom := c_geom c; r_elea := c_elea c; r_elez := c_elez c; r_elem := c_elem c; r_mass := c_mass c;
     r_real := c_real c; r_elbl := c_elbl c; r_units := "Bohr"; r_iutau := None;
     r_fix_com := sc_fix_com s; r_fix_orientation := sc_fix_orientation s; r_fix_symmetry := sc_fix_symmetry s;
     r_seps := Some (c_seps c); r_fchg := sc_fchg s; r_fmult := sc_fmult s; r_chg := sc_chg s; r_mult := sc_mult s;
     r_conn := sc_conn s; r_speclabel := false; r_tooclose := default_tooclose; r_zgf := default_zgf;
     r_nonphysical := np; r_mtol := default_mtol; r_minimal := false |}.

Definition from_schema (s : schema) (np : bool) : outcome molrec :=
  obind (sniff s) (fun _ =>
  obind (contiguize (frag_pattern s) (sc_geom s) (sc_elea s) (sc_elez s) (Some (map Some (sc_symbols s))) (sc_mass s) (sc_real s) (sc_elbl s))
        (fun c => from_arrays (schema_raw s np c))).

(* ------------------------------------------------------------------------------------------ *)
(** * to_schema (dtype 1, 2) of a record whose units are Bohr *)

Definition pieces (m : molrec) : list (list Z) := np_split (zseq (Z.of_nat (List.length (m_elem m)))) (m_seps m).

Definition to_schema (dtype : Z) (m : molrec) : schema :=
  {| sc_name := Some (if (dtype =? 1)%Z then "qcschema_input"%string else "qcschema_molecule"%string); sc_version := Some dtype;
     sc_symbols := m_elem m; sc_geom := m_geom m;
     sc_elea := Some (map Some (m_elea m)); sc_elez := Some (map Some (m_elez m)); sc_mass := Some (map Some (m_mass m));
     sc_real := Some (map Some (m_real m)); sc_elbl := Some (map Some (m_elbl m));
     sc_frags := Some (pieces m);
     sc_fchg := Some (map Some (m_fchg m)); sc_fmult := Some (map Some (m_fmult m)); sc_chg := Some (m_chg m); sc_mult := Some (m_mult m);
     sc_fix_com := Some (m_fix_com m); sc_fix_orientation := Some (m_fix_orientation m); sc_fix_symmetry := m_fix_symmetry m;
     sc_conn := m_conn m |}.

(* ------------------------------------------------------------------------------------------ *)
(** * Molecule(kwargs).fragments after validation *)

(** _filter_defaults: a single fragment holding every atom in order is dropped ... *)
Definition filter_fragments (n : Z) (frs : list (list Z)) : option (list (list Z)) :=
  if list_eqb (list_eqb Z.eqb) frs [zseq n] then None else Some frs.
(** ... and {**kwargs, **schema} then leaves the caller's keyword in place (property default: one all-atom fragment) *)
Definition molecule_fragments (s : schema) (m : molrec) : list (list Z) :=
  let n := Z.of_nat (List.length (m_elem m)) in
  match filter_fragments n (pieces m) with
  | Some frs => frs
  | None => match sc_frags s with Some p => p | None => [zseq n] end
  end.

(* ------------------------------------------------------------------------------------------ *)
(** * Comparison with the implementation's answers (correspondence) *)

Definition check_schema (p : (schema * bool) * outcome molrec) : bool :=
  outcome_eqb molrec_eqb (from_schema (fst (fst p)) (snd (fst p))) (snd p).

(** Molecule(kwargs): accepted iff from_schema accepts, and then .fragments is [molecule_fragments] *)
Definition check_molfrags (p : (schema * bool) * option (list (list Z))) : bool :=
  match from_schema (fst (fst p)) (snd (fst p)), snd p with
  | Ok m, Some frs => list_eqb (list_eqb Z.eqb) (molecule_fragments (fst (fst p)) m) frs
  | Err _, None => true
  | _, _ => false
  end.

(** from_schema (to_schema m): the record comes back (separators normalised) *)
Definition check_roundtrip (p : (Z * molrec) * outcome molrec) : bool :=
  outcome_eqb molrec_eqb (from_schema (to_schema (fst (fst p)) (snd (fst p))) false) (snd p).
