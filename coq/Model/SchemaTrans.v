(** C09 — whole-record model of molparse.to_schema (QCSchema dtypes 1 and 2) and molparse.from_schema, on the molrec
    of Model/MolRec.v (C04's model of from_arrays, which from_schema calls).  Definitions only.

    to_schema:   every per-atom / per-fragment / frame field of the molrec is copied under its schema key (the key table is
                 Gen/SchemaKeys.v [to_schema_fields], read from the AST on every run), the geometry goes through the unit
                 branch ([geom_scale], Gen/ToSchemaGen.v), fragments = np.split(np.arange(nat), fragment_separators) with
                 numpy's (Python slice) semantics, header per dtype ([to_schema_header]).
    from_schema: recognition rules on schema_name/schema_version ([from_schema_rules]), fragment pattern (default: one
                 fragment), contiguize_from_fragment_pattern(throw_reorder=True), from_arrays with units "Bohr",
                 input_units_to_au None, speclabel False and from_arrays' own defaults ([fa_default_*]).
    Not carried: name, comment, provenance (opaque pass-through values; oracle on the implementation). *)
From Coq Require Import ZArith List Bool String QArith.
Require Import QV.Common.Outcome QV.Model.Nucleus QV.Model.ChgMult QV.Model.MolRec QV.Gen.ToSchemaGen QV.Gen.SchemaKeys.
Import ListNotations.
Open Scope list_scope.
Open Scope Z_scope.

(** the molecule part of a schema dictionary; [None] = key absent *)
Record schema_mol := {
  s_symbols : option (list string);
  s_geometry : option (list Q);
  s_masses : option (list Q);
  s_atomic_numbers : option (list Z);
  s_mass_numbers : option (list Z);
  s_atom_labels : option (list string);
  s_real : option (list bool);
  s_fragments : option (list (list Z));
  s_fragment_charges : option (list Z);
  s_fragment_multiplicities : option (list Z);
  s_molecular_charge : option Z;
  s_molecular_multiplicity : option Z;
  s_fix_com : option bool;
  s_fix_orientation : option bool;
  s_fix_symmetry : option string;
  s_connectivity : option (list (Z * Z * Q));
  s_validated : option bool
}.

(** a schema dictionary: header keys, the molecule keys found at top level (dtype 2), the nested "molecule" (dtype 1) *)
Record schema_doc := {
  d_name : option string;
  d_version : option Z;
  d_top : schema_mol;
  d_nested : option schema_mol
}.

Definition no_mol : schema_mol :=
  {| s_symbols := None; s_geometry := None; s_masses := None; s_atomic_numbers := None; s_mass_numbers := None;
     s_atom_labels := None; s_real := None; s_fragments := None; s_fragment_charges := None;
     s_fragment_multiplicities := None; s_molecular_charge := None; s_molecular_multiplicity := None; s_fix_com := None;
     s_fix_orientation := None; s_fix_symmetry := None; s_connectivity := None; s_validated := None |}.

Definition lunit_of (u : string) : lunit :=
  if String.eqb u "Bohr" then Bohr else if String.eqb u "Angstrom" then Angstrom else OtherUnit.

Definition arange (n : nat) : list Z := map Z.of_nat (seq 0 n).

(** to_schema(molrec, dtype, units): [conv] = constants.conversion_factor(molrec["units"], units) *)
Definition export_mol (m : molrec) (units : lunit) (conv : Q) : schema_mol :=
  let geom := geom_scale (lunit_of (m_units m)) units (m_iutau m) conv (m_geom m) in
  let nat := (List.length geom / 3)%nat in
  {| s_symbols := Some (m_elem m); s_geometry := Some geom; s_masses := Some (m_mass m);
     s_atomic_numbers := Some (m_elez m); s_mass_numbers := Some (m_elea m); s_atom_labels := Some (m_elbl m);
     s_real := Some (m_real m); s_fragments := Some (np_split (arange nat) (m_seps m));
     s_fragment_charges := Some (m_fchg m); s_fragment_multiplicities := Some (m_fmult m);
     s_molecular_charge := Some (m_chg m); s_molecular_multiplicity := Some (m_mult m);
     s_fix_com := Some (m_fix_com m); s_fix_orientation := Some (m_fix_orientation m);
     s_fix_symmetry := m_fix_symmetry m;          (* `if "fix_symmetry" in molrec` *)
     s_connectivity := m_conn m;                  (* `if "connectivity" in molrec` *)
     s_validated := Some true |}.

Definition to_schema_full (m : molrec) (dtype : Z) (units : lunit) (conv : Q) : outcome schema_doc :=
  match to_schema_header dtype with
  | None => Err Validation                        (* dtype "psi4" is not a QCSchema export; anything else is refused *)
  | Some (name, ver, nested) =>
      match qcschema_units_guard units with
      | Err k => Err k
      | Ok _ =>
          let mol := export_mol m units conv in
          Ok match nested with
             | Some _ => {| d_name := Some name; d_version := Some ver; d_top := no_mol; d_nested := Some mol |}
             | None => {| d_name := Some name; d_version := Some ver; d_top := mol; d_nested := None |}
             end
      end
  end.

(** molschema.get("schema_name", "").startswith(p) or ... ) and molschema.get("schema_version", "") == v *)
Definition rule_matches (d : schema_doc) (r : list string * Z * option string) : bool :=
  let '(prefixes, ver, _) := r in
  existsb (fun p => String.prefix p (match d_name d with Some s => s | None => "" end)) prefixes &&
  match d_version d with Some v => v =? ver | None => false end.

Definition select_mol (d : schema_doc) : outcome schema_mol :=
  match find (rule_matches d) from_schema_rules with
  | None => Err Validation
  | Some (_, _, Some _) => match d_nested d with Some ms => Ok ms | None => Err PyKeyError end
  | Some (_, _, None) => Ok (d_top d)
  end.

Definition req {A} (o : option A) : outcome A := match o with Some a => Ok a | None => Err PyKeyError end.

Fixpoint cumsum_z (a : Z) (l : list Z) : list Z :=
  match l with [] => [] | x :: r => (a + x) :: cumsum_z (a + x) r end.
Definition lens {A} (frags : list (list A)) : list Z := map (fun f => Z.of_nat (List.length f)) frags.
(** np.all(np.diff(f) == 1) *)
Fixpoint steps1 (f : list Z) : bool :=
  match f with
  | a :: ((b :: _) as r) => (b - a =? 1) && steps1 r
  | _ => true
  end.
(** len(f) == 0 or f[0] == 0 *)
Definition starts0 (f : list Z) : bool := match f with [] => true | a :: _ => a =? 0 end.
Definition zlist_eqb := list_eqb Z.eqb.
Definition len_is {A} (n : Z) (o : option (list A)) : bool :=
  match o with Some l => Z.of_nat (List.length l) =? n | None => true end.
(** reshape(-1, 3): the number of rows, ValidationError when the length is not a multiple of 3 *)
Definition rows3 (g : list Q) : outcome Z :=
  if (List.length g mod 3 =? 0)%nat then Ok (Z.of_nat (List.length g / 3)) else Err Validation.

(** contiguize_from_fragment_pattern(frag_pattern, geom=..., elea=..., ..., throw_reorder=True): the fragment separators.
    With throw_reorder the arrays themselves come back in the order given (or the call raises). *)
Definition contiguize (frags : list (list Z)) (ms : schema_mol) (geom : list Q) (elem : list string) : outcome (list Z) :=
  match frags with
  | [] => Err Validation                                     (* `if len(frag_pattern) == 0: raise ValidationError` (361a5b1) *)
  | f0 :: _ =>
      let vsplt := cumsum_z 0 (lens frags) in
      let nat := last vsplt 0 in
      let seps := removelast vsplt in
      if is_nil seps && steps1 f0 && starts0 f0 then       (* one fragment, a run of consecutive indices from atom 0 (2b49794) *)
        obind (rows3 geom) (fun rows => if rows =? nat then Ok seps else Err Validation)
      else if negb (zlist_eqb (List.concat frags) (arange (Z.to_nat nat))) then Err Validation   (* skips atoms / would reorder *)
      else obind (rows3 geom) (fun rows =>
        if negb (rows =? nat) then Err Validation
        else if len_is nat (s_mass_numbers ms) && len_is nat (s_atomic_numbers ms) && len_is nat (Some elem) &&
                len_is nat (s_masses ms) && len_is nat (s_real ms) && len_is nat (s_atom_labels ms)
             then Ok seps else Err Validation)
  end.

Definition somes {A} (o : option (list A)) : option (list (option A)) := option_map (map Some) o.

Definition from_schema_full (nonphysical : bool) (d : schema_doc) : outcome molrec :=
  obind (select_mol d) (fun ms =>
  obind (match s_fragments ms with
         | Some fp => Ok fp
         | None => obind (req (s_symbols ms)) (fun el => Ok [arange (List.length el)])
         end) (fun frags =>
  obind (req (s_geometry ms)) (fun geom =>
  obind (req (s_symbols ms)) (fun elem =>
  obind (contiguize frags ms geom elem) (fun seps =>
  from_arrays
    {| r_geom := geom; r_elea := somes (s_mass_numbers ms); r_elez := somes (s_atomic_numbers ms);
       r_elem := Some (map Some elem); r_mass := somes (s_masses ms); r_real := somes (s_real ms);
       r_elbl := somes (s_atom_labels ms); r_units := "Bohr"; r_iutau := None;
       r_fix_com := s_fix_com ms; r_fix_orientation := s_fix_orientation ms; r_fix_symmetry := s_fix_symmetry ms;
       r_seps := Some seps; r_fchg := somes (s_fragment_charges ms); r_fmult := somes (s_fragment_multiplicities ms);
       r_chg := s_molecular_charge ms; r_mult := s_molecular_multiplicity ms; r_conn := s_connectivity ms;
       r_speclabel := false; r_tooclose := fa_default_tooclose; r_zgf := fa_default_zero_ghost_fragments;
       r_nonphysical := nonphysical; r_mtol := fa_default_mtol;
       r_minimal := String.eqb fa_default_missing_enabled_return "minimal" |}))))).

(** the molrec that the round trip reproduces: from_schema never passes input_units_to_au *)
Definition forget_iutau (m : molrec) : molrec :=
  {| m_units := m_units m; m_iutau := None; m_geom := m_geom m; m_elea := m_elea m; m_elez := m_elez m; m_elem := m_elem m;
     m_mass := m_mass m; m_real := m_real m; m_elbl := m_elbl m; m_seps := m_seps m; m_fchg := m_fchg m; m_fmult := m_fmult m;
     m_chg := m_chg m; m_mult := m_mult m; m_fix_com := m_fix_com m; m_fix_orientation := m_fix_orientation m;
     m_fix_symmetry := m_fix_symmetry m; m_conn := m_conn m |}.

(** the settings under which from_schema runs from_arrays *)
Definition schema_settings (r : raw) : Prop :=
  r_tooclose r = fa_default_tooclose /\ r_zgf r = fa_default_zero_ghost_fragments /\ r_mtol r = fa_default_mtol.

(** ** comparison with the implementation (correspondence) *)
Definition oeqb {A} (eqb : A -> A -> bool) (a b : option A) : bool := opt_eqb eqb a b.
Definition smol_eqb (a b : schema_mol) : bool :=
  oeqb (list_eqb String.eqb) (s_symbols a) (s_symbols b) && oeqb (list_eqb Qeq_bool) (s_geometry a) (s_geometry b) &&
  oeqb (list_eqb Qeq_bool) (s_masses a) (s_masses b) && oeqb zlist_eqb (s_atomic_numbers a) (s_atomic_numbers b) &&
  oeqb zlist_eqb (s_mass_numbers a) (s_mass_numbers b) && oeqb (list_eqb String.eqb) (s_atom_labels a) (s_atom_labels b) &&
  oeqb (list_eqb Bool.eqb) (s_real a) (s_real b) && oeqb (list_eqb zlist_eqb) (s_fragments a) (s_fragments b) &&
  oeqb zlist_eqb (s_fragment_charges a) (s_fragment_charges b) &&
  oeqb zlist_eqb (s_fragment_multiplicities a) (s_fragment_multiplicities b) &&
  oeqb Z.eqb (s_molecular_charge a) (s_molecular_charge b) && oeqb Z.eqb (s_molecular_multiplicity a) (s_molecular_multiplicity b) &&
  oeqb Bool.eqb (s_fix_com a) (s_fix_com b) && oeqb Bool.eqb (s_fix_orientation a) (s_fix_orientation b) &&
  oeqb String.eqb (s_fix_symmetry a) (s_fix_symmetry b) && oeqb (list_eqb conn_eqb) (s_connectivity a) (s_connectivity b) &&
  oeqb Bool.eqb (s_validated a) (s_validated b).
Definition sdoc_eqb (a b : schema_doc) : bool :=
  oeqb String.eqb (d_name a) (d_name b) && oeqb Z.eqb (d_version a) (d_version b) && smol_eqb (d_top a) (d_top b) &&
  oeqb smol_eqb (d_nested a) (d_nested b).

(** one translation case: a molrec accepted by from_arrays (units Bohr), dtype, the dictionary to_schema exported,
    and what from_schema made of that dictionary *)
Definition check_trans (c : molrec * Z * outcome schema_doc * outcome molrec) : bool :=
  let '(m, dtype, exported, back) := c in
  outcome_eqb sdoc_eqb (to_schema_full m dtype Bohr 1) exported &&
  match exported with
  | Ok d => outcome_eqb molrec_eqb (from_schema_full false d) back
  | Err _ => true
  end.
(** one (possibly damaged) schema dictionary and from_schema's answer *)
Definition check_from_schema (c : schema_doc * outcome molrec) : bool :=
  outcome_eqb molrec_eqb (from_schema_full false (fst c)) (snd c).
