(** C04 — model of qcelemental.molparse.from_arrays (domain "qm") as the same staged pipeline:
    units/connectivity, geometry (too-close screen), nuclei (shape check + per-atom reconcile_nucleus, C06),
    fragments (np.split trial with Python slice semantics), charge/multiplicity completion (C05), frame.
    Hand-written in the code's order, with the exceptions the code raises; tied to the implementation by the
    correspondence check (harness/props/c04.py).  Coordinates, masses, tolerances are exact rationals.
    No proofs in this file. *)
From Coq Require Import ZArith List Bool String Ascii QArith Qabs.
Require Import QV.Common.Outcome QV.Model.Nucleus QV.Model.ChgMult QV.Gen.MolConsts.
Import ListNotations.
Open Scope list_scope.
Open Scope Z_scope.

Record raw := {
  r_geom : list Q;                                  (* flattened coordinates *)
  r_elea : option (list (option Z));
  r_elez : option (list (option Z));
  r_elem : option (list (option string));
  r_mass : option (list (option Q));
  r_real : option (list (option bool));
  r_elbl : option (list (option string));
  r_units : string;
  r_iutau : option Q;                               (* input_units_to_au *)
  r_fix_com : option bool;
  r_fix_orientation : option bool;
  r_fix_symmetry : option string;
  r_seps : option (list Z);                         (* fragment_separators *)
  r_fchg : option (list (option Z));
  r_fmult : option (list (option Z));
  r_chg : option Z;
  r_mult : option Z;
  r_conn : option (list (Z * Z * Q));               (* connectivity *)
  r_speclabel : bool;
  r_tooclose : Q;
  r_zgf : bool;                                     (* zero_ghost_fragments *)
  r_nonphysical : bool;
  r_mtol : Q;
  r_minimal : bool                                  (* missing_enabled_return == "minimal" (else "error") *)
}.

Record molrec := {
  m_units : string;
  m_iutau : option Q;
  m_geom : list Q;
  m_elea : list Z; m_elez : list Z; m_elem : list string; m_mass : list Q; m_real : list bool; m_elbl : list string;
  m_seps : list Z;
  m_fchg : list Z; m_fmult : list Z; m_chg : Z; m_mult : Z;
  m_fix_com : bool; m_fix_orientation : bool; m_fix_symmetry : option string;
  m_conn : option (list (Z * Z * Q))
}.

(* ------------------------------------------------------------------------------------------ *)
(** * validate_and_fill_units *)

Definition conn_entry (e : Z * Z * Q) : outcome (Z * Z * Q) :=
  let '(a1, a2, bo) := e in
  if a1 <? 0 then Err Validation
  else if a2 <? 0 then Err Validation
  else if Qlt_b bo 0 || Qlt_b bond_order_max bo then Err Validation
  else Ok (Z.min a1 a2, Z.max a1 a2, bo).

(** tuple order of (int, int, float) *)
Definition conn_leb (x y : Z * Z * Q) : bool :=
  let '(a1, a2, b) := x in let '(c1, c2, d) := y in
  if a1 <? c1 then true else if c1 <? a1 then false
  else if a2 <? c2 then true else if c2 <? a2 then false
  else Qle_bool b d.

Fixpoint insert_by {A} (leb : A -> A -> bool) (x : A) (l : list A) : list A :=
  match l with
  | [] => [x]
  | y :: r => if leb x y then x :: l else y :: insert_by leb x r
  end.
Definition sort_by {A} (leb : A -> A -> bool) (l : list A) : list A := fold_right (insert_by leb) [] l.

Definition units_stage (r : raw) : outcome (string * option Q * option (list (Z * Z * Q))) :=
  obind (match r_conn r with
         | None => Ok None
         | Some l => obind (mapM conn_entry l) (fun c => Ok (Some (sort_by conn_leb c)))
         end) (fun conn =>
  let u := capitalize (r_units r) in
  if String.eqb u "Angstrom" || String.eqb u "Bohr" then
    let iutau := if String.eqb u "Bohr" then 1%Q else (1 / bohr2angstroms)%Q in
    match r_iutau r with
    | None => Ok (u, None, conn)
    | Some x => if Qlt_b (Qabs (x - iutau)) iutau_window then Ok (u, Some x, conn) else Err Validation
    end
  else Err Validation).

(* ------------------------------------------------------------------------------------------ *)
(** * validate_and_fill_geometry *)

Fixpoint triples (g : list Q) : outcome (list (Q * Q * Q)) :=      (* reshape((-1, 3)) *)
  match g with
  | [] => Ok []
  | x :: y :: z :: r => obind (triples r) (fun t => Ok ((x, y, z) :: t))
  | _ => Err Validation                    (* numpy cannot reshape: caught, re-raised as ValidationError *)
  end.

Definition dist2 (p q : Q * Q * Q) : Q :=
  let '(x1, y1, z1) := p in let '(x2, y2, z2) := q in
  ((x1 - x2) * (x1 - x2) + (y1 - y2) * (y1 - y2) + (z1 - z2) * (z1 - z2))%Q.

Fixpoint too_close (metric : Q) (pts : list (Q * Q * Q)) : bool :=
  match pts with
  | [] => false
  | p :: r => existsb (fun q => Qlt_b (dist2 p q) metric) r || too_close metric r
  end.

Definition geometry_stage (r : raw) : outcome (list (Q * Q * Q)) :=
  obind (triples (r_geom r)) (fun pts =>
  if too_close (r_tooclose r * r_tooclose r)%Q pts then Err Validation else Ok pts).

(* ------------------------------------------------------------------------------------------ *)
(** * validate_and_fill_nuclei *)

Definition column {A} (n : nat) (c : option (list (option A))) : list (option A) :=
  match c with None => repeat None n | Some l => l end.

Definition minus1_none (a : option Z) : option Z :=
  match a with Some v => if v =? -1 then None else Some v | None => None end.

Fixpoint atoms (sl np : bool) (tol : Q) (ea ez : list (option Z)) (ee : list (option string)) (em : list (option Q))
         (er : list (option bool)) (el : list (option string)) : list nuc_in :=
  match ea, ez, ee, em, er, el with
  | a :: ea', z :: ez', e :: ee', m :: em', r :: er', l :: el' =>
      {| nA := a; nZ := z; nE := e; nmass := m; nreal := r; nlabel := l; speclabel := sl; nonphysical := np; mtol := tol |}
      :: atoms sl np tol ea' ez' ee' em' er' el'
  | _, _, _, _, _, _ => []
  end.

Definition nuclei_stage (r : raw) (n : nat) : outcome (list nuc_out) :=
  let ea := map minus1_none (column n (r_elea r)) in
  let ez := column n (r_elez r) in let ee := column n (r_elem r) in let em := column n (r_mass r) in
  let er := column n (r_real r) in let el := column n (r_elbl r) in
  if Nat.eqb (List.length ea) n && Nat.eqb (List.length ez) n && Nat.eqb (List.length ee) n && Nat.eqb (List.length em) n
     && Nat.eqb (List.length er) n && Nat.eqb (List.length el) n
  then mapM reconcile (atoms (r_speclabel r) (r_nonphysical r) (r_mtol r) ea ez ee em er el)
  else Err Validation.

(* ------------------------------------------------------------------------------------------ *)
(** * validate_and_fill_fragments: np.split with Python slice semantics *)

Definition norm_idx (n k : Z) : Z := if k <? 0 then Z.max (k + n) 0 else Z.min k n.

Definition slice {A} (l : list A) (a b : Z) : list A :=          (* l[a:b] *)
  let n := Z.of_nat (List.length l) in
  let a' := norm_idx n a in let b' := norm_idx n b in
  firstn (Z.to_nat (b' - a')) (skipn (Z.to_nat a') l).

Fixpoint split_from {A} (l : list A) (start : Z) (seps : list Z) : list (list A) :=
  match seps with
  | [] => [slice l start (Z.of_nat (List.length l))]
  | s :: r => slice l start s :: split_from l s r
  end.
Definition np_split {A} (l : list A) (seps : list Z) : list (list A) := split_from l 0 seps.

Definition fragments_stage (r : raw) (n : nat) : outcome (list Z * list (option Z) * list (option Z)) :=
  match r_seps r with
  | None =>
      match r_fchg r, r_fmult r with
      | None, None => Ok ([], [None], [None])
      | _, _ => Err Validation
      end
  | Some seps =>
      let pieces := np_split (repeat tt n) seps in
      if existsb (fun p => Nat.eqb (List.length p) 0) pieces && negb (Nat.eqb n 0) then Err Validation
      else if negb (Nat.eqb (fold_right Nat.add 0%nat (map (@List.length unit) pieces)) n) then Err Validation
      else
        let nfr := List.length pieces in
        let frc := match r_fchg r with None => repeat None nfr | Some l => l end in
        let frm := match r_fmult r with None => repeat None nfr | Some l => l end in
        if Nat.eqb (List.length frc) (S (List.length seps)) && Nat.eqb (List.length frm) (S (List.length seps)) then Ok (seps, frc, frm)
        else Err Validation
  end.

(* ------------------------------------------------------------------------------------------ *)
(** * validate_and_fill_frame (extern = False) *)

Definition frame_stage (r : raw) : bool * bool * option string :=
  (match r_fix_com r with Some b => b | None => false end,
   match r_fix_orientation r with Some b => b | None => false end,
   match r_fix_symmetry r with
   | Some s => let s' := lower s in if String.eqb s' "" then None else Some s'
   | None => None
   end).

(* ------------------------------------------------------------------------------------------ *)
(** * from_arrays *)

Definition flatten3 (pts : list (Q * Q * Q)) : list Q := flat_map (fun p => let '(x, y, z) := p in [x; y; z]) pts.

Definition zeff (ros : list nuc_out) : list Z := map (fun o => if oreal o then oZ o else 0) ros.

Definition cm_input (r : raw) (ros : list nuc_out) (seps : list Z) (frc frm : list (option Z)) : cm_in :=
  {| felez := np_split (zeff ros) seps; ic := r_chg r; ifc := frc; im := r_mult r; ifm := frm; zgf := r_zgf r |}.

Definition from_arrays (r : raw) : outcome molrec :=
  if is_nil (r_geom r) && negb (r_minimal r) then Err Validation else
  obind (units_stage r) (fun ust => let '(u, iu, conn) := ust in
  obind (geometry_stage r) (fun pts =>
  let n := List.length pts in
  obind (nuclei_stage r n) (fun ros =>
  obind (fragments_stage r n) (fun fst => let '(seps, frc, frm) := fst in
  obind (fill (cm_input r ros seps frc frm)) (fun cm =>
  let '(com, ori, sym) := frame_stage r in
  Ok {| m_units := u; m_iutau := iu; m_geom := flatten3 pts;
        m_elea := map oA ros; m_elez := map oZ ros; m_elem := map oE ros; m_mass := map omass ros;
        m_real := map oreal ros; m_elbl := map ouser ros;
        m_seps := seps; m_fchg := ofc cm; m_fmult := ofm cm; m_chg := oc cm; m_mult := om cm;
        m_fix_com := com; m_fix_orientation := ori; m_fix_symmetry := sym; m_conn := conn |}))))).

(** the record fed back (as from_schema does: user labels only), with the same processing settings *)
Definition as_raw (r : raw) (m : molrec) : raw :=
  {| r_geom := m_geom m;
     r_elea := Some (map Some (m_elea m)); r_elez := Some (map Some (m_elez m)); r_elem := Some (map Some (m_elem m));
     r_mass := Some (map Some (m_mass m)); r_real := Some (map Some (m_real m)); r_elbl := Some (map Some (m_elbl m));
     r_units := m_units m; r_iutau := m_iutau m;
     r_fix_com := Some (m_fix_com m); r_fix_orientation := Some (m_fix_orientation m); r_fix_symmetry := m_fix_symmetry m;
     r_seps := Some (m_seps m); r_fchg := Some (map Some (m_fchg m)); r_fmult := Some (map Some (m_fmult m));
     r_chg := Some (m_chg m); r_mult := Some (m_mult m); r_conn := m_conn m;
     r_speclabel := false; r_tooclose := r_tooclose r; r_zgf := r_zgf r; r_nonphysical := r_nonphysical r;
     r_mtol := r_mtol r; r_minimal := true |}.

(* ------------------------------------------------------------------------------------------ *)
(** * Comparison with the implementation's answers (correspondence) *)

Fixpoint list_eqb {A} (eqb : A -> A -> bool) (a b : list A) : bool :=
  match a, b with
  | [], [] => true
  | x :: a', y :: b' => eqb x y && list_eqb eqb a' b'
  | _, _ => false
  end.
Definition conn_eqb (x y : Z * Z * Q) : bool :=
  let '(a1, a2, b) := x in let '(c1, c2, d) := y in (a1 =? c1) && (a2 =? c2) && Qeq_bool b d.
Definition opt_eqb {A} (eqb : A -> A -> bool) (a b : option A) : bool :=
  match a, b with Some x, Some y => eqb x y | None, None => true | _, _ => false end.

Definition molrec_eqb (a b : molrec) : bool :=
  String.eqb (m_units a) (m_units b) && opt_eqb Qeq_bool (m_iutau a) (m_iutau b)
  && list_eqb Qeq_bool (m_geom a) (m_geom b)
  && list_eqb Z.eqb (m_elea a) (m_elea b) && list_eqb Z.eqb (m_elez a) (m_elez b)
  && list_eqb String.eqb (m_elem a) (m_elem b) && list_eqb Qeq_bool (m_mass a) (m_mass b)
  && list_eqb Bool.eqb (m_real a) (m_real b) && list_eqb String.eqb (m_elbl a) (m_elbl b)
  && list_eqb Z.eqb (m_seps a) (m_seps b)
  && list_eqb Z.eqb (m_fchg a) (m_fchg b) && list_eqb Z.eqb (m_fmult a) (m_fmult b)
  && (m_chg a =? m_chg b) && (m_mult a =? m_mult b)
  && Bool.eqb (m_fix_com a) (m_fix_com b) && Bool.eqb (m_fix_orientation a) (m_fix_orientation b)
  && opt_eqb String.eqb (m_fix_symmetry a) (m_fix_symmetry b)
  && opt_eqb (list_eqb conn_eqb) (m_conn a) (m_conn b).

Definition check_case (p : raw * outcome molrec) : bool :=
  outcome_eqb molrec_eqb (from_arrays (fst p)) (snd p).
Definition molrec_eqb_ok (x : outcome molrec) (m : molrec) : bool :=
  match x with Ok a => molrec_eqb a m | Err _ => false end.
