(** C01: semantics of the few Python constructs that the glue of periodic_table.py uses, as combinators.  The translator
    harness/translate/ptglue.py emits Gen/PTGlue.v in terms of them; Proofs/PeriodicTableGlue.v proves the generated
    functions equal to the hand-written model (Model/PeriodicTable.v) for all identifiers.  Definitions only. *)
From Coq Require Import ZArith List String Bool.
Require Import QV.Common.Outcome QV.Common.PyAscii.
Require Import QV.Model.PeriodicTable QV.Model.PeriodicTableFloat.
Import ListNotations.
Open Scope Z_scope.

(** atom.capitalize(): an int has no such attribute *)
Definition py_capitalize (x : pyval) : outcome string :=
  match x with PStr s => Ok (capitalize s) | PInt _ => Err PyAttributeError end.

(** assert isinstance(atom, str) *)
Definition py_assert_str (x : pyval) : outcome unit :=
  match x with PStr _ => Ok tt | PInt _ => Err PyAssertion end.

(** d[k]: a missing key is a KeyError *)
Definition py_item {K V} (d : K -> option V) (k : K) : outcome V := getk (d k).

(** try: body  except (kinds): handler  else: orelse(value of the body)
    — exceptions raised by the handler or by the else block are not caught here *)
Definition kind_in (k : ekind) (l : list ekind) : bool := existsb (ekind_eqb k) l.
Definition try_else {A B} (body : outcome A) (kinds : list ekind) (handler : outcome B) (orelse : A -> outcome B) : outcome B :=
  match body with
  | Ok v => orelse v
  | Err k => if kind_in k kinds then handler else Err k
  end.

(** float(mass string) *)
Definition py_float_str (s : string) : outcome (Z * Z) :=
  match float_of_decstr s with Some f => Ok f | None => Err PyValueError end.

(** a function whose branches return values of different Python types *)
Inductive gval := GZ (z : Z) | GS (s : string) | GDec (d : Z * Z) | GFlt (f : Z * Z).
Definition omap {A B} (f : A -> B) (o : outcome A) : outcome B := obind o (fun a => Ok (f a)).
