(** C15 — model of qcelemental.molutil.molecular_formula_from_symbols (Counter over title-cased symbols, sorted
    keys, Hill exception, count suffixes) on ASCII symbols.  Hand-written; tied by harness/props/c15.py. *)
From Coq Require Import ZArith List String Ascii Bool Arith DecimalString.
Require Import QV.Common.Outcome QV.Common.HFSort QV.Common.HFHash QV.Gen.FragGlue.
Import ListNotations.
Open Scope nat_scope.

Definition is_upper (c : ascii) : bool := let n := nat_of_ascii c in (65 <=? n) && (n <=? 90).
Definition is_lower (c : ascii) : bool := let n := nat_of_ascii c in (97 <=? n) && (n <=? 122).
Definition to_upper (c : ascii) : ascii := if is_lower c then ascii_of_nat (nat_of_ascii c - 32) else c.
Definition to_lower (c : ascii) : ascii := if is_upper c then ascii_of_nat (nat_of_ascii c + 32) else c.

(* str.title() on ASCII: a cased character is upper-cased when it follows an uncased one, lower-cased otherwise *)
Fixpoint title_from (prev_cased : bool) (s : string) : string :=
  match s with
  | EmptyString => EmptyString
  | String c r =>
      let cased := is_upper c || is_lower c in
      String (if cased then (if prev_cased then to_lower c else to_upper c) else c) (title_from cased r)
  end.
Definition title (s : string) : string := title_from false s.

(* collections.Counter(...): first-seen order of keys with their counts *)
Fixpoint count_in (k : string) (l : list string) : nat :=
  match l with [] => 0 | x :: r => (if String.eqb k x then 1 else 0) + count_in k r end.
Fixpoint keys_of (seen : list string) (l : list string) : list string :=
  match l with
  | [] => []
  | x :: r => if existsb (String.eqb x) seen then keys_of seen r else x :: keys_of (x :: seen) r
  end.

Definition sorted_keys (l : list string) : list string := isort String.leb (keys_of [] l).    (* sorted(count.keys()) *)

Fixpoint remove_str (k : string) (l : list string) : list string :=              (* list.pop(list.index(k)) *)
  match l with [] => [] | x :: r => if String.eqb k x then r else x :: remove_str k r end.
Definition has (k : string) (l : list string) : bool := existsb (String.eqb k) l.

Definition hill_order (keys : list string) : list string :=
  if has "C" keys then
    let keys1 := if has "H" keys then "H"%string :: remove_str "H" keys else keys in
    "C"%string :: remove_str "C" keys1
  else keys.

Inductive forder := Alphabetical | Hill.

Definition element_order (o : forder) (syms : list string) : list string :=
  let keys := sorted_keys (map title syms) in
  match o with Alphabetical => keys | Hill => hill_order keys end.

(* the (symbol, count) items in output order *)
Definition formula_items (o : forder) (syms : list string) : list (string * nat) :=
  map (fun k => (k, count_in k (map title syms))) (element_order o syms).

Definition nat_str (n : nat) : string := NilEmpty.string_of_uint (Nat.to_uint n).      (* str(c) *)
Definition render_item (it : string * nat) : string :=
  String.append (fst it) (if 1 <? snd it then nat_str (snd it) else EmptyString).
Definition formula (o : forder) (syms : list string) : string :=
  fold_right String.append EmptyString (map render_item (formula_items o syms)).

(* order.lower() must be one of the two supported names *)
Definition parse_order (s : string) : outcome forder :=
  let l := title_from true s in        (* title_from true lower-cases every cased character *)
  if String.eqb l "alphabetical" then Ok Alphabetical else if String.eqb l "hill" then Ok Hill else Err PyValueError.
Definition formula_from_symbols (syms : list string) (order : string) : outcome string :=
  obind (parse_order order) (fun o => Ok (formula o syms)).

(* the membership test `order.lower() in supported_orders` with the generated list (Proofs/FragmentMore.v: it accepts
   exactly the names parse_order accepts) *)
Definition lower (s : string) : string := title_from true s.
Definition order_supported (s : string) : bool := existsb (String.eqb (lower s)) supported_orders.

(** Molecule.get_molecular_formula(order="alphabetical", chgmult=False) on the molecule's symbols (ghost atoms included),
    integer charge and multiplicity: {mult}^{formula}{+...+ / -...-} when asked for and not a neutral singlet *)
Fixpoint rep_str (c : ascii) (n : nat) : string := match n with O => EmptyString | S k => String c (rep_str c k) end.
Definition mol_formula (syms : list string) (c m : Z) (order : option string) (chgmult : option bool) : outcome string :=
  obind (formula_from_symbols syms (match order with Some o => o | None => formula_default_order end)) (fun f =>
  let cm := match chgmult with Some b => b | None => formula_default_chgmult end in
  if negb cm || ((c =? 0)%Z && (m =? 1)%Z) then Ok f else
  let f1 := if (1 <? m)%Z then String.append (nat_str (Z.to_nat m)) (String "^"%char f) else f in
  Ok (String.append f1 (if (c <? 0)%Z then rep_str "-"%char (Z.to_nat (- c)) else if (0 <? c)%Z then rep_str "+"%char (Z.to_nat c) else EmptyString))).

(** reading a formula back (order_molecular_formula): re.findall of an upper-case letter followed by non-upper-case
    characters cuts the text at upper-case letters; in each piece re.match of non-digits then digits takes the non-digits as the symbol and the digits that follow as
    the count (1 when there are none); whatever follows those digits inside the piece is ignored *)
Definition is_digit (c : ascii) : bool := let n := nat_of_ascii c in (48 <=? n) && (n <=? 57).
Inductive dstate := NoDigits | Digits (n : nat) | Closed (n : nat).
Definition flush (cur : option (string * dstate)) : list (string * nat) :=
  match cur with
  | None => []
  | Some (k, NoDigits) => [(k, 1)]
  | Some (k, Digits n) | Some (k, Closed n) => [(k, n)]
  end.
Fixpoint parse_items (s : string) (cur : option (string * dstate)) : list (string * nat) :=
  match s with
  | EmptyString => flush cur
  | String c r =>
      if is_upper c then flush cur ++ parse_items r (Some (String c EmptyString, NoDigits))
      else match cur with
           | None => parse_items r None
           | Some (k, NoDigits) => if is_digit c then parse_items r (Some (k, Digits (nat_of_ascii c - 48)))
                                   else parse_items r (Some (String.append k (String c EmptyString), NoDigits))
           | Some (k, Digits n) => if is_digit c then parse_items r (Some (k, Digits (10 * n + (nat_of_ascii c - 48))))
                                   else parse_items r (Some (k, Closed n))
           | Some (k, Closed n) => parse_items r (Some (k, Closed n))
           end
  end.

(* the symbols list order_molecular_formula rebuilds: each symbol repeated count times (counts of a repeated symbol add) *)
Definition expand (its : list (string * nat)) : list string := flat_map (fun it => repeat (fst it) (snd it)) its.
Definition starts_upper (s : string) : bool := match s with EmptyString => true | String c _ => is_upper c end.
Definition order_formula (s : string) (order : string) : outcome string :=
  if starts_upper s then obind (parse_order order) (fun o => Ok (formula o (expand (parse_items s None))))
  else Err PyValueError.                     (* "".join(matches) != formula *)

(** correspondence helpers *)
Definition check_formula (c : list string * string * outcome string) : bool :=
  let '(syms, order, expected) := c in outcome_eqb String.eqb (formula_from_symbols syms order) expected.
(* Molecule.get_molecular_formula: (symbols, charge, multiplicity, order / None, chgmult / None, expected) *)
Definition check_mol_formula (c : list string * Z * Z * option string * option bool * outcome string) : bool :=
  let '(syms, ch, m, order, cm, expected) := c in outcome_eqb String.eqb (mol_formula syms ch m order cm) expected.
(* molecular_formula_from_symbols / order_molecular_formula called without `order` *)
Definition check_default_order (c : list string * string * string) : bool :=
  let '(syms, f1, f2) := c in
  outcome_eqb String.eqb (formula_from_symbols syms mffs_default_order) (Ok f1)
  && outcome_eqb String.eqb (order_formula f1 omf_default_order) (Ok f2).
Definition check_order_formula (c : string * string * outcome string) : bool :=
  let '(s, order, expected) := c in outcome_eqb String.eqb (order_formula s order) expected.
