(** C05 — fractional (float) charges.  validate_and_fill_chgmult takes charges and electron counts as floats;
    the only places where a non-integral value behaves differently from an integer are the two electron-count
    rules (R4 sufficiency, R5 parity: `(m % 2) != ((z - c) % 2)` is then never an equality).  Charges and
    electron counts are modelled as exact rationals with a common denominator [D] > 0: the integer [x] stands
    for x / D (every binary64 charge is such a dyadic rational; the correspondence uses values whose float
    arithmetic is exact).  Multiplicities stay integers (int_if_possible + _mult_ok).  Everything else
    (candidate lists, search order, ghost override) is shared with Model/ChgMult.v; [fillD 1] is [fill]. *)
From Coq Require Import ZArith List Bool.
Require Import QV.Common.Outcome QV.Model.ChgMult.
Import ListNotations.
Open Scope Z_scope.

Definition sufficientD (D z c m : Z) : bool := (m - 1) * D <=? z - c.
Definition parity_okD (D z c m : Z) : bool := negb ((m mod 2) * D =? (z - c) mod (2 * D)).

Definition rules_okD (D : Z) (i : cm_in) (r : cm_out) : bool :=
  (oc r =? zsum (ofc r))
  && (1 <=? om r) && forallb (fun m => 1 <=? m) (ofm r)
  && sufficientD D (zel i) (oc r) (om r) && all3 (sufficientD D) (fzel i) (ofc r) (ofm r)
  && parity_okD D (zel i) (oc r) (om r) && all3 (parity_okD D) (fzel i) (ofc r) (ofm r)
  && match ic i with Some c => oc r =? c | None => true end
  && match_inputs (ifc i) (ofc r)
  && match im i with Some m => om r =? m | None => true end
  && match_inputs (ifm i) (ofm r)
  && (if r8_active i then om r =? hss (ofm r) else true)
  && ghost_rule (ghosts i) (ofc r) (ofm r).

Definition fillD (D : Z) (i : cm_in) : outcome cm_out :=
  if bad_mult (im i) || existsb bad_mult (ifm i) then Err Validation
  else
    let i' := adjust i in
    match find (rules_okD D i') (candidates i') with
    | Some r => Ok r
    | None => Err Validation
    end.

(* correspondence: (D, input, expected) *)
Definition check_caseD (p : Z * cm_in * outcome cm_out) : bool :=
  let '(D, i, exp) := p in outcome_eqb cm_out_eqb (fillD D i) exp.
