(** C16 — Orientation puts a molecule in a canonical inertial frame without distorting it.
    Property theorems only.

    CLAUSE MAP (statement of C16 in properties.jsonl, clause by clause).  "internal result" = what
    Molecule._orient_molecule_internal returns ([orient_internal_gen], Gen/OrientBody.v, translated from the source and proved
    equal to the model [orient_atoms] for all inputs: C16_generated_body_is_model); "stored" = what the public entry points keep,
    float_prep of the internal result ([orient_stored_gen], Gen/OrientStore.v, translated from float_prep and the `if orient:`
    branch of Molecule.__init__; the translator also pins that orient_molecule is Molecule(orient=True, **self.dict()) and that
    from_data / from_file / get_fragment only pass `orient` on).
    1. every interatomic distance preserved ............ C16_isometry (all atoms counts, all masses, any field; internal result).
                                                         Stored: C16_stored_isometry_within_rounding (every distance of the stored
                                                         molecule is the original one up to 2 sqrt 3 (0.5e-8 + 5^-9) ~ 1.8e-6, the
                                                         5^-9 being float_prep's zero flip), C16_stored_distance_where_visible (up to
                                                         2 sqrt 3 * 0.5e-8 ~ 1.8e-8 between atoms none of whose coordinates is
                                                         flushed); the oracle checks 1e-7 (+1.6e-6 where the flip is active).
    2. all non-geometric fields preserved .............. masses: C16_masses_untouched.  Other fields do not occur in the model: the
                                                         translator fails unless only self.geometry / self.masses are consulted and
                                                         orient_molecule hands every field to the constructor; the oracle compares
                                                         every field of Molecule.dict() on each case (correspondence/oracle only).
    3. centre of mass at the origin .................... C16_com_at_origin (total mass <> 0; individual masses arbitrary, so ghost
                                                         atoms - which keep their masses - and isotopes are covered).  Stored:
                                                         C16_stored_com_within_rounding (each component of sum m_i x_i is at most
                                                         (0.5e-8 + 5^-9) sum |m_i|; the oracle checks 6e-7 on the centre of mass).
    4. inertia tensor diagonal, moments ascending ...... C16_inertia_transforms, C16_inertia_diagonal_ascending (tensor generated
                                                         from Molecule._inertial_tensor; eigh constrained only by eigh_ok).  Stored:
                                                         C16_stored_inertia_offdiagonal_within_rounding (off-diagonal entries at most
                                                         (0.5e-8 + 5^-9) sum |m_i| (|u_i| + |v_i| + 0.5e-8 + 5^-9)); the ascending
                                                         order of the stored diagonal is oracle only (1e-6 relative).
    5. sign convention (first atom off each plane > 0) . internal result: C16_phase_convention, C16_phase_convention_orient, with
                                                         "off the plane" = |coordinate| >= 1e-8 as in the source.
                                                         Stored molecule: C16_stored_sign_convention (hypothesis: every atom listed
                                                         earlier has |coordinate| < 1e-8) and C16_stored_first_nonzero_positive;
                                                         the clause as stated is FALSE of the stored molecule in the flush zone
                                                         1e-8 <= |coordinate| < 5^-9: C16_stored_sign_convention_flush_zone_refuted
                                                         (+ C16_ex_flush_zone_run; known finding C16-phase-flush-zone).
    6. rigidly moved copies, distinct moments -> same .. C16_frame_unique (any orthogonal Rm, proper or not, any translation; exact
       coordinates within the geometry rounding          on the internal result, columns equal or entirely below 1e-8 and opposite);
                                                         C16_mirror_image_same_frame; without the distinct-moments hypothesis the
                                                         promise is only "up to one orthogonal matrix commuting with the spectrum":
                                                         C16_frame_unique_up_to_eigenspace (nothing more is true: eigh may return
                                                         any basis of a degenerate eigenspace).  "Within the rounding" on the stored
                                                         geometries: oracle only (tolerance amplified by the eigenvector
                                                         conditioning) - the rounding of the first result is not modelled.
    7. orienting twice changes nothing ................. C16_orient_idempotent (distinct moments; second orientation applied to the
                                                         internal result), C16_orient_twice_up_to_eigenspace (any moments).
                                                         orient_molecule().orient_molecule() re-orients the STORED (rounded, flushed)
                                                         geometry: oracle only; in the flush zone it can flip a column (same known
                                                         finding).
    Quantifier: all numbers of atoms (lists), all masses with non-zero total; proper AND improper motions; linear / planar /
    symmetric tops are covered by clauses 1-5 and by the up-to-eigenspace forms of 6-7.

    [orient_atoms eigh atoms] is Model/Orient.v (hand-written, the code's order);
    [inertia_tensor] is Gen/Inertia.v, regenerated from Molecule._inertial_tensor on every run;
    [eigh] stands for np.linalg.eigh and is constrained only through [eigh_ok] on the one matrix it is
    applied to (orthogonal eigenvector matrix, A V = V diag(w), w ascending) — the same predicate is
    evaluated numerically on numpy's answer in every correspondence case.
    Part A: any field (no axioms).  Part B: real numbers (order: phase convention, frame uniqueness). *)
From Coq Require Import List Bool ZArith Reals QArith Lra.
Require Import QV.Common.Outcome QV.Common.Geo3 QV.Common.Geo3Facts QV.Common.Geo3Sum QV.Common.Geo3R QV.Common.Geo3Q.
Require Import QV.Gen.Inertia QV.Model.Orient QV.Proofs.Orient QV.Proofs.OrientR QV.Proofs.OrientUniq QV.Proofs.OrientGen QV.Proofs.OrientDeg.
Require Import QV.Common.Geo3Loop QV.Gen.OrientBody QV.Gen.OrientStore QV.Model.OrientCheck QV.Proofs.OrientStore QV.Proofs.OrientStoreDist.
Import ListNotations.

(** * Part A: any field *)

(** the new geometry is one map f applied to every position, masses (and order) unchanged, and f
    preserves every distance: |f p - f q|^2 = |p - q|^2 for ALL points p q *)
Theorem C16_isometry : forall (K : Fops), is_field K -> forall eigh (atoms r : list (watom K)),
  orient_atoms K eigh atoms = Ok r ->
  eigh_ok K (inertia_tensor K (centre K atoms)) (eigh (inertia_tensor K (centre K atoms))) ->
  exists f, r = map (fun a => (f (fst a), snd a)) atoms
            /\ forall p q, norm2 (vsub (f p) (f q)) = norm2 (vsub p q).
Proof. intros K Kf. apply (orient_isometry K Kf). Qed.

(** sum_i m_i x_i = 0 afterwards (total mass non-zero) *)
Theorem C16_com_at_origin : forall (K : Fops), is_field K -> forall eigh (atoms r : list (watom K)),
  orient_atoms K eigh atoms = Ok r -> total_mass K atoms <> f0 K -> wsum K r = vzero K.
Proof. intros K Kf. apply (orient_com_at_origin K Kf). Qed.

(** the generated tensor transforms as I(x V) = V^T I(x) V under any orthogonal V *)
Theorem C16_inertia_transforms : forall (K : Fops), is_field K -> forall (V : mat3 K) (atoms : list (watom K)),
  orthogonal V -> orthogonal (mtrans V) ->
  inertia_tensor K (rotate K V atoms) = mmul (mmul (mtrans V) (inertia_tensor K atoms)) V.
Proof. intros K Kf. apply (inertia_transforms K Kf). Qed.

(** afterwards the inertia tensor is diag(w0, w1, w2) with w ascending (w = eigh's eigenvalues) *)
Theorem C16_inertia_diagonal_ascending : forall (K : Fops), is_field K -> forall eigh (atoms r : list (watom K)),
  orient_atoms K eigh atoms = Ok r ->
  eigh_ok K (inertia_tensor K (centre K atoms)) (eigh (inertia_tensor K (centre K atoms))) ->
  let lam := fst (eigh (inertia_tensor K (centre K atoms))) in
  inertia_tensor K r = mdiag K (vx lam) (vy lam) (vz lam)
  /\ fleb K (vx lam) (vy lam) = true /\ fleb K (vy lam) (vz lam) = true.
Proof. intros K Kf. apply (orient_inertia_diagonal K Kf). Qed.

(** masses carried along unchanged and in order (all other fields do not occur in the model:
    the code passes them through Molecule(orient=True, **self.dict()) untouched) *)
Theorem C16_masses_untouched : forall (K : Fops) eigh (atoms r : list (watom K)),
  orient_atoms K eigh atoms = Ok r -> map snd r = map snd atoms.
Proof. intros K. apply (orient_masses K). Qed.

(** the body of Molecule._orient_molecule_internal as translated from the source (Gen/OrientBody.v: np.average with
    self.masses as weights, in-place shift, tensor, eigh, np.dot, and the EAGER phase loop with in-place column flips,
    early exit, tests and threshold taken from the source text; no other attribute of the molecule is read) computes,
    for every molecule, exactly the geometry of the model that all other theorems are about *)
Theorem C16_generated_body_is_model : forall (K : Fops), is_field K ->
  forall (eigh : mat3 K -> vec3 K * mat3 K) (atoms : list (watom K)),
  orient_internal_gen K eigh (map fst atoms) (map snd atoms)
  = obind (orient_atoms K eigh atoms) (fun r => Ok (map fst r)).
Proof. intros K Kf. apply (orient_gen_is_model K Kf). Qed.

(** in particular the eager in-place phase loop of the source equals recording the signs and applying them afterwards *)
Theorem C16_eager_phase_loop_is_deferred : forall (K : Fops), is_field K -> forall (nz : K) (g : list (vec3 K)),
  eager_phase_loop K (fun val => fltb K (py_abs K val) nz) (fun val => fltb K val (fofZ K 0)) (fofZ K (-1)) g
  = apply_phase K nz g.
Proof. intros K Kf. apply (eager_loop_is_apply_phase K Kf). Qed.

(** * Non-vacuity (Q instance, exact): six unit masses at (+-1,0,0), (0,+-2,0), (0,0,+-3), turned by the
    rational rotation (3-4-5 about x) and shifted; eigh's exact answer is w = (10, 20, 26) with
    eigenvectors rot^T [e_z e_y e_x]; the model puts the molecule back on the axes, lightest axis first *)
Definition ex_rot : mat3 QK := ((1, 0, 0), (0, 3 # 5, -4 # 5), (0, 4 # 5, 3 # 5))%Q.
Definition ex_tau : vec3 QK := (1 # 2, -2, 7 # 4)%Q.
Definition ex_base : list (watom QK) :=
  [((1, 0, 0), 1); ((-1, 0, 0), 1); ((0, 2, 0), 1); ((0, -2, 0), 1); ((0, 0, 3), 1); ((0, 0, -3), 1)]%Q.
Definition ex_moved : list (watom QK) := map (fun a : watom QK => (vadd (vm (fst a) ex_rot) ex_tau, snd a)) ex_base.
Definition ex_V : mat3 QK := mmul (mtrans ex_rot) ((0, 0, 1), (0, 1, 0), (1, 0, 0))%Q.
Example C16_ex_run :
  eigh_ok_b (inertia_tensor QK (centre QK ex_moved)) (10, 20, 26)%Q ex_V = true
  /\ match orient_atoms QK (fun _ => ((10, 20, 26)%Q, ex_V)) ex_moved with
     | Ok r => rows_close 0 (map fst r) [(0, 0, 1); (0, 0, -1); (0, 2, 0); (0, -2, 0); (3, 0, 0); (-3, 0, 0)]%Q
     | Err _ => false
     end = true
  (* the unmoved molecule (eigenvectors [e_z e_y e_x]) is oriented to the very same coordinates *)
  /\ match orient_atoms QK (fun _ => ((10, 20, 26)%Q, ((0, 0, 1), (0, 1, 0), (1, 0, 0))%Q)) ex_base with
     | Ok r => rows_close 0 (map fst r) [(0, 0, 1); (0, 0, -1); (0, 2, 0); (0, -2, 0); (3, 0, 0); (-3, 0, 0)]%Q
     | Err _ => false
     end = true.
Proof. repeat split; vm_compute; reflexivity. Qed.

(** handedness is NOT preserved: a chiral molecule (point group D2: a tetrahedron of four atoms inside six atoms at
    +-1, +-2, +-3 on the axes) and its mirror image z -> -z have opposite signed volumes, both meet the eigh specification with
    the same eigenvectors, and are oriented to identical coordinates (see C16_mirror_image_same_frame for the general fact) *)
Definition ex_chiral : list (watom QK) :=
  [((1, 1, 1), 1); ((-1, -1, 1), 1); ((1, -1, -1), 1); ((-1, 1, -1), 1);
   ((1, 0, 0), 1); ((-1, 0, 0), 1); ((0, 2, 0), 1); ((0, -2, 0), 1); ((0, 0, 3), 1); ((0, 0, -3), 1)]%Q.
Definition ex_mirror : list (watom QK) := map (fun a : watom QK => ((vx (fst a), vy (fst a), - vz (fst a))%Q, snd a)) ex_chiral.
Definition signed_volume (l : list (watom QK)) : Q :=
  match map fst l with
  | p0 :: p1 :: p2 :: p3 :: _ => triple (vsub p1 p0) (vsub p2 p0) (vsub p3 p0)
  | _ => 0
  end.
Definition ex_eigh : mat3 QK -> vec3 QK * mat3 QK := fun _ => ((18, 28, 34)%Q, ((0, 0, 1), (0, 1, 0), (1, 0, 0))%Q).
Example C16_ex_chirality_inverted :
  Qeq_bool (signed_volume ex_chiral) (-16) = true /\ Qeq_bool (signed_volume ex_mirror) 16 = true
  /\ eigh_ok_b (inertia_tensor QK (centre QK ex_chiral)) (18, 28, 34)%Q (snd (ex_eigh (mident QK))) = true
  /\ eigh_ok_b (inertia_tensor QK (centre QK ex_mirror)) (18, 28, 34)%Q (snd (ex_eigh (mident QK))) = true
  /\ match orient_atoms QK ex_eigh ex_chiral, orient_atoms QK ex_eigh ex_mirror with
     | Ok r1, Ok r2 => rows_close 0 (map fst r1) (map fst r2) && Qeq_bool (signed_volume r1) (signed_volume r2)
     | _, _ => false
     end = true.
Proof. repeat split; vm_compute; reflexivity. Qed.


(** the flush zone on a whole molecule, through the generated body AND the generated store, exactly over Q: five unit masses already in
    their inertial frame, atoms 0 and 1 lying 2e-7 off the plane normal to the lightest axis.  The internal result puts them at
    +2e-7 (they decide the phase), the stored geometry has them at 0.0 and the first atom visibly off that plane at -3.0000002. *)
Definition fz_e : Q := 2 # 10000000.
Definition fz_atoms : list (watom QK) :=
  [((1, 0, fz_e), 1); ((-1, 0, fz_e), 1); ((0, 2, -3 - fz_e), 1); ((0, -2, -3 - fz_e), 1); ((0, 0, 6), 1)]%Q.
Definition fz_lam : vec3 QK :=
  (10, 2 * (1 + fz_e * fz_e) + 2 * ((3 + fz_e) * (3 + fz_e)) + 36, 2 * (fz_e * fz_e) + 2 * (4 + (3 + fz_e) * (3 + fz_e)) + 36)%Q.
Definition fz_eigh : mat3 QK -> vec3 QK * mat3 QK := fun _ => (fz_lam, ((0, 0, 1), (0, 1, 0), (1, 0, 0))%Q).
Example C16_ex_flush_zone_run :
  eigh_ok_b (inertia_tensor QK (centre QK fz_atoms)) fz_lam (snd (fz_eigh (mident QK))) = true
  /\ match orient_internal_gen QK fz_eigh (map fst fz_atoms) (map snd fz_atoms) with
     | Ok g => list_Qeqb (map vx g) [fz_e; fz_e; -3 - fz_e; -3 - fz_e; 6]%Q
     | Err _ => false
     end = true
  /\ match orient_stored_gen QK fz_eigh q_around default_geometry_noise (map fst fz_atoms) (map snd fz_atoms) with
     | Ok g => list_Qeqb (map vx g) [0; 0; -30000002 # 10000000; -30000002 # 10000000; 6]%Q
     | Err _ => false
     end = true.
Proof. repeat split; vm_compute; reflexivity. Qed.

(** * Part B: real numbers *)
Local Open Scope R_scope.

(** phase convention: on each axis, the first atom whose |coordinate| reaches the threshold has a
    positive coordinate *)
Theorem C16_phase_convention : forall (nz : R) (rows : list (vec3 RK)) (proj : vec3 RK -> R),
  0 < nz -> (proj = vx \/ proj = vy \/ proj = vz) ->
  forall pre v post,
    map proj (apply_phase RK nz rows) = pre ++ v :: post ->
    (forall u, In u pre -> Rabs u < nz) -> nz <= Rabs v -> 0 < v.
Proof. exact phase_convention_R. Qed.

Theorem C16_phase_convention_orient : forall eigh (atoms r : list (watom RK)) (proj : vec3 RK -> R),
  orient_atoms RK eigh atoms = Ok r -> (proj = vx \/ proj = vy \/ proj = vz) ->
  forall pre v post,
    map proj (map fst r) = pre ++ v :: post ->
    (forall u, In u pre -> Rabs u < noise RK) -> noise RK <= Rabs v -> 0 < v.
Proof. exact orient_phase_convention_R. Qed.

(** frame uniqueness: a copy moved by ANY orthogonal matrix Rm (proper or improper) and a translation is
    oriented to the same coordinates, provided the principal moments are distinct; precisely, on every
    axis the coordinate columns of the two results are equal, or every entry is below the threshold
    (|x| < 1e-8) and the columns are opposite.  [eigh1], [eigh2] are arbitrary functions meeting the
    eigh specification on the two tensors they are applied to. *)
Theorem C16_frame_unique : forall eigh1 eigh2 (atoms : list (watom RK)) (Rm : mat3 RK) (tau : vec3 RK) (r1 r2 : list (watom RK)),
  orthogonal Rm -> orthogonal (mtrans Rm) -> total_mass RK atoms <> 0 ->
  let T1 := inertia_tensor RK (centre RK atoms) in
  let atoms2 := move_atoms RK Rm tau atoms in
  let T2 := inertia_tensor RK (centre RK atoms2) in
  eigh_ok RK T1 (eigh1 T1) -> eigh_ok RK T2 (eigh2 T2) ->
  vx (fst (eigh1 T1)) < vy (fst (eigh1 T1)) -> vy (fst (eigh1 T1)) < vz (fst (eigh1 T1)) ->
  orient_atoms RK eigh1 atoms = Ok r1 -> orient_atoms RK eigh2 atoms2 = Ok r2 ->
  same_or_tiny_opposite (noise RK) (map vx (map fst r1)) (map vx (map fst r2))
  /\ same_or_tiny_opposite (noise RK) (map vy (map fst r1)) (map vy (map fst r2))
  /\ same_or_tiny_opposite (noise RK) (map vz (map fst r1)) (map vz (map fst r2)).
Proof.
  intros eigh1 eigh2 atoms Rm tau r1 r2 OR OR' HM T1 atoms2 T2 K1 K2 D01 D12 H1 H2.
  destruct (frame_unique eigh1 eigh2 atoms Rm tau r1 r2 OR OR' HM K1 K2 D01 D12 H1 H2) as [u [Su [E [Hx [Hy Hz]]]]].
  apply (signs_cols_readable u); assumption.
Qed.

(** orienting twice changes nothing (same sense), whatever eigh answers the second time *)
Theorem C16_orient_idempotent : forall eigh1 eigh2 (atoms r1 r2 : list (watom RK)),
  total_mass RK atoms <> 0 ->
  let T1 := inertia_tensor RK (centre RK atoms) in
  let T2 := inertia_tensor RK (centre RK r1) in
  eigh_ok RK T1 (eigh1 T1) -> eigh_ok RK T2 (eigh2 T2) ->
  vx (fst (eigh1 T1)) < vy (fst (eigh1 T1)) -> vy (fst (eigh1 T1)) < vz (fst (eigh1 T1)) ->
  orient_atoms RK eigh1 atoms = Ok r1 -> orient_atoms RK eigh2 r1 = Ok r2 ->
  same_or_tiny_opposite (noise RK) (map vx (map fst r1)) (map vx (map fst r2))
  /\ same_or_tiny_opposite (noise RK) (map vy (map fst r1)) (map vy (map fst r2))
  /\ same_or_tiny_opposite (noise RK) (map vz (map fst r1)) (map vz (map fst r2)).
Proof.
  intros eigh1 eigh2 atoms r1 r2 HM T1 T2 K1 K2 D01 D12 H1 H2.
  destruct (orient_twice eigh1 eigh2 atoms r1 r2 HM K1 K2 D01 D12 H1 H2) as [u [Su [E [Hx [Hy Hz]]]]].
  apply (signs_cols_readable u); assumption.
Qed.

(** symmetric tops (no assumption on the moments): the two oriented geometries differ by ONE orthogonal matrix Q that
    intertwines the two spectra, diag(w1) Q = Q diag(w2) - so Q only mixes axes belonging to equal moments (a rotation /
    reflection inside the degenerate eigenspaces).  Orienting twice is the case Rm = V1 S1. *)
Theorem C16_frame_unique_up_to_eigenspace : forall eigh1 eigh2 (atoms : list (watom RK)) (Rm : mat3 RK) (tau : vec3 RK) (r1 r2 : list (watom RK)),
  orthogonal Rm -> orthogonal (mtrans Rm) -> total_mass RK atoms <> 0 ->
  let T1 := inertia_tensor RK (centre RK atoms) in
  let atoms2 := move_atoms RK Rm tau atoms in
  let T2 := inertia_tensor RK (centre RK atoms2) in
  eigh_ok RK T1 (eigh1 T1) -> eigh_ok RK T2 (eigh2 T2) ->
  orient_atoms RK eigh1 atoms = Ok r1 -> orient_atoms RK eigh2 atoms2 = Ok r2 ->
  let l1 := fst (eigh1 T1) in let l2 := fst (eigh2 T2) in
  exists Q : mat3 RK,
    orthogonal Q /\ orthogonal (mtrans Q)
    /\ mmul (mdiag RK (vx l1) (vy l1) (vz l1)) Q = mmul Q (mdiag RK (vx l2) (vy l2) (vz l2))
    /\ map fst r2 = map (fun x => vm x Q) (map fst r1).
Proof. exact frame_unique_degenerate. Qed.

(** orientation does not preserve handedness: the mirror image (z -> -z, an orthogonal map of determinant -1) of a
    molecule with distinct moments is oriented to the same coordinates as the molecule itself *)
Theorem C16_mirror_image_same_frame : forall eigh1 eigh2 (atoms : list (watom RK)) (r1 r2 : list (watom RK)),
  total_mass RK atoms <> 0 ->
  let T1 := inertia_tensor RK (centre RK atoms) in
  let atoms2 := move_atoms RK mirror_z (0, 0, 0) atoms in
  let T2 := inertia_tensor RK (centre RK atoms2) in
  eigh_ok RK T1 (eigh1 T1) -> eigh_ok RK T2 (eigh2 T2) ->
  vx (fst (eigh1 T1)) < vy (fst (eigh1 T1)) -> vy (fst (eigh1 T1)) < vz (fst (eigh1 T1)) ->
  orient_atoms RK eigh1 atoms = Ok r1 -> orient_atoms RK eigh2 atoms2 = Ok r2 ->
  same_or_tiny_opposite (noise RK) (map vx (map fst r1)) (map vx (map fst r2))
  /\ same_or_tiny_opposite (noise RK) (map vy (map fst r1)) (map vy (map fst r2))
  /\ same_or_tiny_opposite (noise RK) (map vz (map fst r1)) (map vz (map fst r2)).
Proof.
  intros eigh1 eigh2 atoms r1 r2 HM T1 atoms2 T2 K1 K2 D01 D12 H1 H2.
  destruct mirror_z_improper as [O [O' _]].
  apply (C16_frame_unique eigh1 eigh2 atoms mirror_z (0, 0, 0) r1 r2 O O' HM K1 K2 D01 D12 H1 H2).
Qed.


(** * The stored geometry (float_prep after the internal result; [np_around 8] is np.around(., 8), assumed only to be within half a
    unit, 0.5e-8, of its argument) *)

(** the public entry points store float_prep of the model's geometry (generated store o generated body = store o model) *)
Theorem C16_generated_store_is_model : forall (eigh : mat3 RK -> vec3 RK * mat3 RK) (np_around : Z -> R -> R) (gn : Z) (atoms : list (watom RK)),
  orient_stored_gen RK eigh np_around gn (map fst atoms) (map snd atoms)
  = obind (orient_atoms RK eigh atoms) (fun r => Ok (map (vmap (float_prep_entry_gen RK np_around gn)) (map fst r))).
Proof. exact orient_stored_gen_is_model. Qed.

(** sign convention on the stored molecule: if every atom listed before v is on the plane for the phase loop (|u| < 1e-8) and v is
    stored non-zero, then those atoms are all stored as 0.0 and v is stored positive *)
Theorem C16_stored_sign_convention : forall (np_around : Z -> R -> R), around_ok (np_around geometry_noise_exp) ->
  forall eigh (atoms r : list (watom RK)) (proj : vec3 RK -> R),
  orient_atoms RK eigh atoms = Ok r -> (proj = vx \/ proj = vy \/ proj = vz) ->
  forall pre v post,
    map proj (map fst r) = pre ++ v :: post ->
    (forall u, In u pre -> Rabs u < noise RK) -> float_prep_entry_gen RK np_around geometry_noise_exp v <> 0 ->
    (forall u, In u pre -> float_prep_entry_gen RK np_around geometry_noise_exp u = 0)
    /\ 0 < float_prep_entry_gen RK np_around geometry_noise_exp v.
Proof. exact stored_sign_convention_R. Qed.

(** read off the stored column: its first non-zero entry is positive PROVIDED no earlier atom was in the flush zone (at or above the
    phase threshold 1e-8 in the internal result, yet stored as 0.0) *)
Theorem C16_stored_first_nonzero_positive : forall (np_around : Z -> R -> R), around_ok (np_around geometry_noise_exp) ->
  forall eigh (atoms r : list (watom RK)) (proj : vec3 RK -> R),
  orient_atoms RK eigh atoms = Ok r -> (proj = vx \/ proj = vy \/ proj = vz) ->
  forall pre v post,
    map proj (map fst r) = pre ++ v :: post ->
    (forall u, In u pre -> float_prep_entry_gen RK np_around geometry_noise_exp u = 0) ->
    float_prep_entry_gen RK np_around geometry_noise_exp v <> 0 ->
    (forall u, In u pre -> ~ (noise RK <= Rabs u)) ->
    0 < float_prep_entry_gen RK np_around geometry_noise_exp v.
Proof. exact stored_first_nonzero_positive. Qed.

(** without that proviso the clause is false of the stored molecule, whatever the rounding function: a column whose first atom sits
    at +2e-7 (it decides the phase, then is stored as 0.0) and whose second atom, at -3, is the first one visibly off the plane *)
Theorem C16_stored_sign_convention_flush_zone_refuted : forall (np_around : Z -> R -> R), around_ok (np_around geometry_noise_exp) ->
  exists rows : list (vec3 RK),
    let col := map vx (apply_phase RK (noise RK) rows) in
    exists u v, col = [u; v] /\ noise RK <= Rabs u
                /\ float_prep_entry_gen RK np_around geometry_noise_exp u = 0
                /\ float_prep_entry_gen RK np_around geometry_noise_exp v <> 0
                /\ float_prep_entry_gen RK np_around geometry_noise_exp v < 0.
Proof. exact stored_sign_convention_flush_zone_refuted. Qed.

(** clause 1 on the STORED molecule (default geometry_noise): it is one map g applied to the original positions in the original
    order, and every interatomic distance differs from the original one by at most 2 sqrt 3 (0.5e-8 + 5^-9) *)
Theorem C16_stored_isometry_within_rounding : forall (np_around : Z -> R -> R), around_ok (np_around geometry_noise_exp) ->
  forall eigh (atoms : list (watom RK)) (s : list (vec3 RK)),
  orient_stored_gen RK eigh np_around geometry_noise_exp (map fst atoms) (map snd atoms) = Ok s ->
  eigh_ok RK (inertia_tensor RK (centre RK atoms)) (eigh (inertia_tensor RK (centre RK atoms))) ->
  exists g, s = map g (map fst atoms)
            /\ forall p q, Rabs (vnorm (vsub (g p) (g q)) - vnorm (vsub p q)) <= 2 * sqrt 3 * (noise RK / 2 + / 1953125).
Proof. exact stored_isometry_within_rounding. Qed.

(** between two atoms none of whose six coordinates is flushed to 0.0, only the 8-decimal rounding remains: 2 sqrt 3 * 0.5e-8 *)
Theorem C16_stored_distance_where_visible : forall (np_around : Z -> R -> R), around_ok (np_around geometry_noise_exp) ->
  forall p q : vec3 RK,
  let st := float_prep_entry_gen RK np_around geometry_noise_exp in
  (forall c, In c [vx p; vy p; vz p; vx q; vy q; vz q] -> st c <> 0) ->
  Rabs (vnorm (vsub (@vmap RK st p) (@vmap RK st q)) - vnorm (vsub p q)) <= 2 * sqrt 3 * (noise RK / 2).
Proof. exact stored_distance_visible. Qed.

(** clause 3 on the STORED molecule: each component of sum m_i x_i is at most (0.5e-8 + 5^-9) sum |m_i| in magnitude *)
Theorem C16_stored_com_within_rounding : forall (np_around : Z -> R -> R), around_ok (np_around geometry_noise_exp) ->
  forall eigh (atoms r : list (watom RK)),
  orient_atoms RK eigh atoms = Ok r -> total_mass RK atoms <> 0 ->
  let st := float_prep_entry_gen RK np_around geometry_noise_exp in
  let stored := map (fun a => (@vmap RK st (fst a), snd a)) r in
  let bound := (noise RK / 2 + / 1953125) * fsum RK (map (fun a => Rabs (snd a)) atoms) in
  Rabs (vx (wsum RK stored)) <= bound /\ Rabs (vy (wsum RK stored)) <= bound /\ Rabs (vz (wsum RK stored)) <= bound.
Proof. exact stored_com_within_rounding. Qed.

(** clause 4 on the STORED molecule: the off-diagonal entries of its inertia tensor (generated from Molecule._inertial_tensor) are at
    most d sum |m_i| (|u_i| + |v_i| + d) in magnitude, d = 0.5e-8 + 5^-9, u_i and v_i the two coordinates involved of atom i in the
    internal result (whose tensor is exactly diagonal: C16_inertia_diagonal_ascending); the tensor stays symmetric *)
Theorem C16_stored_inertia_offdiagonal_within_rounding : forall (np_around : Z -> R -> R), around_ok (np_around geometry_noise_exp) ->
  forall eigh (atoms r : list (watom RK)),
  orient_atoms RK eigh atoms = Ok r ->
  eigh_ok RK (inertia_tensor RK (centre RK atoms)) (eigh (inertia_tensor RK (centre RK atoms))) ->
  let st := float_prep_entry_gen RK np_around geometry_noise_exp in
  let stored := map (fun a => (@vmap RK st (fst a), snd a)) r in
  let d := noise RK / 2 + / 1953125 in
  let bound (p1 p2 : vec3 RK -> R) := d * fsum RK (map (fun a => Rabs (snd a) * (Rabs (p1 (fst a)) + Rabs (p2 (fst a)) + d)) r) in
  Rabs (it_0_1 RK stored) <= bound vx vy /\ Rabs (it_0_2 RK stored) <= bound vx vz /\ Rabs (it_1_2 RK stored) <= bound vy vz
  /\ it_1_0 RK stored = it_0_1 RK stored /\ it_2_0 RK stored = it_0_2 RK stored /\ it_2_1 RK stored = it_1_2 RK stored.
Proof. exact stored_inertia_offdiagonal_within_rounding. Qed.

(** orienting twice, any moments: the second internal result is the first turned by one orthogonal matrix commuting with the spectrum *)
Theorem C16_orient_twice_up_to_eigenspace : forall eigh1 eigh2 (atoms r1 r2 : list (watom RK)),
  total_mass RK atoms <> 0 ->
  let T1 := inertia_tensor RK (centre RK atoms) in
  let T2 := inertia_tensor RK (centre RK r1) in
  eigh_ok RK T1 (eigh1 T1) -> eigh_ok RK T2 (eigh2 T2) ->
  orient_atoms RK eigh1 atoms = Ok r1 -> orient_atoms RK eigh2 r1 = Ok r2 ->
  let l1 := fst (eigh1 T1) in let l2 := fst (eigh2 T2) in
  exists Q : mat3 RK,
    orthogonal Q /\ orthogonal (mtrans Q)
    /\ mmul (mdiag RK (vx l1) (vy l1) (vz l1)) Q = mmul Q (mdiag RK (vx l2) (vy l2) (vz l2))
    /\ map fst r2 = map (fun x => vm x Q) (map fst r1).
Proof. exact orient_twice_degenerate. Qed.

(* the rounding assumption is satisfiable: the identity is within half a unit of its argument *)
Example C16_ex_around_ok : around_ok (fun x => x).
Proof. intro x. unfold Rminus. rewrite Rplus_opp_r, Rabs_R0. pose proof noise_pos_R. lra. Qed.

Example C16_ex_mirror_is_improper : orthogonal mirror_z /\ orthogonal (mtrans mirror_z) /\ mdet mirror_z = -1.
Proof. destruct mirror_z_improper as [A [B C]]. split; [exact A|]. split; [exact B|]. rewrite C. lra. Qed.

Example C16_ex_R_field : is_field RK.
Proof. exact RK_field. Qed.

Print Assumptions C16_isometry.
Print Assumptions C16_com_at_origin.
Print Assumptions C16_inertia_transforms.
Print Assumptions C16_inertia_diagonal_ascending.
Print Assumptions C16_masses_untouched.
Print Assumptions C16_generated_body_is_model.
Print Assumptions C16_eager_phase_loop_is_deferred.
Print Assumptions C16_phase_convention.
Print Assumptions C16_phase_convention_orient.
Print Assumptions C16_frame_unique.
Print Assumptions C16_orient_idempotent.
Print Assumptions C16_frame_unique_up_to_eigenspace.
Print Assumptions C16_mirror_image_same_frame.
Print Assumptions C16_generated_store_is_model.
Print Assumptions C16_stored_sign_convention.
Print Assumptions C16_stored_first_nonzero_positive.
Print Assumptions C16_stored_sign_convention_flush_zone_refuted.
Print Assumptions C16_stored_isometry_within_rounding.
Print Assumptions C16_stored_distance_where_visible.
Print Assumptions C16_stored_com_within_rounding.
Print Assumptions C16_stored_inertia_offdiagonal_within_rounding.
Print Assumptions C16_orient_twice_up_to_eigenspace.
