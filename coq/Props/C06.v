(** C06 — Nucleus reconciliation never contradicts its inputs or the periodic table.
    Property theorems only; each is closed by [exact] of a lemma from Proofs/Nucleus.v, Proofs/NucleusKeys.v,
    Proofs/NucleusLabel.v, Proofs/NucleusLabelExact.v, Proofs/NucleusClass.v or Proofs/NucleusCacheKey.v.
    Model: Model/Nucleus.v ([reconcile] = reconcile_nucleus, [parse_label] = parse_nucleus_label) over the
    shipped table Gen/PTable.v (regenerated from /repo on every run); masses are exact rationals.

    CLAUSE MAP (statement of C06 in properties.jsonl, clause by clause)
    1. "a successful reconciliation returns one element whose symbol and atomic number match the periodic table and
       every supplied clue"                      -> C06_sound (all clue subsets, all label texts, all settings).
    2. "a mass number that is either that of a known nuclide whose tabulated mass lies within the tolerance of the
       returned mass or -1"                       -> C06_sound (field s_nuclide) with C06_nuclide_key_is_table_row.
    3. "a mass inside the element's physical range unless non-physical masses were explicitly allowed"
                                                  -> C06_sound (s_range) with C06_mass_range_meaning.
    4. "the ghost flag and lower-cased user tag exactly as given" -> C06_sound (s_real, s_user, s_label; defaults when
       nothing was said).
    5. "with no isotope information the most abundant isotope is used" -> C06_default_isotope.
    6. "contradictory clues raise a validation error rather than being resolved in favour of one of them"
                                                  -> C06_contradiction_rejected (nine contradiction forms: never Ok),
       error CLASS: C06_contradiction_is_validation_error (ValidationError whenever every name in the clues is in the
       table) and C06_not_an_element_only_for_unknown_names (NotAnElementError — documented, pinned by the suite for
       A=80, Z=27 — arises only when a clue names an element or nuclide that is not tabulated), C06_fails_closed.
    7. "the result does not depend on earlier calls" -> C06_history_independent: a model of functools.lru_cache
       (maxsize 512, exceptions not cached, hits refresh, LRU eviction, cache_clear) around [reconcile]; every answer in
       every history of calls and clears equals the uncached answer.  The hypothesis that makes this true — equal keys
       denote the same call — is exactly what a coarser key breaks: C06_cache_key_must_separate (the hypothesis is also
       NECESSARY: a memo that identifies a call with an earlier successful one of a different answer gets a history
       wrong), C06_every_argument_is_significant (for each of the nine arguments two calls that differ in it only —
       unspecified vs explicit — with different outcomes) and C06_cache_key_must_distinguish (so any history-independent
       memo keys on all nine; "real unspecified" is not "real=True": C06_ex_unspecified_real).  On the implementation:
       history stream, incl. pairs of calls that differ only in one clue/option being unspecified vs explicit, in both
       orders on a warm cache, also through one-atom from_arrays columns.
    8. "and is reproduced when the output is fed back" -> C06_feedback_fixed_point (0 <= mtol <= 1/4; beyond: known
       finding C06-wide-mtol-feedback).
    9. label grammar ("a label such as '@13C_tag@13.003'") -> C06_parse_label_spec (parse_label s = Ok f <-> Label s f:
       exactly the grammar's strings, exactly the grammar's fields), C06_label_unambiguous, C06_parse_label_refuses
       (everything else: ValidationError); C06_parse_label_sound / _complete kept as the two halves.
    Quantifier "histories": theorem 7 for the model, history stream for the implementation.  Gap: the tie between
    the hand-written recogniser and regex.NUCLEUS is differential (label stream), not a translation. *)
From Coq Require Import ZArith List Bool String QArith Qabs.
Require Import QV.Common.Outcome QV.Gen.PTable QV.Model.Nucleus QV.Proofs.NucleusKeys QV.Proofs.Nucleus QV.Proofs.NucleusLabel.
Require Import QV.Proofs.NucleusLabelExact QV.Proofs.NucleusClass QV.Proofs.NucleusCacheKey.
Import ListNotations.
Open Scope Z_scope.

(** Soundness, for every combination of clues (any subset of A, Z, E, mass, real, label; any label text; any
    speclabel / nonphysical / mtol): a returned nucleus (A, Z, E, mass, real, user) has (Z, E) a row of the table;
    agrees with every supplied clue — Z, the element the symbol clue denotes, A (which is then a tabulated nuclide
    of E whose mass is within mtol of the returned mass), mass, real, and likewise each component of a
    parsed label (ghost marker, Z or E, A, mass, user tag lower-cased); the user tag is "" and real is True when
    nothing was said about them; A is -1 or a tabulated nuclide whose mass equals the returned mass or lies
    within mtol of it; the mass lies within [min-0.5, max+0.5] of the element's isotope masses unless
    nonphysical (then > 0.5).  See [Sound] in Proofs/Nucleus.v. *)
Theorem C06_sound : forall i o, reconcile i = Ok o -> Sound i o.
Proof. exact reconcile_sound. Qed.

(** What "tabulated nuclide" means: looking up the key E+str(A) for an element symbol E finds exactly a row
    (E, A, mass) of the shipped isotope arrays, with A >= 0 and |mass - A| < 1/4. *)
Theorem C06_nuclide_key_is_table_row :
  forall e a t, In e pt_E -> nuclide_mass e a = Ok t ->
    In (e, (a, t)) t_rows /\ 0 <= a /\ (0 <= t)%Q /\ (Qabs (t - inject_Z a) < 1 # 4)%Q.
Proof. exact nuclide_row. Qed.

(** ... and the physical mass window is the least and greatest isotope mass of the element. *)
Theorem C06_mass_range_meaning :
  forall e lo hi, mass_range e = Some (lo, hi) ->
    (forall a m, In (a, m) (el2a2mass e) -> (lo <= m <= hi)%Q) /\
    (exists a, In (a, lo) (el2a2mass e)) /\ (exists a, In (a, hi) (el2a2mass e)).
Proof. exact mass_range_spec. Qed.

(** With no isotope information (no A, no mass, and no A or mass inside the label) the element's default
    (most abundant / longest-lived) isotope and its mass are returned. *)
Theorem C06_default_isotope :
  forall i o, reconcile i = Ok o -> no_isotope_info i ->
    to_A_int (oZ o) = Ok (oA o) /\ to_mass_int (oZ o) = Ok (omass o).
Proof. exact reconcile_default. Qed.

(** Only the two documented exception classes are ever raised. *)
Theorem C06_fails_closed :
  forall i, (exists o, reconcile i = Ok o) \/ reconcile i = Err Validation \/ reconcile i = Err NotAnElement.
Proof. exact reconcile_fails_closed. Qed.

(** Contradictory clues (Z against E; an A that is no nuclide of the element; A against mass beyond mtol; real
    against the label's ghost marker; Z, E, A or mass against the label's; an unparseable label) are refused
    with one of the documented errors — never resolved in favour of one of them. *)
Theorem C06_contradiction_rejected :
  forall i, Contradiction i -> reconcile i = Err Validation \/ reconcile i = Err NotAnElement.
Proof. exact contradiction_rejected. Qed.

(** The result fed back (A omitted when -1, user tag as label with speclabel=False, same nonphysical/mtol) is
    reproduced, for every tolerance 0 <= mtol <= 1/4 (below the isotope spacing), the window edges included. *)
Theorem C06_feedback_fixed_point :
  forall i o, reconcile i = Ok o -> (0 <= mtol i)%Q -> (mtol i <= 1 # 4)%Q ->
    exists o', reconcile (feedback i o) = Ok o' /\ out_equiv o' o.
Proof. exact feedback_fixed_point. Qed.

(** The label recogniser accepts only strings of the label grammar and returns its fields. *)
Theorem C06_parse_label_sound : forall s f, parse_label s = Ok f -> Label (list_ascii_of_string s) f.
Proof. exact parse_label_sound. Qed.

(** ... and it accepts every string of the grammar (so it refuses exactly the others, with ValidationError). *)
Theorem C06_parse_label_complete : forall s f, Label (list_ascii_of_string s) f -> exists f', parse_label s = Ok f'.
Proof. exact parse_label_complete. Qed.

(** The recogniser accepts exactly the strings of the label grammar and returns exactly the grammar's fields. *)
Theorem C06_parse_label_spec : forall s f, parse_label s = Ok f <-> Label (list_ascii_of_string s) f.
Proof. exact parse_label_spec. Qed.

(** The grammar is unambiguous: a label has at most one reading. *)
Theorem C06_label_unambiguous :
  forall s f f', Label (list_ascii_of_string s) f -> Label (list_ascii_of_string s) f' -> f = f'.
Proof. exact label_unambiguous. Qed.

(** Every other string is refused with ValidationError. *)
Theorem C06_parse_label_refuses : forall s, (forall f, ~ Label (list_ascii_of_string s) f) -> parse_label s = Err Validation.
Proof. exact parse_label_refuses. Qed.

(** Error class.  NotAnElementError is raised only when some clue names something that is not in the table: if every
    Z / E clue (arguments and label) is an element and every mass-number clue is a tabulated nuclide of the elements
    named ([names_known]), the only error is ValidationError ... *)
Theorem C06_not_an_element_only_for_unknown_names : forall i, names_known i -> reconcile i <> Err NotAnElement.
Proof. exact not_an_element_only_for_unknown_names. Qed.

(** ... so contradictory clues whose names are all tabulated raise ValidationError. *)
Theorem C06_contradiction_is_validation_error : forall i, Contradiction i -> names_known i -> reconcile i = Err Validation.
Proof. exact contradiction_is_validation_error. Qed.

(** The result does not depend on earlier calls: behind functools.lru_cache (maxsize 512; exceptions are not cached;
    a hit refreshes its entry; least recently used entries are evicted), for every history of calls and cache_clear()s
    starting from an empty cache, every answer is the answer of the uncached function. *)
Theorem C06_history_independent :
  forall h : list (event nuc_in),
    fst (run nuc_in nuc_out key_eqb reconcile lru_maxsize [] h) = pure nuc_in nuc_out reconcile h.
Proof. exact reconcile_history_independent. Qed.

(** The hypothesis of the cache theorem is necessary, for ANY memo of this shape (any key comparison, any size >= 1): if
    every history is answered like the uncached function, a call is only ever identified with a stored successful call
    that has the same answer. *)
Theorem C06_cache_key_must_separate :
  forall (keq : nuc_in -> nuc_in -> bool) (maxsize : nat), (1 <= maxsize)%nat ->
    (forall h, fst (run nuc_in nuc_out keq reconcile maxsize [] h) = pure nuc_in nuc_out reconcile h) ->
    forall a b v, reconcile a = Ok v -> keq b a = true -> reconcile b = Ok v.
Proof. intros keq maxsize. exact (key_must_separate nuc_in nuc_out keq reconcile maxsize). Qed.

(** Every one of the nine arguments matters on its own: for each there are two calls that agree in all the others,
    the first succeeds, and the second (the clue made explicit / the option flipped) has a different outcome. *)
Theorem C06_every_argument_is_significant :
  forall fd, exists a b v, same_except fd a b /\ reconcile a = Ok v /\ reconcile b <> Ok v.
Proof. exact every_argument_is_significant. Qed.

(** Hence a history-independent memo around reconcile_nucleus tells apart, for each argument, two calls that differ in
    that argument only — in particular "unspecified" from every explicit value. *)
Theorem C06_cache_key_must_distinguish :
  forall keq : nuc_in -> nuc_in -> bool,
    (forall h, fst (run nuc_in nuc_out keq reconcile lru_maxsize [] h) = pure nuc_in nuc_out reconcile h) ->
    forall fd, exists a b, same_except fd a b /\ keq b a = false.
Proof. exact cache_key_must_distinguish. Qed.

(** Non-vacuity. *)
Definition ex_in : nuc_in :=
  {| nA := Some 59; nZ := Some 27; nE := Some "cO"%string; nmass := Some (58933195048 # 1000000000); nreal := None;
     nlabel := Some "@co_mIne@58.933195048"%string; speclabel := true; nonphysical := false; mtol := 1 # 1000 |}.
Definition ex_out : nuc_out :=
  {| oA := 59; oZ := 27; oE := "Co"%string; omass := 58933195048 # 1000000000; oreal := false; ouser := "_mine"%string |}.
Example C06_ex_reconcile : reconcile ex_in = Ok ex_out.
Proof. vm_compute. reflexivity. Qed.
Example C06_ex_feedback : (0 <= mtol ex_in)%Q /\ (mtol ex_in <= 1 # 4)%Q /\
  reconcile (feedback ex_in ex_out) = Ok ex_out.
Proof. repeat split; vm_compute; first [reflexivity | discriminate]. Qed.
(** the repaired boundary case (fixed finding C06-mtol-boundary-feedback): mass exactly mtol from m(Co-59) *)
Example C06_ex_boundary_fixed :
  reconcile boundary_in = Ok boundary_out /\ reconcile (feedback boundary_in boundary_out) = Ok boundary_out.
Proof. exact feedback_boundary_witness. Qed.
Example C06_ex_default : no_isotope_info {| nA := None; nZ := None; nE := None; nmass := None; nreal := None;
     nlabel := Some "Gh(27_x)"%string; speclabel := true; nonphysical := false; mtol := 1 # 1000 |}.
Proof.
  split; [reflexivity | split; [reflexivity|]]. right. right.
  exists "Gh(27_x)"%string, {| lA := None; lZ := Some 27; lE := None; lmass := None; lreal := false; luser := Some "_x"%string |}.
  split; [reflexivity | split; [vm_compute; reflexivity | split; reflexivity]].
Qed.
Example C06_ex_contradiction : Contradiction {| nA := None; nZ := Some 1; nE := Some "he"%string; nmass := None; nreal := None;
     nlabel := None; speclabel := true; nonphysical := false; mtol := 1 # 1000 |}.
Proof. eapply K_Z_E; [reflexivity | reflexivity | vm_compute; discriminate]. Qed.
Definition ex_contra : nuc_in := {| nA := None; nZ := Some 1; nE := Some "he"%string; nmass := None; nreal := None;
     nlabel := None; speclabel := true; nonphysical := false; mtol := 1 # 1000 |}.
Example C06_ex_names_known : names_known ex_contra /\ reconcile ex_contra = Err Validation.
Proof.
  split; [|vm_compute; reflexivity]. split.
  - intros c [<-|[<-|[]]]; simpl; [exists "H"%string; vm_compute; reflexivity | exists 2, "He"%string; split; vm_compute; reflexivity].
  - intros lbl Hp. vm_compute in Hp. injection Hp as <-. split; [intros c []|]. intros c z e a _ _ _ Ha. simpl in Ha. destruct Ha.
Qed.
Example C06_ex_history :
  fst (run nuc_in nuc_out key_eqb reconcile lru_maxsize [] [Call nuc_in ex_in; Call nuc_in ex_contra; Clear nuc_in; Call nuc_in ex_in; Call nuc_in ex_in])
  = [Ok ex_out; Err Validation; Ok ex_out; Ok ex_out].
Proof. vm_compute. reflexivity. Qed.
(** label "@he" alone is a ghost helium; the same label with real=True is refused *)
Example C06_ex_unspecified_real :
  exists v, reconcile (fst (witness Freal)) = Ok v /\ oreal v = false /\ reconcile (snd (witness Freal)) = Err Validation.
Proof. exact unspecified_real_is_not_true. Qed.
Example C06_ex_label : parse_label "Gh(40Ca_mine@1.07)" =
  Ok {| lA := Some 40; lZ := None; lE := Some "Ca"%string; lmass := Some (107 # 100); lreal := false; luser := Some "_mine"%string |}.
Proof. vm_compute. reflexivity. Qed.

Print Assumptions C06_sound.
Print Assumptions C06_nuclide_key_is_table_row.
Print Assumptions C06_mass_range_meaning.
Print Assumptions C06_default_isotope.
Print Assumptions C06_fails_closed.
Print Assumptions C06_contradiction_rejected.
Print Assumptions C06_feedback_fixed_point.
Print Assumptions C06_parse_label_sound.
Print Assumptions C06_parse_label_complete.
Print Assumptions C06_parse_label_spec.
Print Assumptions C06_label_unambiguous.
Print Assumptions C06_parse_label_refuses.
Print Assumptions C06_not_an_element_only_for_unknown_names.
Print Assumptions C06_contradiction_is_validation_error.
Print Assumptions C06_history_independent.
Print Assumptions C06_cache_key_must_separate.
Print Assumptions C06_every_argument_is_significant.
Print Assumptions C06_cache_key_must_distinguish.
