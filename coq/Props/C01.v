(** C01 — Periodic-table lookups are alias-invariant and faithful to NIST SRD-144.
    Model: Model/PeriodicTable.v over Gen/PTable.v (shipped arrays), Gen/PeriodGroup.v (period ladder,
    group chain, translated from periodic_table.py), Gen/Srd144.v (raw NIST JSON strings + the
    hand-kept data of build_periodic_table.py).  [observe_spec x] is the record of everything the public
    accessors answer for identifier x (resolved key, to_Z/to_E/to_element strict and not, to_A,
    to_mass as Decimal, to_period, to_group).  Strings are ASCII ([PyAscii]).

    CLAUSE MAP (statement of C01 in properties.jsonl, clause -> theorems; "gen" = stated on / proved equal to the functions
    of Gen/PTGlue.v, which harness/translate/ptglue.py regenerates from periodic_table.py on every run)
    (a) every accepted way of naming a species (int Z, digit string, symbol, name, nuclide label; any letter case) resolves to
        the same species:  C01_case_insensitive (all strings), C01_alias_invariance + C01_alias_invariance_every_accessor
        (every row x every accessor incl. Decimal / float / raw-string mass, period, group, strict on/off),
        C01_public_entry_points_alias_invariant (the same on the generated entry points), C01_nuclide_labels_resolve +
        C01_nuclide_alias_every_accessor (labels, every accessor, element-level answers = those of the bare element),
        C01_int_of_str_roundtrip, C01_digit_string_is_int (digit string of ANY integer).
    (b) Z, symbol, name, A, mass (float and Decimal) are exactly NIST SRD-144's:  C01_faithful_isotopes,
        C01_faithful_isotopes_float, C01_float_is_rounded_decimal, C01_float_mass_is_nearest_double,
        C01_float_mass_from_shipped_string (+ C01_rne_nearest_even, C01_nearest_double_correct, C01_float_of_string_agrees,
        C01_float_models_agree, C01_decimal_reading_agrees), C01_only_srd_species, C01_element_columns_exact,
        C01_dummy_rows_as_seeded.
    (c) bare element = most abundant, else longest-lived isotope:  C01_faithful_bare_element,
        C01_faithful_bare_element_all_aliases (every alias form and case, float included), C01_default_isotope_rule.
    (d) period / group = position in the 18-column table:  C01_period_group_standard, C01_ladder_is_reference,
        C01_dummy_period_group (Z = 0: pinned behaviour).
    (e) strict mode accepts exactly the element-level names, rejects nuclide labels:  C01_strict_exact,
        C01_strict_rejects_nuclides, C01_public_strict_exact (gen).
    (f) a name that denotes no tabulated species raises NotAnElementError:  C01_resolve_sound, C01_resolve_rejects,
        C01_resolve_accepts_iff, C01_unnamed_rejected_by_every_accessor (model and gen entry points, every option),
        instances C01_int_outside_rejected, C01_str_outside_rejected, C01_lettered_unnamed_rejected (unknown symbols/words),
        C01_absent_mass_number_rejected, C01_mass_number_in_front_rejected, C01_decimal_strings_rejected;  C01_fails_closed.
    (g) the 9 accessors and their to_atomic_number/... aliases ARE the model:  C01_generated_glue_is_model,
        C01_generated_init_and_names (gen = hand model for all identifiers; alias names are plain rebindings; all keyword
        defaults are False), C01_observe_is_accessors.
    Only correspondence / oracle (no theorem can state it: the model is a pure function): answers do not depend on EARLIER
    calls on the same table object (history streams of harness/props/c01.py); float/bool/non-ASCII identifiers. *)
From Coq Require Import ZArith List String Ascii Bool.
Require Import QV.Common.Outcome QV.Common.PyAscii QV.Common.PyAsciiIntStr QV.Common.NearestDouble QV.Common.NearestDoubleNorm.
Require Import QV.Gen.PTable QV.Gen.PeriodGroup QV.Gen.Srd144 QV.Model.PeriodicTable QV.Model.PeriodicTableFloat.
Require Import QV.Model.PeriodicTableGlue QV.Gen.PTGlue.
Require Import QV.Proofs.PeriodicTableF1 QV.Proofs.PeriodicTableF2 QV.Proofs.PeriodicTableF3 QV.Proofs.PeriodicTable
               QV.Proofs.PeriodicTableReject QV.Proofs.PeriodicTableMore QV.Proofs.PeriodicTableFloatStr QV.Proofs.PeriodicTableWave2
               QV.Proofs.PeriodicTableWave3 QV.Proofs.PeriodicTableGlue.
Import ListNotations.
Open Scope Z_scope.

(** Letter case never matters: for ALL strings s, t that differ only in letter case, every accessor
    (strict or not) gives the same answer or the same error. *)
Theorem C01_case_insensitive :
  forall s t, same_mod_case s t -> observe_spec (PStr s) = observe_spec (PStr t).
Proof. exact observe_mod_case. Qed.

(** lower / UPPER / Capitalised spellings are instances of [same_mod_case]. *)
Theorem C01_case_variants :
  forall s, same_mod_case (lower s) s /\ same_mod_case (upper s) s /\ same_mod_case (capitalize s) s.
Proof. intro s. split; [apply same_mod_case_lower|split; [apply same_mod_case_upper|apply same_mod_case_capitalize]]. Qed.

(** Alias invariance over every element row (Z, E, name) of the shipped table: the integer Z, and the digit
    string, the symbol and the name in any letter case, strict or not, all resolve to E, and all accessors
    agree on them. *)
Theorem C01_alias_invariance :
  forall z e n s b,
    In (z, e, n) elem_rows ->
    same_mod_case s (str_of_Z z) \/ same_mod_case s e \/ same_mod_case s n ->
    resolve (PInt z) b = Ok e /\ resolve (PStr s) b = Ok e /\ observe_spec (PStr s) = observe_spec (PInt z).
Proof. exact alias_invariance. Qed.

(** int(str(z)) = z for EVERY integer z whose decimal text has at most 4300 digits (CPython's limit), so the
    "digit string of Z" alias form is the integer itself for all integers, inside and outside the table: it resolves
    identically and every accessor answers the same. *)
Theorem C01_int_of_str_roundtrip :
  forall z, (N.of_nat (ndigits10 z) <= max_str_digits)%N -> pyint_str (str_of_Z z) = Ok z.
Proof. exact pyint_str_of_Z. Qed.

Theorem C01_digit_string_is_int :
  forall z, (N.of_nat (ndigits10 z) <= max_str_digits)%N ->
    resolve_eliso (PStr (str_of_Z z)) = resolve_eliso (PInt z) /\
    observe_spec (PStr (str_of_Z z)) = observe_spec (PInt z).
Proof. exact digit_string_is_int. Qed.

(** Every nuclide label of the table, in any letter case, resolves to that label. *)
Theorem C01_nuclide_labels_resolve :
  forall ea s, In ea pt_EA -> same_mod_case s ea -> resolve (PStr s) false = Ok ea.
Proof. exact label_any_case. Qed.

(** Faithfulness, isotopes: for every element e of SRD-144, every isotope i of e and every name of it
    (systematic label E ++ A; also the own symbol for D and T), in any letter case, the accessors return NIST's
    atomic number, (renamed) symbol, NIST SP 966 name, mass number and relative atomic mass — the mass as the
    exact decimal (coefficient, exponent) and as the very digit string of the JSON without its uncertainty. *)
Theorem C01_faithful_isotopes :
  forall e i lbl s,
    In e srd_elements -> In i (e_isos e) -> In lbl (i_labels (e_sym e) i) -> same_mod_case s lbl ->
    exists z name a m,
      e_Z e = Some z /\ e_name e = Some name /\ i_A i = Some a /\ i_mass i = Some m /\
      to_Z (PStr s) false = Ok z /\ to_E (PStr s) false = Ok (e_sym e) /\
      to_element (PStr s) false = Ok name /\ to_A (PStr s) = Ok a /\
      to_mass_dec (PStr s) = Ok m /\ to_mass_str (PStr s) = Ok (i_mass_str i).
Proof. exact isotope_faithful_any_case. Qed.

(** Faithfulness, bare element: Z (int or digit string), symbol and name resolve (also strictly) to NIST's
    symbol, and its mass number and mass are those of [default_iso e]: the isotope of strictly largest
    isotopic composition (first one on ties), else the longest-lived one — recomputed here from the raw data. *)
Theorem C01_faithful_bare_element :
  forall e, In e srd_elements ->
    exists z name i a m,
      e_Z e = Some z /\ e_name e = Some name /\ default_iso e = Some i /\ i_A i = Some a /\ i_mass i = Some m /\
      (forall b, resolve (PInt z) b = Ok (e_sym e) /\ resolve (PStr (str_of_Z z)) b = Ok (e_sym e) /\
                 resolve (PStr (e_sym e)) b = Ok (e_sym e) /\ resolve (PStr name) b = Ok (e_sym e)) /\
      to_Z (PStr (e_sym e)) false = Ok z /\ to_E (PStr (e_sym e)) false = Ok (e_sym e) /\
      to_element (PStr (e_sym e)) false = Ok name /\
      to_A (PStr (e_sym e)) = Ok a /\ to_mass_dec (PStr (e_sym e)) = Ok m.
Proof. exact element_faithful. Qed.

(** The default-isotope rule of the specification means what it says on the raw data: the chosen isotope is one of
    the element's; if some isotope has a positive isotopic composition then no isotope's composition exceeds the
    chosen one's; otherwise it is the one with the tabulated longest-lived mass number. *)
Theorem C01_default_isotope_rule :
  forall e, In e srd_elements ->
    exists i, default_iso e = Some i /\ In i (e_isos e) /\
      ((exists j, In j (e_isos e) /\ comp_pos j = true) ->
         exists ci, i_comp i = Some ci /\ forall j cj, In j (e_isos e) -> i_comp j = Some cj -> dec_gt cj ci = false) /\
      ((forall j, In j (e_isos e) -> comp_pos j = false) ->
         exists a, assoc_s (e_sym e) srd_longest_lived = Some a /\ i_A i = Some a).
Proof. exact default_rule. Qed.

(** Nothing but NIST (and the dummy) is in the table: whatever an identifier resolves to is the dummy X / X0,
    a NIST element or a NIST isotope name; the element columns are exactly dummy + NIST in order. *)
Theorem C01_only_srd_species :
  forall x b k, resolve x b = Ok k ->
    In k dummy_labels \/
    exists e, In e srd_elements /\ (k = e_sym e \/ exists i, In i (e_isos e) /\ In k (i_labels (e_sym e) i)).
Proof. intros x b k H. apply key_is_srd. eapply resolve_key, H. Qed.

Theorem C01_element_columns_exact :
  pt_E = app (map (fun r => snd (fst r)) srd_dummy_elems) (map e_sym srd_elements) /\
  Some pt_Z = option_map (app (map (fun r => fst (fst r)) srd_dummy_elems)) (opt_list (map e_Z srd_elements)) /\
  Some pt_name = option_map (app (map snd srd_dummy_elems)) (opt_list (map e_name srd_elements)).
Proof. exact element_columns_exact. Qed.

(** The dummy rows are those the build script seeds its arrays with (translated from build_periodic_table.py). *)
Theorem C01_dummy_rows_as_seeded :
  forall r, In r srd_dummy_species ->
    to_E (PStr (dm_EA r)) false = Ok (dm_EE r) /\ to_A (PStr (dm_EA r)) = Ok (dm_A r) /\
    to_mass_str (PStr (dm_EA r)) = Ok (dm_mass r).
Proof. exact dummy_species_faithful. Qed.

(** Period and group are the position in the standard 18-column table (reference written from the noble-gas
    boundaries; f-block Z = 57-71, 89-103 has no group), for whatever identifier resolves to a real element. *)
Theorem C01_period_group_standard :
  forall x z, to_Z x false = Ok z -> 1 <= z ->
    to_period x = Ok (Some (ref_period z)) /\ to_group x = Ok (ref_group z).
Proof. exact period_group_accessor. Qed.

Theorem C01_ladder_is_reference :
  forall z, 1 <= z <= 118 -> gen_period z = Some (ref_period z) /\ gen_group z = ref_group z.
Proof. exact period_group_ref. Qed.

(** The dummy row (Z = 0; it has no position in the standard table): period 1 — the first rung of the ladder — and no
    group, for whatever identifier resolves to it. *)
Theorem C01_dummy_period_group :
  forall x, to_Z x false = Ok 0 -> to_period x = Ok (Some 1) /\ to_group x = Ok None.
Proof. exact dummy_period_group. Qed.

(** Strict mode accepts exactly the answers that are bare element symbols ... *)
Theorem C01_strict_exact :
  forall x k, resolve x true = Ok k <-> resolve x false = Ok k /\ In k pt_E.
Proof. exact strict_exact. Qed.

(** ... so every nuclide label that is not an element symbol is rejected, in any letter case. *)
Theorem C01_strict_rejects_nuclides :
  forall ea s, In ea pt_EA -> ~ In ea pt_E -> same_mod_case s ea -> resolve (PStr s) true = Err NotAnElement.
Proof. exact strict_rejects_nuclide. Qed.

(** Soundness of the cascade, for ALL identifiers: an answer k is justified by the identifier (its
    capitalised spelling is the label k; or int() of it is an atomic number whose row has symbol k; or its
    capitalised spelling is the name of the row with symbol k) — never data for a species it does not name. *)
Theorem C01_resolve_sound :
  forall x b k, resolve x b = Ok k -> justified x k.
Proof. exact resolve_sound. Qed.

(** ... and an identifier that names nothing raises NotAnElementError. *)
Theorem C01_resolve_rejects :
  forall x b, (forall k, ~ justified x k) -> resolve x b = Err NotAnElement.
Proof. exact resolve_rejects. Qed.

(** ... and conversely whatever is justified is accepted: an identifier is accepted iff it names something. *)
Theorem C01_resolve_accepts_iff :
  forall x, (exists k, resolve x false = Ok k) <-> (exists k, justified x k).
Proof. exact resolve_accepts_iff. Qed.

(** Instances: ALL integers outside the table (negative, too large); ALL strings that are neither a label,
    nor a name (capitalised) nor an int() literal of a tabulated Z (unknown words, absent mass numbers,
    mass number in front, decimal-number strings). *)
Theorem C01_int_outside_rejected :
  forall z b, ~ In z pt_Z -> resolve (PInt z) b = Err NotAnElement.
Proof. exact int_outside_rejected. Qed.

Theorem C01_str_outside_rejected :
  forall s b, ~ In (capitalize s) pt_EA -> (forall z, pyint_str s = Ok z -> ~ In z pt_Z) ->
              ~ In (capitalize s) pt_name -> resolve (PStr s) b = Err NotAnElement.
Proof. exact str_outside_rejected. Qed.

(** Whole families of malformed names are rejected, for ALL strings: (1) anything that starts with a non-letter
    and contains a letter (mass number in front: "84kr", "2H", " kr"); (2) anything containing a '.' (decimal-number
    strings "1.0", "36.5", "Kr84.0"). *)
Theorem C01_mass_number_in_front_rejected :
  forall c r b, is_letter c = false -> existsb is_letter (chars r) = true ->
                resolve (PStr (String c r)) b = Err NotAnElement.
Proof. exact leading_nonletter_with_letter_rejected. Qed.

Theorem C01_decimal_strings_rejected :
  forall s b, has_dot s = true -> resolve (PStr s) b = Err NotAnElement.
Proof. exact dotted_rejected. Qed.

(** The float form of the mass.  [rne num den] is the integer nearest to num/den, ties to even, for ALL num, den > 0;
    and for whatever identifier resolves, the float mass of the model, m * 2^e, is the binary64 nearest (ties to even)
    to the exact decimal mass c * 10^ex: with num/den = c*10^ex / 2^e ([scaled]), m has 53 bits (or is 2^53), e is in
    the normal range, |num/den - m| <= 1/2, and m is even on a tie.  (The dummy's mass 0 is 0.0.) *)
Theorem C01_rne_nearest_even :
  forall num den, 0 < den ->
    2 * Z.abs (num - rne num den * den) <= den /\
    (2 * Z.abs (num - rne num den * den) = den -> Z.even (rne num den) = true).
Proof. exact rne_spec. Qed.

(** The rounding model itself is correct for ALL positive decimals c * 10^ex (not only the tabulated masses): the
    significand always has 53 bits, and whenever the exponent is in the normal range the result is the nearest double,
    ties to even. *)
Theorem C01_nearest_double_correct :
  forall c ex, 0 < c ->
    2 ^ 52 <= fst (nearest_double_pos c ex) <= 2 ^ 53 /\
    (-1074 <= snd (nearest_double_pos c ex) <= 970 ->
     nearest_spec c ex (fst (nearest_double_pos c ex)) (snd (nearest_double_pos c ex))).
Proof.
  intros c ex C. split; [now apply nearest_double_significand|]. intro E. now apply nearest_double_correct.
Qed.

Theorem C01_float_mass_is_nearest_double :
  forall x m e, to_mass_float x = Ok (m, e) ->
    exists c ex, to_mass_dec x = Ok (c, ex) /\
                 ((c = 0 /\ m = 0 /\ e = 0) \/ (0 < c /\ nearest_spec c ex m e)).
Proof.
  intros x m e H. unfold to_mass_float in H. unfold to_mass_dec.
  destruct (resolve x false) as [k|] eqn:R; cbn [obind] in *; [|discriminate].
  apply key_float_nearest; [eapply resolve_key, R|exact H].
Qed.

(** float(str) on the shipped string itself.  [float_of_decstr s] rounds the fraction n / 10^k that the digit string s
    denotes (n = all its digits as one integer, k = digits after the point) directly; for ALL strings it equals
    reading s as a Decimal and rounding that; the two models of to_mass(atom) coincide; and end to end: the float mass
    is the nearest double (ties to even, 53-bit significand, normal exponent) of the fraction denoted by the shipped
    mass string. *)
Theorem C01_float_of_string_agrees :
  forall s, float_of_decstr s = option_map nearest_double (dec_of_string s).
Proof. exact float_of_decstr_agrees. Qed.

Theorem C01_float_models_agree : forall x, to_mass_float_str x = to_mass_float x.
Proof. exact to_mass_float_str_eq. Qed.

Theorem C01_float_mass_from_shipped_string :
  forall x m e, to_mass_float_str x = Ok (m, e) ->
    exists s n d, to_mass_str x = Ok s /\ decstr_frac s = Some (n, d) /\ float_of_decstr s = Some (m, e) /\ 0 < d /\
                  ((n = 0 /\ m = 0 /\ e = 0) \/ (0 < n /\ frac_nearest n d m e /\ -1074 <= e <= 970)).
Proof. exact float_mass_from_string. Qed.

(** No accessor ever raises anything but NotAnElementError (the table is internally consistent: every key has
    all its columns), for ALL identifiers. *)
Theorem C01_fails_closed :
  forall x b,
    closed (resolve x b) /\ closed (to_Z x b) /\ closed (to_E x b) /\ closed (to_element x b) /\
    closed (to_A x) /\ closed (to_mass_dec x) /\ closed (to_period x) /\ closed (to_group x).
Proof. exact fails_closed. Qed.

(** The function the correspondence check runs against the implementation is the record of accessor calls. *)
Theorem C01_observe_is_accessors : forall x, observe x = observe_spec x.
Proof. exact observe_eq. Qed.

(** Python's Decimal reading of the shipped mass strings (done by the translator) = the Gallina reader. *)
Theorem C01_decimal_reading_agrees : map dec_of_string pt_mass_str = map Some pt_mass.
Proof. exact decimal_reading_agrees. Qed.

(* ------------------------------------------------------------------------------------------ *)
(** Wave 3. *)

(** The public entry points, as TRANSLATED from periodic_table.py on this run (Gen/PTGlue.v: the try/except cascade, the
    strict filter, every accessor body), are the hand-written model — for ALL identifiers and options.  to_mass returns a
    Decimal or a float depending on return_decimal ([GDec] / [GFlt]). *)
Theorem C01_generated_glue_is_model :
  forall x b,
    g_resolve_eliso x = resolve_eliso x /\ g_resolve_atom_to_key x b = resolve x b /\
    g_to_Z x b = to_Z x b /\ g_to_E x b = to_E x b /\ g_to_element x b = to_element x b /\ g_to_A x = to_A x /\
    g_to_mass x true = omap GDec (to_mass_dec x) /\ g_to_mass x false = omap GFlt (to_mass_float_str x).
Proof.
  intros x b. split; [apply g_resolve_eliso_eq|]. split; [apply g_resolve_eq|]. split; [apply g_to_Z_eq|].
  split; [apply g_to_E_eq|]. split; [apply g_to_element_eq|]. split; [apply g_to_A_eq|]. apply g_to_mass_eq.
Qed.

(** __init__ as translated: every attribute is the shipped array of the same name, the seven index dictionaries zip the
    arrays the model says; the documented alias names are class-level rebindings of the four accessors; every keyword
    (strict, return_decimal) defaults to False. *)
Theorem C01_generated_init_and_names :
  (g_el2z = el2z /\ g_z2el = z2el /\ g_element2el = element2el /\ g_el2element = el2element /\
   g_eliso2mass = eliso2mass /\ g_eliso2el = eliso2el /\ g_eliso2a = eliso2a) /\
  g_aliases = [("to_atomic_number", "to_Z"); ("to_mass_number", "to_A"); ("to_name", "to_element"); ("to_symbol", "to_E")]%string /\
  forallb (fun r => negb (snd r)) g_defaults = true /\
  forallb (fun kv => String.eqb (fst kv) (snd kv)) g_attrs = true /\ List.length g_attrs = 7%nat.
Proof.
  split; [exact g_dicts_eq|]. split; [exact g_aliases_documented|]. split; [exact g_defaults_false|]. exact g_attrs_identity.
Qed.

(** Alias invariance through EVERY accessor: for each element row, the digit string, symbol and name in any letter case
    answer exactly as the integer Z does — to_Z/to_E/to_element (strict or not) give the row itself, and mass number,
    Decimal mass, shipped mass string, float mass, period and group coincide and exist. *)
Theorem C01_alias_invariance_every_accessor :
  forall z e n s b,
    In (z, e, n) elem_rows ->
    same_mod_case s (str_of_Z z) \/ same_mod_case s e \/ same_mod_case s n ->
    observe_full (PStr s) = observe_full (PInt z) /\
    to_Z (PStr s) b = Ok z /\ to_E (PStr s) b = Ok e /\ to_element (PStr s) b = Ok n /\
    to_Z (PInt z) b = Ok z /\ to_E (PInt z) b = Ok e /\ to_element (PInt z) b = Ok n /\
    (exists a m ms f, to_A (PStr s) = Ok a /\ to_A (PInt z) = Ok a /\
                      to_mass_dec (PStr s) = Ok m /\ to_mass_dec (PInt z) = Ok m /\
                      to_mass_str (PStr s) = Ok ms /\ to_mass_str (PInt z) = Ok ms /\
                      to_mass_float_str (PStr s) = Ok f /\ to_mass_float_str (PInt z) = Ok f) /\
    to_period (PStr s) = Ok (gen_period z) /\ to_period (PInt z) = Ok (gen_period z) /\
    to_group (PStr s) = Ok (gen_group z) /\ to_group (PInt z) = Ok (gen_group z).
Proof. exact alias_every_accessor. Qed.

(** ... the same on the generated public entry points (to_mass for both values of return_decimal). *)
Theorem C01_public_entry_points_alias_invariant :
  forall z e n s b,
    In (z, e, n) elem_rows ->
    same_mod_case s (str_of_Z z) \/ same_mod_case s e \/ same_mod_case s n ->
    g_to_Z (PStr s) b = Ok z /\ g_to_Z (PInt z) b = Ok z /\ g_to_E (PStr s) b = Ok e /\ g_to_E (PInt z) b = Ok e /\
    g_to_element (PStr s) b = Ok n /\ g_to_element (PInt z) b = Ok n /\
    g_to_A (PStr s) = g_to_A (PInt z) /\ is_ok (g_to_A (PInt z)) = true /\
    (forall rd, g_to_mass (PStr s) rd = g_to_mass (PInt z) rd /\ is_ok (g_to_mass (PInt z) rd) = true).
Proof. exact g_alias_invariant. Qed.

(** Nuclide labels, any letter case, every accessor: the answers are those for the label as tabulated, and the
    element-level ones (Z, name, period, group) are those of the bare symbol of its element; nothing raises. *)
Theorem C01_nuclide_alias_every_accessor :
  forall ea s, In ea pt_EA -> same_mod_case s ea ->
    observe_full (PStr s) = observe_full (PStr ea) /\
    exists e, In e pt_E /\ to_E (PStr s) false = Ok e /\
              to_Z (PStr s) false = to_Z (PStr e) false /\ to_element (PStr s) false = to_element (PStr e) false /\
              to_period (PStr s) = to_period (PStr e) /\ to_group (PStr s) = to_group (PStr e) /\
              is_ok (to_Z (PStr s) false) = true /\ is_ok (to_A (PStr s)) = true /\ is_ok (to_mass_dec (PStr s)) = true /\
              is_ok (to_mass_float_str (PStr s)) = true.
Proof. exact label_every_accessor. Qed.

(** An identifier that names nothing gets NotAnElementError from EVERY accessor, strict or not — on the model and on the
    generated entry points. *)
Theorem C01_unnamed_rejected_by_every_accessor :
  forall x, (forall k, ~ justified x k) ->
    forall b,
      (resolve x b = Err NotAnElement /\ to_Z x b = Err NotAnElement /\ to_E x b = Err NotAnElement /\
       to_element x b = Err NotAnElement /\ to_A x = Err NotAnElement /\ to_mass_dec x = Err NotAnElement /\
       to_mass_str x = Err NotAnElement /\ to_mass_float_str x = Err NotAnElement /\
       to_period x = Err NotAnElement /\ to_group x = Err NotAnElement) /\
      (g_resolve_atom_to_key x b = Err NotAnElement /\ g_to_Z x b = Err NotAnElement /\ g_to_E x b = Err NotAnElement /\
       g_to_element x b = Err NotAnElement /\ g_to_A x = Err NotAnElement /\ g_to_mass x b = Err NotAnElement).
Proof. intros x H b. split; [now apply unnamed_rejected_everywhere|now apply g_unnamed_rejected]. Qed.

Theorem C01_public_strict_exact :
  forall x k, g_resolve_atom_to_key x true = Ok k <-> g_resolve_atom_to_key x false = Ok k /\ In k pt_E.
Proof. exact g_strict_exact. Qed.

(** Unknown symbols and words: ANY text containing a letter whose capitalised spelling is neither a tabulated label nor an
    element name; and absent mass numbers / malformed labels: ANY text with a letter and a digit whose capitalised
    spelling is not a tabulated label ("kr200", "H8", "he0", "x1", "og294"). *)
Theorem C01_lettered_unnamed_rejected :
  forall s b, existsb is_letter (chars s) = true -> ~ In (capitalize s) pt_EA -> ~ In (capitalize s) pt_name ->
              resolve (PStr s) b = Err NotAnElement.
Proof. exact lettered_unnamed_rejected. Qed.

Theorem C01_absent_mass_number_rejected :
  forall s b, existsb is_letter (chars s) = true -> has_digit s = true -> ~ In (capitalize s) pt_EA ->
              resolve (PStr s) b = Err NotAnElement.
Proof. exact absent_mass_number_rejected. Qed.

(** Bare element under EVERY alias form and letter case (and as an integer): NIST's Z, symbol, name (strictly too), and
    the mass number, Decimal mass and float mass of the default isotope. *)
Theorem C01_faithful_bare_element_all_aliases :
  forall e s, In e srd_elements ->
    exists z name i a m,
      e_Z e = Some z /\ e_name e = Some name /\ default_iso e = Some i /\ i_A i = Some a /\ i_mass i = Some m /\
      (same_mod_case s (str_of_Z z) \/ same_mod_case s (e_sym e) \/ same_mod_case s name ->
       (forall b, resolve (PStr s) b = Ok (e_sym e) /\ to_Z (PStr s) b = Ok z /\ to_E (PStr s) b = Ok (e_sym e) /\
                  to_element (PStr s) b = Ok name) /\
       to_A (PStr s) = Ok a /\ to_mass_dec (PStr s) = Ok m /\ to_mass_float_str (PStr s) = Ok (nearest_double m) /\
       to_A (PInt z) = Ok a /\ to_mass_dec (PInt z) = Ok m /\ to_mass_float_str (PInt z) = Ok (nearest_double m)).
Proof. intros e s H. exact (element_faithful_all_aliases e s H). Qed.

(** The float mass is the Decimal mass correctly rounded, for ALL identifiers; hence for every NIST isotope, under every
    name and letter case, it is the binary64 nearest to NIST's relative atomic mass. *)
Theorem C01_float_is_rounded_decimal :
  forall x, to_mass_float_str x = obind (to_mass_dec x) (fun d => Ok (nearest_double d)).
Proof. exact float_is_rounded_decimal. Qed.

Theorem C01_faithful_isotopes_float :
  forall e i lbl s,
    In e srd_elements -> In i (e_isos e) -> In lbl (i_labels (e_sym e) i) -> same_mod_case s lbl ->
    exists m, i_mass i = Some m /\ to_mass_dec (PStr s) = Ok m /\ to_mass_float_str (PStr s) = Ok (nearest_double m).
Proof. exact isotope_float_faithful. Qed.

(** Non-vacuity. *)
Example C01_ex_wave3 :
  g_to_Z (PStr "kr84") false = Ok 36 /\ g_to_Z (PStr "kr84") true = Err NotAnElement /\
  g_to_mass (PStr "d") true = Ok (GDec (201410177812, -11)) /\ g_to_mass (PInt 1) false = Ok (GFlt (4538840439605686, -52)) /\
  g_to_A (PInt (-1)) = Err NotAnElement /\ g_resolve_eliso (PInt 36) = Ok "Kr"%string /\
  existsb is_letter (chars "kr200") = true /\ has_digit "kr200" = true /\ resolve (PStr "kr200") false = Err NotAnElement /\
  resolve (PStr "zz") false = Err NotAnElement /\ to_period (PStr "36") = Ok (gen_period 36).
Proof. vm_compute. repeat split. Qed.
Example C01_ex_case : same_mod_case "kR84" "Kr84" /\ same_mod_case "TENNESSINE" "Tennessine"
                      /\ ~ same_mod_case "Kr84" "Kr48".
Proof. repeat split; try reflexivity. intro H; vm_compute in H; discriminate. Qed.
Example C01_ex_row : In (36, "Kr", "Krypton")%string elem_rows /\ In "Kr84"%string pt_EA /\ ~ In "Kr84"%string pt_E.
Proof.
  split; [|split].
  - assert (H : existsb (fun r => let '(z, e, n) := r in (z =? 36) && String.eqb e "Kr" && String.eqb n "Krypton") elem_rows = true)
      by (vm_compute; reflexivity).
    apply existsb_exists in H. destruct H as [[[z e] n] [I H]].
    rewrite !andb_true_iff, Z.eqb_eq, !String.eqb_eq in H. destruct H as [[-> ->] ->]. exact I.
  - apply str_mem_In. vm_compute. reflexivity.
  - intro H. apply str_mem_In in H. vm_compute in H. discriminate.
Qed.
Example C01_ex_values :
  to_Z (PStr "kr84") false = Ok 36 /\ to_A (PStr "KR") = Ok 84 /\ to_mass_dec (PStr "d") = Ok (201410177812, -11)
  /\ to_A (PStr "pu") = Ok 244 /\ to_Z (PStr " +1_1_7 ") true = Ok 117 /\ to_E (PInt 117) true = Ok "Ts"%string
  /\ to_period (PStr "U238") = Ok (Some 7) /\ to_group (PStr "u") = Ok None /\ to_group (PStr "hf") = Ok (Some 4)
  /\ resolve (PStr "84kr") false = Err NotAnElement /\ resolve (PStr "Kr85.5") false = Err NotAnElement
  /\ resolve (PInt (-1)) false = Err NotAnElement /\ resolve (PStr "1.0") false = Err NotAnElement
  /\ resolve (PStr "h2") true = Err NotAnElement /\ resolve (PStr "h2") false = Ok "H2"%string.
Proof. vm_compute. repeat split. Qed.
Example C01_ex_wave2 :
  decstr_frac "1.00782503223" = Some (100782503223, 10 ^ 11) /\ float_of_decstr "1.00782503223" = Some (4538840439605686, -52) /\
  ndigits10 (-117) = 3%nat /\ str_of_Z (-117) = "-117"%string /\ to_Z (PStr "x0") false = Ok 0.
Proof. vm_compute. repeat split. Qed.
Example C01_ex_float :
  to_mass_float (PStr "h") = Ok (4538840439605686, -52) /\ to_mass_float (PStr "x") = Ok (0, 0) /\
  rne 5 2 = 2 /\ rne 7 2 = 4 /\ rne 10 4 = 2 /\ rne 11 4 = 3 /\
  resolve (PStr "84kr") true = Err NotAnElement /\ has_dot "kr84.0" = true /\
  is_letter "8"%char = false /\ existsb is_letter (chars "4kr") = true.
Proof. vm_compute. repeat split. Qed.
Example C01_ex_srd :
  map (fun e => (fst (fst e), e_sym e, e_Z e, e_name e, option_map i_Astr (default_iso e), option_map i_mass (default_iso e)))
      (filter (fun e => str_mem (fst (fst e)) ["H"; "Pu"; "Uus"]%string) srd_elements)
  = [("H", "H", Some 1, Some "Hydrogen", Some "1", Some (Some (100782503223, -11)));
     ("Pu", "Pu", Some 94, Some "Plutonium", Some "244", Some (Some (2440642053, -7)));
     ("Uus", "Ts", Some 117, Some "Tennessine", Some "294", Some (Some (29421046, -5)))]%string.
Proof. vm_compute. reflexivity. Qed.

Print Assumptions C01_case_insensitive.
Print Assumptions C01_case_variants.
Print Assumptions C01_alias_invariance.
Print Assumptions C01_int_of_str_roundtrip.
Print Assumptions C01_digit_string_is_int.
Print Assumptions C01_nuclide_labels_resolve.
Print Assumptions C01_faithful_isotopes.
Print Assumptions C01_faithful_bare_element.
Print Assumptions C01_default_isotope_rule.
Print Assumptions C01_only_srd_species.
Print Assumptions C01_element_columns_exact.
Print Assumptions C01_dummy_rows_as_seeded.
Print Assumptions C01_period_group_standard.
Print Assumptions C01_ladder_is_reference.
Print Assumptions C01_dummy_period_group.
Print Assumptions C01_strict_exact.
Print Assumptions C01_strict_rejects_nuclides.
Print Assumptions C01_resolve_sound.
Print Assumptions C01_resolve_rejects.
Print Assumptions C01_resolve_accepts_iff.
Print Assumptions C01_int_outside_rejected.
Print Assumptions C01_str_outside_rejected.
Print Assumptions C01_mass_number_in_front_rejected.
Print Assumptions C01_decimal_strings_rejected.
Print Assumptions C01_rne_nearest_even.
Print Assumptions C01_nearest_double_correct.
Print Assumptions C01_float_mass_is_nearest_double.
Print Assumptions C01_float_of_string_agrees.
Print Assumptions C01_float_models_agree.
Print Assumptions C01_float_mass_from_shipped_string.
Print Assumptions C01_fails_closed.
Print Assumptions C01_observe_is_accessors.
Print Assumptions C01_decimal_reading_agrees.
Print Assumptions C01_generated_glue_is_model.
Print Assumptions C01_generated_init_and_names.
Print Assumptions C01_alias_invariance_every_accessor.
Print Assumptions C01_public_entry_points_alias_invariant.
Print Assumptions C01_nuclide_alias_every_accessor.
Print Assumptions C01_unnamed_rejected_by_every_accessor.
Print Assumptions C01_public_strict_exact.
Print Assumptions C01_lettered_unnamed_rejected.
Print Assumptions C01_absent_mass_number_rejected.
Print Assumptions C01_faithful_bare_element_all_aliases.
Print Assumptions C01_float_is_rounded_decimal.
Print Assumptions C01_faithful_isotopes_float.
