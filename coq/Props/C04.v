(** C04 — A validated molecule is complete, consistent and a fixed point of validation.
    Property theorems only; each is closed by [exact] of a lemma from Proofs/MolRec.v.
    Model: Model/MolRec.v ([from_arrays] = qcelemental.molparse.from_arrays, domain "qm"), built on
    Model/Nucleus.v (C06) and Model/ChgMult.v (C05); coordinates, masses and tolerances are exact rationals. *)
From Coq Require Import ZArith List Bool String QArith Qabs.
Require Import QV.Common.Outcome QV.Model.Nucleus QV.Model.ChgMult QV.Gen.MolConsts QV.Model.MolRec.
Require Import QV.Proofs.Nucleus QV.Proofs.ChgMult QV.Proofs.MolRec.
Import ListNotations.
Open Scope Z_scope.

(** Every accepted record, for any number of atoms and fragments and any mix of supplied / omitted descriptors:
    three coordinates per atom (the input's); every per-atom column present with one entry per atom; each atom the
    sound reconciliation of its clues (C06: table-consistent symbol / atomic number, mass number -1 or a tabulated
    nuclide within mtol of the mass, mass in the physical window unless nonphysical, every supplied clue kept);
    no two atoms closer than tooclose; the separators cut the atoms into non-empty consecutive pieces whose
    concatenation is 0..nat-1; one charge and one multiplicity per fragment, total charge = sum of fragment
    charges and every (electrons, charge, multiplicity) feasible (C05's Spec); units are Angstrom or Bohr.
    See [WF] in Proofs/MolRec.v. *)
Theorem C04_accepted_invariants : forall r m, from_arrays r = Ok m -> exists pts ros ats, WF r m pts ros ats.
Proof. exact accepted_invariants. Qed.

(** np.split with Python slice semantics (negative, unsorted, out-of-range indices included): if every piece is
    non-empty then the pieces, concatenated, are the list — they partition it in order. *)
Theorem C04_split_partition :
  forall (A : Type) (l : list A) seps, Forall (fun p => p <> []) (np_split l seps) -> List.concat (np_split l seps) = l.
Proof. exact @split_partition. Qed.

(** An accepted record fed back (every column supplied, labels as user tags, same processing settings) is accepted
    again and reproduced (masses up to equality of rationals), for 0 <= mtol <= 1/4. *)
Theorem C04_idempotent :
  forall r m, from_arrays r = Ok m -> (0 <= r_mtol r)%Q -> (r_mtol r <= 1 # 4)%Q ->
    exists m', from_arrays (as_raw r m) = Ok m' /\ molrec_equiv m' m.
Proof. exact idempotent. Qed.

(** Refusals — hypotheses are exactly the malformation. *)
Theorem C04_rejects_no_geometry : forall r, r_geom r = [] -> r_minimal r = false -> from_arrays r = Err Validation.
Proof. exact rejects_no_geometry. Qed.

Theorem C04_rejects_geom_not_3n : forall r, (List.length (r_geom r) mod 3 <> 0)%nat -> from_arrays r = Err Validation.
Proof. exact rejects_geom_not_3n. Qed.

Theorem C04_rejects_too_close :
  forall r pts i j p q, triples (r_geom r) = Ok pts -> (i < j)%nat -> nth_error pts i = Some p -> nth_error pts j = Some q ->
    (dist2 p q < r_tooclose r * r_tooclose r)%Q -> forall m, from_arrays r <> Ok m.
Proof. exact rejects_too_close. Qed.

Theorem C04_rejects_column_length :
  forall r pts, triples (r_geom r) = Ok pts ->
    ~ (column_given (r_elea r) (List.length pts) /\ column_given (r_elez r) (List.length pts) /\
       column_given (r_elem r) (List.length pts) /\ column_given (r_mass r) (List.length pts) /\
       column_given (r_real r) (List.length pts) /\ column_given (r_elbl r) (List.length pts)) ->
    forall m, from_arrays r <> Ok m.
Proof. exact rejects_column_length. Qed.

Theorem C04_rejects_unknown_units :
  forall r, capitalize (r_units r) <> "Angstrom"%string -> capitalize (r_units r) <> "Bohr"%string -> forall m, from_arrays r <> Ok m.
Proof. exact rejects_unknown_units. Qed.

Theorem C04_rejects_units_factor :
  forall r x, r_iutau r = Some x ->
    ~ (Qabs (x - (if String.eqb (capitalize (r_units r)) "Bohr" then 1 else 1 / bohr2angstroms)) < iutau_window)%Q ->
    forall m, from_arrays r <> Ok m.
Proof. exact rejects_units_factor. Qed.

(** empty, duplicate, unsorted or out-of-range separators: some piece of the trial split is empty *)
Theorem C04_rejects_bad_split :
  forall r pts seps, triples (r_geom r) = Ok pts -> pts <> [] -> r_seps r = Some seps ->
    ~ Forall (fun p => p <> []) (np_split (repeat tt (List.length pts)) seps) -> forall m, from_arrays r <> Ok m.
Proof. exact rejects_bad_split. Qed.

Theorem C04_rejects_fragment_lengths :
  forall r pts seps, triples (r_geom r) = Ok pts -> r_seps r = Some seps ->
    (exists l, r_fchg r = Some l /\ List.length l <> S (List.length seps)) \/
    (exists l, r_fmult r = Some l /\ List.length l <> S (List.length seps)) ->
    forall m, from_arrays r <> Ok m.
Proof. exact rejects_fragment_lengths. Qed.

Theorem C04_rejects_fragment_data_without_separators :
  forall r, r_seps r = None -> (r_fchg r <> None \/ r_fmult r <> None) -> forall m, from_arrays r <> Ok m.
Proof. exact rejects_fragment_data_without_separators. Qed.

(** contradictory nuclear data on any atom (any of C06's contradiction forms) *)
Theorem C04_rejects_conflicting_nuclear_data :
  forall r pts i, triples (r_geom r) = Ok pts -> In i (atoms_of r (List.length pts)) -> Contradiction i ->
    forall m, from_arrays r <> Ok m.
Proof. exact rejects_conflicting_nuclear_data. Qed.

(** Every refusal is ValidationError or NotAnElementError (the full statement since the repair 7b49268 of the fixed
    finding C04-geom-not-3n-valueerror: numpy's ValueError for a geometry of length not 3n no longer escapes). *)
Theorem C04_refusal_classes :
  forall r, (exists m, from_arrays r = Ok m) \/ from_arrays r = Err Validation \/ from_arrays r = Err NotAnElement.
Proof.
  intro r. pose proof (from_arrays_errors r) as C. destruct (from_arrays r) as [m|k]; [left; eauto|].
  right. destruct C as [-> | ->]; auto.
Qed.

(** regression witness: the old failing input geom=[0,0,0,1], elez=[1] *)
Definition ex_bad_geom : raw :=
  {| r_geom := [0; 0; 0; 1]%Q; r_elea := None; r_elez := Some [Some 1]; r_elem := None; r_mass := None; r_real := None;
     r_elbl := None; r_units := "Angstrom"; r_iutau := None; r_fix_com := None; r_fix_orientation := None;
     r_fix_symmetry := None; r_seps := None; r_fchg := None; r_fmult := None; r_chg := None; r_mult := None; r_conn := None;
     r_speclabel := true; r_tooclose := 1 # 10; r_zgf := false; r_nonphysical := false; r_mtol := 1 # 1000; r_minimal := false |}.
Example C04_ex_geom_not_3n : from_arrays ex_bad_geom = Err Validation.
Proof. vm_compute. reflexivity. Qed.

(** Non-vacuity: HOH...He with a negative separator, partial descriptors, a label carrying isotope and tag. *)
Definition ex_raw : raw :=
  {| r_geom := [0; 0; 0;  0; 0; 1;  0; 1; 0;  3; 3; 3]%Q;
     r_elea := None; r_elez := Some [Some 8; None; Some 1; None];
     r_elem := Some [None; Some "h"%string; None; None]; r_mass := None;
     r_real := Some [None; None; None; Some false];
     r_elbl := Some [None; None; Some "2H_d"%string; Some "@he"%string];
     r_units := "bohr"; r_iutau := None; r_fix_com := Some true; r_fix_orientation := None;
     r_fix_symmetry := Some "C1"%string; r_seps := Some [-1]; r_fchg := Some [None; Some 0]; r_fmult := None;
     r_chg := None; r_mult := None; r_conn := Some [(2, 0, 1%Q); (0, 1, 1%Q)];
     r_speclabel := true; r_tooclose := 1 # 10; r_zgf := false; r_nonphysical := false; r_mtol := 1 # 1000; r_minimal := false |}.
Definition ex_rec : molrec :=
  {| m_units := "Bohr"; m_iutau := None; m_geom := [0; 0; 0;  0; 0; 1;  0; 1; 0;  3; 3; 3]%Q;
     m_elea := [16; 1; 2; 4]; m_elez := [8; 1; 1; 2]; m_elem := ["O"; "H"; "H"; "He"]%string;
     m_mass := [1599491461957 # 100000000000; 100782503223 # 100000000000; 201410177812 # 100000000000; 400260325413 # 100000000000]%Q;
     m_real := [true; true; true; false]; m_elbl := [""; ""; "_d"; ""]%string;
     m_seps := [-1]; m_fchg := [0; 0]; m_fmult := [1; 1]; m_chg := 0; m_mult := 1;
     m_fix_com := true; m_fix_orientation := false; m_fix_symmetry := Some "c1"%string;
     m_conn := Some [(0, 1, 1%Q); (0, 2, 1%Q)] |}.
Example C04_ex_accept : molrec_eqb_ok (from_arrays ex_raw) ex_rec = true.
Proof. vm_compute. reflexivity. Qed.
Example C04_ex_feedback : (0 <= r_mtol ex_raw)%Q /\ (r_mtol ex_raw <= 1 # 4)%Q /\
  molrec_eqb_ok (from_arrays (as_raw ex_raw ex_rec)) ex_rec = true.
Proof. repeat split; vm_compute; first [reflexivity | discriminate]. Qed.
Example C04_ex_bad_split : ~ Forall (fun p => p <> []) (np_split (repeat tt 4%nat) [3; 1]).
Proof. intro H. vm_compute in H. inversion H as [|? ? _ H1]; subst. inversion H1 as [|? ? H2 _]; subst. apply H2. reflexivity. Qed.

Print Assumptions C04_accepted_invariants.
Print Assumptions C04_split_partition.
Print Assumptions C04_idempotent.
Print Assumptions C04_rejects_no_geometry.
Print Assumptions C04_rejects_geom_not_3n.
Print Assumptions C04_rejects_too_close.
Print Assumptions C04_rejects_column_length.
Print Assumptions C04_rejects_unknown_units.
Print Assumptions C04_rejects_units_factor.
Print Assumptions C04_rejects_bad_split.
Print Assumptions C04_rejects_fragment_lengths.
Print Assumptions C04_rejects_fragment_data_without_separators.
Print Assumptions C04_rejects_conflicting_nuclear_data.
Print Assumptions C04_refusal_classes.
