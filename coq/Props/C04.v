(** C04 — A validated molecule is complete, consistent and a fixed point of validation.
    Property theorems only; each is closed by [exact] of a lemma from Proofs/MolRec.v, Proofs/MolSchema.v,
    Proofs/MolSchemaRT.v or Proofs/MolTranslate.v.
    Models: Model/MolRec.v ([from_arrays] = qcelemental.molparse.from_arrays, domain "qm"), built on Model/Nucleus.v (C06)
    and Model/ChgMult.v (C05); Model/MolSchema.v ([from_schema] incl. contiguize_from_fragment_pattern, [to_schema],
    the fragment bookkeeping of Molecule.__init__).  Coordinates, masses and tolerances are exact rationals.

    CLAUSE MAP (statement of C04 in properties.jsonl, clause by clause)
    1. "whenever building succeeds from raw arrays": every per-atom field present with the same length; three
       coordinates per atom; symbol / Z / A / mass consistent with each other and the table; no two atoms closer than
       the threshold; fragments partition the atoms in order; total charge = sum of fragment charges; every
       charge-multiplicity pair feasible        -> C04_accepted_invariants (all inputs, any number of atoms/fragments),
                                                    C04_split_partition (np.split semantics).
    2. "... from a QCSchema dictionary"         -> C04_from_schema_is_from_arrays (an accepted dictionary IS from_arrays on
       the untouched arrays, separators = cumulative fragment sizes), C04_from_schema_accepted_invariants (so clause 1
       holds of it), C04_contiguize_accepts / C04_contiguize_partition (every accepted pattern lists 0..nat-1 in
       order — the full statement since the repair 2b49794 of the fixed finding C04-single-fragment-offset, whose
       failing inputs stay in the schema corpus and as C04_ex_old_failing_inputs_refused; arrays never reordered).
    3. "... as a Molecule model with validation on": Molecule.__init__ calls from_schema on its keywords (clause 2);
       of its own logic only the fragment bookkeeping is modelled -> C04_molecule_fragments_partition (the object's
       .fragments list 0..nat-1 in order; full since 2b49794).
       Other attributes (masses / mass_numbers / real / labels after _filter_defaults, title-casing, 8-decimal rounding):
       ONLY correspondence / oracle on the implementation (known finding C04-molecule-allclose-mass-number lives there).
       "no two atoms lie closer than the overlap threshold" for geometries ANYWHERE in space: C04_translation_invariant
       (the model's decision, error class and record commute with rigid translation) and C04_too_close_refused_anywhere;
       on the implementation: streams far / far_sweep (exact binary64 coordinates up to 2^38 from the origin).
    4. "passing a validated molecule through validation again returns the same molecule"
                                                -> C04_idempotent (from_arrays, 0 <= mtol <= 1/4);
       through from_schema(to_schema(.)), dtype 1 and 2 -> C04_schema_fixed_point (records in Bohr with non-negative
       separators, under the settings from_schema runs from_arrays with; a negative separator comes back normalised —
       C09_roundtrip_negative_separators_refuted), using C04_contiguize_complete (the converse of C04_contiguize_accepts:
       contiguize accepts every in-order pattern and hands everything through); the fragment list of the Molecule
       built from that dictionary -> C04_schema_fixed_point_fragments.  The other attributes of the re-built Molecule:
       ONLY correspondence / oracle.  (Stream schema_roundtrip still runs the model against the implementation.)
    5. "inputs for which no such record exists are refused with a validation error, never silently repaired":
       mismatched lengths -> C04_rejects_column_length, C04_rejects_geom_not_3n, C04_rejects_fragment_lengths;
       overlapping atoms -> C04_rejects_too_close; unknown units -> C04_rejects_unknown_units, C04_rejects_units_factor;
       empty or unsorted fragments -> C04_rejects_bad_split, C04_rejects_fragment_data_without_separators;
       contradictory nuclear data -> C04_rejects_conflicting_nuclear_data; no geometry -> C04_rejects_no_geometry;
       unrecognised schema -> C04_from_schema_rejects_unknown_schema.
       Error CLASS: C04_refusal_classes (from_arrays: only ValidationError / NotAnElementError — the latter exactly
       where C06 raises it, for names that are not in the table), C04_from_schema_refusal_classes (the same two and nothing
       else — full since the repair 361a5b1 of the fixed finding C04-empty-fragment-list-indexerror).  The C04_rejects_* lemmas about from_arrays conclude "<> Ok"; together with
       C04_refusal_classes that is "ValidationError or NotAnElementError".
    Quantifier: "0-12 atoms" -> theorems hold for any number of atoms; "through all three entry points" -> theorems
    for from_arrays and from_schema, Molecule glue partly (clause 3). *)
From Coq Require Import ZArith List Bool String QArith Qabs.
Require Import QV.Common.Outcome QV.Model.Nucleus QV.Model.ChgMult QV.Gen.MolConsts QV.Model.MolRec QV.Model.MolSchema.
Require Import QV.Proofs.Nucleus QV.Proofs.ChgMult QV.Proofs.MolRec QV.Proofs.MolSchema QV.Proofs.MolSchemaRT QV.Proofs.MolTranslate.
Import ListNotations.
Open Scope Z_scope.

(** Every accepted record, for any number of atoms and fragments and any mix of supplied / omitted descriptors:
    three coordinates per atom (the input's); every per-atom column present with one entry per atom; each atom the
    sound reconciliation of its clues (C06: table-consistent symbol / atomic number, mass number -1 or a tabulated
    nuclide within mtol of the mass, mass in the physical window unless nonphysical, every supplied clue kept);
    no two atoms closer than tooclose; the separators cut the atoms into non-empty consecutive pieces whose
    concatenation is 0..nat-1; one charge and one multiplicity per fragment, total charge = sum of fragment
    charges and every (electrons, charge, multiplicity) feasible (C05's Spec); units are Angstrom or Bohr.
    See [WF] in Proofs/MolRec.v. *)
Theorem C04_accepted_invariants : forall r m, from_arrays r = Ok m -> exists pts ros ats, WF r m pts ros ats.
Proof. exact accepted_invariants. Qed.

(** np.split with Python slice semantics (negative, unsorted, out-of-range indices included): if every piece is
    non-empty then the pieces, concatenated, are the list — they partition it in order. *)
Theorem C04_split_partition :
  forall (A : Type) (l : list A) seps, Forall (fun p => p <> []) (np_split l seps) -> List.concat (np_split l seps) = l.
Proof. exact @split_partition. Qed.

(** An accepted record fed back (every column supplied, labels as user tags, same processing settings) is accepted
    again and reproduced (masses up to equality of rationals), for 0 <= mtol <= 1/4. *)
Theorem C04_idempotent :
  forall r m, from_arrays r = Ok m -> (0 <= r_mtol r)%Q -> (r_mtol r <= 1 # 4)%Q ->
    exists m', from_arrays (as_raw r m) = Ok m' /\ molrec_equiv m' m.
Proof. exact idempotent. Qed.

(** Refusals — hypotheses are exactly the malformation. *)
Theorem C04_rejects_no_geometry : forall r, r_geom r = [] -> r_minimal r = false -> from_arrays r = Err Validation.
Proof. exact rejects_no_geometry. Qed.

Theorem C04_rejects_geom_not_3n : forall r, (List.length (r_geom r) mod 3 <> 0)%nat -> from_arrays r = Err Validation.
Proof. exact rejects_geom_not_3n. Qed.

Theorem C04_rejects_too_close :
  forall r pts i j p q, triples (r_geom r) = Ok pts -> (i < j)%nat -> nth_error pts i = Some p -> nth_error pts j = Some q ->
    (dist2 p q < r_tooclose r * r_tooclose r)%Q -> forall m, from_arrays r <> Ok m.
Proof. exact rejects_too_close. Qed.

Theorem C04_rejects_column_length :
  forall r pts, triples (r_geom r) = Ok pts ->
    ~ (column_given (r_elea r) (List.length pts) /\ column_given (r_elez r) (List.length pts) /\
       column_given (r_elem r) (List.length pts) /\ column_given (r_mass r) (List.length pts) /\
       column_given (r_real r) (List.length pts) /\ column_given (r_elbl r) (List.length pts)) ->
    forall m, from_arrays r <> Ok m.
Proof. exact rejects_column_length. Qed.

Theorem C04_rejects_unknown_units :
  forall r, capitalize (r_units r) <> "Angstrom"%string -> capitalize (r_units r) <> "Bohr"%string -> forall m, from_arrays r <> Ok m.
Proof. exact rejects_unknown_units. Qed.

Theorem C04_rejects_units_factor :
  forall r x, r_iutau r = Some x ->
    ~ (Qabs (x - (if String.eqb (capitalize (r_units r)) "Bohr" then 1 else 1 / bohr2angstroms)) < iutau_window)%Q ->
    forall m, from_arrays r <> Ok m.
Proof. exact rejects_units_factor. Qed.

(** empty, duplicate, unsorted or out-of-range separators: some piece of the trial split is empty *)
Theorem C04_rejects_bad_split :
  forall r pts seps, triples (r_geom r) = Ok pts -> pts <> [] -> r_seps r = Some seps ->
    ~ Forall (fun p => p <> []) (np_split (repeat tt (List.length pts)) seps) -> forall m, from_arrays r <> Ok m.
Proof. exact rejects_bad_split. Qed.

Theorem C04_rejects_fragment_lengths :
  forall r pts seps, triples (r_geom r) = Ok pts -> r_seps r = Some seps ->
    (exists l, r_fchg r = Some l /\ List.length l <> S (List.length seps)) \/
    (exists l, r_fmult r = Some l /\ List.length l <> S (List.length seps)) ->
    forall m, from_arrays r <> Ok m.
Proof. exact rejects_fragment_lengths. Qed.

Theorem C04_rejects_fragment_data_without_separators :
  forall r, r_seps r = None -> (r_fchg r <> None \/ r_fmult r <> None) -> forall m, from_arrays r <> Ok m.
Proof. exact rejects_fragment_data_without_separators. Qed.

(** contradictory nuclear data on any atom (any of C06's contradiction forms) *)
Theorem C04_rejects_conflicting_nuclear_data :
  forall r pts i, triples (r_geom r) = Ok pts -> In i (atoms_of r (List.length pts)) -> Contradiction i ->
    forall m, from_arrays r <> Ok m.
Proof. exact rejects_conflicting_nuclear_data. Qed.

(** Every refusal is ValidationError or NotAnElementError (the full statement since the repair 7b49268 of the fixed
    finding C04-geom-not-3n-valueerror: numpy's ValueError for a geometry of length not 3n no longer escapes). *)
Theorem C04_refusal_classes :
  forall r, (exists m, from_arrays r = Ok m) \/ from_arrays r = Err Validation \/ from_arrays r = Err NotAnElement.
Proof.
  intro r. pose proof (from_arrays_errors r) as C. destruct (from_arrays r) as [m|k]; [left; eauto|].
  right. destruct C as [-> | ->]; auto.
Qed.


(** ------------------------------------------------------------------------------------------------------------
    The QCSchema entry point.  contiguize_from_fragment_pattern (throw_reorder=True), for EVERY fragment pattern and
    every set of arrays: if it accepts, the pattern lists 0 .. nat-1 in order (slow path: tested; fast path: a single
    ascending run of consecutive indices starting at 0), the geometry and every column come back exactly as they went
    in (the fancy-index reordering is the identity), the geometry has one row per index named and the separators are
    the cumulative fragment sizes. *)
Theorem C04_contiguize_accepts :
  forall pat g ea ez ee em er el c, contiguize pat g ea ez ee em er el = Ok c ->
    List.concat pat = zseq (total_atoms pat) /\
    c_geom c = g /\ c_elea c = ea /\ c_elez c = ez /\ c_elem c = ee /\ c_mass c = em /\ c_real c = er /\ c_elbl c = el /\
    c_seps c = cum_seps pat /\
    exists pts, triples g = Ok pts /\ Z.of_nat (List.length pts) = total_atoms pat.
Proof. exact contiguize_accepts. Qed.

(** Every accepted fragment pattern partitions the atoms in order (full statement; was _refuted before 2b49794). *)
Theorem C04_contiguize_partition :
  forall pat g ea ez ee em er el c, contiguize pat g ea ez ee em er el = Ok c -> List.concat pat = zseq (total_atoms pat).
Proof. exact contiguize_partition. Qed.

(** An accepted schema dictionary is from_arrays applied to the dictionary's own arrays (units Bohr, labels as user
    tags, default tooclose / mtol / zero_ghost_fragments from the source) with the cumulative fragment sizes as
    separators; its fragment pattern lists the atoms in order and the record has one atom per index named. *)
Theorem C04_from_schema_is_from_arrays :
  forall s np m, from_schema s np = Ok m ->
    sniff s = Ok tt /\ from_arrays (schema_arrays s np) = Ok m /\
    List.concat (frag_pattern s) = zseq (total_atoms (frag_pattern s)) /\
    Z.of_nat (List.length (m_elem m)) = total_atoms (frag_pattern s).
Proof. exact from_schema_is_from_arrays. Qed.

(** ... hence the invariants of C04_accepted_invariants hold of every record from_schema returns. *)
Theorem C04_from_schema_accepted_invariants :
  forall s np m, from_schema s np = Ok m -> exists pts ros ats, WF (schema_arrays s np) m pts ros ats.
Proof. exact from_schema_accepted_invariants. Qed.

Theorem C04_from_schema_rejects_unknown_schema : forall s np, sniff s = Err Validation -> from_schema s np = Err Validation.
Proof. exact from_schema_rejects_unknown_schema. Qed.

(** from_schema raises ValidationError or NotAnElementError and nothing else (full statement since 361a5b1). *)
Theorem C04_from_schema_refusal_classes :
  forall s np, (exists m, from_schema s np = Ok m) \/ from_schema s np = Err Validation \/ from_schema s np = Err NotAnElement.
Proof. exact from_schema_refusal_classes. Qed.

(** The fragment list of a validated Molecule object lists 0 .. nat-1 in order (after _filter_defaults and the keyword
    merge; full statement, was _refuted before 2b49794). *)
Theorem C04_molecule_fragments_partition :
  forall s np m, from_schema s np = Ok m -> List.concat (molecule_fragments s m) = zseq (Z.of_nat (List.length (m_elem m))).
Proof. exact molecule_fragments_partition. Qed.

(** ------------------------------------------------------------------------------------------------------------
    Completeness of contiguize_from_fragment_pattern — the converse of C04_contiguize_accepts: a non-empty pattern that
    lists 0 .. nat-1 in order, a geometry of nat rows and columns that (if given) have nat entries is accepted, with the
    cumulative fragment sizes as separators and every array handed through unchanged.  (col_len n o: a column that is
    given has n entries.) *)
Theorem C04_contiguize_complete :
  forall pat g ea ez ee em er el pts,
    pat <> [] -> List.concat pat = zseq (total_atoms pat) ->
    triples g = Ok pts -> Z.of_nat (List.length pts) = total_atoms pat ->
    col_len (total_atoms pat) ea -> col_len (total_atoms pat) ez -> col_len (total_atoms pat) ee ->
    col_len (total_atoms pat) em -> col_len (total_atoms pat) er -> col_len (total_atoms pat) el ->
    contiguize pat g ea ez ee em er el =
      Ok {| c_seps := cum_seps pat; c_geom := g; c_elea := ea; c_elez := ez; c_elem := ee; c_mass := em; c_real := er; c_elbl := el |}.
Proof. exact contiguize_complete. Qed.

(** The fixed point through the QCSchema entry point: a record accepted by from_arrays under the settings from_schema
    uses (tooclose, mtol, zero_ghost_fragments at the defaults read from the source), in Bohr, non-empty, with
    non-negative separators, exported by to_schema (dtype 1 or 2) and read back by from_schema with the same
    nonphysical flag, is accepted and reproduced (masses up to equality of rationals; input_units_to_au is not part of a
    QCSchema dictionary, [drop_iutau]). *)
Theorem C04_schema_fixed_point :
  forall r m dtype, from_arrays r = Ok m -> schema_run_settings r -> m_units m = "Bohr"%string -> m_geom m <> [] ->
    Forall (fun s => 0 <= s) (m_seps m) -> dtype = 1 \/ dtype = 2 ->
    exists m', from_schema (to_schema dtype m) (r_nonphysical r) = Ok m' /\ molrec_equiv m' (drop_iutau m).
Proof. exact schema_fixed_point. Qed.

(** ... and the Molecule object built from that dictionary has the record's fragment list. *)
Theorem C04_schema_fixed_point_fragments :
  forall r m dtype m', from_arrays r = Ok m -> molrec_equiv m' (drop_iutau m) ->
    molecule_fragments (to_schema dtype m) m' = pieces m.
Proof. exact schema_fixed_point_fragments. Qed.

(** Validation does not depend on where the molecule sits: translating the geometry rigidly by any vector leaves the
    decision and the error class unchanged, and an accepted record differs only by the translated coordinates. *)
Theorem C04_translation_invariant :
  forall t r, from_arrays (translate_raw t r) = translate_outcome t (from_arrays r).
Proof. exact translation_invariant. Qed.

(** In particular a pair closer than tooclose is refused at any distance from the origin. *)
Theorem C04_too_close_refused_anywhere :
  forall t r pts i j p q, triples (r_geom r) = Ok pts -> (i < j)%nat -> nth_error pts i = Some p -> nth_error pts j = Some q ->
    (dist2 p q < r_tooclose r * r_tooclose r)%Q -> forall m, from_arrays (translate_raw t r) <> Ok m.
Proof. exact too_close_refused_anywhere. Qed.

(** regression witnesses: the failing inputs of the two fixed findings are refused with ValidationError *)
Example C04_ex_old_failing_inputs_refused :
  from_schema (ex_two_atoms []) false = Err Validation /\ from_schema (ex_two_atoms [[5; 6]]) false = Err Validation /\
  from_schema (ex_two_atoms [[1; 2]]) false = Err Validation /\ from_schema (ex_two_atoms [[-1; 0]]) false = Err Validation.
Proof. exact from_schema_old_failing_inputs_refused. Qed.

(** Non-vacuity for the schema theorems: He / Li+ as two fragments, accepted; the record's separators are [1]. *)
Definition ex_schema : schema :=
  {| sc_name := Some "qcschema_molecule"%string; sc_version := Some 2; sc_symbols := ["He"; "li"]%string; sc_geom := [0; 0; 0; 0; 0; 3]%Q;
     sc_elea := None; sc_elez := None; sc_mass := None; sc_real := None; sc_elbl := None; sc_frags := Some [[0]; [1]];
     sc_fchg := Some [Some 0; Some 1]; sc_fmult := None; sc_chg := None; sc_mult := None; sc_fix_com := None;
     sc_fix_orientation := None; sc_fix_symmetry := None; sc_conn := None |}.
Example C04_ex_schema_accept :
  match from_schema ex_schema false with
  | Ok m => m_seps m = [1] /\ m_chg m = 1 /\ m_elem m = ["He"; "Li"]%string /\ molecule_fragments ex_schema m = [[0]; [1]]
  | Err _ => False end.
Proof. vm_compute. repeat split. Qed.

(** Non-vacuity for C04_schema_fixed_point: the record of ex_schema (He / Li+, separators [1]) satisfies its hypotheses
    and comes back from from_schema (to_schema 1|2 .). *)
Example C04_ex_schema_fixed_point :
  match from_arrays (schema_arrays ex_schema false) with
  | Ok m => schema_run_settings (schema_arrays ex_schema false) /\ m_units m = "Bohr"%string /\ m_geom m <> [] /\
            Forall (fun s => 0 <= s) (m_seps m) /\
            molrec_eqb_ok (from_schema (to_schema 1 m) false) m = true /\ molrec_eqb_ok (from_schema (to_schema 2 m) false) m = true
  | Err _ => False end.
Proof.
  vm_compute. repeat split; try discriminate. constructor; [discriminate | constructor].
Qed.

(** regression witness: the old failing input geom=[0,0,0,1], elez=[1] *)
Definition ex_bad_geom : raw :=
  {| r_geom := [0; 0; 0; 1]%Q; r_elea := None; r_elez := Some [Some 1]; r_elem := None; r_mass := None; r_real := None;
     r_elbl := None; r_units := "Angstrom"; r_iutau := None; r_fix_com := None; r_fix_orientation := None;
     r_fix_symmetry := None; r_seps := None; r_fchg := None; r_fmult := None; r_chg := None; r_mult := None; r_conn := None;
     r_speclabel := true; r_tooclose := 1 # 10; r_zgf := false; r_nonphysical := false; r_mtol := 1 # 1000; r_minimal := false |}.
Example C04_ex_geom_not_3n : from_arrays ex_bad_geom = Err Validation.
Proof. vm_compute. reflexivity. Qed.

(** Non-vacuity: HOH...He with a negative separator, partial descriptors, a label carrying isotope and tag. *)
Definition ex_raw : raw :=
  {| r_geom := [0; 0; 0;  0; 0; 1;  0; 1; 0;  3; 3; 3]%Q;
     r_elea := None; r_elez := Some [Some 8; None; Some 1; None];
     r_elem := Some [None; Some "h"%string; None; None]; r_mass := None;
     r_real := Some [None; None; None; Some false];
     r_elbl := Some [None; None; Some "2H_d"%string; Some "@he"%string];
     r_units := "bohr"; r_iutau := None; r_fix_com := Some true; r_fix_orientation := None;
     r_fix_symmetry := Some "C1"%string; r_seps := Some [-1]; r_fchg := Some [None; Some 0]; r_fmult := None;
     r_chg := None; r_mult := None; r_conn := Some [(2, 0, 1%Q); (0, 1, 1%Q)];
     r_speclabel := true; r_tooclose := 1 # 10; r_zgf := false; r_nonphysical := false; r_mtol := 1 # 1000; r_minimal := false |}.
Definition ex_rec : molrec :=
  {| m_units := "Bohr"; m_iutau := None; m_geom := [0; 0; 0;  0; 0; 1;  0; 1; 0;  3; 3; 3]%Q;
     m_elea := [16; 1; 2; 4]; m_elez := [8; 1; 1; 2]; m_elem := ["O"; "H"; "H"; "He"]%string;
     m_mass := [1599491461957 # 100000000000; 100782503223 # 100000000000; 201410177812 # 100000000000; 400260325413 # 100000000000]%Q;
     m_real := [true; true; true; false]; m_elbl := [""; ""; "_d"; ""]%string;
     m_seps := [-1]; m_fchg := [0; 0]; m_fmult := [1; 1]; m_chg := 0; m_mult := 1;
     m_fix_com := true; m_fix_orientation := false; m_fix_symmetry := Some "c1"%string;
     m_conn := Some [(0, 1, 1%Q); (0, 2, 1%Q)] |}.
Example C04_ex_accept : molrec_eqb_ok (from_arrays ex_raw) ex_rec = true.
Proof. vm_compute. reflexivity. Qed.
Example C04_ex_feedback : (0 <= r_mtol ex_raw)%Q /\ (r_mtol ex_raw <= 1 # 4)%Q /\
  molrec_eqb_ok (from_arrays (as_raw ex_raw ex_rec)) ex_rec = true.
Proof. repeat split; vm_compute; first [reflexivity | discriminate]. Qed.
(** Non-vacuity for C04_translation_invariant: ex_raw moved by (2^25, -3, 1/2) is accepted with the moved record, and a
    coincident pair 2^25 away from the origin is refused. *)
Example C04_ex_translated :
  molrec_eqb_ok (from_arrays (translate_raw (33554432, -3, 1 # 2)%Q ex_raw)) (translate_rec (33554432, -3, 1 # 2)%Q ex_rec) = true.
Proof. vm_compute. reflexivity. Qed.
Definition ex_far_coincident : raw :=
  {| r_geom := [33554432; -16777216; 0;  33554432 + (1 # 16); -16777216; 0]%Q; r_elea := None; r_elez := Some [Some 1; Some 2];
     r_elem := None; r_mass := None; r_real := None; r_elbl := None; r_units := "Bohr"; r_iutau := None; r_fix_com := None;
     r_fix_orientation := None; r_fix_symmetry := None; r_seps := None; r_fchg := None; r_fmult := None; r_chg := None;
     r_mult := None; r_conn := None; r_speclabel := true; r_tooclose := 1 # 10; r_zgf := false; r_nonphysical := false;
     r_mtol := 1 # 1000; r_minimal := false |}.
Example C04_ex_far_pair_refused : from_arrays ex_far_coincident = Err Validation.
Proof. vm_compute. reflexivity. Qed.

Example C04_ex_bad_split : ~ Forall (fun p => p <> []) (np_split (repeat tt 4%nat) [3; 1]).
Proof. intro H. vm_compute in H. inversion H as [|? ? _ H1]; subst. inversion H1 as [|? ? H2 _]; subst. apply H2. reflexivity. Qed.

Print Assumptions C04_accepted_invariants.
Print Assumptions C04_split_partition.
Print Assumptions C04_idempotent.
Print Assumptions C04_rejects_no_geometry.
Print Assumptions C04_rejects_geom_not_3n.
Print Assumptions C04_rejects_too_close.
Print Assumptions C04_rejects_column_length.
Print Assumptions C04_rejects_unknown_units.
Print Assumptions C04_rejects_units_factor.
Print Assumptions C04_rejects_bad_split.
Print Assumptions C04_rejects_fragment_lengths.
Print Assumptions C04_rejects_fragment_data_without_separators.
Print Assumptions C04_rejects_conflicting_nuclear_data.
Print Assumptions C04_refusal_classes.
Print Assumptions C04_contiguize_accepts.
Print Assumptions C04_contiguize_partition.
Print Assumptions C04_from_schema_is_from_arrays.
Print Assumptions C04_from_schema_accepted_invariants.
Print Assumptions C04_from_schema_rejects_unknown_schema.
Print Assumptions C04_from_schema_refusal_classes.
Print Assumptions C04_molecule_fragments_partition.
Print Assumptions C04_contiguize_complete.
Print Assumptions C04_schema_fixed_point.
Print Assumptions C04_schema_fixed_point_fragments.
Print Assumptions C04_translation_invariant.
Print Assumptions C04_too_close_refused_anywhere.
