(** C03 — Unit conversion factors are mutually consistent and anchored to CODATA.
    Model: Model/Units.v ([conv_ctx c a b] = PhysicalConstantsContext(c).conversion_factor(a, b) on unit expressions
    already resolved to pint's canonical (prefix, unit) atoms; registry regenerated from ureg.py on every run;
    plain SI/imperial units and the prefix table are trusted data read from the installed pint), Model/UnitsText.v (the
    reader of unit TEXT), Model/UnitsGlue.v (the glue of conversion_factor: str / Quantity arguments, functools.lru_cache).
    [emag]/[edim] are the plain algebraic meaning of an expression (product of powers of SI magnitudes).

    CLAUSE MAP (statement of C03 in properties.jsonl -> theorems here; "corr" = correspondence/oracle only)
    1. same dimension: factor = ratio of SI magnitudes under the selected set
         C03_same_dimension_is_SI_ratio, C03_parse_is_algebraic (ALL expressions, both sets); magnitudes anchored to CODATA:
         C03_anchored, C03_anchored_misc, C03_au_units_consistent (finite tables).  On the TEXT users type, wave 4:
         C03_text_roundtrip (the reader is a left inverse of the fully parenthesised rendering, ALL expressions with canonical
         atoms and non-negative integer numerals), C03_text_roundtrip_conv, C03_text_canonical_atoms (68 names x 25 prefixes);
         symbols, juxtaposition, precedence without parentheses, decimal fractions: C03_text_reader_examples (pinned
         instances) + corr text stream (the model reads the same strings as the implementation).
    2. 1 on the diagonal, reciprocal, multiplicative along chains: C03_diagonal, C03_reciprocal, C03_chain (ALL expressions).
    3. linear in a numeric prefactor written into either expression: C03_linear_in_source_prefactor /
         C03_linear_in_target_prefactor (same dimension) and, wave 3, C03_linear_source_all_paths / C03_linear_target_all_paths
         (EVERY conversion: same dimension, every bridge, every error; expressions without a zero power).
    4. bridges to/from hartree reproduce NIST's published relationship values: C03_nist_bridges (exact, 9 unit pairs),
         C03_relationships_reproduced (all 56 published relationships per set), wave 3 C03_unprefixed_nist_source_any_target
         (an unprefixed NIST unit to EVERY target expression goes through the published value exactly once).
    5. every other bridged conversion agrees with E = h nu = h c / lambda = m c^2 = k T (and N_A) to CODATA precision:
         C03_default_route_bridge + C03_bridge_constants_are_physics + C03_all_named_bridges_covered (sources naming no NIST
         unit, ALL source and target expressions), C03_relationships_consistent_with_physics (the published values themselves).
         FALSE for SI-prefixed NIST sources: C03_prefixed_bridge_refuted, C03_prefixed_bridge_characterised (known finding).
         energy <-> energy/mol (N_A hops), wave 4: C03_energy_to_per_mole, C03_per_mole_to_energy (ALL source and target
         expressions, prefixed or not: x N_A resp. / N_A of the same set), C03_per_mole_roundtrip (exactly 1).
    6. a -> b then b -> a gives 1: same dimension C03_reciprocal; bridges, wave 3: C03_published_roundtrip (every published
         pair of opposite relationships), C03_default_route_roundtrip (ALL expressions naming no NIST unit, both directions).
    7. unrelated dimensions raise: C03_unrelated_dims_error, C03_number_only_if_dimension_reached (ALL expressions).
    8. entry points (observe_at): conversion_factor(str | Quantity, str | Quantity) with functools.lru_cache — wave 3:
         C03_str_entry_point_is_text_model, C03_cache_transparent (any history of calls whose keys are stable),
         C03_cache_transparent_str_history (EVERY history of str calls), C03_cache_stable_same_dimension (Quantity keys, same
         dimension), C03_cache_poisoned_refuted (Quantity keys across a bridge: the known finding leaks to an UNPREFIXED
         request through the cache).  Datum.to_units, the default singleton, covalentradii.get(units=...) (C17): corr only.
    9. state: the lazily built registry [_ureg] per context object: corr only (history streams on fresh and long-lived objects).
       Wave 4: contexts of BOTH sets alive in one process (the model's [conv_ctx c] is a function of the set alone): corr only,
       stream cross-context — 40 requests whose 2014 and 2018 factors differ by more than 4x the oracle tolerance, put to the
       other set's object first, in a process of its own (so the recorded history replays from `import qcelemental`). *)
From Coq Require Import ZArith QArith Qpower Qabs List String Bool.
Require Import QV.Common.Outcome QV.Common.DecC02 QV.Common.UnitsC03.
Require Import QV.Gen.Codata2014 QV.Gen.Codata2018 QV.Gen.UregDefs.
Require Import QV.Model.Units QV.Model.UnitsText QV.Model.UnitsGlue QV.Proofs.Units QV.Proofs.UnitsGlue QV.Proofs.UnitsNa QV.Proofs.UnitsTextRT.
Import ListNotations.
Open Scope string_scope.
Open Scope Q_scope.

(** ** Same dimension: the factor IS the ratio of SI magnitudes — for ALL unit expressions *)
Theorem C03_same_dimension_is_SI_ratio : forall c a b ka ca kb cb,
  parse (reg c) a = Ok (ka, ca) -> parse (reg c) b = Ok (kb, cb) -> ~ kb == 0 -> edim (reg c) a = edim (reg c) b ->
  exists v, conv_ctx c a b = Ok v /\ v == emag (reg c) a / emag (reg c) b.
Proof. intros c. exact (same_dimension_is_SI_ratio (reg c) (nist c) (reg_nz_ctx c)). Qed.

(** pint's unit-container bookkeeping agrees with the algebraic meaning of the expression *)
Theorem C03_parse_is_algebraic : forall c e k u,
  parse (reg c) e = Ok (k, u) -> k * cmag (reg c) u == emag (reg c) e /\ cdim (reg c) u = edim (reg c) e.
Proof. intros c. exact (parse_sem (reg c) (reg_nz_ctx c)). Qed.

Theorem C03_diagonal : forall c a k u, parse (reg c) a = Ok (k, u) -> ~ k == 0 ->
  exists v, conv_ctx c a a = Ok v /\ v == 1.
Proof. intros c. exact (law_diagonal (reg c) (nist c) (reg_nz_ctx c)). Qed.

Theorem C03_reciprocal : forall c a b ka ca kb cb,
  parse (reg c) a = Ok (ka, ca) -> parse (reg c) b = Ok (kb, cb) -> ~ ka == 0 -> ~ kb == 0 ->
  cdim (reg c) ca = cdim (reg c) cb ->
  exists v w, conv_ctx c a b = Ok v /\ conv_ctx c b a = Ok w /\ v * w == 1.
Proof. intros c. exact (law_reciprocal (reg c) (nist c) (reg_nz_ctx c)). Qed.

Theorem C03_chain : forall c a b d ka ca kb cb kd cd,
  parse (reg c) a = Ok (ka, ca) -> parse (reg c) b = Ok (kb, cb) -> parse (reg c) d = Ok (kd, cd) -> ~ kb == 0 -> ~ kd == 0 ->
  cdim (reg c) ca = cdim (reg c) cb -> cdim (reg c) cb = cdim (reg c) cd ->
  exists u v w, conv_ctx c a b = Ok u /\ conv_ctx c b d = Ok v /\ conv_ctx c a d = Ok w /\ u * v == w.
Proof. intros c. exact (law_chain (reg c) (nist c) (reg_nz_ctx c)). Qed.

Theorem C03_linear_in_source_prefactor : forall c k a b ka ca kb cb,
  parse (reg c) a = Ok (ka, ca) -> parse (reg c) b = Ok (kb, cb) -> ~ kb == 0 -> cdim (reg c) ca = cdim (reg c) cb ->
  exists v w, conv_ctx c a b = Ok v /\ conv_ctx c (UMul (UNum k) a) b = Ok w /\ w == k * v.
Proof. intros c. exact (law_linear_source (reg c) (nist c) (reg_nz_ctx c)). Qed.

Theorem C03_linear_in_target_prefactor : forall c k a b ka ca kb cb,
  parse (reg c) a = Ok (ka, ca) -> parse (reg c) b = Ok (kb, cb) -> ~ kb == 0 -> ~ k == 0 -> cdim (reg c) ca = cdim (reg c) cb ->
  exists v w, conv_ctx c a b = Ok v /\ conv_ctx c a (UMul (UNum k) b) = Ok w /\ w == v / k.
Proof. intros c. exact (law_linear_target (reg c) (nist c) (reg_nz_ctx c)). Qed.

(** ** Unrelated dimensions: an error, never a number *)
Theorem C03_unrelated_dims_error : forall c a b ka ca kb cb,
  parse (reg c) a = Ok (ka, ca) -> parse (reg c) b = Ok (kb, cb) -> ~ kb == 0 ->
  cdim (reg c) ca <> cdim (reg c) cb -> is_bridge_source (cdim (reg c) ca) = false ->
  conv_ctx c a b = Err Dimensionality.
Proof. intros c. exact (unrelated_dims_error (reg c) (nist c)). Qed.

(** whatever path is taken, a number is only ever returned when the target's dimension was reached *)
Theorem C03_number_only_if_dimension_reached : forall c a b v, conv_ctx c a b = Ok v ->
  exists pa pb x, parse (reg c) a = Ok pa /\ parse (reg c) b = Ok pb
    /\ apply_hops (reg c) (nist c) (find_path (cdim (reg c) (snd pa)) (cdim (reg c) (snd pb))) ((fst pa / fst pb)%Q, snd pa) = Ok x
    /\ cdim (reg c) (snd x) = cdim (reg c) (snd pb).
Proof. intros c. exact (number_implies_dimension_reached (reg c) (nist c)). Qed.

(** ** Anchoring to CODATA (hand-written expectations: unit, CODATA constant of the same set, SI factor, SI dimension) *)
Definition dE := mkdim 2 1 (-2) 0 0 0 0.        (* energy *)
Definition anchors : list (string * string * Q * dimvec) :=
  [ ("hartree", "hartree energy", 1, dE);
    ("electron_volt", "elementary charge", 1, dE);                      (* 1 eV = e x 1 V *)
    ("bohr", "bohr radius", 1, mkdim 1 0 0 0 0 0 0);
    ("electron_mass", "electron mass", 1, mkdim 0 1 0 0 0 0 0);
    ("atomic_mass_unit", "atomic mass constant", 1, mkdim 0 1 0 0 0 0 0);
    ("elementary_charge", "elementary charge", 1, mkdim 0 0 1 1 0 0 0);
    ("avogadro_constant", "avogadro constant", 1, mkdim 0 0 0 0 0 (-1) 0);
    ("boltzmann_constant", "boltzmann constant", 1, mkdim 2 1 (-2) 0 (-1) 0 0);
    ("speed_of_light", "speed of light in vacuum", 1, mkdim 1 0 (-1) 0 0 0 0);
    ("plancks_constant", "planck constant", 1, mkdim 2 1 (-1) 0 0 0 0);
    ("au_1st_hyperpolarizability", "atomic unit of 1st hyperpolarizability", 1, mkdim (-1) (-2) 7 3 0 0 0);
    ("au_2nd_hyperpolarizability", "atomic unit of 2nd hyperpolarizability", 1, mkdim (-2) (-3) 10 4 0 0 0);
    ("au_action", "atomic unit of action", 1, mkdim 2 1 (-1) 0 0 0 0);
    ("au_charge_density", "atomic unit of charge density", 1, mkdim (-3) 0 1 1 0 0 0);
    ("au_current", "atomic unit of current", 1, mkdim 0 0 0 1 0 0 0);
    ("au_electric_dipole_moment", "atomic unit of electric dipole mom.", 1, mkdim 1 0 1 1 0 0 0);
    ("au_electric_field", "atomic unit of electric field", 1, mkdim 1 1 (-3) (-1) 0 0 0);
    ("au_electric_field_gradient", "atomic unit of electric field gradient", 1, mkdim 0 1 (-3) (-1) 0 0 0);
    ("au_electric_polarizability", "atomic unit of electric polarizability", 1, mkdim 0 (-1) 4 2 0 0 0);
    ("au_electric_potential", "atomic unit of electric potential", 1, mkdim 2 1 (-3) (-1) 0 0 0);
    ("au_electric_quadrupole_moment", "atomic unit of electric quadrupole mom.", 1, mkdim 2 0 1 1 0 0 0);
    ("au_force", "atomic unit of force", 1, mkdim 1 1 (-2) 0 0 0 0);
    ("au_magnetic_dipole_moment", "atomic unit of mag. dipole mom.", 1, mkdim 2 0 0 1 0 0 0);
    ("au_magnetic_flux_density", "atomic unit of mag. flux density", 1, mkdim 0 1 (-2) (-1) 0 0 0);
    ("au_magnetizability", "atomic unit of magnetizability", 1, mkdim 2 (-1) 2 2 0 0 0);
    ("au_permittivity", "atomic unit of permittivity", 1, mkdim (-3) (-1) 4 2 0 0 0);
    ("au_time", "atomic unit of time", 1, mkdim 0 0 1 0 0 0 0);
    ("au_velocity", "atomic unit of velocity", 1, mkdim 1 0 (-1) 0 0 0 0) ].

Definition anchor_ok (c : cctx) (x : string * string * Q * dimvec) : bool :=
  let '(u, key, f, d) := x in
  match reg c u, codata_value c key with
  | Some (m, d'), Some v => Qeq_bool m (f * v) && dim_eqb d' d
  | _, _ => false
  end.

(** every re-defined unit has exactly the CODATA decimal of the same set as SI magnitude, and the right dimension *)
Theorem C03_anchored : forall c u key f d, In (u, key, f, d) anchors ->
  exists m v, reg c u = Some (m, d) /\ codata_value c key = Some v /\ m == f * v.
Proof.
  intros c u key f d Hin.
  assert (A : forallb (anchor_ok c) anchors = true) by (destruct c; vm_compute; reflexivity).
  pose proof (proj1 (forallb_forall _ _) A _ Hin) as H. unfold anchor_ok in H.
  destruct (reg c u) as [[m d']|]; [|discriminate]. destruct (codata_value c key) as [v|]; [|discriminate].
  apply andb_true_iff in H. destruct H as [H1 H2]. apply Qeq_bool_eq in H1. apply dim_eqb_eq in H2. subst d'.
  exists m, v. auto.
Qed.

(** au_momentum carries the set's own name for it; debye = 1e-21/c C m exactly; au_pressure = E_h / a0^3 *)
Definition misc_ok (c : cctx) : bool :=
  match reg c "au_momentum", codata_value c (match c with C2014 => "atomic unit of mom.um" | C2018 => "atomic unit of momentum" end),
        reg c "debye", reg c "au_pressure", codata_value c "hartree energy", codata_value c "bohr radius" with
  | Some (m1, d1), Some v1, Some (m2, d2), Some (m3, d3), Some e, Some a =>
      Qeq_bool m1 v1 && dim_eqb d1 (mkdim 1 1 (-1) 0 0 0 0)
      && Qeq_bool m2 ((1 # 10 ^ 21) / 299792458) && dim_eqb d2 (mkdim 1 0 1 1 0 0 0)
      && Qeq_bool m3 (e / (a * a * a)) && dim_eqb d3 (mkdim (-1) 1 (-2) 0 0 0 0)
  | _, _, _, _, _, _ => false
  end.

Theorem C03_anchored_misc : forall c,
  exists m1 v1 m2 m3 e a,
    reg c "au_momentum" = Some (m1, mkdim 1 1 (-1) 0 0 0 0)
    /\ codata_value c (match c with C2014 => "atomic unit of mom.um" | C2018 => "atomic unit of momentum" end) = Some v1 /\ m1 == v1
    /\ reg c "debye" = Some (m2, mkdim 1 0 1 1 0 0 0) /\ m2 == (1 # 10 ^ 21) / 299792458
    /\ reg c "au_pressure" = Some (m3, mkdim (-1) 1 (-2) 0 0 0 0)
    /\ codata_value c "hartree energy" = Some e /\ codata_value c "bohr radius" = Some a /\ m3 == e / (a * a * a).
Proof.
  intro c. assert (A : misc_ok c = true) by (destruct c; vm_compute; reflexivity).
  unfold misc_ok in A.
  destruct (reg c "au_momentum") as [[m1 d1]|]; [|discriminate].
  destruct (codata_value c (match c with C2014 => "atomic unit of mom.um" | C2018 => "atomic unit of momentum" end)) as [v1|]; [|discriminate].
  destruct (reg c "debye") as [[m2 d2]|]; [|discriminate].
  destruct (reg c "au_pressure") as [[m3 d3]|]; [|discriminate].
  destruct (codata_value c "hartree energy") as [e|]; [|discriminate].
  destruct (codata_value c "bohr radius") as [a|]; [|discriminate].
  repeat (apply andb_true_iff in A; destruct A as [A ?]).
  repeat match goal with H : dim_eqb _ _ = true |- _ => apply dim_eqb_eq in H; subst end.
  repeat match goal with H : Qeq_bool _ _ = true |- _ => apply Qeq_bool_eq in H end.
  exists m1, v1, m2, m3, e, a. repeat split; auto.
Qed.

(** ** The 19 au_* units are the products of au_charge (e), au_length (a0), au_energy (E_h), au_action (hbar) and
    au_mass (m_e) they should be — exponents written by hand — to 1e-9 relative (measured worst 6.6e-10, CODATA prints 10 digits). *)
Definition au_products : list (string * (Z * Z * Z * Z * Z)) :=     (* e, a0, E_h, hbar, m_e *)
  [ ("au_1st_hyperpolarizability", (3, 3, -2, 0, 0)); ("au_2nd_hyperpolarizability", (4, 4, -3, 0, 0));
    ("au_action", (0, 0, 0, 1, 0)); ("au_charge_density", (1, -3, 0, 0, 0)); ("au_current", (1, 0, 1, -1, 0));
    ("au_electric_dipole_moment", (1, 1, 0, 0, 0)); ("au_electric_field", (-1, -1, 1, 0, 0));
    ("au_electric_field_gradient", (-1, -2, 1, 0, 0)); ("au_electric_polarizability", (2, 2, -1, 0, 0));
    ("au_electric_potential", (-1, 0, 1, 0, 0)); ("au_electric_quadrupole_moment", (1, 2, 0, 0, 0));
    ("au_force", (0, -1, 1, 0, 0)); ("au_magnetic_dipole_moment", (1, 0, 0, 1, -1));
    ("au_magnetic_flux_density", (-1, -2, 0, 1, 0)); ("au_magnetizability", (2, 2, 0, 0, -1));
    ("au_momentum", (0, -1, 0, 1, 0)); ("au_permittivity", (2, -1, -1, 0, 0)); ("au_time", (0, 0, -1, 1, 0));
    ("au_velocity", (0, 1, 1, -1, 0)) ]%Z.

Definition au_expr (x : Z * Z * Z * Z * Z) : uexpr :=
  let '(ne, na, nE, nh, nm) := x in
  UMul (UMul (UMul (UMul (UPow (UAtom "" "elementary_charge") ne) (UPow (UAtom "" "bohr") na)) (UPow (UAtom "" "hartree") nE))
             (UPow (UAtom "" "au_action") nh)) (UPow (UAtom "" "electron_mass") nm).

Definition au_ok (c : cctx) (x : string * (Z * Z * Z * Z * Z)) : bool :=
  match conv_ctx c (UAtom "" (fst x)) (au_expr (snd x)) with
  | Ok v => rel_close (1 # 10 ^ 9) v 1
  | Err _ => false
  end.

Theorem C03_au_units_consistent : forall c u x, In (u, x) au_products ->
  exists v, conv_ctx c (UAtom "" u) (au_expr x) = Ok v /\ Qabs (v - 1) <= (1 # 10 ^ 9) * Qabs 1.
Proof.
  intros c u x Hin.
  assert (A : forallb (au_ok c) au_products = true) by (destruct c; vm_compute; reflexivity).
  pose proof (proj1 (forallb_forall _ _) A _ Hin) as H. unfold au_ok in H. cbn [fst snd] in H.
  destruct (conv_ctx c (UAtom "" u) (au_expr x)) as [v|]; [|discriminate].
  exists v. split; [reflexivity | apply rel_close_spec; exact H].
Qed.

(** ** Bridges *)

(** conversions to hartree from every NIST relationship unit of another dimension, and from hartree to hertz,
    inverse meter, kilogram and kelvin, ARE the published relationship values (exactly) *)
Definition exact_hartree_bridges : list (string * string * string) :=
  [ ("hertz", "hartree", "hertz-hartree relationship"); ("inverse_meter", "hartree", "inverse meter-hartree relationship");
    ("kilogram", "hartree", "kilogram-hartree relationship"); ("kelvin", "hartree", "kelvin-hartree relationship");
    ("atomic_mass_unit", "hartree", "atomic mass unit-hartree relationship");
    ("hartree", "hertz", "hartree-hertz relationship"); ("hartree", "inverse_meter", "hartree-inverse meter relationship");
    ("hartree", "kilogram", "hartree-kilogram relationship"); ("hartree", "kelvin", "hartree-kelvin relationship") ].

Theorem C03_nist_bridges : forall c l r key, In (l, r, key) exact_hartree_bridges ->
  exists v p, rel_conv c l r = Ok v /\ codata_value c key = Some p /\ v == p.
Proof.
  intros c l r key Hin. apply rel_exact_ok_spec.
  assert (A : forallb (rel_exact_ok c) exact_hartree_bridges = true) by (destruct c; vm_compute; reflexivity).
  exact (proj1 (forallb_forall _ _) A _ Hin).
Qed.

(** every one of the published '<a>-<b> relationship' constants: the key splits in two (no ValueError in the loop), and the
    conversion a -> b either is not offered (two transformer hops: a Python exception) or reproduces the published value
    to 2e-8 (CODATA2014, whose kelvin relationships are printed to 8 digits) / 5e-9 (CODATA2018) *)
Definition tol_of (c : cctx) : Q := match c with C2014 => 2 # 10 ^ 8 | C2018 => 5 # 10 ^ 9 end.

Theorem C03_relationships_reproduced : forall c k q u v unc, In (k, q, u, v, unc) (shipped c) ->
  rel_key_ok k = true /\
  forall l r, rel_sides k = Some (l, r) ->
    exists p, codata_value c k = Some p /\
      match rel_conv c l r with Ok x => Qabs (x - p) <= tol_of c * Qabs p | Err _ => True end.
Proof.
  intros c k q u v unc Hin.
  assert (A : forallb (fun row => rel_row_ok (tol_of c) c row && match row with (k, _, _, _, _) => rel_key_ok k end) (shipped c) = true)
    by (destruct c; vm_compute; reflexivity).
  pose proof (proj1 (forallb_forall _ _) A _ Hin) as H. cbn beta iota in H.
  apply andb_true_iff in H. destruct H as [H1 H2]. split; [exact H2|].
  intros l r Hs. unfold rel_row_ok in H1. rewrite Hs in H1.
  destruct (codata_value c k) as [p|]; [|discriminate]. exists p. split; [reflexivity|].
  destruct (rel_conv c l r); [apply rel_close_spec; exact H1 | exact I].
Qed.

(** the real data theorem: every published relationship constant agrees with E = h nu = h c / lambda = m c^2 = k T
    (and 1 eV = e J, 1 u = m_u) computed from h, c, k, e, m_u, E_h of the SAME set, to the same tolerance *)
Definition energy_equivalent (c : cctx) (u : string) : option Q :=
  let v := codata_value c in
  match v "planck constant", v "speed of light in vacuum", v "boltzmann constant", v "elementary charge",
        v "atomic mass constant", v "hartree energy" with
  | Some h, Some cc, Some k, Some e, Some mu, Some Eh =>
      if String.eqb u "joule" then Some 1
      else if String.eqb u "hartree" then Some Eh
      else if String.eqb u "electron_volt" then Some e
      else if String.eqb u "hertz" then Some h
      else if String.eqb u "inverse_meter" then Some (h * cc)
      else if String.eqb u "kilogram" then Some (cc * cc)
      else if String.eqb u "kelvin" then Some k
      else if String.eqb u "atomic_mass_unit" then Some (mu * cc * cc)
      else None
  | _, _, _, _, _, _ => None
  end.

Definition physics_row_ok (c : cctx) (row : string * string * string * string * string) : bool :=
  let '(k, _, _, _, _) := row in
  match rel_sides k with
  | Some (l, r) =>
      match codata_value c k, energy_equivalent c l, energy_equivalent c r with
      | Some p, Some el, Some er => rel_close (tol_of c) p (el / er)
      | _, _, _ => false
      end
  | None => true
  end.

Theorem C03_relationships_consistent_with_physics : forall c k q u v unc l r,
  In (k, q, u, v, unc) (shipped c) -> rel_sides k = Some (l, r) ->
  exists p el er, codata_value c k = Some p /\ energy_equivalent c l = Some el /\ energy_equivalent c r = Some er
                  /\ Qabs (p - el / er) <= tol_of c * Qabs (el / er).
Proof.
  intros c k q u v unc l r Hin Hs.
  assert (A : forallb (physics_row_ok c) (shipped c) = true) by (destruct c; vm_compute; reflexivity).
  pose proof (proj1 (forallb_forall _ _) A _ Hin) as H. unfold physics_row_ok in H. rewrite Hs in H.
  destruct (codata_value c k) as [p|]; [|discriminate].
  destruct (energy_equivalent c l) as [el|]; [|discriminate]. destruct (energy_equivalent c r) as [er|]; [|discriminate].
  exists p, el, er. repeat split; try reflexivity. apply rel_close_spec. exact H.
Qed.

(** ** The known finding: an SI-prefixed NIST unit as SOURCE of a bridge is scaled twice *)

(** The statement "MHz -> hartree is 1e6 times Hz -> hartree" (what the SI ratio demands) is false of the code *)
Theorem C03_prefixed_bridge_refuted :
  exists c p b t v w s, prefix_scale p = Some s
    /\ conv_ctx c (UAtom p b) t = Ok v /\ conv_ctx c (UAtom "" b) t = Ok w
    /\ ~ v == s * w /\ v == s * s * w.
Proof.
  exists C2014, "mega", "hertz", (UAtom "" "hartree").
  eexists; eexists; eexists. split; [vm_compute; reflexivity|]. split; [vm_compute; reflexivity|]. split; [vm_compute; reflexivity|].
  split; [vm_compute; discriminate | vm_compute; reflexivity].
Qed.

(** Exact characterisation, for EVERY target expression t of the bridged dimension: for each SI prefix p and each
    single NIST-relationship unit b, converting (p b) across a one-transformer bridge gives exactly prefix^2 times the
    unprefixed conversion (the SI ratio demands prefix^1), and prefix <> 1. *)
Definition dF := mkdim 0 0 (-1) 0 0 0 0.   Definition dW := mkdim (-1) 0 0 0 0 0 0.
Definition dM_ := mkdim 0 1 0 0 0 0 0.     Definition dTemp := mkdim 0 0 0 0 1 0 0.
Definition affected : list (string * dimvec) :=      (* NIST unit, target dimension *)
  [ ("hartree", dF); ("hartree", dW); ("hartree", dM_); ("hartree", dTemp);
    ("joule", dF); ("joule", dW); ("joule", dM_); ("joule", dTemp);
    ("electron_volt", dF); ("electron_volt", dW); ("electron_volt", dM_); ("electron_volt", dTemp);
    ("hertz", dE); ("kelvin", dE); ("atomic_mass_unit", dE) ].
Definition affected_cases : list (string * string * dimvec) :=
  flat_map (fun pk => map (fun bd => (fst pk, fst bd, snd bd)) affected) prefix_table.

Theorem C03_prefixed_bridge_characterised : forall c p b D, In (p, b, D) affected_cases ->
  forall t kt ct, parse (reg c) t = Ok (kt, ct) -> ~ kt == 0 -> cdim (reg c) ct = D ->
  exists s v w, prefix_scale p = Some s /\ ~ s == 1
    /\ conv_ctx c (UAtom p b) t = Ok v /\ conv_ctx c (UAtom "" b) t = Ok w /\ v == s * s * w.
Proof.
  intros c p b D Hin. apply double_scaled_spec.
  assert (A : forallb (double_scaled_ok c) affected_cases = true) by (destruct c; vm_compute; reflexivity).
  exact (proj1 (forallb_forall _ _) A _ Hin).
Qed.

(** ... whereas an unprefixed NIST source, or a source that names no NIST unit, is converted through the published
    relationship exactly once: e.g. calorie -> hertz is calorie -> hartree -> hertz with NIST's hartree-hertz value. *)
Theorem C03_unprefixed_bridge_examples :
  (forall c, exists v h, conv_ctx c (UAtom "kilo" "calorie") (UAtom "" "hertz") = Ok v
       /\ codata_value c "planck constant" = Some h /\ v == 4184 / h)
  /\ (forall c, exists v p Eh, conv_ctx c (UAtom "kilo" "calorie") (UPow (UAtom "" "meter") (-1)) = Ok v
       /\ codata_value c "hartree-inverse meter relationship" = Some p /\ codata_value c "hartree energy" = Some Eh
       /\ v == 4184 / Eh * p)
  /\ (forall c, exists v p, conv_ctx c (UPow (UAtom "centi" "meter") (-1)) (UAtom "" "hartree") = Ok v
       /\ codata_value c "inverse meter-hartree relationship" = Some p /\ v == 100 * p).
Proof.
  split; [|split]; intros []; repeat eexists; vm_compute; reflexivity.
Qed.

(** ** Every bridged conversion whose source names no NIST unit: for ALL source and target expressions *)

(** For each of the eight named transformers (source dimension s, target dimension d, default expression x): whatever the
    source expression a of dimension s — provided _find_nist_unit finds nothing in it, i.e. no factor with positive exponent
    whose name contains a NIST relationship unit name and no bare meter^-1 — and whatever the target expression b of
    dimension d, the factor is (SI magnitude of a) x (magnitude of the default expression) / (SI magnitude of b). *)
Theorem C03_default_route_bridge : forall c s d r x, In (s, d, r, x) named_edges ->
  forall a b ka ca kb cb,
    parse (reg c) a = Ok (ka, ca) -> parse (reg c) b = Ok (kb, cb) -> ~ kb == 0 ->
    cdim (reg c) ca = s -> cdim (reg c) cb = d -> find_nist_unit (nist c) ca = None ->
    exists v kd cd, parse (reg c) x = Ok (kd, cd) /\ conv_ctx c a b = Ok v
                    /\ v == (ka * cmag (reg c) ca) * (kd * cmag (reg c) cd) / (kb * cmag (reg c) cb).
Proof.
  intros c s d r x Hin. apply (default_bridge c s d r x Hin).
  assert (A : forallb (default_edge_ok c) named_edges = true) by (destruct c; vm_compute; reflexivity).
  exact (proj1 (forallb_forall _ _) A _ Hin).
Qed.

(** ... and those eight default constants are E = h nu = h c / lambda = m c^2 = k T (hand-written), from h, c, k of the same
    set, to the precision of the published relationship constants. *)
Definition physics_constants : list (dimvec * dimvec * (Q -> Q -> Q -> Q)) :=     (* fun h c k => ... *)
  [ (dE, dF, fun h _ _ => 1 / h);            (dF, dE, fun h _ _ => h);
    (dE, dW, fun h c _ => 1 / (h * c));      (dW, dE, fun h c _ => h * c);
    (dE, dM_, fun _ c _ => 1 / (c * c));     (dM_, dE, fun _ c _ => c * c);
    (dE, dTemp, fun _ _ k => 1 / k);         (dTemp, dE, fun _ _ k => k) ].

Definition physics_edge_ok (c : cctx) (p : dimvec * dimvec * (Q -> Q -> Q -> Q)) : bool :=
  let '(s, d, f) := p in
  match find (fun e => match e with (s', d', _, _) => dim_eqb s s' && dim_eqb d d' end) named_edges,
        codata_value c "planck constant", codata_value c "speed of light in vacuum", codata_value c "boltzmann constant" with
  | Some (_, _, _, x), Some h, Some cc, Some k =>
      match default_constant c x with Some K => rel_close (tol_of c) K (f h cc k) | None => false end
  | _, _, _, _ => false
  end.

Theorem C03_bridge_constants_are_physics : forall c s d f, In (s, d, f) physics_constants ->
  exists r x K h cc k, In (s, d, r, x) named_edges /\ default_constant c x = Some K
    /\ codata_value c "planck constant" = Some h /\ codata_value c "speed of light in vacuum" = Some cc
    /\ codata_value c "boltzmann constant" = Some k
    /\ Qabs (K - f h cc k) <= tol_of c * Qabs (f h cc k).
Proof.
  intros c s d f Hin.
  assert (A : forallb (physics_edge_ok c) physics_constants = true) by (destruct c; vm_compute; reflexivity).
  pose proof (proj1 (forallb_forall _ _) A _ Hin) as H. unfold physics_edge_ok in H.
  destruct (find _ named_edges) as [[[[s' d'] r] x]|] eqn:F; [|discriminate].
  destruct (codata_value c "planck constant") as [h|] eqn:E1; [|discriminate].
  destruct (codata_value c "speed of light in vacuum") as [cc|] eqn:E2; [|discriminate].
  destruct (codata_value c "boltzmann constant") as [k|] eqn:E3; [|discriminate].
  destruct (default_constant c x) as [K|] eqn:E4; [|discriminate].
  pose proof (find_some _ _ F) as [Fin Fd]. apply andb_true_iff in Fd. destruct Fd as [F1 F2].
  apply dim_eqb_eq in F1. apply dim_eqb_eq in F2. subst s' d'.
  exists r, x, K, h, cc, k.
  split; [exact Fin|]. split; [exact E4|]. split; [reflexivity|]. split; [reflexivity|]. split; [reflexivity|].
  apply rel_close_spec. exact H.
Qed.

(** the length of the list is the number of named transformers: none is left out *)
Theorem C03_all_named_bridges_covered : List.length physics_constants = List.length named_edges.
Proof. vm_compute. reflexivity. Qed.


(** ** Wave 3.  Numeric prefactors on EVERY path: same dimension, each bridge (published relationship or default route, one or
    two hops), and every error — [k a -> b] is k times [a -> b] and [a -> k b] is 1/k times [a -> b]; an error stays the same
    error.  ([pow0free]: no [** 0] in the scaled expression, so that pint's unit container has no zero-exponent entry.) *)
Theorem C03_linear_source_all_paths : forall c k a b, pow0free a = true ->
  scaled_by k (conv_ctx c a b) (conv_ctx c (UMul (UNum k) a) b).
Proof. intros c. exact (linear_source_all_paths (reg c) (nist c)). Qed.

Theorem C03_linear_target_all_paths : forall c k a b, pow0free b = true -> ~ k == 0 ->
  scaled_by (/ k) (conv_ctx c a b) (conv_ctx c a (UMul (UNum k) b)).
Proof. intros c. exact (linear_target_all_paths (reg c) (nist c)). Qed.

(** ** An unprefixed NIST-relationship unit as source (hartree, joule, eV to frequency / wavenumber / mass / temperature; Hz, K, u, kg to
    energy): whatever the target expression t of the bridged dimension, the factor is the PUBLISHED relationship value times the SI
    magnitude of the relationship's right-hand unit over the SI magnitude of t — the published value is used exactly once. *)
Theorem C03_unprefixed_nist_source_any_target : forall c p b D key rgt, In (p, b, D, key, rgt) unprefixed_sources ->
  forall t kt ct, parse (reg c) t = Ok (kt, ct) -> ~ kt == 0 -> cdim (reg c) ct = D ->
  exists v pub mr, conv_ctx c (UAtom p b) t = Ok v /\ codata_value c key = Some pub
     /\ expr_md (reg c) (side_expr rgt) = Some (mr, D) /\ v == pub * mr / (kt * cmag (reg c) ct).
Proof.
  intros c p b D key rgt Hin t kt ct Ht Hk HD.
  pose proof (proj1 (forallb_forall _ _) (unprefixed_all_ok c) _ Hin) as H.
  destruct (unpref_spec c p b D key rgt H t kt ct Ht Hk HD) as [v [pub [mr [dr [Cv [Cp [Em [Ed Ev]]]]]]]]. subst dr.
  exists v, pub, mr. auto.
Qed.

(** ** Round trips across the bridges *)
Definition rt_tol (c : cctx) : Q := match c with C2014 => 4 # 10 ^ 8 | C2018 => 1 # 10 ^ 8 end.

(** every published pair of opposite relationships multiplies to 1 (to twice the precision of a single one) *)
Theorem C03_published_roundtrip : forall c l r k k', In (l, r, k) (rel_rows c) -> In (r, l, k') (rel_rows c) ->
  exists p p', codata_value c k = Some p /\ codata_value c k' = Some p' /\ Qabs (p * p' - 1) <= rt_tol c * Qabs 1.
Proof. intros c. apply rt_all_ok_spec. destruct c; [exact (proj1 rt_2014) | exact (proj1 rt_2018)]. Qed.

(** for ALL expressions a, b of the two dimensions of a named bridge that name no NIST unit: a -> b then b -> a gives 1 *)
Theorem C03_default_route_roundtrip : forall c s d r x r' x', In (s, d, r, x) named_edges -> In (d, s, r', x') named_edges ->
  forall a b ka ca kb cb,
    parse (reg c) a = Ok (ka, ca) -> parse (reg c) b = Ok (kb, cb) -> ~ ka == 0 -> ~ kb == 0 ->
    cdim (reg c) ca = s -> cdim (reg c) cb = d ->
    find_nist_unit (nist c) ca = None -> find_nist_unit (nist c) cb = None ->
    exists v w, conv_ctx c a b = Ok v /\ conv_ctx c b a = Ok w /\ Qabs (v * w - 1) <= rt_tol c * Qabs 1.
Proof. intros c. apply default_route_roundtrip. destruct c; [exact (proj2 rt_2014) | exact (proj2 rt_2018)]. Qed.

(** ** The glue of conversion_factor (context.py:278-331): str / Quantity arguments and functools.lru_cache *)

(** the str entry point is the text model *)
Theorem C03_str_entry_point_is_text_model : forall c s t, cf_pure c (AStr s) (AStr t) = conv_text c s t.
Proof. reflexivity. Qed.

(** a Quantity argument  k * units(e)  is the expression  k e  (so the prefactor laws above apply to Quantity arguments) *)
Theorem C03_quantity_argument_is_prefactor : forall c k e k' e',
  cf_pure c (AQty k e) (AQty k' e') = conv_ctx c (UMul (UNum k) e) (UMul (UNum k') e').
Proof. reflexivity. Qed.

(** lru_cache: for ANY history of calls on one context object, starting from any cache whose entries are right, every answer is
    the answer of the uncached body — provided each call's key is [stable] (requests that the cache identifies have one answer) *)
Theorem C03_cache_transparent : forall c calls ch, cache_ok c ch ->
  (forall a b, In (a, b) calls -> stable c a b) ->
  Forall2 res_eq (run c ch calls) (map (fun p => cf_pure c (fst p) (snd p)) calls).
Proof. exact cache_transparent. Qed.

(** ... which holds for EVERY history of str arguments (keys are the texts themselves; maxsize and eviction do not matter) *)
Theorem C03_cache_transparent_str_history : forall c (texts : list (string * string)),
  Forall2 res_eq (run c [] (map (fun p => (AStr (fst p), AStr (snd p))) texts)) (map (fun p => conv_text c (fst p) (snd p)) texts).
Proof.
  intros c texts.
  pose proof (cache_transparent c (map (fun p => (AStr (fst p), AStr (snd p))) texts) [] (cache_ok_nil c)) as H.
  rewrite map_map in H. cbn [fst snd] in H. apply H.
  intros a b Hin. apply in_map_iff in Hin. destruct Hin as [[s t] [E _]]. injection E as <- <-. apply stable_str.
Qed.

(** ... and for str or Quantity arguments of one dimension: pint identifies Quantities by magnitude and units after
    to_base_units(), and such requests have the same answer (the SI ratio) *)
Theorem C03_cache_stable_same_dimension : forall c a b ea eb ka ca kb cb,
  arg_expr a = inr ea -> arg_expr b = inr eb -> parse (reg c) ea = Ok (ka, ca) -> parse (reg c) eb = Ok (kb, cb) -> ~ kb == 0 ->
  edim (reg c) ea = edim (reg c) eb -> stable c a b.
Proof. exact stable_same_dimension. Qed.

(** Across a bridge with Quantity arguments the cache is NOT transparent: Quantity(1 MHz) and Quantity(1e6 Hz) are the same key,
    MHz -> hartree is scaled twice (known finding), and the UNPREFIXED request asked second gets the poisoned entry: 1e6 times
    the right answer.  Replayed on /repo: c.conversion_factor(c.Quantity("1 MHz"), "hartree"); c.conversion_factor(c.Quantity("1e6 Hz"), "hartree"). *)
Theorem C03_cache_poisoned_refuted :
  exists v w, run C2014 [] [(AQty 1 (UAtom "mega" "hertz"), AStr "hartree"); (AQty 1000000 (UAtom "" "hertz"), AStr "hartree")] = [Ok v; Ok v]
    /\ cf_pure C2014 (AQty 1000000 (UAtom "" "hertz")) (AStr "hartree") = Ok w /\ v == 1000000 * w.
Proof. exact cache_poisoned_witness. Qed.

(** ** Wave 4.  energy <-> energy/mol (the Avogadro hops of the context graph).  Whatever the source expression a of dimension
    energy and the target expression b of dimension energy/mol — SI-prefixed or not, compound or not; these hops never consult
    NIST unit names, so there is no [find_nist_unit] hypothesis — the factor is (SI magnitude of a) x N_A / (SI magnitude of b)
    with N_A the "Avogadro constant" of the SAME set; the opposite direction divides by N_A; the round trip is exactly 1. *)
Theorem C03_energy_to_per_mole : forall c a b ka ca kb cb,
  parse (reg c) a = Ok (ka, ca) -> parse (reg c) b = Ok (kb, cb) -> ~ kb == 0 ->
  cdim (reg c) ca = dE -> cdim (reg c) cb = dEmol ->
  exists v NA, codata_value c "avogadro constant" = Some NA /\ conv_ctx c a b = Ok v
               /\ v == (ka * cmag (reg c) ca) * NA / (kb * cmag (reg c) cb).
Proof. exact energy_to_per_mole. Qed.

Theorem C03_per_mole_to_energy : forall c a b ka ca kb cb,
  parse (reg c) a = Ok (ka, ca) -> parse (reg c) b = Ok (kb, cb) -> ~ kb == 0 ->
  cdim (reg c) ca = dEmol -> cdim (reg c) cb = dE ->
  exists v NA, codata_value c "avogadro constant" = Some NA /\ conv_ctx c a b = Ok v
               /\ v == (ka * cmag (reg c) ca) / NA / (kb * cmag (reg c) cb).
Proof. exact per_mole_to_energy. Qed.

Theorem C03_per_mole_roundtrip : forall c a b ka ca kb cb,
  parse (reg c) a = Ok (ka, ca) -> parse (reg c) b = Ok (kb, cb) -> ~ ka == 0 -> ~ kb == 0 ->
  cdim (reg c) ca = dE -> cdim (reg c) cb = dEmol ->
  exists v w, conv_ctx c a b = Ok v /\ conv_ctx c b a = Ok w /\ v * w == 1.
Proof. exact per_mole_roundtrip. Qed.

(* the hypotheses are inhabited by a prefixed source: kcal -> kJ/mol is 4.184 N_A (2014: N_A = 6.022140857e23) *)
Example C03_ex_per_mole :
  cdim (reg C2014) [(("kilo", "calorie"), 1%Z)] = dE
  /\ cdim (reg C2014) [(("kilo", "joule"), 1%Z); (("", "mole"), (-1)%Z)] = dEmol
  /\ codata_value C2014 "avogadro constant" = Some (602214085700000000000000 # 1)
  /\ conv_ctx C2014 (UAtom "kilo" "calorie") (UDiv (UAtom "kilo" "joule") (UAtom "" "mole")) = Ok (Qred ((4184 # 1000) * (602214085700000000000000 # 1))).
Proof. repeat split; vm_compute; reflexivity. Qed.

(** ** Reading text (Model/UnitsText.v).  Wave 4: render/parse round trip for ALL expressions.  [sexpr] (Proofs/UnitsTextRT.v) is
    a unit expression whose numbers are decimal digit strings (non-negative integers; exponents with an optional minus);
    [chars s] is the fully parenthesised text that the harness's render() writes — name, digits, "((a) * (b))", "((a) / (b))",
    "((a) ** (n))" — and [den s] the expression it denotes.  For every s whose atoms are canonical ([swf]: the spelling
    prefix++unit is an identifier and resolves to exactly (prefix, unit)) the reader returns exactly [den s]: tokenizer
    ([lex_chars]) and precedence/parenthesis parser ([parse_toks]) are left inverses of rendering, with the model's own fuel. *)
Theorem C03_text_roundtrip : forall s, swf s -> parse_text (string_of_list_ascii (chars s)) = inr (den s).
Proof. exact text_roundtrip. Qed.

(** ... hence the str entry point on rendered texts is the expression-level conversion all other theorems speak about *)
Theorem C03_text_roundtrip_conv : forall c sa sb, swf sa -> swf sb ->
  conv_text c (string_of_list_ascii (chars sa)) (string_of_list_ascii (chars sb)) = conv_ctx c (den sa) (den sb).
Proof. exact text_roundtrip_conv. Qed.

(** ... and every SI prefix (or none) on every unit name of the registry that is its own spelling (68 names x 25) is canonical *)
Theorem C03_text_canonical_atoms : forall c p b, In p prefix_names -> In b (spellable_units c) -> swf (SAtom p b).
Proof. exact canonical_atoms. Qed.

Example C03_ex_text_roundtrip :
  let s := SDiv (SMul (SNum D2 [D5]) (SAtom "kilo" "calorie")) (SPow (SAtom "" "mole") true D1 []) in
  swf s /\ string_of_list_ascii (chars s) = "((((25) * (kilocalorie))) / (((mole) ** (-1))))"
  /\ den s = UDiv (UMul (UNum 25) (UAtom "kilo" "calorie")) (UPow (UAtom "" "mole") (-1))
  /\ List.length (spellable_units C2014) = 68%nat /\ List.length prefix_names = 25%nat
  /\ In "kilo" prefix_names /\ In "calorie" (spellable_units C2018).
Proof. cbv zeta. repeat split; try (vm_compute; reflexivity); try (vm_compute; tauto); try (intros _; vm_compute; reflexivity). Qed.

(** Pinned instances of what is NOT in the rendered form: symbols, juxtaposition, precedence without parentheses; the general tie
    for those is the text stream of the correspondence (the model reads the same strings as the implementation). *)
Theorem C03_text_reader_examples :
  parse_text "kcal/mol" = inr (UDiv (UAtom "kilo" "calorie") (UAtom "" "mole"))
  /\ parse_text "1/m s" = inr (UMul (UDiv (UNum 1) (UAtom "" "meter")) (UAtom "" "second"))
  /\ parse_text "2 m s**2" = inr (UMul (UMul (UNum 2) (UAtom "" "meter")) (UPow (UAtom "" "second") 2))
  /\ parse_text "cm^-1" = parse_text "((centimeter) ** (-1))"
  /\ parse_text "min" = inr (UAtom "" "minute") /\ parse_text "m in" = inr (UMul (UAtom "" "meter") (UAtom "" "inch"))
  /\ parse_text "mK" = inr (UAtom "milli" "kelvin") /\ parse_text "MK" = inr (UAtom "mega" "kelvin")
  /\ parse_text "Pa" = inr (UAtom "" "pascal") /\ parse_text "pA" = inr (UAtom "pico" "ampere")
  /\ parse_text "Hartree" = inl Undefined
  /\ conv_text C2014 "m s^-1" "Hz" = Err Dimensionality /\ conv_text C2014 "ms^-1" "Hz" = Ok 1000
  /\ conv_text C2014 "10 feet" "meter" = Ok (381 # 125).
Proof. repeat split; vm_compute; reflexivity. Qed.

(** ** Examples: the hypotheses are inhabited *)
Example C03_ex_parse :
  parse (reg C2014) (UDiv (UMul (UNum 3) (UAtom "kilo" "calorie")) (UAtom "" "mole"))
    = Ok (3 * 1, [(("kilo", "calorie"), 1%Z); (("", "mole"), (-1)%Z)])
  /\ edim (reg C2014) (UDiv (UAtom "kilo" "calorie") (UAtom "" "mole")) = edim (reg C2014) (UMul (UAtom "" "hartree") (UAtom "" "avogadro_constant"))
  /\ is_bridge_source (mkdim 1 0 0 0 0 0 0) = false
  /\ rel_sides "inverse meter-electron volt relationship" = Some ("inverse_meter", "electron_volt")
  /\ conv_ctx C2014 (UMul (UNum 10) (UAtom "" "foot")) (UAtom "" "meter") = Ok (381 # 125)
  /\ conv_ctx C2018 (UAtom "" "meter") (UAtom "" "second") = Err Dimensionality
  /\ conv_ctx C2014 (UAtom "mega" "hertz") (UAtom "" "hartree") = Ok (1899787307511 # 12500000000000000).
Proof. repeat split; vm_compute; reflexivity. Qed.

Print Assumptions C03_same_dimension_is_SI_ratio.
Print Assumptions C03_parse_is_algebraic.
Print Assumptions C03_diagonal.
Print Assumptions C03_reciprocal.
Print Assumptions C03_chain.
Print Assumptions C03_linear_in_source_prefactor.
Print Assumptions C03_linear_in_target_prefactor.
Print Assumptions C03_unrelated_dims_error.
Print Assumptions C03_number_only_if_dimension_reached.
Print Assumptions C03_anchored.
Print Assumptions C03_anchored_misc.
Print Assumptions C03_au_units_consistent.
Print Assumptions C03_nist_bridges.
Print Assumptions C03_relationships_reproduced.
Print Assumptions C03_relationships_consistent_with_physics.
Print Assumptions C03_prefixed_bridge_refuted.
Print Assumptions C03_prefixed_bridge_characterised.
Print Assumptions C03_unprefixed_bridge_examples.
Print Assumptions C03_default_route_bridge.
Print Assumptions C03_bridge_constants_are_physics.
Print Assumptions C03_all_named_bridges_covered.
Print Assumptions C03_linear_source_all_paths.
Print Assumptions C03_linear_target_all_paths.
Print Assumptions C03_unprefixed_nist_source_any_target.
Print Assumptions C03_published_roundtrip.
Print Assumptions C03_default_route_roundtrip.
Print Assumptions C03_str_entry_point_is_text_model.
Print Assumptions C03_quantity_argument_is_prefactor.
Print Assumptions C03_cache_transparent.
Print Assumptions C03_cache_transparent_str_history.
Print Assumptions C03_cache_stable_same_dimension.
Print Assumptions C03_cache_poisoned_refuted.
Print Assumptions C03_energy_to_per_mole.
Print Assumptions C03_per_mole_to_energy.
Print Assumptions C03_per_mole_roundtrip.
Print Assumptions C03_text_roundtrip.
Print Assumptions C03_text_roundtrip_conv.
Print Assumptions C03_text_canonical_atoms.
Print Assumptions C03_text_reader_examples.
