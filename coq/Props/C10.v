(** C10 — Every model and array survives every serialisation encoding.
    Property theorems only; proofs are in Proofs/Serial.v, Proofs/SerialInst.v, Proofs/SerialOptions.v (and
    Proofs/Results.v for the reshape rules).
    Models: Model/Serial.v, Model/SerialInst.v; marker keys, rank threshold and choice tables in Gen/SuffixMaps.v are
    regenerated from util/serialization.py, models/basemodels.py, models/molecule.py on every run.
    The json / msgpack wire codecs are trusted libraries (their effect on a plain tree is [normalise]).

    CLAUSE MAP (statement of C10 in properties.jsonl, clause by clause -> theorems below)
    1. "serialising any model instance with any of the 4 encodings and parsing it back yields an equal instance
        (same field values, array shapes restored, same molecule hash)"
           C10_model_roundtrip_enc (all four encodings, any schema of Array / Any / nested model / list fields, any
           depth; numpy's element conversion is a section variable with its specification, evaluated on the real
           numpy by the correspondence), C10_flat_then_reshape_restores (the shape-restoring step)             [full]
           x include / exclude options: C10_include_exclude_roundtrip                                         [full]
           "same molecule hash": the hash is a function of the field values (C11); equal instance => equal hash;
           checked on the implementation by the oracle only.
    2. "serialising that again gives the identical payload"
           C10_reserialisation_identical (ser (normalise m) = ser m), C10_reserialise_parsed_instance (directly
           on what parse returned)                                                                            [full]
    3. "-ext encodings: a raw array of any dtype, byte order, shape of rank >= 1 (empty, non-contiguous) nested
        anywhere comes back with the same dtype, shape and bytes"
           C10_ext_array_roundtrip, C10_ext_tree_roundtrip (any depth), C10_codecs_ok (both codecs, hex/fromhex),
           C10_rank0_decays; hypothesis no `_nd_` user key: C10_nd_key_hypothesis_needed (refuted without it)  [full
           for arrays given as (dtype.str, shape, C-order bytes): byte order is part of dtype.str; a non-contiguous
           array enters the model through numpy's ascontiguousarray().tobytes(), which is trusted and exercised by
           the correspondence over {C, F, strided, reversed, byte-swapped}]
    4. "the automatic encoding choice and the file-suffix choice pick a decoder that reads what the writer wrote"
           C10_auto_choice_consistent (finite, over the generated tables: parse_raw auto, parse_file suffixes,
           Molecule.to_file/from_file suffixes and dtypes, file modes, cross to_file -> parse_file)            [full] *)
From Coq Require Import ZArith List String Bool.
Require Import QV.Common.Outcome QV.Gen.SuffixMaps QV.Model.Results QV.Model.Serial QV.Model.SerialInst QV.Proofs.Results
  QV.Proofs.Serial QV.Proofs.SerialInst QV.Proofs.SerialOptions.
Import ListNotations.
Local Open Scope string_scope.
Local Open Scope list_scope.
Local Open Scope Z_scope.

(** Both extension codecs (msgpack-ext with bytes keys and raw bytes; json-ext with str keys and hex
    text) satisfy what the round-trip proofs need: distinct marker keys, `shape` written iff rank > 1,
    and the data field decodes to the bytes that were encoded (for json-ext: fromhex (hex b) = b for
    every byte string b). *)
Theorem C10_codecs_ok : codec_ok mp_codec /\ codec_ok js_codec /\ forall b, unhex (hex b) = Some b.
Proof. split; [exact mp_codec_ok|]. split; [exact js_codec_ok|exact unhex_hex]. Qed.

(** A raw array of ANY rank >= 1 and ANY extents (zero extents included) whose bytes are exactly
    itemsize * prod(shape) comes back with the same dtype string, shape and bytes. *)
Theorem C10_ext_array_roundtrip : forall c sc a,
  codec_ok c -> wf_arrb a = true -> dec_tree c (normalise (enc_arr c sc a)) = Ok (VArr a).
Proof. intros c sc a OK. apply ext_array_roundtrip. exact OK. Qed.

(** ... nested anywhere in a container tree of ANY depth: deserialize (serialize v) = normalise v
    (tuples come back as lists, everything else — arrays included — is unchanged), PROVIDED no dict of
    the payload carries the marker key `_nd_` itself (hypothesis forced by the proof; see the next theorem). *)
Theorem C10_ext_tree_roundtrip : forall c sc v,
  codec_ok c -> payload_ok c v = true -> roundtrip c sc v = Ok (normalise v).
Proof. intros c sc v OK. apply ext_tree_roundtrip. exact OK. Qed.

(** The hypothesis cannot be dropped: a user dict with the key "_nd_" does not survive json-ext. *)
Theorem C10_nd_key_hypothesis_needed :
  exists v, roundtrip js_codec no_scalar v <> Ok (normalise v).
Proof. exists (VDict [(KStr "_nd_", VInt 1); (KStr "x", VInt 2)]). vm_compute. discriminate. Qed.

(** Rank-0 arrays are not written as `_nd_` dictionaries: they decay to the scalar `obj.tolist()`. *)
Theorem C10_rank0_decays : forall c sc a, shape a = [] -> enc_tree c sc (VArr a) = sc a.
Proof. intros c sc a H. simpl. unfold enc_arr. rewrite H. reflexivity. Qed.

(** Flat encodings (json, msgpack) write `ravel().tolist()`; the field validators restore the shape:
    reshaping the flat data to any shape of the right size gives back exactly the shaped array, and
    `reshape(-1, 3)` (geometry) restores n x 3. *)
Theorem C10_flat_then_reshape_restores :
  (forall d dims, Forall (fun x => 0 <= x) dims -> prodz dims = zlen d ->
     reshape {| dat := d; shp := [zlen d] |} dims = Ok {| dat := d; shp := dims |})
  /\ (forall d n, 0 <= n -> zlen d = 3 * n ->
     reshape {| dat := d; shp := [zlen d] |} [-1; 3] = Ok {| dat := d; shp := [n; 3] |}).
Proof.
  split.
  - intros d dims Hd Hp. rewrite reshape_known by exact Hd. simpl. rewrite Hp, Z.eqb_refl. reflexivity.
  - intros d n Hn Hl. rewrite reshape_any_first by reflexivity. simpl. rewrite Hl.
    replace (3 * n) with (n * 3) by apply Z.mul_comm. rewrite Z.mod_mul by discriminate. simpl.
    rewrite Z.div_mul by discriminate. reflexivity.
Qed.

(** Model instances (the dict() tree of a Molecule, AtomicResult, OptimizationResult, ...) through ALL FOUR encodings.
    [schema] gives, per field, what the validators do with what comes off the wire (Array fields: cast to
    the dtype + the reshape rule of C20; Any fields keep what they get; nested models / lists recurse);
    [conforms] says the instance is a valid one (arrays of the field's dtype, well formed, already in
    the validated shape; under a flat encoding: no array inside Any-typed fields, and an Array field
    without reshape validator is 1-d).  numpy's element conversion is a section variable with its
    specification [EL1-EL3] (np.asarray(a.ravel().tolist(), a.dtype) has the bytes of a).  Then
    parse (serialize m) = m up to tuple -> list, for json and msgpack (flat) and for json-ext and
    msgpack-ext (any codec satisfying codec_ok whose marker key is "_nd_"). *)
Theorem C10_model_roundtrip_enc : forall elems of_elems sc,
  (forall a, wf_arrb a = true -> of_elems (dt a) (elems a) = data a) ->
  (forall a, wf_arrb a = true -> zlen (elems a) = prodz (shape a)) ->
  (forall a, Forall (fun x => is_leaf x = true) (elems a)) ->
  (forall m s, conforms true s m = true -> parse_flat of_elems s (ser_flat elems sc m) = Ok (normalise m))
  /\ (forall c, codec_ok c -> (k_nd c = KStr "_nd_" \/ k_nd c = KBytes "_nd_") ->
       forall m s, conforms false s m = true -> parse_ext of_elems c s (ser_ext sc c m) = Ok (normalise m)).
Proof.
  intros elems of_elems sc E1 E2 E3. split.
  - apply flat_model_roundtrip; assumption.
  - intros c OK Hk. apply ext_model_roundtrip; assumption.
Qed.

(** Serialising the parsed instance again gives the identical payload: the parsed instance is
    [normalise m] (previous theorem) and serialisation does not see the difference. *)
Theorem C10_reserialisation_identical : forall elems sc,
  (forall m, ser_flat elems sc (normalise m) = ser_flat elems sc m)
  /\ (forall c m, ser_ext sc c (normalise m) = ser_ext sc c m).
Proof. intros elems sc. split; [apply reser_flat|intros c m; apply reser_ext]. Qed.

(** ... stated directly on what parse returned: if the serialised valid instance parses to m', then serialising m'
    gives the payload of m, in all four encodings. *)
Theorem C10_reserialise_parsed_instance : forall elems of_elems sc,
  (forall a, wf_arrb a = true -> of_elems (dt a) (elems a) = data a) ->
  (forall a, wf_arrb a = true -> zlen (elems a) = prodz (shape a)) ->
  (forall a, Forall (fun x => is_leaf x = true) (elems a)) ->
  (forall m s m', conforms true s m = true -> parse_flat of_elems s (ser_flat elems sc m) = Ok m' ->
     ser_flat elems sc m' = ser_flat elems sc m)
  /\ (forall c m s m', codec_ok c -> (k_nd c = KStr "_nd_" \/ k_nd c = KBytes "_nd_") ->
       conforms false s m = true -> parse_ext of_elems c s (ser_ext sc c m) = Ok m' ->
       ser_ext sc c m' = ser_ext sc c m).
Proof.
  intros elems of_elems sc E1 E2 E3. split.
  - intros m s m'. apply (reser_after_parse_flat elems of_elems sc E1 E2 E3).
  - intros c m s m'. apply (reser_after_parse_ext of_elems sc).
Qed.

(** The include / exclude options (Model.serialize(enc, include=..., exclude=...) = serialize of the dict() tree
    restricted to a set of top-level keys, ANY restriction [keep]): restricting commutes with serialisation (the
    other fields of the payload are untouched), and the restricted payload parses back to the restricted instance,
    in all four encodings. (Fields that the model requires are not part of [schema]: excluding one makes the real
    parse fail with a validation error; that case is outside this statement and outside the oracle.) *)
Theorem C10_include_exclude_roundtrip : forall elems of_elems sc,
  (forall a, wf_arrb a = true -> of_elems (dt a) (elems a) = data a) ->
  (forall a, wf_arrb a = true -> zlen (elems a) = prodz (shape a)) ->
  (forall a, Forall (fun x => is_leaf x = true) (elems a)) ->
  (forall keep d, ser_flat elems sc (restrict keep (VDict d)) = restrict keep (ser_flat elems sc (VDict d)))
  /\ (forall c keep d, ser_ext sc c (restrict keep (VDict d)) = restrict keep (ser_ext sc c (VDict d)))
  /\ (forall keep d s, conforms true s (VDict d) = true ->
       parse_flat of_elems s (restrict keep (ser_flat elems sc (VDict d))) = Ok (normalise (restrict keep (VDict d))))
  /\ (forall keep d s c, codec_ok c -> (k_nd c = KStr "_nd_" \/ k_nd c = KBytes "_nd_") -> conforms false s (VDict d) = true ->
       parse_ext of_elems c s (restrict keep (ser_ext sc c (VDict d))) = Ok (normalise (restrict keep (VDict d)))).
Proof.
  intros elems of_elems sc E1 E2 E3.
  split; [intros; apply restrict_ser_flat|]. split; [intros; apply restrict_ser_ext|]. split.
  - intros keep d s. apply (proj1 (restricted_roundtrip elems of_elems sc E1 E2 E3 keep d s)).
  - intros keep d s c. apply (proj2 (restricted_roundtrip elems of_elems sc E1 E2 E3 keep d s) c).
Qed.

(** Automatic choices (finite, over the generated tables): for str / bytes input parse_raw picks an
    encoding whose writer produces that type and whose reader reads that writer; every parse_file suffix
    and every Molecule.to_file/from_file suffix pairs a writer with a reader of the same wire family that
    installs the array hook when the writer emits `_nd_` dictionaries, opened in the matching file mode;
    a file written by Molecule.to_file is read by parse_file of
    the same suffix; the four encoding names have matching writer/reader pairs. *)
Theorem C10_auto_choice_consistent :
  forallb parse_raw_auto_ok [TStr; TBytes] = true
  /\ forallb parse_file_ok (map fst parse_file_suffix) = true
  /\ forallb molecule_file_ok (map fst molecule_extension_map) = true
  /\ forallb cross_file_ok (map fst molecule_extension_map) = true
  /\ forallb encoding_ok ["json"; "json-ext"; "msgpack"; "msgpack-ext"] = true
  /\ list_eqb String.eqb (map fst serialize_table) (map fst deserialize_table) = true.
Proof.
  split; [exact parse_raw_auto_consistent|]. split; [exact parse_file_consistent|].
  split; [exact molecule_file_consistent|]. split; [exact cross_file_consistent|exact encodings_consistent].
Qed.

(** Non-vacuity: a big-endian float64 array of shape (2,0,3) inside a dict inside a list, next to a
    Fortran-irrelevant 2x2 int32 array, a tuple and a string that happens to spell "_nd_" (as a VALUE). *)
Definition ex_payload : value :=
  VList [VDict [(KStr "g", VArr {| dt := ">f8"; shape := [2; 0; 3]; data := "" |});
                (KStr "m", VArr {| dt := "<i4"; shape := [2; 2]; data := "0123456789abcdef" |});
                (KStr "t", VTuple [VInt 1; VStr "_nd_"; VNone])];
         VArr {| dt := "<U1"; shape := [2]; data := "abcdefgh" |}].
Example C10_ex_payload_ok : payload_ok mp_codec ex_payload = true /\ payload_ok js_codec ex_payload = true.
Proof. split; vm_compute; reflexivity. Qed.
Example C10_ex_roundtrip :
  roundtrip js_codec no_scalar ex_payload = Ok (normalise ex_payload)
  /\ roundtrip mp_codec no_scalar ex_payload = Ok (normalise ex_payload)
  /\ normalise ex_payload <> ex_payload.
Proof. split; [vm_compute; reflexivity|]. split; [vm_compute; reflexivity|]. vm_compute. discriminate. Qed.
Example C10_ex_wire :
  wire js_codec no_scalar (VArr {| dt := "<i2"; shape := [1; 2]; data := "AB01" |})
  = VDict [(KStr "_nd_", VBool true); (KStr "dtype", VStr "<i2"); (KStr "data", VStr "41423031");
           (KStr "shape", VList [VInt 1; VInt 2])].
Proof. vm_compute. reflexivity. Qed.

(** Non-vacuity: a two-atom molecule-like instance (geometry 2x3 float64 under the rule reshape(-1,3), an int16
    vector without reshape rule, a nested Any-typed dict holding a tuple) conforms under both families. *)
Definition ex_schema : schema :=
  SModel [("symbols", SAny); ("geometry", SArr "<f8" (Some [-1; 3])); ("atomic_numbers", SArr "<i2" None); ("extras", SAny)].
Definition ex_instance : value :=
  VDict [(KStr "symbols", VList [VStr "He"; VStr "He"]);
         (KStr "geometry", VArr {| dt := "<f8"; shape := [2; 3]; data := "000000001111111122222222333333334444444455555555" |});
         (KStr "atomic_numbers", VArr {| dt := "<i2"; shape := [2]; data := "2020" |});
         (KStr "extras", VDict [(KStr "t", VTuple [VInt 1; VInt 2])])].
Example C10_ex_instance_conforms : conforms true ex_schema ex_instance = true /\ conforms false ex_schema ex_instance = true.
Proof. split; vm_compute; reflexivity. Qed.

Example C10_ex_exclude :
  restrict (excluding ["extras"; "geometry"]) ex_instance
  = VDict [(KStr "symbols", VList [VStr "He"; VStr "He"]);
           (KStr "atomic_numbers", VArr {| dt := "<i2"; shape := [2]; data := "2020" |})]
  /\ restrict (including ["symbols"]) ex_instance = VDict [(KStr "symbols", VList [VStr "He"; VStr "He"])].
Proof. split; vm_compute; reflexivity. Qed.

Print Assumptions C10_codecs_ok.
Print Assumptions C10_ext_array_roundtrip.
Print Assumptions C10_ext_tree_roundtrip.
Print Assumptions C10_nd_key_hypothesis_needed.
Print Assumptions C10_rank0_decays.
Print Assumptions C10_flat_then_reshape_restores.
Print Assumptions C10_model_roundtrip_enc.
Print Assumptions C10_reserialisation_identical.
Print Assumptions C10_reserialise_parsed_instance.
Print Assumptions C10_include_exclude_roundtrip.
Print Assumptions C10_auto_choice_consistent.
