(** C07 — Molecule text reads back as written; parsing is layout-insensitive and total.
    Property theorems only; each is closed by [exact] of a lemma from Proofs/Text*.v.
    Models: Model/Text.v ([parse] = from_string for xyz / xyz+ / psi4 up to the dictionary handed to
    from_input_arrays, [parse_auto] = from_string with dtype=None; recognisers tied to [re] differentially on every
    run) and Model/Writers.v + Gen/WriterTables.v ([to_string_model] = to_string, tied byte-exactly, see C08).

    CLAUSE MAP (statement of C07 in properties.jsonl -> theorems; "oracle" = checked on the implementation only):
    - write, then parse, returns the same molecule in every field the format carries:
        psi4 (elements, ghosts, labels, printed coordinates, total + fragment chg/mult, fragment boundaries,
        fix_com / fix_orientation, unit) ........... C07_roundtrip_psi4 (characters, all molecules), through the default
        entry point (dtype=None) C07_roundtrip_psi4_auto; building blocks C07_psi4_reader_on_fragment_blocks,
        C07_number_reads_back, C07_atom_line_reads_back
        xyz+ (elements, ghosts, coordinates, total chg/mult, unit) ... C07_roundtrip_xyzplus, C07_xyzplus_reader_on_lines
        xyz  (elements, coordinates; Angstrom) ....................... C07_roundtrip_xyz, C07_xyz_reader_on_lines
        "coordinates to the printed precision in the requested unit" .. [dn] in the above + C08_printed_digits_nearest,
        C08_converted_value_nearest, C08_factor_table
        non-default atom_format / ghost_format for xyz / xyz+ ......... only correspondence (the writer docstring says they
        need not be re-readable)
    - Molecule -> string / file -> Molecule with unchanged hash ...... oracle (hash-string / hash-file streams);
        validation after parsing is the subject of C04 / C05 / C06, the hash of C11
    - dtype=None on an xyz+ text without ghost / unit word ........... C07_autodetect_xyzplus_refuted (known finding
        C07-autodetect-xyzplus-shadowed: read as strict xyz, charge and multiplicity lost)
    - layout: comments ................. C07_layout_comment, C07_layout_comment_line (filter_comments, hence all dtypes),
                                         C07_layout_insensitive (psi4 texts)
              blank lines .............. C07_layout_blank_lines_psi4, C07_layout_blank_lines_xyz (xyz / xyz+, after the
                                         two header lines, whose position is significant)
              surrounding whitespace ... C07_layout_outer_whitespace (all dtypes), C07_layout_line_padding_psi4 / _xyz,
                                         texts <-> lines: C07_psi4_text_of_lines, C07_xyz_text_of_lines
              tab / comma separators ... C07_layout_separators (atom and chg/mult lines, all readers)
              case of keywords ......... C07_layout_keyword_case
              case of symbols .......... C07_layout_symbol_case (recognised alike; that "he" and "He" then denote the same
                                         element is C06's reconciliation; end to end: oracle, layout:case stream)
              equivalent numerals ...... C07_numeral_plus, C07_numeral_leading_zero, C07_numeral_exponent_letter (same
                                         decimal); trailing zeros / shifted exponent give another decimal of the same
                                         value: oracle (layout:numeral stream) + float(str) correspondence
    - totality under xyz / xyz+ / psi4 ........ C07_total, C07_total_short; with dtype=None C07_total_auto,
        C07_total_auto_short; the unrestricted claim is false: C07_total_refuted (known finding C07-int-digit-limit).
        The classes raised after parsing (ValidationError, NotAnElementError, and the known OverflowError) come from
        from_input_arrays: oracle (totality stream) here, models in C04-C06.
    - tie of the reader model to the source: C07_recognisers_use_the_source_tables (keyword / unit-word / separator /
        exponent-letter tables = Gen/TextTables.v, regenerated from the regular expressions on every run); everything
        else of the recognisers and the line filters by differential execution against re / from_string. *)
From Coq Require Import ZArith NArith List String Ascii Bool Lia.
Require Import QV.Common.Outcome QV.Common.WText QV.Common.WBin64 QV.Model.WriterTypes QV.Gen.WriterTables QV.Model.Writers
               QV.Model.Text QV.Proofs.Writers QV.Proofs.Text QV.Proofs.TextRT QV.Proofs.TextLex QV.Proofs.TextLayout
               QV.Proofs.TextRoundTrip QV.Proofs.TextLayoutRel QV.Proofs.TextRoundTripXyz QV.Proofs.TextAuto
               QV.Gen.TextTables QV.Proofs.TextTables.
Import ListNotations.

(* ------------------------------------------------------------------------------------------ *)
(** * round trip *)

(** psi4, on characters, for EVERY molecule the format can carry (any number of atoms, ghosts anywhere, user
    labels, any number of fragments, any charges / multiplicities, frame flags), either unit, any width and
    precision: parsing the text that the writer produces returns exactly the written data — labels with the
    ghost spelling, each coordinate as the printed decimal (sign, the integer nearest to |x*factor|*10^prec,
    exponent -prec), total and per-fragment charge and multiplicity, fragment boundaries, fix_com /
    fix_orientation, and the unit the text announces.  [psi4_fits]: each label passes [label_ok]
    (NUCLEUS-conformant, no white space / "#", not starting like a keyword), at least one atom, integer
    fields within int()'s 4300 digits. *)
Theorem C07_roundtrip_psi4 : forall cfg m text kw w r,
  s_lower (w_dtype cfg) = "psi4"%string -> to_string_model cfg m = Ok (text, kw) ->
  unit_word (units_of e_psi4 cfg) = Some (w, r) -> psi4_fits cfg m ->
  exists atoms,
    atoms_formatter (af_of e_psi4 cfg) (gf_of e_psi4 cfg) (factor_of e_psi4 cfg m) (m_atoms m) = Ok atoms
    /\ parse "psi4" text = Ok (carried_psi4 cfg m atoms r).
Proof. exact roundtrip_psi4. Qed.

(** ... and through the default entry point (dtype=None, what Molecule.from_data uses): the text is detected as psi4 *)
Theorem C07_roundtrip_psi4_auto : forall cfg m text kw w r,
  s_lower (w_dtype cfg) = "psi4"%string -> to_string_model cfg m = Ok (text, kw) ->
  unit_word (units_of e_psi4 cfg) = Some (w, r) -> psi4_fits cfg m ->
  exists atoms,
    atoms_formatter (af_of e_psi4 cfg) (gf_of e_psi4 cfg) (factor_of e_psi4 cfg m) (m_atoms m) = Ok atoms
    /\ parse_auto text = Ok ("psi4"%string, carried_psi4 cfg m atoms r).
Proof. exact roundtrip_psi4_auto. Qed.

(** the psi4 reader on ANY lines that the recognisers read as: total chg/mult, then per fragment "--",
    chg/mult, atom lines, then units / no_com / no_reorient — any number of fragments and atoms *)
Theorem C07_psi4_reader_on_fragment_blocks : forall l0 dashes lss lt c m frags u com orient,
  lex_as l0 (KCgmp c m) ->
  List.length dashes = List.length frags ->
  Forall (fun l => lex_as l KDash) dashes ->
  Forall2 (fun ls f => Forall2 lex_as ls (block_kinds f)) lss frags ->
  Forall2 lex_as lt (tail_kinds u com orient) ->
  parse_psi4_lines ((l0 :: weave dashes lss) ++ lt) = Ok (result_multi c m frags u com orient).
Proof. exact psi4_lines_multi. Qed.

(** NUMBER reads "{:.Nf}" back: sign, the printed integer, exponent -N — for every binary64 value and N *)
Theorem C07_number_reads_back : forall p v, (0 <= bm v)%Z -> parse_number (fmt_f p v) = Some (dn p v).
Proof. exact parse_number_fmt. Qed.

(** a written atom line is read as exactly one atom line (and as nothing else), for every width/precision *)
Theorem C07_atom_line_reads_back : forall w p v,
  label_ok (av_label v) -> (0 <= bm (av_x v))%Z -> (0 <= bm (av_y v))%Z -> (0 <= bm (av_z v))%Z ->
  lex_as (render_atom w p false false v) (KAtom (av_label v, dn p (av_x v), dn p (av_y v), dn p (av_z v))).
Proof. exact lex_atom_line. Qed.

(** xyz+ (default atom / ghost formats), on characters, for EVERY molecule the format can carry (any number of
    atoms, "@" ghosts, any total charge / multiplicity), either unit, any width and precision: parsing the text the
    writer produces returns the written labels, printed coordinates, total charge and multiplicity and the unit the
    count line announces.  [xyzp_fits]: labels pass [label_ok], multiplicity within int()'s digits; [name_ok]: the
    title is a non-empty word without newline / "#" that does not end in a blank. *)
Theorem C07_roundtrip_xyzplus : forall cfg m text kw w r,
  s_lower (w_dtype cfg) = "xyz+"%string -> w_afmt cfg = None -> w_gfmt cfg = None ->
  to_string_model cfg m = Ok (text, kw) -> unit_word_xyz (units_of e_xyzp cfg) = Some (w, r) ->
  xyzp_fits cfg m -> name_ok (mol_name m) ->
  exists atoms,
    atoms_formatter "{elem}" "@{elem}" (factor_of e_xyzp cfg m) (m_atoms m) = Ok atoms
    /\ parse "xyz+" text = Ok (result_xyz r (Some (dz (m_chg m), m_mult m)) (map (atomd_of (w_prec cfg)) atoms)).
Proof. exact roundtrip_xyzplus. Qed.

(** strict xyz, on characters, for every molecule it can carry (real atoms under plain symbols, written in
    Angstrom): elements and printed coordinates come back; the title line (charge, multiplicity, name) is ignored
    by the strict reader, as documented. *)
Theorem C07_roundtrip_xyz : forall cfg m text kw,
  s_lower (w_dtype cfg) = "xyz"%string -> w_afmt cfg = None -> w_gfmt cfg = None ->
  to_string_model cfg m = Ok (text, kw) -> unit_word_xyz (units_of e_xyz cfg) = Some ("", "Angstrom")%string ->
  xyz_fits cfg m ->
  exists atoms,
    atoms_formatter "{elem}" "@{elem}" (factor_of e_xyz cfg m) (m_atoms m) = Ok atoms
    /\ parse "xyz" text = Ok (result_xyz "Angstrom" None (map (atomd_of (w_prec cfg)) atoms)).
Proof. exact roundtrip_xyz. Qed.

(** the xyz+ and strict xyz line filters on ANY lines the recognisers accept, any number of atom lines *)
Theorem C07_xyzplus_reader_on_lines : forall l0 l1 ls uo q ms mu atoms,
  xyz1_match l0 = Some uo -> xyz2_match l1 = Some (q, ms) -> py_int ms = Ok mu ->
  Forall2 (fun l at_ => atom_match is_nucleus l = Some at_) ls atoms ->
  parse_xyz_lines false (l0 :: l1 :: ls)
  = Ok (result_xyz (match uo with Some u => u | None => "Angstrom"%string end) (Some (q, mu)) atoms).
Proof. exact xyzplus_lines. Qed.
Theorem C07_xyz_reader_on_lines : forall l0 l1 ls atoms,
  all_digits l0 = true ->
  Forall2 (fun l at_ => atom_match is_simple_nucleus l = Some at_) ls atoms ->
  parse_xyz_lines true (l0 :: l1 :: ls) = Ok (result_xyz "Angstrom" None atoms).
Proof. exact xyz_lines. Qed.

(* ------------------------------------------------------------------------------------------ *)
(** * totality *)

(** On any text at all, under each of the three dtypes: a dictionary, MoleculeFormatError, "outside the model"
    (a pubchem / efp line), or ValueError ... *)
Theorem C07_total : forall d text, cartesian_dtype d -> documented_or_valueerror (parse d text).
Proof. exact parse_total. Qed.
(** ... and the ValueError needs an integer field of more than 4300 digits *)
Theorem C07_total_short : forall d text,
  cartesian_dtype d -> (String.length text <= int_max_str_digits)%nat -> documented (parse d text).
Proof. exact parse_total_short. Qed.
(** the unrestricted statement is false (known finding C07-int-digit-limit) *)
Theorem C07_total_refuted :
  exists text, parse "psi4" text = Err PyValueError.
Proof. exists ("0 " ++ s_repeat (ch 49) 4301 ++ String nl "He 0 0 0")%string. vm_compute. reflexivity. Qed.

(** the same through format auto-detection (dtype=None): a dictionary under one of the three dtypes, or "all three
    readers refuse / pubchem / efp" (where the implementation goes on to the psi4+ dialect, outside the model), or
    the ValueError of the digit limit *)
Theorem C07_total_auto : forall text, auto_documented (parse_auto text) \/ parse_auto text = Err PyValueError.
Proof. exact parse_auto_total. Qed.
Theorem C07_total_auto_short : forall text,
  (String.length text <= int_max_str_digits)%nat -> auto_documented (parse_auto text).
Proof. exact parse_auto_total_short. Qed.

(** auto-detection tries strict xyz before xyz+: He+ doublet written as xyz+ is detected as strict xyz and loses
    its charge and multiplicity (known finding C07-autodetect-xyzplus-shadowed; replayed by the hash stream) *)
Definition shadow_mol : molrec :=
  {| m_units := "Angstrom"; m_iutau := None;
     m_atoms := [{| a_elea := 4; a_elez := 2; a_elem := "He"; a_mass := "4.0"; a_elbl := ""; a_real := true;
                    a_x := B64 false 0 0; a_y := B64 false 0 0; a_z := B64 false 0 0 |}];
     m_name := None; m_seps := []; m_chg := 1; m_mult := 2; m_fchg := [1%Z]; m_fmult := [2%Z];
     m_fix_com := false; m_fix_orient := false; m_fix_symm := None; m_conn := [] |}.
Definition shadow_cfg : wcfg :=
  {| w_dtype := "xyz+"; w_units := None; w_afmt := None; w_gfmt := None; w_width := 17; w_prec := 12; w_conv := b64_one |}.
Theorem C07_autodetect_xyzplus_refuted :
  match to_string_model shadow_cfg shadow_mol with
  | Ok (text, _) =>
      (exists p, parse "xyz+" text = Ok p /\ p_molchg p = Some (dz 1) /\ p_molmult p = Some 2%Z)
      /\ (exists p', parse_auto text = Ok ("xyz"%string, p') /\ p_molchg p' = None /\ p_molmult p' = None)
  | Err _ => False
  end.
Proof. vm_compute. split; eexists; repeat split; reflexivity. Qed.

(* ------------------------------------------------------------------------------------------ *)
(** * layout insensitivity *)
Theorem C07_layout_outer_whitespace : forall d w1 t w2,
  s_all c_is_space w1 = true -> s_all c_is_space w2 = true -> parse d (w1 ++ t ++ w2)%string = parse d t.
Proof. exact layout_outer_whitespace. Qed.

(** a comment "#..." directly after any character other than a backslash (a blank is not needed), or at the
    very start of the text, in front of a line end or at the end of the text ([comment_may_follow a]: the last
    character of a is neither "\\" nor a newline, or a is empty) *)
Theorem C07_layout_comment : forall a c b,
  comment_may_follow a -> last_is is_nlc a = false -> s_any is_nlc c = false -> ends_here b ->
  filter_comments (a ++ String c_hash (c ++ b))%string = filter_comments (a ++ b)%string.
Proof. exact comment_insertion. Qed.
(** a whole comment line *)
Theorem C07_layout_comment_line : forall a c b,
  s_any is_nlc c = false -> ends_here b ->
  filter_comments (a ++ String nl (String c_hash (c ++ b)))%string = filter_comments (a ++ b)%string.
Proof. exact comment_line_insertion. Qed.

Theorem C07_layout_separators : forall nuc ts l l',
  Forall field_ok ts -> sep_line ts l -> sep_line ts l' ->
  atom_match nuc l = atom_match nuc l' /\ cgmp_match l = cgmp_match l'.
Proof. exact layout_separators. Qed.

Theorem C07_layout_keyword_case : forall l l',
  s_lower l = s_lower l' ->
  is_com l = is_com l' /\ is_orient l = is_orient l' /\ units_match l = units_match l' /\ symmetry_match l = symmetry_match l'.
Proof. exact layout_keyword_case. Qed.

(** a comment-free text whose first and last characters are not blank is parsed from its lines, so that the
    two line-level statements below are statements about texts *)
Theorem C07_psi4_text_of_lines : forall L,
  L <> [] -> Forall plain_line L ->
  first_is c_is_space (jn L) = false -> last_is c_is_space (jn L) = false -> is_empty (jn L) = false ->
  parse "psi4" (jn L) = psi4_of_lines L.
Proof. exact psi4_text_of_lines. Qed.
Theorem C07_layout_blank_lines_psi4 : forall L1 w L2,
  s_all c_is_space w = true -> psi4_of_lines (L1 ++ w :: L2) = psi4_of_lines (L1 ++ L2).
Proof. exact layout_blank_lines_psi4. Qed.
Theorem C07_layout_line_padding_psi4 : forall L L',
  Forall2 (fun l l' => exists w1 w2, s_all c_is_space w1 = true /\ s_all c_is_space w2 = true /\ l' = (w1 ++ l ++ w2)%string) L L' ->
  psi4_of_lines L' = psi4_of_lines L.
Proof. exact layout_line_padding_psi4. Qed.

(** xyz / xyz+: the same three statements; blank lines may go anywhere after the two header lines (the count line
    and the title line are recognised by position) *)
Theorem C07_xyz_text_of_lines : forall (strict : bool) L,
  L <> [] -> Forall plain_line L ->
  first_is c_is_space (jn L) = false -> last_is c_is_space (jn L) = false -> is_empty (jn L) = false ->
  parse (if strict then "xyz"%string else "xyz+"%string) (jn L) = xyz_of_lines strict L.
Proof. exact xyz_text_of_lines. Qed.
Theorem C07_layout_blank_lines_xyz : forall strict l0 l1 L1 w L2,
  s_all c_is_space w = true ->
  xyz_of_lines strict (l0 :: l1 :: L1 ++ w :: L2) = xyz_of_lines strict (l0 :: l1 :: L1 ++ L2).
Proof. exact layout_blank_lines_xyz. Qed.
Theorem C07_layout_line_padding_xyz : forall strict L L',
  Forall2 (fun l l' => exists w1 w2, s_all c_is_space w1 = true /\ s_all c_is_space w2 = true /\ l' = (w1 ++ l ++ w2)%string) L L' ->
  xyz_of_lines strict L' = xyz_of_lines strict L.
Proof. exact layout_line_padding_xyz. Qed.

(** letter case of nucleus labels (element symbol, "Gh(..)" wrapper, user label): labels that differ only in case
    are recognised alike by NUCLEUS and SIMPLENUCLEUS, so the same lines are atom lines *)
Theorem C07_layout_symbol_case : forall n n',
  s_lower n = s_lower n' -> is_nucleus n = is_nucleus n' /\ is_simple_nucleus n = is_simple_nucleus n'.
Proof. exact layout_symbol_case. Qed.

(** Layout insensitivity as one relation (psi4): [layout_equiv] is the equivalence generated by the rewrites
    white space around the text, a comment appended to a line (directly after a token or after blanks), a whole
    comment line, a blank line inside a tidy text, blanks/tabs around the lines of a tidy text ([tidy]: comment-free,
    first and last character not blank); related texts parse alike.  (Separators, keyword case and numerals are
    the recogniser-level theorems above.) *)
Theorem C07_layout_insensitive : forall t t', layout_equiv t t' -> parse "psi4" t = parse "psi4" t'.
Proof. exact layout_insensitive. Qed.

(** the keyword alternatives (no_com | nocom, no_reorient | noreorient), the unit words of the "units" line and of the
    xyz+ count line, the separator class and the exponent letters inside the hand-written recognisers ARE the tables
    that the translator extracts from the module's regular expressions on every run (Gen/TextTables.v), for all lines
    and characters; an edited alternative breaks this theorem (a reordered one does not) *)
Theorem C07_recognisers_use_the_source_tables :
  (forall l, is_com l = in_words gen_com_words (s_lower l))
  /\ (forall l, is_orient l = in_words gen_orient_words (s_lower l))
  /\ (forall l, units_match l = units_match_gen l)
  /\ (forall l, xyz1_match l = xyz1_match_gen l)
  /\ (forall c, is_sepc c = in_codes gen_sep_codes c)
  /\ (forall c, is_expc c = in_codes gen_expc_codes c).
Proof. exact recognisers_use_the_source_tables. Qed.

(** equivalent numerals: explicit "+", leading zero, any exponent letter *)
Theorem C07_numeral_plus : forall s c r, s = String c r -> c_eqb c c_minus = false -> c_eqb c c_plus = false ->
  parse_number (String c_plus s) = parse_number s.
Proof. exact numeral_plus. Qed.
Theorem C07_numeral_leading_zero : forall A B,
  s_all c_is_digit A = true -> is_empty A = false -> s_all c_is_digit B = true ->
  parse_number (String zero_ch A ++ String c_dot B)%string = parse_number (A ++ String c_dot B)%string.
Proof. exact numeral_leading_zero. Qed.
Theorem C07_numeral_exponent_letter : forall A B x y ds,
  s_all c_is_digit A = true -> is_empty A = false -> s_all c_is_digit B = true ->
  is_expc x = true -> is_expc y = true -> s_all c_is_digit ds = true -> is_empty ds = false ->
  parse_number (A ++ String c_dot (B ++ String x ds))%string = parse_number (A ++ String c_dot (B ++ String y ds))%string.
Proof. exact numeral_exponent_letter. Qed.

(* ------------------------------------------------------------------------------------------ *)
(** Non-vacuity: O / ghost H_a / H in two fragments, anion, stored in Angstrom with pinned input_units_to_au,
    written for psi4 in Bohr: the hypotheses of C07_roundtrip_psi4 hold and the parse is the carried record. *)
Open Scope string_scope.
Open Scope Z_scope.
Definition ex_atom (z : Z) (el lb : string) (real : bool) (x y zc : b64) : atom :=
  {| a_elea := 1; a_elez := z; a_elem := el; a_mass := "1.0"; a_elbl := lb; a_real := real; a_x := x; a_y := y; a_z := zc |}.
Definition ex_mol : molrec :=
  {| m_units := "Angstrom"; m_iutau := Some (B64 false 15 (-3));
     m_atoms := [ex_atom 8 "O" "" true (B64 false 0 0) (B64 false 0 0) (B64 false 0 0);
                 ex_atom 1 "H" "_a" false (B64 false 0 0) (B64 false 0 0) (B64 false 3 (-1));
                 ex_atom 1 "H" "" true (B64 false 0 0) (B64 true 1 (-2)) (B64 true 0 0)];
     m_name := None; m_seps := [1%nat]; m_chg := -1; m_mult := 1; m_fchg := [-1; 0]; m_fmult := [1; 1];
     m_fix_com := true; m_fix_orient := false; m_fix_symm := None; m_conn := [] |}.
Definition ex_cfg : wcfg :=
  {| w_dtype := "psi4"; w_units := Some "Bohr"; w_afmt := None; w_gfmt := None; w_width := 14; w_prec := 6; w_conv := b64_one |}.

Example C07_ex_fits : psi4_fits ex_cfg ex_mol /\ unit_word (units_of e_psi4 ex_cfg) = Some ("bohr", "Bohr").
Proof.
  split; [|vm_compute; reflexivity].
  constructor.
  - repeat constructor; vm_compute; try reflexivity; discriminate.
  - discriminate.
  - vm_compute. discriminate.
  - split; [discriminate | apply Nat.leb_le; vm_compute; reflexivity].
  - intro k. destruct k as [|[|k]]; [| |destruct k]; (split; [discriminate | apply Nat.leb_le; vm_compute; reflexivity]).
Qed.
Example C07_ex_roundtrip :
  match to_string_model ex_cfg ex_mol with
  | Ok (text, _) =>
      match parse "psi4" text with
      | Ok p => p_elbl p = ["O"; "Gh(H_a)"; "H"] /\ p_seps p = Some [1%nat] /\ p_fix_com p = true /\ p_units p = Some "Bohr"
                /\ p_molmult p = Some 1 /\ p_fmult p = Some [Some 1; Some 1]
                /\ nth 5 (p_geom p) {| dneg := false; dcoef := 0; dexp := 0 |} = {| dneg := false; dcoef := 2812500; dexp := -6 |}
      | Err _ => False
      end
  | Err _ => False
  end.
Proof. vm_compute. repeat split; reflexivity. Qed.

Example C07_ex_layout :
  layout_equiv ("He 0 0 1.25" ++ String nl "He 0 0 3") ("  " ++ ("He 0 0 1.25" ++ String c_hash ("c" ++ String nl "He 0 0 3")) ++ String nl "").
Proof.
  eapply LE_trans; [apply LE_step, (LS_comment "He 0 0 1.25" "c" "He 0 0 3"); vm_compute; reflexivity|].
  apply LE_step, LS_outer; reflexivity.
Qed.

(** regression example of the repaired finding C07-comment-eats-char *)
Example C07_ex_comment_after_token : parse "psi4" "He 0 0 1.25#c" = parse "psi4" "He 0 0 1.25" /\ comment_may_follow "He 0 0 1.25".
Proof. split; vm_compute; reflexivity. Qed.

Print Assumptions C07_roundtrip_psi4.
Print Assumptions C07_roundtrip_psi4_auto.
Print Assumptions C07_psi4_reader_on_fragment_blocks.
Print Assumptions C07_number_reads_back.
Print Assumptions C07_atom_line_reads_back.
Print Assumptions C07_roundtrip_xyzplus.
Print Assumptions C07_roundtrip_xyz.
Print Assumptions C07_xyzplus_reader_on_lines.
Print Assumptions C07_xyz_reader_on_lines.
Print Assumptions C07_total.
Print Assumptions C07_total_short.
Print Assumptions C07_total_refuted.
Print Assumptions C07_total_auto.
Print Assumptions C07_total_auto_short.
Print Assumptions C07_autodetect_xyzplus_refuted.
Print Assumptions C07_layout_outer_whitespace.
Print Assumptions C07_layout_comment.
Print Assumptions C07_layout_comment_line.
Print Assumptions C07_layout_separators.
Print Assumptions C07_layout_keyword_case.
Print Assumptions C07_psi4_text_of_lines.
Print Assumptions C07_layout_blank_lines_psi4.
Print Assumptions C07_layout_line_padding_psi4.
Print Assumptions C07_xyz_text_of_lines.
Print Assumptions C07_layout_blank_lines_xyz.
Print Assumptions C07_layout_line_padding_xyz.
Print Assumptions C07_layout_symbol_case.
Print Assumptions C07_layout_insensitive.
Print Assumptions C07_recognisers_use_the_source_tables.
Print Assumptions C07_numeral_plus.
Print Assumptions C07_numeral_leading_zero.
Print Assumptions C07_numeral_exponent_letter.
