(** C17 — Radii lookups are alias-invariant, unit-correct and honest about missing data.
    Model: Model/Radii.v over Gen/Radii.v (both source tables and the generic-element aliases literal) and the
    periodic-table model of C01 ([to_E]).  [factor u] is the conversion factor from unit u to the requested unit
    as reported by the implementation (an input of the model); values are exact rationals.

    CLAUSE MAP (statement of C17 in properties.jsonl, clause -> theorems; "gen" = stated on / proved equal to the functions
    of Gen/RadiiGlue.v, which harness/translate/radiiglue.py regenerates from covalent_radii.py, vanderwaals_radii.py and
    datum.py on every run)
    (a) a radius requested by any name of the atom (symbol, name, Z, nuclide label, any case) is the tabulated value for
        that element:  C17_radius_by_element (ALL identifiers), C17_alias_invariant_radius (every row x alias forms x
        cases), C17_tabulated_value_by_any_name (the source row's Datum and factor x Decimal(value), both sets).
    (b) special labels return their own entries, bare element = largest variant:  C17_special_labels_own_entry,
        C17_vdw_rows_own_entry, C17_bare_element_is_largest_variant, C17_special_labels_are_variants (every label with '_'
        is a variant of an element that has a generic alias; it is no atom name, hence literal and case-sensitive:
        C17_special_label_wrong_case_rejected).
    (c) default = Bohr = tabulated Angstrom x Angstrom->Bohr factor of the context:  C17_bohr2angstroms_from_codata,
        C17_default_is_tabulated_over_bohr2angstroms; the default unit of both get methods is "bohr":
        C17_generated_get_is_model (g_*_units_default).  Native unit exact: C17_native_unit_exact,
        C17_all_entries_native_unit.  Other length units scale linearly: C17_linear_in_factor,
        C17_value_is_tabulated_times_factor (the factor itself — pint — is an input: C03).  Datum form carries the source
        value in its native unit: C17_datum_carries_source_value, C17_tabulated_value_by_any_name.
    (d) valid element without radius -> DataUnavailableError or exactly the caller's fallback; non-element ->
        NotAnElementError:  C17_missing_contract (ALL identifiers/tables), C17_untabulated_element_contract (every
        periodic-table row without entry x alias forms x cases), C17_non_atom_rejected, C17_public_missing_contract (gen, both
        classes), C17_fails_closed.
        Wave 4: C17_every_variant_bounded_by_its_bare_element (the same clause read from the variants' side: EVERY source
        row E_xxx has a bare entry E whose value is >= its own — the form the oracle checks on the implementation's answers).
    (e) the public entry points ARE the model:  C17_generated_get_is_model (covalentradii.get and vdwradii.get as translated
        = Model/Radii.get for all tables, identifiers, fallbacks, return forms, factors), C17_generated_to_units
        (Datum.to_units as translated = conversion_factor(own unit, requested or own unit) x payload).  Wave 4:
        C17_generated_init_is_model (the table construction of both __init__ methods as translated by
        harness/translate/radiiinit.py into Gen/RadiiInit.v — item assignments in a loop over the source rows, then over the
        aliases literal — answers every lookup like the hand-written cov_table / vdw_table, for ANY source tables, and the
        translated get on the translated table is the model), C17_item_assignment_loop (the reading of `d[k] = v` in a loop
        as "last assignment wins", for all rows / keys / values).
    OUT OF THE MODEL (correspondence / oracle only): Datum.to_units on ARRAY payloads — the Gallina model knows scalar
        payloads only; arrays of every numeric dtype (bool, int8..uint64, both byte orders, float32/64, complex64/128), 0-d to
        2-d, empty, Fortran-ordered, strided, transposed and read-only are judged by the Python oracle alone: element by
        element against the exact rational product within the rounding of the result's precision, result type, bit-exact
        IEEE product, repeatability, payload untouched and unshared.  Also oracle only: float rounding of scalar to_units
        (2^-51 relative, bit-exact in the Python oracle); that no call leaves state behind (history streams); pydantic
        construction of Datum; the unit factors other than Angstrom->Bohr (sanity-checked in the oracle; C03's subject).
        "bare element = largest variant" is ALSO checked on the implementation's own answers (bare answer = max of the answers
        for its special labels, same unit / return form) and against the source rows whether or not the source table carries
        a row for the bare symbol. *)
From Coq Require Import ZArith QArith List String Bool.
Require Import QV.Common.Outcome QV.Common.PyAscii.
Require Import QV.Common.DecC02.
Require Import QV.Gen.PTable QV.Gen.Radii QV.Model.PeriodicTable QV.Model.Radii QV.Model.RadiiUnits.
Require Import QV.Model.PeriodicTableGlue QV.Model.RadiiGlue QV.Gen.RadiiGlue.
Require Import QV.Model.RadiiInit QV.Gen.RadiiInit QV.Proofs.RadiiInit.
Require Import QV.Proofs.PeriodicTable QV.Proofs.PeriodicTableReject QV.Proofs.Radii QV.Proofs.RadiiUnits QV.Proofs.RadiiWave3 QV.Proofs.RadiiGlue.
Import ListNotations.
Open Scope Z_scope.

(** Alias invariance, for ALL identifiers: whatever names an atom whose element symbol is e (symbol, name,
    atomic number, digit string, nuclide label, any letter case — C01) gets exactly the answer of e itself,
    for every fallback, return form and unit; both radius sets. *)
Theorem C17_radius_by_element :
  forall (M : Type) x e (missing : option M) rt f,
    to_E x false = Ok e ->
    get cov_table x missing rt f = get cov_table (PStr e) missing rt f /\
    get vdw_table x missing rt f = get vdw_table (PStr e) missing rt f.
Proof.
  intros M x e missing rt f H. split.
  - apply get_by_element; [exact cov_keys_self|exact H].
  - apply get_by_element; [exact vdw_keys_self|exact H].
Qed.

(** ... in particular every element row of the periodic table in all its alias forms and letter cases. *)
Theorem C17_alias_invariant_radius :
  forall (M : Type) z e n s (missing : option M) rt f,
    In (z, e, n) elem_rows ->
    same_mod_case s (str_of_Z z) \/ same_mod_case s e \/ same_mod_case s n ->
    get cov_table (PInt z) missing rt f = get cov_table (PStr e) missing rt f /\
    get cov_table (PStr s) missing rt f = get cov_table (PStr e) missing rt f /\
    get vdw_table (PInt z) missing rt f = get vdw_table (PStr e) missing rt f /\
    get vdw_table (PStr s) missing rt f = get vdw_table (PStr e) missing rt f.
Proof.
  intros M z e n s missing rt f H C. destruct (alias_to_E z e n s H C) as [E1 E2].
  destruct (C17_radius_by_element M (PInt z) e missing rt f E1) as [A1 A2].
  destruct (C17_radius_by_element M (PStr s) e missing rt f E2) as [B1 B2].
  repeat split; assumption.
Qed.

(** Every row of the source tables (special labels C_sp3, Mn_lowspin, ... included) has its own entry: looked up
    by its exact label it returns the Datum with that label, the native unit, Decimal(value string), its comment. *)
Theorem C17_special_labels_own_entry :
  forall l v c, In (l, v, c) cov_rows ->
    exists d, dec_of_string v = Some d /\
      forall (M : Type) (missing : option M) f,
        get cov_table (PStr l) missing true f =
        Ok (RDatum {| en_label := l; en_units := cov_units; en_data := Some d; en_comment := c |}) /\
        get cov_table (PStr l) missing false f = Ok (RValue (f cov_units * dec_Q d)%Q).
Proof.
  intros l v c H. destruct (row_own_entry _ _ _ _ _ _ cov_rows_own_entry H) as [d [D E]].
  exists d; split; [exact D|]. intros M missing f.
  assert (I : ident cov_table (PStr l) = Ok l) by (apply ident_of_key; unfold tbl_mem; now rewrite E).
  unfold get. rewrite I. cbn [obind]. rewrite E. split; reflexivity.
Qed.

Theorem C17_vdw_rows_own_entry :
  forall l v, In (l, v) vdw_rows ->
    exists d, dec_of_string v = Some d /\
      forall (M : Type) (missing : option M) f,
        get vdw_table (PStr l) missing true f =
        Ok (RDatum {| en_label := l; en_units := vdw_units; en_data := Some d; en_comment := "" |}) /\
        get vdw_table (PStr l) missing false f = Ok (RValue (f vdw_units * dec_Q d)%Q).
Proof.
  intros l v H.
  assert (H' : In (l, v, EmptyString) (map (fun r => (fst r, snd r, EmptyString)) vdw_rows)).
  { apply in_map_iff. exists (l, v). split; [reflexivity|exact H]. }
  destruct (row_own_entry _ _ _ _ _ _ vdw_rows_own_entry H') as [d [D E]].
  exists d; split; [exact D|]. intros M missing f.
  assert (I : ident vdw_table (PStr l) = Ok l) by (apply ident_of_key; unfold tbl_mem; now rewrite E).
  unfold get. rewrite I. cbn [obind]. rewrite E. split; reflexivity.
Qed.

(** The bare element of each alias (C, Mn, Fe, Co) carries the value of its source variant, which is the largest
    of all variants  E_xxx  of the source table. *)
Theorem C17_bare_element_is_largest_variant :
  forall idn u src c, In (idn, u, src, c) cov_aliases ->
    exists e es d,
      In idn pt_E /\
      tbl_get cov_table idn = Some e /\ tbl_get cov_table src = Some es /\
      en_data e = Some d /\ en_data es = Some d /\ en_label e = idn /\ en_units e = u /\
      forall l v c', In (l, v, c') cov_rows -> prefixb (idn ++ "_") l = true ->
                     exists dv, dec_of_string v = Some dv /\ dec_le dv d = true.
Proof. exact alias_largest. Qed.

(** Units: the number returned is (factor from the entry's unit) x (tabulated decimal), exactly; ... *)
Theorem C17_value_is_tabulated_times_factor :
  forall t x f v, radius_value t x f = Ok v ->
    exists id e d, ident t x = Ok id /\ tbl_get t id = Some e /\ en_data e = Some d /\
                   v = (f (en_units e) * dec_Q d)%Q.
Proof. exact radius_value_spec. Qed.

(** The default unit tied to CODATA: bohr2angstroms — the alias expression translated from context.py, evaluated over
    the shipped CODATA table of the default context — is exactly ("bohr radius" value) * 10^10, the Decimal the context
    computes for it has that value without rounding, and it is positive. *)
Theorem C17_bohr2angstroms_from_codata :
  exists r b d, codata_lookup "bohr radius" = Some r /\ b2a_Q = Some b /\ b2a_dec = Some d /\
                (b == dec2Q r * inject_Z (10 ^ 10))%Q /\ (dec2Q d == b)%Q /\ (0 < b)%Q.
Proof. exact b2a_from_codata. Qed.

(** The default (Bohr) result of get is the tabulated Angstrom decimal divided by bohr2angstroms, as exact rationals
    (equivalently: times bohr2angstroms it gives the tabulated number back), for ALL identifiers, both tables. *)
Theorem C17_default_is_tabulated_over_bohr2angstroms :
  forall t x v, radius_bohr t x = Ok v ->
    exists b id e d, b2a_Q = Some b /\ (0 < b)%Q /\ ident t x = Ok id /\ tbl_get t id = Some e /\ en_data e = Some d /\
                     (v == dec_Q d / b)%Q /\ (v * b == dec_Q d)%Q.
Proof. exact default_bohr_value. Qed.

(** ... with factor 1 (the native unit) it is the tabulated number itself; ... *)
Theorem C17_native_unit_exact :
  forall t x f v, radius_value t x f = Ok v -> (forall u, f u == 1)%Q ->
    exists id e d, ident t x = Ok id /\ tbl_get t id = Some e /\ en_data e = Some d /\ (v == dec_Q d)%Q.
Proof. exact radius_native. Qed.

(** ... it scales linearly with the factor; ... *)
Theorem C17_linear_in_factor :
  forall t x f a v, radius_value t x f = Ok v ->
    exists v', radius_value t x (fun u => a * f u)%Q = Ok v' /\ (v' == a * v)%Q.
Proof. exact radius_linear. Qed.

(** ... every entry of both tables is in the table's native unit (so one factor, Angstrom -> requested, applies);
    and the Datum form is the table entry itself (native unit, source value). *)
Theorem C17_all_entries_native_unit :
  (forall k e, In (k, e) cov_table -> en_units e = cov_units) /\
  (forall k e, In (k, e) vdw_table -> en_units e = vdw_units).
Proof.
  pose proof all_units_native as A. rewrite andb_true_iff in A. destruct A as [A1 A2].
  rewrite forallb_forall in A1, A2.
  split; intros k e I; [specialize (A1 _ I)|specialize (A2 _ I)]; now apply String.eqb_eq.
Qed.

Theorem C17_datum_carries_source_value :
  forall (M : Type) t x (missing : option M) f e,
    get t x missing true f = Ok (RDatum e) -> exists id, ident t x = Ok id /\ tbl_get t id = Some e.
Proof. exact @datum_form. Qed.

(** Missing data: a non-atom raises NotAnElementError; a valid atom without entry returns exactly the caller's
    fallback (any type, untouched) when one is given and a number was asked for, else raises DataUnavailableError;
    an atom WITH an entry never yields the fallback or those errors.  For ALL identifiers, both tables. *)
Theorem C17_missing_contract :
  forall (M : Type) t x (missing : option M) rt f,
    match ident t x with
    | Err k => k = NotAnElement /\ get t x missing rt f = Err NotAnElement
    | Ok id =>
        match tbl_get t id with
        | None => get t x missing rt f =
                  match missing, rt with Some m, false => Ok (RMissing m) | _, _ => Err DataUnavailable end
        | Some e => (forall m, get t x missing rt f <> Ok (RMissing m)) /\
                    get t x missing rt f <> Err DataUnavailable /\ get t x missing rt f <> Err NotAnElement
        end
    end.
Proof. exact @missing_contract. Qed.

(** Only the two documented errors can escape. *)
Theorem C17_fails_closed :
  forall (M : Type) x (missing : option M) rt f k,
    (get cov_table x missing rt f = Err k \/ get vdw_table x missing rt f = Err k) ->
    k = NotAnElement \/ k = DataUnavailable.
Proof.
  intros M x missing rt f k H. pose proof tables_have_data as T. rewrite andb_true_iff in T. destruct T as [T1 T2].
  destruct H as [H|H]; eapply get_closed; try exact H; apply table_data; assumption.
Qed.

(* ------------------------------------------------------------------------------------------ *)
(** Wave 3. *)

(** covalentradii.get and vdwradii.get AS TRANSLATED from the source on this run (Gen/RadiiGlue.v) are the hand-written
    [get] — for ALL tables, identifiers, fallbacks (returned as the very object: [GMissing missing]), return forms and
    unit factors; the default unit of both is "bohr". *)
Theorem C17_generated_get_is_model :
  (forall (M : Type) t x (missing : option M) rt f,
     g_cov_get t x missing rt f = omap embed (get t x missing rt f) /\
     g_vdw_get t x missing rt f = omap embed (get t x missing rt f)) /\
  g_cov_units_default = "bohr"%string /\ g_vdw_units_default = "bohr"%string.
Proof. split; [intros; split; [apply g_cov_get_eq|apply g_vdw_get_eq]|exact g_defaults_bohr]. Qed.

(** Datum.to_units as translated: conversion_factor(own unit, requested unit — or own unit when none is given) times the
    payload, whether the payload is a Decimal or not. *)
Theorem C17_generated_to_units :
  forall cf du data isdec units,
    g_datum_to_units cf du data isdec units = datum_to_units (cf du (match units with None => du | Some u => u end)) data.
Proof. exact g_datum_to_units_eq. Qed.

(** The missing-data contract on the translated entry points of both classes. *)
Theorem C17_public_missing_contract :
  forall (M : Type) t x (missing : option M) rt f,
    match ident t x with
    | Err k => k = NotAnElement /\ g_cov_get t x missing rt f = Err NotAnElement /\ g_vdw_get t x missing rt f = Err NotAnElement
    | Ok id =>
        match tbl_get t id with
        | None => g_cov_get t x missing rt f =
                    match missing, rt with Some m, false => Ok (GMissing (Some m)) | _, _ => Err DataUnavailable end /\
                  g_vdw_get t x missing rt f =
                    match missing, rt with Some m, false => Ok (GMissing (Some m)) | _, _ => Err DataUnavailable end
        | Some e => forall g, g = g_cov_get t x missing rt f \/ g = g_vdw_get t x missing rt f ->
                    (forall o, g <> Ok (GMissing o)) /\ g <> Err DataUnavailable /\ g <> Err NotAnElement
        end
    end.
Proof. exact @g_missing_contract. Qed.

(** The tabulated value under ANY name of the element: if x names an atom of element l (C01: symbol, name, Z, digit
    string, nuclide label, any case) and (l, v, c) is a row of the source table, get returns that row's Datum (native unit,
    Decimal(v), its comment) and, as a number, factor x Decimal(v) — both radius sets. *)
Theorem C17_tabulated_value_by_any_name :
  forall (M : Type) x l v (missing : option M) f,
    to_E x false = Ok l ->
    (forall c, In (l, v, c) cov_rows ->
       exists d, dec_of_string v = Some d /\
         get cov_table x missing true f = Ok (RDatum {| en_label := l; en_units := cov_units; en_data := Some d; en_comment := c |}) /\
         get cov_table x missing false f = Ok (RValue (f cov_units * dec_Q d)%Q)) /\
    (In (l, v) vdw_rows ->
       exists d, dec_of_string v = Some d /\
         get vdw_table x missing true f = Ok (RDatum {| en_label := l; en_units := vdw_units; en_data := Some d; en_comment := "" |}) /\
         get vdw_table x missing false f = Ok (RValue (f vdw_units * dec_Q d)%Q)).
Proof.
  intros M x l v missing f H. split.
  - intros c I. exact (row_by_any_name cov_table cov_units cov_rows x l v c missing f cov_keys_self cov_rows_own_entry H I).
  - intro I.
    assert (I' : In (l, v, EmptyString) (map (fun r => (fst r, snd r, EmptyString)) vdw_rows)).
    { apply in_map_iff. exists (l, v). split; [reflexivity|exact I]. }
    exact (row_by_any_name vdw_table vdw_units _ x l v EmptyString missing f vdw_keys_self vdw_rows_own_entry H I').
Qed.

(** Every element row of the periodic table WITHOUT an entry in the set, in all alias forms and letter cases: exactly the
    caller's fallback when one is given and a number is asked for, DataUnavailableError otherwise. *)
Theorem C17_untabulated_element_contract :
  forall (M : Type) z e n s (missing : option M) rt f,
    In (z, e, n) elem_rows ->
    same_mod_case s (str_of_Z z) \/ same_mod_case s e \/ same_mod_case s n ->
    (tbl_get cov_table e = None ->
     get cov_table (PInt z) missing rt f = match missing, rt with Some m, false => Ok (RMissing m) | _, _ => Err DataUnavailable end /\
     get cov_table (PStr s) missing rt f = match missing, rt with Some m, false => Ok (RMissing m) | _, _ => Err DataUnavailable end) /\
    (tbl_get vdw_table e = None ->
     get vdw_table (PInt z) missing rt f = match missing, rt with Some m, false => Ok (RMissing m) | _, _ => Err DataUnavailable end /\
     get vdw_table (PStr s) missing rt f = match missing, rt with Some m, false => Ok (RMissing m) | _, _ => Err DataUnavailable end).
Proof.
  intros M z e n s missing rt f H C. split; intro N.
  - exact (untabulated_element_aliases cov_table z e n s missing rt f cov_keys_self H C N).
  - exact (untabulated_element_aliases vdw_table z e n s missing rt f vdw_keys_self H C N).
Qed.

(** A non-atom (C01: names nothing) that is not an exact label of the table: NotAnElementError, whatever the options. *)
Theorem C17_non_atom_rejected :
  forall (M : Type) t x (missing : option M) rt f,
    (forall k, ~ justified x k) -> (forall s, x = PStr s -> tbl_mem t s = false) ->
    get t x missing rt f = Err NotAnElement.
Proof. exact @non_atom_rejected. Qed.

(** The special labels are tied to the generic-element aliases: every source row whose label contains '_' is a variant
    E_xxx of an element E of the periodic table that has a generic alias (whose value is the largest variant,
    C17_bare_element_is_largest_variant); the label itself is no atom name, so it is matched literally — a spelling of it in
    another letter case is rejected.  The van der Waals set has no such labels. *)
Theorem C17_special_labels_are_variants :
  (forall l v c, In (l, v, c) cov_rows -> has_underscore l = true ->
     (exists idn u src c', In (idn, u, src, c') cov_aliases /\ prefixb (idn ++ "_") l = true /\ In idn pt_E) /\
     to_E (PStr l) false = Err NotAnElement) /\
  (forall r, In r vdw_rows -> has_underscore (fst r) = false).
Proof.
  split; [exact variant_has_generic|].
  intros r I. pose proof (proj1 (forallb_forall _ _) vdw_no_variants _ I) as A. now apply negb_true_iff in A.
Qed.

Theorem C17_special_label_wrong_case_rejected :
  forall (M : Type) l v c s (missing : option M) rt f,
    In (l, v, c) cov_rows -> has_underscore l = true -> same_mod_case s l -> tbl_mem cov_table s = false ->
    get cov_table (PStr s) missing rt f = Err NotAnElement.
Proof. exact @variant_wrong_case_rejected. Qed.

(** Non-vacuity. *)
Example C17_ex_wave3 :
  let f := fun _ : string => (18897261254578281 # 10000000000000000)%Q in
  g_cov_get cov_table (PStr "ts") (Some 4) false f = Ok (GMissing (Some 4)) /\
  g_cov_get cov_table (PStr "ts") (Some 4) true f = Err DataUnavailable /\
  g_vdw_get (M := unit) vdw_table (PStr "zz") None false f = Err NotAnElement /\
  g_cov_get (M := unit) cov_table (PStr "C_sp2") None true f =
     Ok (GDatum {| en_label := "C_sp2"; en_units := "angstrom"; en_data := Some (73, -2); en_comment := "e.s.d.=2 n=10 000" |}) /\
  has_underscore "Mn_lowspin" = true /\ tbl_mem cov_table "mn_lowspin" = false /\ tbl_get cov_table "Ts" = None /\
  g_datum_to_units (fun a b => if String.eqb a b then 1 else 2)%Q "angstrom" (76 # 100) true None = (1 * (76 # 100))%Q.
Proof. cbv zeta. repeat split; vm_compute; reflexivity. Qed.
Example C17_ex_bohr :
  b2a_Q = Some (52917721067 # 100000000000)%Q /\ default_codata_year = 2014 /\
  radius_bohr cov_table (PStr "c") = Ok (7600000000000 # 5291772106700)%Q.
Proof. vm_compute. repeat split. Qed.
Example C17_ex :
  let f := fun _ : string => (18897261254578281 # 10000000000000000)%Q in
  get (M := unit) cov_table (PStr "c") None false f = Ok (RValue (f "angstrom"%string * (76 # 100))%Q) /\
  get (M := unit) cov_table (PStr "C_sp2") None true f =
     Ok (RDatum {| en_label := "C_sp2"; en_units := "angstrom"; en_data := Some (73, -2); en_comment := "e.s.d.=2 n=10 000" |}) /\
  get (M := unit) cov_table (PStr "c_sp2") None true f = Err NotAnElement /\
  get cov_table (PStr "ts") (Some 4) false f = Ok (RMissing 4) /\
  get cov_table (PStr "ts") (Some 4) true f = Err DataUnavailable /\
  get (M := unit) vdw_table (PStr "FE56") None false f = Err DataUnavailable /\
  get (M := unit) vdw_table (PInt 36) None false f = get vdw_table (PStr "KRYPTON") None false f /\
  to_E (PStr "kr84") false = Ok "Kr"%string /\ In (36, "Kr", "Krypton")%string elem_rows /\
  In ("C", "angstrom", "C_sp3", "Largest (sp3) chosen for generic atom")%string cov_aliases /\
  In ("Mn_lowspin", "1.39", "e.s.d.=5 n=321")%string cov_rows /\ prefixb ("Mn" ++ "_") "Mn_lowspin" = true.
Proof.
  cbv zeta. repeat split; try (vm_compute; reflexivity).
  - assert (H : existsb (fun r => let '(z, e, n) := r in (z =? 36) && String.eqb e "Kr" && String.eqb n "Krypton") elem_rows = true)
      by (vm_compute; reflexivity).
    apply existsb_exists in H. destruct H as [[[z e] n] [I H]].
    rewrite !andb_true_iff, Z.eqb_eq, !String.eqb_eq in H. destruct H as [[-> ->] ->]. exact I.
  - vm_compute. tauto.
  - vm_compute. tauto.
Qed.

(** Wave 4.  "The bare element means the largest variant", from the variants' side: EVERY special label E_xxx of the source
    table belongs to an element E of the periodic table whose bare entry exists and carries a value >= the label's own. *)
Theorem C17_every_variant_bounded_by_its_bare_element :
  forall l v c, In (l, v, c) cov_rows -> has_underscore l = true ->
    exists idn e d dv, prefixb (idn ++ "_") l = true /\ In idn pt_E /\
      tbl_get cov_table idn = Some e /\ en_data e = Some d /\ en_label e = idn /\
      dec_of_string v = Some dv /\ dec_le dv d = true.
Proof.
  intros l v c I U. destruct (variant_has_generic l v c I U) as [[idn [u [src [c' [A [P E]]]]]] _].
  destruct (alias_largest idn u src c' A) as [e [es [d [_ [T [_ [D [_ [Lb [_ B]]]]]]]]]].
  destruct (B l v c I P) as [dv [Dv L]]. exists idn, e, d, dv. repeat split; assumption.
Qed.

(** The table construction of both __init__ methods as TRANSLATED from the source on every run (item assignments in a loop
    over the source rows, then — covalent set — over the aliases literal, whose data are read from the rows loaded so far)
    answers every lookup like the hand-written tables of Model/Radii.v, for ANY source tables; on the shipped tables the
    dictionaries are the model's lists themselves (same keys, same order); hence the whole public path (translated
    __init__, then translated get) is the model's [get] on the model's tables. *)
Theorem C17_generated_init_is_model :
  (forall k, tbl_get g_cov_init k = tbl_get cov_table k) /\
  (forall k, tbl_get g_vdw_init k = tbl_get vdw_table k) /\
  (g_cov_init = cov_table /\ g_vdw_init = vdw_table) /\
  forall (M : Type) x (missing : option M) rt f,
    g_cov_get g_cov_init x missing rt f = omap embed (get cov_table x missing rt f) /\
    g_vdw_get g_vdw_init x missing rt f = omap embed (get vdw_table x missing rt f).
Proof.
  split; [exact g_cov_init_lookup|]. split; [exact g_vdw_init_lookup|]. split; [exact g_init_shipped|].
  intros M x missing rt f. apply generated_init_and_get_is_model.
Qed.

(** Item assignment in a loop, in general: whatever the rows, keys and values, every lookup in the resulting dict sees the
    assignments in order, a later one to the same key winning (the model's reading of __init__). *)
Theorem C17_item_assignment_loop :
  forall (V R : Type) (K : R -> string) (W : R -> V) rows k0,
    alist_get k0 (fold_left (fun d r => dict_set d (K r) (W r)) rows []) None =
    alist_get k0 (map (fun r => (K r, W r)) rows) None.
Proof.
  intros V R K W rows k0.
  destruct (fold_dict_set (fun d r => dict_set d (K r) (W r)) K W (fun d r => eq_refl) rows [] eq_refl) as [_ G].
  exact (G k0).
Qed.

(** Non-vacuity: an assignment to an existing key keeps its place and replaces the value; the translated covalent table has
    the bare iron entry with the high-spin value. *)
Example C17_ex_wave4 :
  dict_set [("a", 1); ("b", 2)]%string "a"%string 3 = [("a", 3); ("b", 2)]%string /\
  dict_set [("a", 1)]%string "b"%string 2 = [("a", 1); ("b", 2)]%string /\
  option_map en_data (tbl_get g_cov_init "Fe") = option_map en_data (tbl_get g_cov_init "Fe_highspin") /\
  tbl_mem g_cov_init "Fe" = true.
Proof. vm_compute. repeat split; reflexivity. Qed.

Print Assumptions C17_radius_by_element.
Print Assumptions C17_alias_invariant_radius.
Print Assumptions C17_special_labels_own_entry.
Print Assumptions C17_vdw_rows_own_entry.
Print Assumptions C17_bare_element_is_largest_variant.
Print Assumptions C17_value_is_tabulated_times_factor.
Print Assumptions C17_bohr2angstroms_from_codata.
Print Assumptions C17_default_is_tabulated_over_bohr2angstroms.
Print Assumptions C17_native_unit_exact.
Print Assumptions C17_linear_in_factor.
Print Assumptions C17_all_entries_native_unit.
Print Assumptions C17_datum_carries_source_value.
Print Assumptions C17_missing_contract.
Print Assumptions C17_fails_closed.
Print Assumptions C17_generated_get_is_model.
Print Assumptions C17_generated_to_units.
Print Assumptions C17_public_missing_contract.
Print Assumptions C17_tabulated_value_by_any_name.
Print Assumptions C17_untabulated_element_contract.
Print Assumptions C17_non_atom_rejected.
Print Assumptions C17_special_labels_are_variants.
Print Assumptions C17_special_label_wrong_case_rejected.
Print Assumptions C17_every_variant_bounded_by_its_bare_element.
Print Assumptions C17_generated_init_is_model.
Print Assumptions C17_item_assignment_loop.
