(** C11 — The molecular hash is a canonical identity for the molecule.
    Property theorems only; each is closed by [exact] of a lemma from Proofs/Hash.v / Proofs/HashPrep.v / Proofs/HashMol.v.
    Model: Model/Hash.v ([canon] = the text Molecule.get_hash feeds to SHA-1, [prep_arr]/[prep_scalar] = float_prep,
    [canon_bonds]/[validate_bonds] = the bond canonicalisation of from_arrays).  SHA-1 is a parameter assumed injective.

    CLAUSE MAP (statement / quantifier of C11 in properties.jsonl  ->  theorems here; "corr" = only the differential
    correspondence and the oracle on the implementation, no theorem)
    1. same hash and == exactly when the ten listed fields agree after the rounding
         -> C11_canon_complete, C11_canon_injective (+ _without_wf_refuted: the hypothesis is needed), C11_hash_eq_iff_agree
            (for any injective digest; __eq__ = hash equality comes from the translator's template of __eq__).
            "the rounding" is float_prep as it is; against the documented 1e-8 it fails in the zero-flush zone:
            C11_sensitive_in_flush_zone_refuted (known finding C11-zero-flip-threshold).
    2. independent of how the molecule was built or stored
         kwargs vs dict vs unset/default-filled fields  -> C11_independent_of_route
         raw input geometry vs the geometry stored by the constructor (float_prep at construction) and re-validation
                                                        -> C11_prerounding_invisible, C11_prep_idempotent
         encodings / text / files: the value reaches the getters within noise -> C11_noise_insensitive_molecule covers the
            hash side; that each route delivers such values is corr (12 routes) and C07/C10.
    3. independent of fields outside the list            -> C11_independent_of_non_hash_fields
    4. sub-rounding noise, sign of zero, |x| < 5e-9      -> C11_noise_insensitive, C11_signed_zero_insensitive, C11_tiny_is_zero
            (one number), C11_noise_insensitive_molecule (every coordinate at once, at the level of the hashed text),
            C11_rounding_respects_value; through numpy's binary64 algorithm rint(fl(x*10^n)): C11_np_around_exact, _far,
            C11_np_around_noise_insensitive (for every fl with three IEEE-754 properties, hypotheses), C11_prep_arr64_agrees; and for the
            executable fl64 with no hypothesis left: C11_fl64_error, C11_noise_insensitive_binary64, C11_fl64_keeps_half (fl64 never
            crosses a half-integer on [-2^40, 2^40]), C11_np_around_exact_binary64 / C11_prep_arr64_exact (numpy's algorithm on fl64 =
            the exact rounding unless the binary64 product is itself a half-integer), C11_np_around_differs_only_near_tie.
    5. order and orientation of the bond list             -> C11_bond_order_invariant, C11_bond_canon_idempotent,
            C11_bond_listing_validated_alike (outcome of the validator incl. ValidationError), C11_bond_listing_hash_invariant.
            Bond lists stored AS GIVEN (routes that skip the validator: from_data(text, connectivity=...), validated=True payloads,
            copy(update)): C11_stored_listing_hash_eq_iff (hash equality = equality of the listings themselves, so == and the hash
            still coincide) and C11_stored_listing_visible_refuted (the listing then shows in the hash: known finding
            C11-text-keyword-bonds-unvalidated for the route on which the library itself sets validated=True).
    6. changes when a listed field changes by more than its rounding unit
         -> C11_sensitive, _scalar (one number), C11_sensitive_text, C11_sensitive_coordinate, C11_sensitive_mass,
            C11_sensitive_charge, C11_sensitive_fragment_charge, C11_sensitive_discrete (symbol, multiplicity, ghost flag,
            fragment boundary, fragment multiplicity, bond order); zone bounds C11_flush_zone_geometry_bound / _mass_ / _charge_.
    Not proved: SHA-1 collision freedom (parameter); that the machine's multiplication is fl64 (IEEE-754; the two are compared
    on every run, ties and near-ties included).  (The two IEEE-754 hypotheses of C11_np_around_exact are discharged for fl64 on
    [-2^40, 2^40] by C11_fl64_keeps_half; global monotonicity of fl64 is not proved and no longer needed.) *)
From Coq Require Import ZArith QArith Qabs List String Bool Permutation Lia Lqa.
Require Import QV.Common.Outcome QV.Common.HFRound QV.Common.HFBin64 QV.Common.HFHash QV.Gen.HashConsts QV.Model.Hash QV.Proofs.Hash QV.Proofs.HashPrep QV.Proofs.HashMol QV.Proofs.HashFl64 QV.Proofs.HashFl64Exact QV.Proofs.HashStored.
Import ListNotations.
Open Scope Z_scope.

(** Molecules that agree, after float_prep, on symbols, masses, charge, multiplicity, real flags, geometry,
    fragments, fragment charges/multiplicities and bonds are hashed from the same text. *)
Theorem C11_canon_complete : forall to_mass m m', agree to_mass m m' -> canon to_mass m = canon to_mass m'.
Proof. exact canon_complete. Qed.

(** Conversely the text determines those prepared fields, for molecules whose total charge is the sum of the
    fragment charges (needed exactly at the  molecular_charge || molecular_multiplicity  boundary). *)
Theorem C11_canon_injective : forall to_mass m m', wf m -> wf m' -> canon to_mass m = canon to_mass m' -> agree to_mass m m'.
Proof. exact canon_injective. Qed.

(** ... and that hypothesis cannot be dropped. *)
Theorem C11_canon_injective_without_wf_refuted :
  exists m m', canon (fun _ => FQ 0) m = canon (fun _ => FQ 0) m' /\ mmult m <> mmult m' /\ wf m /\ ~ wf m'.
Proof. exact canon_injective_without_wf_refuted. Qed.

(** Hash equality (= Molecule.__eq__) coincides with agreement on the prepared listed fields, for any injective
    digest function in place of SHA-1. *)
Theorem C11_hash_eq_iff_agree :
  forall to_mass (D : Type) (sha1 : list token -> D), (forall a b, sha1 a = sha1 b -> a = b) ->
  forall m m', wf m -> wf m' -> (mol_eq to_mass sha1 m m' <-> agree to_mass m m').
Proof. exact hash_eq_iff_agree. Qed.

(** Unset (default-filled on access) and explicitly stored fields hash alike: kwargs / dict / sparse storage. *)
Theorem C11_independent_of_route : forall to_mass m, canon to_mass (explicit to_mass m) = canon to_mass m.
Proof. exact canon_explicit. Qed.

(** Nothing outside the listed fields (name, comment, identifiers, provenance, extras, labels) is read. *)
Theorem C11_independent_of_non_hash_fields : forall to_mass m o,
  canon to_mass {| symbols := symbols m; masses_ := masses_ m; mcharge := mcharge m; mmult := mmult m; real_ := real_ m;
                   geometry := geometry m; fragments_ := fragments_ m; fcharges_ := fcharges_ m; fmults_ := fmults_ m;
                   connectivity_ := connectivity_ m; others := o |} = canon to_mass m.
Proof. exact canon_ignores_others. Qed.

(** Noise |d| <= 1e-10 on a value not within 1e-10 of a rounding boundary does not change its prepared value. *)
Theorem C11_noise_insensitive : forall n x d, 0 <= n ->
  (Qabs d <= noise_eps)%Q -> far_from_boundary n noise_eps x ->
  prep_arr n (FQ (x + d)) = prep_arr n (FQ x) /\ prep_scalar n (FQ (x + d)) = prep_scalar n (FQ x).
Proof. exact prep_noise_insensitive. Qed.

(** -0.0 and +0.0 are prepared alike although rounding alone keeps them apart; and everything below half a
    rounding unit is +0.0. *)
Theorem C11_signed_zero_insensitive : forall n, 0 <= n ->
  prep_arr n FNegZero = prep_arr n (FQ 0) /\ prep_scalar n FNegZero = prep_scalar n (FQ 0)
  /\ around n FNegZero <> around n (FQ 0).
Proof. exact prep_signed_zero. Qed.
Theorem C11_tiny_is_zero : forall n x, 0 <= n -> (Qabs (scaled n x) < 1 # 2)%Q ->
  prep_arr n (FQ x) = 0 /\ prep_scalar n (FQ x) = 0.
Proof. exact prep_tiny_is_zero. Qed.

(** numpy.around on binary64: for every rounding [fl] of the product x*10^n that is monotone and exact on half-integers
    up to B (IEEE-754 round-to-nearest-even has both properties with B = 2^52; they are hypotheses here, not modelled
    bit by bit), rint(fl(x*10^n)) is the exact half-even rounding of x — the rounding all other theorems are stated
    for — unless fl(x*10^n) is itself a half-integer; in particular whenever x*10^n is farther from every tie than the
    rounding error u*|x*10^n| (u = 2^-53).  [prep_arr64] is float_prep with the executable binary64 product [fl64]
    (compared with the machine's multiplication on every run); it agrees with [prep_arr] whenever the roundings do. *)
Theorem C11_np_around_exact : forall (fl : Q -> Q) (B : Z),
  (forall a b, (a <= b)%Q -> (fl a <= fl b)%Q) ->
  (forall j : Z, Z.abs j <= B -> (fl (inject_Z j + (1 # 2)) == inject_Z j + (1 # 2))%Q) ->
  forall n x, (Qabs (x * inject_Z (pow10 n)) <= inject_Z (B - 2)%Z)%Q -> ~ is_half (fl (x * inject_Z (pow10 n))%Q) ->
  rint (fl (x * inject_Z (pow10 n))%Q) = round_n n x.
Proof. exact np_around_exact. Qed.
Theorem C11_np_around_exact_far : forall (fl : Q -> Q) (B : Z) (u : Q),
  (forall a b, (a <= b)%Q -> (fl a <= fl b)%Q) ->
  (forall j : Z, Z.abs j <= B -> (fl (inject_Z j + (1 # 2)) == inject_Z j + (1 # 2))%Q) ->
  (forall s, (Qabs (fl s - s) <= u * Qabs s)%Q) ->
  forall n x, (Qabs (x * inject_Z (pow10 n)) <= inject_Z (B - 2)%Z)%Q ->
  (forall j : Z, (u * Qabs (x * inject_Z (pow10 n)) < Qabs (x * inject_Z (pow10 n) - (inject_Z j + (1 # 2))))%Q) ->
  rint (fl (x * inject_Z (pow10 n))%Q) = round_n n x.
Proof. exact np_around_exact_far. Qed.
Theorem C11_prep_arr64_agrees : forall n x, 0 <= n -> around64 n x = round_n n x -> prep_arr64 n (FQ x) = prep_arr n (FQ x).
Proof. exact prep_arr64_agrees. Qed.

(** The geometry is prepared at construction and again when hashing: the second pass is the identity. *)
Theorem C11_prep_idempotent : forall n x, 0 <= n -> prep_arr n (of_units n (prep_arr n x)) = prep_arr n x.
Proof. exact prep_idempotent. Qed.

(** A change by more than the rounding unit changes the prepared value, outside the zero-flush zone of the
    array branch (the scalar branch has no such zone) ... *)
Theorem C11_sensitive : forall n x y, 0 <= n ->
  (1 < Qabs (scaled n x - scaled n y))%Q ->
  below_flush n (round_n n x) = false \/ below_flush n (round_n n y) = false ->
  prep_arr n (FQ x) <> prep_arr n (FQ y).
Proof. exact prep_sensitive. Qed.
Theorem C11_sensitive_scalar : forall n x y, 0 <= n ->
  (1 < Qabs (scaled n x - scaled n y))%Q -> prep_scalar n (FQ x) <> prep_scalar n (FQ y).
Proof. exact prep_scalar_sensitive. Qed.
(** ... the zone of the geometry ends below 5.2e-7 ... *)
Theorem C11_flush_zone_geometry_bound : forall x, (52 # 100000000 <= Qabs x)%Q ->
  below_flush geometry_noise (round_n geometry_noise x) = false.
Proof. exact outside_zone_geometry. Qed.
(** ... and inside it the full statement fails: the threshold in float_prep is 5^-(n+1), not 5·10^-(n+1), so
    -5e-7 and +5e-7 (100 rounding units apart) are both hashed as 0.0 (known finding C11-zero-flip-threshold). *)
Theorem C11_sensitive_in_flush_zone_refuted :
  exists x y : Q, (1 < Qabs (scaled geometry_noise x - scaled geometry_noise y))%Q
                  /\ prep_arr geometry_noise (FQ x) = prep_arr geometry_noise (FQ y).
Proof. exact prep_sensitive_in_flush_zone_refuted. Qed.

(** At the level of the hashed text: disagreement on the prepared fields, a coordinate moved by more than 1e-8
    outside the zone, or any discrete listed field changed, changes the text. *)
Theorem C11_sensitive_text : forall to_mass m m', wf m -> wf m' -> ~ agree to_mass m m' -> canon to_mass m <> canon to_mass m'.
Proof. exact canon_sensitive. Qed.
Theorem C11_sensitive_coordinate : forall to_mass m m' pre post x y, wf m -> wf m' ->
  geometry m = pre ++ FQ x :: post -> geometry m' = pre ++ FQ y :: post ->
  (1 < Qabs (scaled geometry_noise x - scaled geometry_noise y))%Q ->
  below_flush geometry_noise (round_n geometry_noise x) = false \/ below_flush geometry_noise (round_n geometry_noise y) = false ->
  canon to_mass m <> canon to_mass m'.
Proof. exact canon_sensitive_coordinate. Qed.
Theorem C11_sensitive_discrete : forall to_mass m m', wf m -> wf m' ->
  (mmult m <> mmult m' \/ symbols m <> symbols m' \/ real m <> real m' \/ fragments m <> fragments m'
   \/ fmults m <> fmults m' \/ bonds_repr m <> bonds_repr m') ->
  canon to_mass m <> canon to_mass m'.
Proof. exact canon_sensitive_discrete. Qed.

(** The stored bond list does not depend on the order or the orientation in which bonds are listed, and
    validating it again (dict round trip) is the identity. *)
Theorem C11_bond_order_invariant : forall l l' bs, Permutation l (flip_by bs l') -> canon_bonds l = canon_bonds l'.
Proof. exact bond_order_invariant. Qed.
Theorem C11_bond_canon_idempotent : forall l, canon_bonds (canon_bonds l) = canon_bonds l.
Proof. exact canon_bonds_idempotent. Qed.

(** ---- molecule-level companions ---- *)
(** The prepared value depends on the value of the number, not on the fraction that denotes it. *)
Theorem C11_rounding_respects_value : forall n q q', 0 <= n -> (q == q')%Q ->
  round_n n q = round_n n q' /\ prep_arr n (FQ q) = prep_arr n (FQ q').
Proof. intros n q q' Hn E. split; [apply round_n_Qeq; exact E|apply prep_arr_Qeq; assumption]. Qed.

(** Noise <= 1e-10 on coordinates away from a rounding boundary, zeros of either sign and values below half a rounding
    unit, on every coordinate at once: the hashed text is the same. *)
Theorem C11_noise_insensitive_molecule : forall to_mass m g',
  Forall2 (same_after_noise geometry_noise noise_eps) (geometry m) g' ->
  canon to_mass (with_geometry m g') = canon to_mass m.
Proof. exact canon_noise_insensitive. Qed.

(** The constructor stores float_prep(geometry, 8) and get_hash prepares it again: same text as for the raw input. *)
Theorem C11_prerounding_invisible : forall to_mass m, canon to_mass (with_geometry m (stored_geometry m)) = canon to_mass m.
Proof. exact canon_prerounding_invisible. Qed.

(** A mass, the total charge, a fragment charge changed by more than the rounding unit changes the text. *)
Theorem C11_sensitive_mass : forall to_mass m m' pre post x y, wf m -> wf m' ->
  masses to_mass m = pre ++ FQ x :: post -> masses to_mass m' = pre ++ FQ y :: post ->
  (1 < Qabs (scaled mass_noise x - scaled mass_noise y))%Q ->
  below_flush mass_noise (round_n mass_noise x) = false \/ below_flush mass_noise (round_n mass_noise y) = false ->
  canon to_mass m <> canon to_mass m'.
Proof. exact canon_sensitive_mass. Qed.
Theorem C11_sensitive_charge : forall to_mass m m' x y, wf m -> wf m' ->
  mcharge m = FQ x -> mcharge m' = FQ y -> (1 < Qabs (scaled charge_noise x - scaled charge_noise y))%Q ->
  canon to_mass m <> canon to_mass m'.
Proof. exact canon_sensitive_charge. Qed.
Theorem C11_sensitive_fragment_charge : forall to_mass m m' pre post x y, wf m -> wf m' ->
  fcharges m = pre ++ FQ x :: post -> fcharges m' = pre ++ FQ y :: post ->
  (1 < Qabs (scaled charge_noise x - scaled charge_noise y))%Q ->
  below_flush charge_noise (round_n charge_noise x) = false \/ below_flush charge_noise (round_n charge_noise y) = false ->
  canon to_mass m <> canon to_mass m'.
Proof. exact canon_sensitive_fragment_charge. Qed.
Theorem C11_flush_zone_mass_bound : forall x, (2 # 100000 <= Qabs x)%Q -> below_flush mass_noise (round_n mass_noise x) = false.
Proof. exact outside_zone_mass. Qed.
Theorem C11_flush_zone_charge_bound : forall x, (5 # 10000 <= Qabs x)%Q -> below_flush charge_noise (round_n charge_noise x) = false.
Proof. exact outside_zone_charge. Qed.

(** The validator's outcome — the stored list or ValidationError — and hence the hashed text do not depend on the listing. *)
Theorem C11_bond_listing_validated_alike : forall l l' bs, Permutation l (flip_by bs l') -> validate_bonds l = validate_bonds l'.
Proof. exact validate_bonds_listing_invariant. Qed.
Theorem C11_bond_listing_hash_invariant : forall to_mass m l l' bs s s', Permutation l (flip_by bs l') ->
  validate_bonds l = Ok s -> validate_bonds l' = Ok s' ->
  canon to_mass (with_connectivity m (Some s)) = canon to_mass (with_connectivity m (Some s')).
Proof. exact canon_bond_listing_invariant. Qed.

(** Noise through numpy's binary64 algorithm: for every rounding fl of the product that is monotone, exact on half-integers
    up to B and errs by at most u on [-B, B] (IEEE-754 round-to-nearest: B = 2^40, u = 2^-14), a value away from every
    boundary by eps + u*10^-n and the same value with noise <= eps both give the exact half-even rounding. *)
Theorem C11_np_around_noise_insensitive : forall (fl : Q -> Q) (B : Z) (u : Q),
  (forall a b, (a <= b)%Q -> (fl a <= fl b)%Q) ->
  (forall j : Z, Z.abs j <= B -> (fl (inject_Z j + (1 # 2)) == inject_Z j + (1 # 2))%Q) ->
  (forall s, (Qabs s <= inject_Z B)%Q -> (Qabs (fl s - s) <= u)%Q) ->
  forall n, 0 <= n -> forall x d eps, (0 <= eps)%Q -> (0 <= u)%Q -> (Qabs d <= eps)%Q ->
  far_from_boundary n (eps + u / inject_Z (pow10 n))%Q x ->
  (Qabs (x * inject_Z (pow10 n)) <= inject_Z (B - 2))%Q -> (Qabs ((x + d) * inject_Z (pow10 n)) <= inject_Z (B - 2))%Q ->
  rint (fl ((x + d) * inject_Z (pow10 n))%Q) = round_n n x /\ rint (fl (x * inject_Z (pow10 n))%Q) = round_n n x.
Proof. exact np_around_noise_insensitive. Qed.

(** The executable binary64 rounding fl64 (compared with the machine's multiplication on every run) errs by at most 2^-13 on
    [-2^40, 2^40]; so, with no hypothesis on the rounding left, float_prep computed by numpy's algorithm rint(fl64(x*10^n)) does
    not see noise <= 1e-10 on a value 1e-10 + 2^-13*10^-n away from every boundary, and equals the exact model there. *)
Theorem C11_fl64_error : forall s, (Qabs s <= inject_Z (2 ^ 40))%Q -> (Qabs (fl64 s - s) <= 1 # 8192)%Q.
Proof. exact fl64_err. Qed.
Theorem C11_noise_insensitive_binary64 : forall n x d, 0 <= n ->
  (Qabs d <= noise_eps)%Q -> far_from_boundary n (noise_eps + u64 / inject_Z (pow10 n))%Q x ->
  (Qabs (x * inject_Z (pow10 n)) <= inject_Z (2 ^ 40))%Q -> (Qabs ((x + d) * inject_Z (pow10 n)) <= inject_Z (2 ^ 40))%Q ->
  prep_arr64 n (FQ (x + d)) = prep_arr64 n (FQ x) /\ prep_arr64 n (FQ x) = prep_arr n (FQ x).
Proof. exact prep_arr64_noise_insensitive. Qed.

(** The executable binary64 rounding never crosses a half-integer on [-2^40, 2^40] (every half-integer is a point of its grid
    there): the two hypotheses of C11_np_around_exact hold of fl64 in the only form the proof uses them. *)
Theorem C11_fl64_keeps_half : forall s (j : Z), (Qabs s <= inject_Z (2 ^ 40))%Q ->
  ((inject_Z j + (1 # 2) <= s)%Q -> (inject_Z j + (1 # 2) <= fl64 s)%Q)
  /\ ((s <= inject_Z j + (1 # 2))%Q -> (fl64 s <= inject_Z j + (1 # 2))%Q).
Proof. exact fl64_keeps_half. Qed.

(** ... hence numpy's around computed with fl64 is the exact half-even rounding of the exact product unless the binary64 product is
    itself a half-integer, with no hypothesis on the rounding left; and float_prep's binary64 variant equals the exact model there. *)
Theorem C11_np_around_exact_binary64 : forall n x, (Qabs (x * inject_Z (pow10 n)) <= inject_Z (2 ^ 40))%Q ->
  ~ is_half (fl64 (x * inject_Z (pow10 n))) -> around64 n x = round_n n x.
Proof. exact around64_exact. Qed.
Theorem C11_prep_arr64_exact : forall n x, 0 <= n -> (Qabs (x * inject_Z (pow10 n)) <= inject_Z (2 ^ 40))%Q ->
  ~ is_half (fl64 (x * inject_Z (pow10 n))) -> prep_arr64 n (FQ x) = prep_arr n (FQ x).
Proof. exact prep_arr64_exact. Qed.

(** The exceptional set: numpy's result differs from the exact rounding only for values whose exact product lies within the
    rounding error 2^-13 of a tie (the harness' near-tie exclusion of 1e-3 units contains it). *)
Theorem C11_np_around_differs_only_near_tie : forall n x, (Qabs (x * inject_Z (pow10 n)) <= inject_Z (2 ^ 40))%Q ->
  around64 n x <> round_n n x ->
  exists j : Z, (Qabs (x * inject_Z (pow10 n) - (inject_Z j + (1 # 2))) <= 1 # 8192)%Q.
Proof. exact around64_differs_only_near_tie. Qed.

(** A bond list stored as given (it did not pass the validator): the hashed text is equal exactly when the listings are equal item by
    item (bond orders as reduced fractions) — so == and the hash coincide on such molecules too, but the listing is visible. *)
Theorem C11_stored_listing_hash_eq_iff : forall to_mass m s s', wf m ->
  (canon to_mass (with_connectivity m (Some s)) = canon to_mass (with_connectivity m (Some s')) <-> listed_as_given s = listed_as_given s').
Proof. exact stored_listing_hash_eq_iff. Qed.

(** ... and therefore "independent of the order and orientation in which bonds are listed" fails for a stored-as-given list (water,
    bonds (0,1),(0,2) against (2,0),(1,0)), although the two validated lists hash alike: known finding C11-text-keyword-bonds-unvalidated. *)
Theorem C11_stored_listing_visible_refuted :
  exists to_mass m l l' bs, Permutation l (flip_by bs l') /\ canon_bonds l = canon_bonds l'
    /\ canon to_mass (with_connectivity m (Some l)) <> canon to_mass (with_connectivity m (Some l'))
    /\ canon to_mass (with_connectivity m (Some (canon_bonds l))) = canon to_mass (with_connectivity m (Some (canon_bonds l'))).
Proof. exact stored_listing_visible_refuted. Qed.

(** Non-vacuity.  Water cation with two bonds listed in two ways, a -0.0, a sub-unit coordinate, defaulted and
    explicit fields. *)
Definition bd (a b n : Z) (d : positive) : bond := (a, b, Qmake n d).
Definition ex_tm (s : string) : fl :=
  if String.eqb s "H" then FQ (1007825 # 1000000) else FQ (15994915 # 1000000).
Definition ex_m (conn : list bond) : mol :=
  {| symbols := ["H"; "O"; "H"]%string; masses_ := None; mcharge := FQ 1; mmult := 2; real_ := None;
     geometry := [FQ 0; FQ 0; FNegZero; FQ 0; FQ (123456789 # 1000000000); FQ (3 # 2); FQ (3 # 10); FQ (-5 # 4); FQ (-1 # 1000000000)];
     fragments_ := None; fcharges_ := None; fmults_ := None; connectivity_ := Some conn; others := ["water"%string] |}.
Example C11_ex_bonds :
  canon_bonds [bd 1 0 1 1; bd 2 1 3 2; bd 1 3 2 2] = canon_bonds [bd 3 1 1 1; bd 1 2 6 4; bd 0 1 1 1]
  /\ Permutation [bd 1 0 1 1; bd 2 1 3 2; bd 1 3 1 1]
                 (flip_by [true; true; true] [bd 3 1 1 1; bd 1 2 3 2; bd 0 1 1 1])
  /\ canon_bonds [bd 1 0 1 1; bd 2 1 3 2; bd 1 3 1 1] = [bd 0 1 1 1; bd 1 2 3 2; bd 1 3 1 1].
Proof.
  split; [vm_compute; reflexivity|]. split; [|vm_compute; reflexivity].
  simpl. apply Permutation_rev with (l := [bd 1 0 1 1; bd 2 1 3 2; bd 1 3 1 1]).
Qed.
Example C11_ex_canon :
  wf (ex_m [bd 0 1 1 1; bd 1 2 3 2]) /\ wf (explicit ex_tm (ex_m [bd 0 1 1 1; bd 1 2 3 2]))
  /\ canon ex_tm (ex_m [bd 0 1 1 1; bd 1 2 3 2]) = canon ex_tm (explicit ex_tm (ex_m [bd 0 1 2 2; bd 1 2 3 2]))
  /\ canon ex_tm (ex_m [bd 0 1 1 1; bd 1 2 3 2]) <> canon ex_tm (ex_m [bd 0 1 1 1; bd 1 2 2 1])
  /\ List.length (canon ex_tm (ex_m [])) = 61%nat.
Proof. repeat split; try (vm_compute; reflexivity). vm_compute. discriminate. Qed.
Example C11_ex_noise :
  far_from_boundary 8 noise_eps (123456789 # 1000000000) /\ prep_arr 8 (FQ ((123456789 # 1000000000) + (1 # 10000000000))) = 12345679
  /\ below_flush 8 (round_n 8 (-6 # 10000000)) = false /\ prep_arr 8 (FQ (-6 # 10000000)) = -60 /\ prep_arr 8 (FQ (4 # 10000000)) = 0.
Proof.
  split; [|repeat split; vm_compute; reflexivity].
  intros j. unfold scaled, noise_eps. change (inject_Z (pow10 8)) with (100000000 # 1)%Q.
  assert (E : ((123456789 # 1000000000) * (100000000 # 1) - (inject_Z j + (1 # 2)) == inject_Z (12345678 - j) + (4 # 10))%Q).
  { unfold Zminus. rewrite inject_Z_plus, inject_Z_opp. change (inject_Z 12345678) with (12345678 # 1)%Q. field. }
  rewrite E. set (K := inject_Z (12345678 - j)).
  destruct (Z_lt_le_dec (12345678 - j) 0) as [L|L].
  - assert (LK : (K <= -1 # 1)%Q). { change (-1 # 1)%Q with (inject_Z (-1)). unfold K. rewrite <- Zle_Qle. lia. }
    apply Qabs_case; intros; lra.
  - assert (LK : (0 <= K)%Q). { change 0%Q with (inject_Z 0). unfold K. rewrite <- Zle_Qle. exact L. }
    apply Qabs_case; intros; lra.
Qed.

(* the exceptional set is hit by doubles written as decimal ties: 0.015 is 0.01499999999999999944... as a double (below the
   tie at 2 decimals) but 0.015 * 100 rounds to 1.5 exactly in binary64, so numpy gives 0.02 (tie to even) where the exact
   value rounds to 0.01; likewise 1.442725105 at 8 decimals; a generic value agrees *)
Example C11_ex_around64 :
  around64 2 (1080863910568919 # 72057594037927936) = 2 /\ round_n 2 (1080863910568919 # 72057594037927936) = 1
  /\ is_half (fl64 ((1080863910568919 # 72057594037927936) * inject_Z (pow10 2)))
  /\ around64 8 (1624364061319015 # 1125899906842624) = 144272510 /\ round_n 8 (1624364061319015 # 1125899906842624) = 144272511
  /\ around64 8 (123456789 # 1000000000) = round_n 8 (123456789 # 1000000000).
Proof.
  split; [vm_compute; reflexivity|]. split; [vm_compute; reflexivity|]. split; [exists 1; vm_compute; reflexivity|].
  repeat split; vm_compute; reflexivity.
Qed.

(* the molecule-level noise relation on the example's geometry: a -0.0 against +0.0, 1e-10 noise on 0.123456789, -1e-9 against 4e-9 *)
Example C11_ex_noise_molecule :
  Forall2 (same_after_noise geometry_noise noise_eps)
          [FNegZero; FQ (123456789 # 1000000000); FQ (-1 # 1000000000)]
          [FQ 0; FQ (1234567891 # 10000000000); FQ (4 # 1000000000)].
Proof.
  constructor; [apply san_zero_l; vm_compute; reflexivity|].
  constructor; [apply san_noise; [vm_compute; discriminate|apply C11_ex_noise]|].
  constructor; [apply san_tiny; vm_compute; reflexivity|constructor].
Qed.
(* the hypotheses of C11_np_around_noise_insensitive are jointly satisfiable (exact arithmetic: u = 0) *)
Example C11_ex_fl_hypotheses :
  (forall a b, (a <= b)%Q -> ((fun s : Q => s) a <= (fun s : Q => s) b)%Q)
  /\ (forall j : Z, Z.abs j <= 2 ^ 40 -> ((fun s : Q => s) (inject_Z j + (1 # 2)) == inject_Z j + (1 # 2))%Q)
  /\ (forall s, (Qabs s <= inject_Z (2 ^ 40))%Q -> (Qabs ((fun s : Q => s) s - s) <= 0)%Q).
Proof.
  split; [intros a b H; exact H|]. split; [intros j _; reflexivity|].
  intros s _. assert (E : (s - s == 0)%Q) by ring. rewrite E. apply Qle_refl.
Qed.
Example C11_ex_bond_error : validate_bonds [bd 0 1 11 2] = Err Validation /\ validate_bonds [bd 1 0 11 2] = Err Validation
  /\ validate_bonds [bd 1 0 1 1; bd 2 1 3 2] = Ok [bd 0 1 1 1; bd 1 2 3 2].
Proof. repeat split; vm_compute; reflexivity. Qed.

Example C11_ex_noise64 :
  far_from_boundary 8 (noise_eps + u64 / inject_Z (pow10 8))%Q (123456789 # 1000000000)
  /\ (Qabs ((123456789 # 1000000000) * inject_Z (pow10 8)) <= inject_Z (2 ^ 40))%Q
  /\ prep_arr64 8 (FQ ((123456789 # 1000000000) + (1 # 10000000000))) = 12345679.
Proof.
  split; [|split; vm_compute; [discriminate|reflexivity]].
  intros j. unfold scaled. change (inject_Z (pow10 8)) with (100000000 # 1)%Q.
  assert (M : ((noise_eps + u64 / (100000000 # 1)) * (100000000 # 1) <= 2 # 100)%Q) by (vm_compute; discriminate).
  assert (E : ((123456789 # 1000000000) * (100000000 # 1) - (inject_Z j + (1 # 2)) == inject_Z (12345678 - j) + (4 # 10))%Q).
  { unfold Zminus. rewrite inject_Z_plus, inject_Z_opp. change (inject_Z 12345678) with (12345678 # 1)%Q. field. }
  rewrite E. set (K := inject_Z (12345678 - j)). set (MM := ((noise_eps + u64 / (100000000 # 1)) * (100000000 # 1))%Q) in *.
  destruct (Z_lt_le_dec (12345678 - j) 0) as [L|L].
  - assert (LK : (K <= -1 # 1)%Q). { change (-1 # 1)%Q with (inject_Z (-1)). unfold K. rewrite <- Zle_Qle. lia. }
    apply Qabs_case; intros; lra.
  - assert (LK : (0 <= K)%Q). { change 0%Q with (inject_Z 0). unfold K. rewrite <- Zle_Qle. exact L. }
    apply Qabs_case; intros; lra.
Qed.

(** Non-vacuity of C11_np_around_exact_binary64: the double nearest 0.123456789012 satisfies both hypotheses (its binary64 product
    with 1e8 is not a half-integer), and numpy's algorithm gives 12345679 units. *)
Example C11_ex_around64_exact :
  let x := (4447999591926409 # 36028797018963968)%Q in
  (Qabs (x * inject_Z (pow10 8)) <= inject_Z (2 ^ 40))%Q
  /\ ~ is_half (fl64 (x * inject_Z (pow10 8)))
  /\ around64 8 x = 12345679 /\ round_n 8 x = 12345679.
Proof.
  cbv zeta. split; [|split; [|split]].
  - vm_compute. discriminate.
  - intros [j H]. remember (fl64 _) as v eqn:Ev in H. vm_compute in Ev. subst v.
    unfold Qeq, Qplus, inject_Z in H. simpl Qnum in H. simpl Qden in H. lia.
  - vm_compute. reflexivity.
  - vm_compute. reflexivity.
Qed.
Example C11_ex_stored_listing : listed_as_given [sbd 0 1 2 2; sbd 0 2 1 1] = [sbd 0 1 1 1; sbd 0 2 1 1]
  /\ listed_as_given [sbd 2 0 1 1; sbd 1 0 1 1] <> listed_as_given [sbd 0 1 1 1; sbd 0 2 1 1]
  /\ wf stored_water.
Proof. split; [|split]; vm_compute; [reflexivity|discriminate|reflexivity]. Qed.

Print Assumptions C11_canon_complete.
Print Assumptions C11_canon_injective.
Print Assumptions C11_canon_injective_without_wf_refuted.
Print Assumptions C11_hash_eq_iff_agree.
Print Assumptions C11_independent_of_route.
Print Assumptions C11_independent_of_non_hash_fields.
Print Assumptions C11_noise_insensitive.
Print Assumptions C11_signed_zero_insensitive.
Print Assumptions C11_tiny_is_zero.
Print Assumptions C11_np_around_exact.
Print Assumptions C11_np_around_exact_far.
Print Assumptions C11_prep_arr64_agrees.
Print Assumptions C11_prep_idempotent.
Print Assumptions C11_sensitive.
Print Assumptions C11_sensitive_scalar.
Print Assumptions C11_flush_zone_geometry_bound.
Print Assumptions C11_sensitive_in_flush_zone_refuted.
Print Assumptions C11_sensitive_text.
Print Assumptions C11_sensitive_coordinate.
Print Assumptions C11_sensitive_discrete.
Print Assumptions C11_bond_order_invariant.
Print Assumptions C11_bond_canon_idempotent.
Print Assumptions C11_rounding_respects_value.
Print Assumptions C11_noise_insensitive_molecule.
Print Assumptions C11_prerounding_invisible.
Print Assumptions C11_sensitive_mass.
Print Assumptions C11_sensitive_charge.
Print Assumptions C11_sensitive_fragment_charge.
Print Assumptions C11_flush_zone_mass_bound.
Print Assumptions C11_flush_zone_charge_bound.
Print Assumptions C11_bond_listing_validated_alike.
Print Assumptions C11_bond_listing_hash_invariant.
Print Assumptions C11_np_around_noise_insensitive.
Print Assumptions C11_fl64_error.
Print Assumptions C11_noise_insensitive_binary64.
Print Assumptions C11_fl64_keeps_half.
Print Assumptions C11_np_around_exact_binary64.
Print Assumptions C11_prep_arr64_exact.
Print Assumptions C11_np_around_differs_only_near_tie.
Print Assumptions C11_stored_listing_hash_eq_iff.
Print Assumptions C11_stored_listing_visible_refuted.
