(** C19 — The comparison helpers pass exactly when values agree within tolerance.
    Property theorems only; each is closed by [exact] of a lemma from Proofs/Compare*.v.
    Model: Model/Compare.v (compare_values, compare, _compare_recursive = [cmp_rec], compare_recursive,
    compare_molrecs, ProtoModel.compare, _handle_return) with binary64 leaves as kernel primitive floats.
    The structural theorems use no fact about the float primitives: the closeness tests [isclose_f]/[isclose_c]
    (numpy's formula, one binary64 operation per step) appear in the statements as they are, and are tied to numpy
    bit-exactly by the correspondence; C19_isclose_real_band, C19_modulus_model_error, C19_nan_only_on_request and
    C19_complex_real_axis_is_real_rule relate them to the rule of the property (FloatAxioms / Flocq).
    Gen/CompareGlue.v is regenerated from qcelemental/testing.py on every run (harness/translate/cmpglue.py); the
    C19_glue_* theorems prove "generated = hand model" for all inputs.

    CLAUSE MAP (statement of C19 in properties.jsonl -> theorems; "corr" = differential correspondence + Python oracle)
    S1 numeric comparison True <-> same shape and every element within atol + rtol*|expected|
         C19_compare_values_spec (True, exactly), C19_compare_values_false_spec (False, exactly), C19_compare_values_total,
         C19_compare_values_raise_spec / _raises_only (the only exception: unusable atol, outside the quantifier),
         C19_ragged_is_false; the operands/keywords of np.isclose as the code passes them: C19_glue_isclose_calls
       the inequality over the reals:  C19_isclose_real_band (real data, band of relative width 2^-51 around the edge),
         C19_u64_value; complex data: C19_complex_real_axis_is_real_rule (zero imaginary parts: the real rule, all inputs),
         C19_modulus_model_error (modulus off the axes) -- the band for complex data off the axes is NOT a theorem (corr,
         judged >= 2^-46 from the edge)
       NaNs equal only on request: C19_nan_only_on_request (all inputs)
       sign flip only on request: C19_compare_values_no_phase_spec (equal_phase off: True <-> all close); on request the
         second disjunct of C19_compare_values_spec
       real and complex data / dtype choice: C19_compare_values_spec (both branches), C19_complex_computed_counts
       public entry point (defaults, options): C19_glue_defaults, C19_public_verdicts, C19_options_inert
    S2 exact comparison True <-> shape and every element equal
         C19_compare_spec (True, exactly), C19_compare_false_spec (False, exactly), C19_compare_never_raises
    S3 recursive comparison True <-> key sets match minus forgiven keys and every leaf passes the applicable rule
         C19_recursive_errors_are_failing_sites (any depth/width), C19_recursive_spec, C19_recursive_spec_sites,
         C19_name_is_site, C19_no_false_pass, C19_no_false_fail, C19_recursive_raise_spec
       applicable rule per leaf type (the isinstance ladder, generated): C19_glue_ladder, C19_glue_tuple_as_list,
         C19_glue_leaf_options, C19_float_leaf_spec, C19_bool_leaf_exact
       forgiven keys (key boundaries, aa1f806): C19_forgive_key_boundary, C19_forgive_by_segments,
         C19_forgiven_by_segments, C19_forgive_descends; the match test / entry normalisation / node names as the code
         writes them: C19_glue_matching, C19_glue_compare_recursive, C19_glue_child_names
       compare_molrecs (exact mode): C19_molrecs_is_recursive, C19_molrecs_normalise_idempotent,
         C19_molrecs_version_forgiven, C19_molrecs_bond_orientation, C19_molrecs_other_keys_untouched, C19_glue_molrecs
         (relative_geoms="align": not covered);  Model.compare: C19_protomodel_compare; the model-to-dict conversion in
         front of it and call history (wave 4): C19_model_compare_history_free, C19_model_no_false_pass_after_history,
         C19_dict_leaves_shared_config, C19_dict_exclude_spec, C19_glue_model_dict (ProtoModel.dict generated);
         pydantic's BaseModel.dict itself: trusted, corr (streams dict-kwargs, model-history)
    S4 message / return-handler options do not change the verdict
         C19_options_inert, C19_handler_receives_verdict (compare_values, compare, compare_recursive),
         C19_options_inert_molrecs, C19_handler_receives_verdict_molrecs (compare_molrecs incl. quiet=(verbose == 0),
         ProtoModel.compare), C19_glue_return_sites (which verdict expression every return site hands over, and the
         positional order (return_message, quiet)), C19_public_verdicts
    Quantifier (shapes 0-3d, dtypes, perturbations at the edge, depth <= 4, forgive lists): the theorems hold for every
    shape, depth and width of the model's trees; numpy's array construction / casting is modelled and tied by corr. *)
From Coq Require Import PrimFloat ZArith List Bool String.
Require Import QV.Model.Compare QV.Proofs.Compare.
From Coq Require Import Rdefinitions Rbasic_fun R_sqrt.
Require QV.Proofs.CompareReal QV.Proofs.CompareSpecial QV.Proofs.CompareMore.
Require Import QV.Gen.CompareGlue QV.Proofs.CompareGlue.
Require Import QV.Model.ModelDict QV.Proofs.ModelDict.
Import ListNotations.
Local Open Scope string_scope.

(** compare_values returns True exactly when (passnone and both None, or) atol is usable, both inputs cast to
    arrays of the dtype chosen from the inputs (complex as soon as either is a complex object, else float), the
    shapes are equal, and every element is close ([isclose_f] / [isclose_c]: |c-e| <= atol + rtol*|e| in binary64,
    with numpy's infinities/NaNs) — or, with equal_phase, every element of the negated computed array is. *)
Theorem C19_compare_values_spec : forall o e c,
  compare_values o e c = Ok true <->
  both_none o e c = true \/
  (atol_exc (atol o) = None /\
   ((iscomplex_pair e c = Ok false /\
     Agree (close_f o) PrimFloat.opp (cv_phase o) (cast_with to_f e) (cast_with to_f c)) \/
    (iscomplex_pair e c = Ok true /\
     Agree (close_c o) neg_c (cv_phase o) (cast_with to_c e) (cast_with to_c c)))).
Proof. exact compare_values_spec. Qed.

(** the binary64 closeness test against the real-number rule of the property ([FR] = the real value of a finite
    double, through Flocq's semantics of the primitive floats): for finite inputs, non-negative tolerances and no
    overflow in the three intermediate results, [isclose_f] = true implies |c-e| <= (T + 2^-1075)(1 + 2^-51) and
    [isclose_f] = false implies |c-e| >= (T - 2^-1074)(1 - 2^-51), where T = atol + rtol*|e| exactly
    ([u64] = 2^-53, [eta64] = 2^-1075): the verdict differs from the exact rule only inside that band *)
Theorem C19_isclose_real_band : forall atol rtol eqn c e,
  CompareReal.fin c -> CompareReal.fin e -> CompareReal.fin atol -> CompareReal.fin rtol ->
  (0 <= CompareReal.FR atol)%R -> (0 <= CompareReal.FR rtol)%R ->
  CompareReal.fin (c - e)%float -> CompareReal.fin (rtol * abs e)%float ->
  CompareReal.fin (atol + rtol * abs e)%float ->
  let D := Rbasic_fun.Rabs (CompareReal.FR c - CompareReal.FR e)%R in
  let T := (CompareReal.FR atol + CompareReal.FR rtol * Rbasic_fun.Rabs (CompareReal.FR e))%R in
  (isclose_f atol rtol eqn c e = true -> (D <= (T + CompareReal.eta64) * (1 + 4 * CompareReal.u64))%R) /\
  (isclose_f atol rtol eqn c e = false -> ((T - 2 * CompareReal.eta64) * (1 - 4 * CompareReal.u64) <= D)%R).
Proof. exact CompareReal.isclose_f_band. Qed.

Theorem C19_u64_value : CompareReal.u64 = (/ 9007199254740992)%R.
Proof. exact CompareReal.u64_val. Qed.

(** the complex modulus of the model off the axes, sqrt(re*re + im*im) in binary64, lies within (1-u)^2 .. (1+u)^2
    (u = 2^-53) of the exact sqrt(re^2+im^2) when the squares neither underflow nor overflow (C hypot, which numpy
    uses, is within one ulp of the same number: the two can disagree on a verdict only within a few 2^-52 of the edge) *)
Theorem C19_modulus_model_error : forall a b,
  CompareReal.fin a -> CompareReal.fin b ->
  PrimFloat.eqb a fzero = false -> PrimFloat.eqb b fzero = false ->
  CompareReal.fin (a * a)%float -> CompareReal.fin (b * b)%float -> CompareReal.fin (a * a + b * b)%float ->
  (CompareReal.tiny64 <= CompareReal.FR a * CompareReal.FR a)%R ->
  (CompareReal.tiny64 <= CompareReal.FR b * CompareReal.FR b)%R ->
  let N := R_sqrt.sqrt (CompareReal.FR a * CompareReal.FR a + CompareReal.FR b * CompareReal.FR b)%R in
  (N * ((1 - CompareReal.u64) * (1 - CompareReal.u64)) <= CompareReal.FR (hypot a b)
   <= N * ((1 + CompareReal.u64) * (1 + CompareReal.u64)))%R.
Proof. exact CompareReal.hypot_model_error. Qed.

(** the False verdict, exactly: the inputs are not cast-able (a ragged nest met by np.iscomplexobj, or a failing
    cast), the shapes differ, or (usable atol) neither the data nor — on request — the negated data are all close *)
Theorem C19_compare_values_false_spec : forall o e c,
  compare_values o e c = Ok false <->
  both_none o e c = false /\
  ((exists k, iscomplex_pair e c = Raise k) \/
   (iscomplex_pair e c = Ok false /\ Disagree (close_f o) PrimFloat.opp o (cast_with to_f e) (cast_with to_f c)) \/
   (iscomplex_pair e c = Ok true /\ Disagree (close_c o) neg_c o (cast_with to_c e) (cast_with to_c c))).
Proof. exact compare_values_false_spec. Qed.

(** with a usable atol and castable inputs it always answers, on real and on complex data (so "not True" is
    "False": no failure when all elements agree, no exception when they do not) *)
Theorem C19_compare_values_total : forall o e c cx,
  iscomplex_pair e c = Ok cx -> atol_exc (atol o) = None ->
  (if cx then exists a b, cast_with to_c e = COk a /\ cast_with to_c c = COk b
   else exists a b, cast_with to_f e = COk a /\ cast_with to_f c = COk b) ->
  exists v, compare_values o e c = Ok v.
Proof. exact compare_values_total. Qed.

(** the only exception left is an unusable atol (<= 0, NaN, infinite: the digits of the failure message); since
    65b8c68 a ragged nest no longer raises *)
Theorem C19_compare_values_raise_spec : forall o e c k,
  compare_values o e c = Raise k -> atol_exc (atol o) = Some k.
Proof. exact compare_values_raise_spec. Qed.

(** in particular a mismatch never escapes as TypeError (repaired by 4bd9561: 0-d complex mismatches) *)
Theorem C19_compare_values_raises_only : forall o e c k,
  compare_values o e c = Raise k -> k = EValue \/ k = EOverflow.
Proof. exact compare_values_raises_only. Qed.

(** a ragged nest on either side is a cast failure: verdict False, whatever atol is (repaired by 65b8c68) *)
Theorem C19_ragged_is_false : forall o e c k,
  both_none o e c = false -> iscomplex_pair e c = Raise k -> compare_values o e c = Ok false.
Proof. exact ragged_is_false. Qed.

(** a complex computed value against a real expected one is compared as complex, so its imaginary part counts
    (repaired by 4bd9561); with the spec above this fixes the rule applied *)
Theorem C19_complex_computed_counts : forall e c,
  iscomplexobj e = Ok false -> iscomplexobj c = Ok true -> iscomplex_pair e c = Ok true.
Proof. exact complex_computed_counts. Qed.

(** compare returns True exactly when both inputs are arrays of the same shape whose elements are all equal —
    or, with equal_phase, all equal to the negated computed elements (when the dtype has a negation). *)
Theorem C19_compare_spec : forall ph e c,
  compare ph e c = Ok true <->
  exists se sc sh de dc dte dtc,
    nd_of e = (se, NdOk sh de) /\ nd_of c = (sc, NdOk sh dc) /\
    dtype_of se de = Some dte /\ dtype_of sc dc = Some dtc /\
    existsb is_sobj de = false /\ existsb is_sobj dc = false /\
    (AllEq de dc \/
     (ph = true /\ all2o de dc = Some false /\ exists ndc, neg_data dtc dc = Some ndc /\ AllEq de ndc)).
Proof. exact compare_spec. Qed.

Theorem C19_compare_never_raises : forall ph e c k, compare ph e c <> Raise k.
Proof. exact compare_never_raises. Qed.

(** the recursion, for trees of any depth and width: the error names collected are exactly the failing sites
    ([Fails]: a leaf whose rule says False, an unknown type, an unsized/length-mismatched sequence, a dict with
    extra or missing keys — found below matching keys and positions) *)
Theorem C19_recursive_errors_are_failing_sites : forall e o ph name c errs,
  cmp_rec o ph name e c = Ok errs -> forall n, In n errs <-> Fails o ph name e c n.
Proof. exact errs_iff_Fails. Qed.

(** compare_recursive returns True exactly when every failing site is excused: covered by a forgive entry, or
    selected by equal_phase while no site of that name fails in the sign-flipped comparison. *)
Theorem C19_recursive_spec : forall o e c errs,
  PrimFloat.leb fone (r_atol o) = false ->
  cmp_rec (lo_of o) false "root" e c = Ok errs ->
  (errs <> [] -> ep_truthy (r_phase o) = true -> exists nerrs, cmp_rec (lo_of o) true "root" e c = Ok nerrs) ->
  (exists b, compare_recursive o e c = Ok b) /\
  (compare_recursive o e c = Ok true <-> forall n, Fails (lo_of o) false "root" e c n -> Excused o e c n).
Proof. exact compare_recursive_spec. Qed.

(** the site-local statement (keys without dots, so that a name designates one node): True exactly when every
    node of [expected] that fails its rule is covered by a forgive entry, or is selected by equal_phase and passes
    its rule with the sign of the computed leaf flipped *)
Theorem C19_recursive_spec_sites : forall o e c errs,
  keys_nodot e ->
  PrimFloat.leb fone (r_atol o) = false ->
  cmp_rec (lo_of o) false "root" e c = Ok errs ->
  (errs <> [] -> ep_truthy (r_phase o) = true -> exists nerrs, cmp_rec (lo_of o) true "root" e c = Ok nerrs) ->
  (compare_recursive o e c = Ok true <-> forall q, FailsAt (lo_of o) false e c q -> ExcusedAt o e c q).
Proof. exact compare_recursive_spec_sites. Qed.

Theorem C19_name_is_site : forall o ph e c q,
  keys_nodot e -> Forall nodot q -> (Fails o ph "root" e c (spath q) <-> FailsAt o ph e c q).
Proof. exact name_is_site. Qed.

(** never a pass when some site fails and is not excused (no hypothesis: exceptions and unmodelled inputs are not passes) *)
Theorem C19_no_false_pass : forall o e c n,
  Fails (lo_of o) false "root" e c n -> ~ Excused o e c n -> compare_recursive o e c <> Ok true.
Proof. exact no_false_pass. Qed.

(** never a failure when no site fails *)
Theorem C19_no_false_fail : forall o e c,
  (forall n, ~ Fails (lo_of o) false "root" e c n) -> compare_recursive o e c <> Ok false.
Proof. exact no_false_fail. Qed.

Theorem C19_recursive_raise_spec : forall o e c k,
  compare_recursive o e c = Raise k ->
  (k = EValue /\ PrimFloat.leb fone (r_atol o) = true)
  \/ cmp_rec (lo_of o) false "root" e c = Raise k \/ cmp_rec (lo_of o) true "root" e c = Raise k.
Proof. exact compare_recursive_raise_spec. Qed.

(** compare_molrecs (relative_geoms="exact"): it is compare_recursive on the normalised records ... *)
Theorem C19_molrecs_is_recursive : forall o e c e' c',
  massage true e = Ok e' -> massage true c = Ok c' -> compare_molrecs o e c = compare_recursive (mol_opts o) e' c'.
Proof. exact molrecs_is_recursive. Qed.

(** ... the normalisation (fragment_files to str, fragment_separators to int, provenance version popped, bonds as
    (min, max, order) stably sorted on the first atom) is idempotent: normalising a normalised record changes
    nothing (second pass without the version pop, which by construction cannot be repeated) ... *)
Theorem C19_molrecs_normalise_idempotent : forall popv t t', massage popv t = Ok t' -> massage false t' = Ok t'.
Proof. exact massage_idempotent. Qed.

(** ... the generator version never reaches the comparison, and a bond may be listed in either direction *)
Theorem C19_molrecs_version_forgiven : forall v d,
  norm_provenance true (TDict (set_val "version" v d)) = norm_provenance true (TDict d).
Proof. exact version_forgiven. Qed.

Theorem C19_molrecs_bond_orientation : forall na nb a b bo, a <> b ->
  norm_bond (TList [TSc na (SInt a); TSc nb (SInt b); bo]) = norm_bond (TList [TSc nb (SInt b); TSc na (SInt a); bo]).
Proof. exact bond_orientation. Qed.

(** ProtoModel.compare is compare_recursive on the models' dicts *)
Theorem C19_protomodel_compare : forall o self other, protomodel_compare o self other = compare_recursive o self other.
Proof. reflexivity. Qed.

(** the rule at a float leaf: close, or close against the negation when the sign flip is on *)
Theorem C19_float_leaf_spec : forall o ph np np' e c,
  atol_exc (l_atol o) = None ->
  (leaf_ok o ph np (SFloat e) (TSc np' (SFloat c)) = Ok true <->
   (isclose_f (l_atol o) (l_rtol o) false c e = true
    \/ (ph = true /\ isclose_f (l_atol o) (l_rtol o) false (PrimFloat.opp c) e = true))) /\
  (exists b, leaf_ok o ph np (SFloat e) (TSc np' (SFloat c)) = Ok b).
Proof. exact float_leaf_spec. Qed.

(** key boundaries (repaired by aa1f806): for keys without dots, an entry covers a node name exactly when its
    keys are an initial segment — as whole keys — of the keys leading to the node *)
Theorem C19_forgive_key_boundary : forall p q, Forall nodot p -> Forall nodot q ->
  (matches (spath p) (spath q) = true <-> exists r, q = (p ++ r)%list).
Proof. exact matches_boundary. Qed.

Theorem C19_forgive_by_segments : forall o ph e c n fg,
  keys_nodot e -> Forall nodot fg -> Fails o ph "root" e c n ->
  exists q, n = spath q /\ (matches (spath fg) n = true <-> exists r, q = (fg ++ r)%list).
Proof. exact forgive_by_segments. Qed.

(** ... hence, when the normalised forgive entries name the nodes [segs], a node is forgiven exactly when one of
    them is an initial segment of its keys *)
Theorem C19_forgiven_by_segments : forall o q (segs : list (list string)),
  map rootify (forgive o) = map spath segs -> Forall (Forall nodot) segs -> Forall nodot q ->
  (forgiven o (spath q) = true <-> exists ks r, In ks segs /\ q = (ks ++ r)%list).
Proof. exact forgiven_by_segments. Qed.

(** forgiving a node forgives everything below it *)
Theorem C19_forgive_descends : forall fg name k, matches fg name = true -> matches fg (child name k) = true.
Proof. exact matches_descends. Qed.

(** quiet / return_message do not affect the verdict; a custom return_handler receives exactly the verdict *)
Theorem C19_options_inert : forall ro,
  (forall o e c, verdict_of (compare_values_full handle_return ro o e c) = compare_values o e c) /\
  (forall ph e c, verdict_of (compare_full handle_return ro ph e c) = compare ph e c) /\
  (forall o e c, verdict_of (compare_recursive_full handle_return ro o e c) = compare_recursive o e c).
Proof. exact options_inert. Qed.

Theorem C19_handler_receives_verdict : forall (R : Type) (H : bool -> ropts -> R) ro,
  (forall o e c b, compare_values o e c = Ok b -> compare_values_full H ro o e c = Ok (H b ro)) /\
  (forall ph e c b, compare ph e c = Ok b -> compare_full H ro ph e c = Ok (H b ro)) /\
  (forall o e c b, compare_recursive o e c = Ok b -> compare_recursive_full H ro o e c = Ok (H b ro)).
Proof. intros R H ro. exact (handler_receives_verdict H ro). Qed.

(** bool and numpy.bool_ leaves are exact leaves (repaired by f568480: np.bool_ used to be "not understood") *)
Theorem C19_bool_leaf_exact : forall o ph np b c, leaf_ok o ph np (SBool b) c = exact_ok (SBool b) c.
Proof. exact leaf_bool_rule. Qed.

(* ------------------------------------------------------------------------------------------ *)
(** Wave 3: companions closing the clause map *)

(** without equal_phase no sign flip is ever allowed: True exactly when (passnone-both-None or) the casts succeed with
    equal shapes and every element is close *)
Theorem C19_compare_values_no_phase_spec : forall o e c, cv_phase o = false ->
  (compare_values o e c = Ok true <->
   both_none o e c = true \/
   (atol_exc (atol o) = None /\
    ((iscomplex_pair e c = Ok false /\
      exists sh de dc, cast_with to_f e = COk (sh, de) /\ cast_with to_f c = COk (sh, dc) /\ Close (close_f o) dc de) \/
     (iscomplex_pair e c = Ok true /\
      exists sh de dc, cast_with to_c e = COk (sh, de) /\ cast_with to_c c = COk (sh, dc) /\ Close (close_c o) dc de)))).
Proof. exact CompareMore.no_phase_spec. Qed.

(** NaNs are equal only on request: when either side is NaN the binary64 test is true exactly when equal_nan is set and
    both are NaN, whatever the tolerances *)
Theorem C19_nan_only_on_request : forall atol rtol eqn c e,
  PrimFloat.is_nan c = true \/ PrimFloat.is_nan e = true ->
  isclose_f atol rtol eqn c e = eqn && PrimFloat.is_nan c && PrimFloat.is_nan e.
Proof. exact CompareSpecial.isclose_f_nan. Qed.

(** complex data with zero imaginary parts (what a real element becomes when the other input is complex) are judged by
    the real rule, for all values incl. infinities and NaN; so C19_isclose_real_band applies to them *)
Theorem C19_complex_real_axis_is_real_rule : forall atol rtol eqn c e,
  isclose_c atol rtol eqn (c, fzero) (e, fzero) = isclose_f atol rtol eqn c e.
Proof. exact CompareSpecial.isclose_c_real_axis. Qed.

(** the False verdict of the exact comparison, exactly: a ragged nest, or both inputs are arrays and the shapes differ or
    some element differs (and, with equal_phase, the dtype has no negation or some element differs from the negated one) *)
Theorem C19_compare_false_spec : forall ph e c,
  compare ph e c = Ok false <->
  snd (nd_of e) = NdRagged \/
  (exists she de, snd (nd_of e) = NdOk she de /\
     (snd (nd_of c) = NdRagged \/
      exists shc dc dte dtc,
        snd (nd_of c) = NdOk shc dc /\ dtype_of (fst (nd_of e)) de = Some dte /\ dtype_of (fst (nd_of c)) dc = Some dtc /\
        existsb is_sobj de = false /\ existsb is_sobj dc = false /\
        (she <> shc \/
         (she = shc /\ all2o de dc = Some false /\
          (ph = false \/ neg_data dtc dc = None \/ exists ndc, neg_data dtc dc = Some ndc /\ all2o de ndc = Some false))))).
Proof. exact CompareMore.compare_false_spec. Qed.

(** the keyword defaults in the source are the documented ones: atol = 1e-6, rtol = 1e-16 (as binary64), every flag off,
    verbose = 1, relative_geoms = "exact" *)
Theorem C19_glue_defaults :
  gen_values_defaults = doc_cvopts /\ gen_values_ropts = doc_ropts /\
  gen_compare_phase = false /\ gen_compare_ropts = doc_ropts /\
  gen_rec_defaults = doc_cropts /\ gen_rec_ropts = doc_ropts /\
  gen_mol_defaults = doc_cropts /\ gen_mol_verbose = 1%Z /\ gen_mol_return_message = false /\
  gen_mol_relative_geoms = "exact".
Proof. exact defaults_documented. Qed.

(** the rule applied at a node is the one the isinstance ladder of the source selects (first matching branch, subclass
    facts of the running Python / numpy) for the node's type: str / int / bool / complex / np.bool_ (and their numpy
    subclasses np.str_, np.complex128) exact; list / tuple elementwise; dict by key sets and common keys; float / np.number
    through compare_values; ndarray through compare_values when its dtype is floating, else through compare; None by
    identity; anything else is an error *)
Theorem C19_glue_ladder : forall o ph name e c,
  cmp_rec o ph name e c =
  match gen_dispatch (pytype_of e) with
  | AExact => match e with TSc _ s => ok_errs name (exact_ok s c) | _ => Unmodelled end
  | AValues => ok_errs name (compare_values (gen_leaf_cvopts o ph) e c)
  | ANone => ok_errs name (Ok (is_none_tree c))
  | AArray => ok_errs name (match e with
                            | TArr dt _ _ => if gen_floating dt then compare_values (gen_leaf_cvopts o ph) e c else compare ph e c
                            | _ => Unmodelled
                            end)
  | ASeq => match e with
            | TList es =>
                match as_items c with
                | ItemsUnm => Unmodelled
                | ItemsNone => Ok [name]
                | Items cs => if negb (Nat.eqb (List.length es) (List.length cs)) then Ok [name]
                              else cmp_items (cmp_rec o ph) name es cs 0
                end
            | _ => Unmodelled
            end
  | ADict => match e with
             | TDict ed =>
                 match c with
                 | TDict cd => bind (cmp_keys (cmp_rec o ph) name ed cd) (fun ch => Ok (dict_head name ed cd ++ ch)%list)
                 | _ => Raise EAttribute
                 end
             | _ => Unmodelled
             end
  | AUnknown => Ok [name]
  end.
Proof. exact cmp_rec_by_ladder. Qed.

Theorem C19_glue_tuple_as_list : gen_dispatch PyTuple = gen_dispatch PyList /\ forall t, gen_isinst (pytype_of t) CBaseModel = false.
Proof. split; [exact tuple_as_list | exact no_node_is_basemodel]. Qed.

(** the inner calls pass atol, rtol and equal_phase on and leave equal_nan / passnone at compare_values' defaults *)
Theorem C19_glue_leaf_options : forall o ph, gen_leaf_cvopts o ph = cv_of o ph.
Proof. exact gen_leaf_cvopts_eq. Qed.

(** np.isclose is called as (computed, expected) with the caller's rtol / atol / equal_nan, the retry as (-computed, expected) *)
Theorem C19_glue_isclose_calls : forall o cs es cs' es',
  judge (close_f o) PrimFloat.opp (cv_phase o) cs es =
    (if all2 (gen_close_f o) cs es then true else if cv_phase o then all2 (gen_retry_f o) cs es else false) /\
  judge (close_c o) neg_c (cv_phase o) cs' es' =
    (if all2 (gen_close_c o) cs' es' then true else if cv_phase o then all2 (gen_retry_c o) cs' es' else false).
Proof. exact judge_by_generated_calls. Qed.

Theorem C19_glue_matching :
  (forall s, gen_rootify_fg s = rootify s) /\ (forall s, gen_rootify_ep s = rootify s) /\
  (forall fg n, gen_matches_fg fg n = matches fg n) /\ (forall fg n, gen_matches_ep fg n = matches fg n) /\
  (forall a, gen_refuse_atol a = PrimFloat.leb fone a).
Proof. exact matching_generated. Qed.

Theorem C19_glue_compare_recursive : forall o e c,
  compare_recursive o e c =
  if gen_refuse_atol (r_atol o) then Raise EValue
  else
    bind (cmp_rec (lo_of o) false "root" e c) (fun errs =>
    bind (if negb (is_nil errs) && ep_truthy (r_phase o) then
            bind (cmp_rec (lo_of o) true "root" e c) (fun nerrs =>
            Ok (prune (fun n => existsb (fun ep => gen_matches_ep ep n)
                                        (match r_phase o with
                                         | EpBool true => errs | EpBool false => [] | EpList l => map gen_rootify_ep l
                                         end)
                                && negb (smem n nerrs)) errs))
          else Ok errs) (fun errs1 =>
    Ok (is_nil (prune (fun n => existsb (fun fg => gen_matches_fg fg n) (map gen_rootify_fg (forgive o))) errs1)))).
Proof. exact compare_recursive_by_generated. Qed.

Theorem C19_glue_child_names : forall name key, gen_child name key = child name key.
Proof. exact gen_child_eq. Qed.

Theorem C19_glue_return_sites :
  gen_values_returns = [RTrue; RFalse; RFalse; RAllclose] /\
  gen_compare_returns = [RFalse; RFalse; RAllclose] /\
  gen_rec_returns = [RNoErrors].
Proof. exact return_sites. Qed.

Theorem C19_glue_molrecs :
  gen_massage_keys = ["fragment_files"; "fragment_separators"; "provenance"; "connectivity"] /\
  gen_mol_forward = ["atol"; "forgive"; "rtol"] /\
  (forall (R : Type) (H : bool -> ropts -> R) v rm o e c,
     compare_molrecs_full H v rm o e c =
     with_handler H {| quiet := gen_mol_quiet v; return_message := rm |} (compare_molrecs o e c)).
Proof. exact molrecs_glue. Qed.

(** a key the normalisation does not name reaches the comparison untouched *)
Theorem C19_molrecs_other_keys_untouched : forall popv k v r,
  smem k gen_massage_keys = false ->
  massage_items popv ((k, v) :: r) = bind (massage_items popv r) (fun r' => Ok ((k, v) :: r')).
Proof. exact massage_other_keys. Qed.

Theorem C19_options_inert_molrecs : forall v rm ro,
  (forall o e c, verdict_of (compare_molrecs_full handle_return v rm o e c) = compare_molrecs o e c) /\
  (forall o e c, verdict_of (protomodel_compare_full handle_return ro o e c) = protomodel_compare o e c).
Proof. exact options_inert_molrecs. Qed.

Theorem C19_handler_receives_verdict_molrecs : forall (R : Type) (H : bool -> ropts -> R) v rm ro,
  (forall o e c b, compare_molrecs o e c = Ok b ->
     compare_molrecs_full H v rm o e c = Ok (H b {| quiet := Z.eqb v 0; return_message := rm |})) /\
  (forall o e c b, protomodel_compare o e c = Ok b -> protomodel_compare_full H ro o e c = Ok (H b ro)).
Proof. intros R H v rm ro. exact (handler_receives_verdict_molrecs H v rm ro). Qed.

(** every public entry point with the default handler: a value whose verdict is b comes back exactly when the core says b
    (so each specification above is a specification of what the caller receives, whatever quiet / return_message / verbose) *)
Theorem C19_public_verdicts : forall ro v rm b,
  (forall o e c, (exists r, compare_values_full handle_return ro o e c = Ok r /\ ret_verdict r = b) <-> compare_values o e c = Ok b) /\
  (forall ph e c, (exists r, compare_full handle_return ro ph e c = Ok r /\ ret_verdict r = b) <-> compare ph e c = Ok b) /\
  (forall o e c, (exists r, compare_recursive_full handle_return ro o e c = Ok r /\ ret_verdict r = b) <-> compare_recursive o e c = Ok b) /\
  (forall o e c, (exists r, compare_molrecs_full handle_return v rm o e c = Ok r /\ ret_verdict r = b) <-> compare_molrecs o e c = Ok b) /\
  (forall o e c, (exists r, protomodel_compare_full handle_return ro o e c = Ok r /\ ret_verdict r = b) <-> compare_recursive o e c = Ok b).
Proof. exact public_verdicts. Qed.

(** Model-to-dict conversion and call history (Model/ModelDict.v: ProtoModel.dict / serialize / json with the class-level
    exclude set that every model class shares carried as explicit state).
    Any number of earlier conversions — on any models of any classes, with any exclude= / exclude_unset= — leave that
    shared set as they found it *)
Theorem C19_dict_leaves_shared_config : forall h s, after_history s h = s.
Proof. exact after_history_unchanged. Qed.

(** a name is excluded from ONE conversion exactly when that call's exclude= names it or the shared set holds it *)
Theorem C19_dict_exclude_spec : forall s cf kw x,
  smem x (fst (fst (pm_dict_kwargs s cf kw))) = smem x (or_empty (kw_exclude kw)) || smem x s.
Proof. exact dict_exclude_spec. Qed.

(** Model.compare / compare_recursive on two models after ANY history is the comparison of all their fields (for a
    class whose own Config skips defaults: all explicitly set fields): no field is dropped because of earlier calls *)
Theorem C19_model_compare_history_free : forall h o fa fb a b,
  protomodel_compare_after h o fa fb a b = protomodel_compare o (visible fa a) (visible fb b).
Proof. exact model_compare_history_free. Qed.

(** ... so a failing site that is not excused is never passed, whatever was called before *)
Theorem C19_model_no_false_pass_after_history : forall h o fa fb a b n,
  Fails (lo_of o) false "root" (visible fa a) (visible fb b) n -> ~ Excused o (visible fa a) (visible fb b) n ->
  protomodel_compare_after h o fa fb a b <> Ok true.
Proof. exact model_no_false_pass_after_history. Qed.

(** the statements of ProtoModel.dict as generated from basemodels.py (the exclude expression built with `|`, the
    exclude_unset default and override, nothing modified in place), the Config defaults and serialize's forwarding
    are the hand model *)
Theorem C19_glue_model_dict :
  (forall s cf kw, pm_dict_kwargs s cf kw = ((gen_dict_exclude s kw, gen_dict_exclude_unset cf kw), gen_dict_shared_after s kw))
  /\ gen_shared0 = shared0 /\ gen_protoflags0 = protoflags0
  /\ (forall ex eu, gen_serialize_kw ex eu = serialize_kw ex eu)
  /\ gen_serialize_forwards = ["include"; "exclude"; "exclude_unset"; "exclude_defaults"; "exclude_none"].
Proof. exact glue_model_dict. Qed.

(* ------------------------------------------------------------------------------------------ *)
(** Non-vacuity and regression examples (kernel evaluation of the model, binary64 by the kernel primitives). *)

Definition o6 : cvopts :=     (* atol = 1e-6, rtol = 1e-16 (the defaults) *)
  {| atol := 0x1.0c6f7a0b5ed8dp-20; rtol := 0x1.cd2b297d889bcp-54; equal_nan := false; cv_phase := false; passnone := false |}.
Definition r6 (fg : list string) (ep : epopt) : cropts :=
  {| r_atol := 0x1.0c6f7a0b5ed8dp-20; r_rtol := 0x1.cd2b297d889bcp-54; forgive := fg; r_phase := ep |}.
Definition fl (x : float) : tree := TSc false (SFloat x).

(** at the edge: 1 + 1e-6 rounds to 0x1.000010c6f7a0cp+0, whose distance to 1 exceeds 1e-6 by rounding; the
    double just below it is inside *)
Example C19_ex_edge :
  compare_values o6 (fl 1) (fl 0x1.000010c6f7a0bp+0) = Ok true /\
  compare_values o6 (fl 1) (fl 0x1.000010c6f7a0cp+0) = Ok false /\
  compare_values o6 (TList [fl 1; fl 2]) (TList [fl (-1); fl (-2)]) = Ok false /\
  compare_values {| atol := atol o6; rtol := rtol o6; equal_nan := false; cv_phase := true; passnone := false |}
                 (TList [fl 1; fl 2]) (TList [fl (-1); fl (-2)]) = Ok true /\
  compare_values o6 (fl nan) (fl nan) = Ok false /\
  compare_values o6 (TList [fl 1; fl 2]) (TList [TList [fl 1; fl 2]]) = Ok false /\
  compare_values o6 (TSc false (SCplx 1 1)) (TSc false (SCplx 1 1)) = Ok true.          (* fixed by 6704f4a *)
Proof. repeat split. Qed.

(** the old failing inputs of aa1f806: forgive=["geom"] no longer forgives "geometry"; overlapping entries no
    longer remove one error twice *)
Definition geo_e := TDict [("geometry", TList [fl 1]); ("geom", TList [fl 1])].
Definition geo_c := TDict [("geometry", TList [fl 2]); ("geom", TList [fl 1])].
Definition ab_e := TDict [("a", TDict [("b", fl 1)])].
Definition ab_c := TDict [("a", TDict [("b", fl 2)])].
Example C19_ex_fixed_forgive :
  compare_recursive (r6 ["geom"] (EpBool false)) geo_e geo_c = Ok false /\
  compare_recursive (r6 ["geometry"] (EpBool false)) geo_e geo_c = Ok true /\
  compare_recursive (r6 ["a"; "a.b"] (EpBool false)) ab_e ab_c = Ok true /\
  cmp_rec (lo_of (r6 [] (EpBool false))) false "root" geo_e geo_c = Ok ["root.geometry.0"] /\
  matches (spath ["geom"]) (spath ["geometry"; "0"]) = false /\
  matches (spath ["geometry"]) (spath ["geometry"; "0"]) = true.
Proof. repeat split. Qed.

(** the hypotheses of C19_recursive_spec are met, and both sides are true, on a depth-3 example with a sign flip *)
Definition ph_e := TDict [("a", TDict [("b", fl 1)]); ("c", fl 2)].
Definition ph_c := TDict [("a", TDict [("b", fl (-1))]); ("c", fl 2)].
Example C19_ex_recursive_hyps :
  PrimFloat.leb fone (r_atol (r6 [] (EpList ["a"]))) = false /\
  cmp_rec (lo_of (r6 [] (EpList ["a"]))) false "root" ph_e ph_c = Ok ["root.a.b"] /\
  cmp_rec (lo_of (r6 [] (EpList ["a"]))) true "root" ph_e ph_c = Ok [] /\
  compare_recursive (r6 [] (EpList ["a"])) ph_e ph_c = Ok true /\
  compare_recursive (r6 [] (EpList ["c"])) ph_e ph_c = Ok false /\
  keys_nodot ph_e /\
  map rootify (forgive (r6 ["a.b"; "root.c"] (EpBool false))) = map spath [["a"; "b"]; ["c"]].
Proof. repeat split; try discriminate. Qed.

(** the old failing inputs of 4bd9561 and f568480 *)
Example C19_ex_fixed_complex_npbool :
  compare_values o6 (TSc false (SCplx 1 1)) (TSc false (SCplx 1 2)) = Ok false /\
  compare_values o6 (TArr DFloat [1%nat] [SFloat 1]) (TArr DCplx [1%nat] [SCplx 1 1]) = Ok false /\
  compare_values o6 (TArr DFloat [1%nat] [SFloat 1]) (TArr DCplx [1%nat] [SCplx 1 0x1p-30]) = Ok true /\
  compare_values o6 (fl 1) (TSc false (SCplx 1 0)) = Ok true /\
  compare_recursive (r6 [] (EpBool false)) (TDict [("a", TSc true (SBool true))]) (TDict [("a", TSc true (SBool true))]) = Ok true /\
  compare_recursive (r6 [] (EpBool false)) (TDict [("a", TSc true (SBool true))]) (TDict [("a", TSc false (SBool false))]) = Ok false.
Proof. repeat split. Qed.

(** the old failing inputs of 65b8c68: ragged expected, ragged computed, at top level and as a float leaf *)
Definition ragged := TList [TList [fl 1; fl 2]; TList [fl 3]].
Definition square := TList [TList [fl 1; fl 2]; TList [fl 3; fl 4]].
Example C19_ex_fixed_ragged :
  compare_values o6 square ragged = Ok false /\
  compare_values o6 ragged ragged = Ok false /\
  compare_values {| atol := 0; rtol := 0; equal_nan := false; cv_phase := false; passnone := false |} ragged (fl 1) = Ok false /\
  iscomplex_pair ragged square = Raise EValue /\ iscomplex_pair square ragged = Raise EValue /\
  compare_recursive (r6 [] (EpBool false)) (TDict [("a", fl 1)]) (TDict [("a", ragged)]) = Ok false.
Proof. repeat split. Qed.

(** a small molecule record: version differs, one bond reversed, separators as numpy ints: equal after normalisation *)
Definition bond (a b : Z) := TList [TSc false (SInt a); TSc false (SInt b); fl 1].
Definition rec_e := TDict [("geom", TArr DFloat [3%nat] [SFloat 0; SFloat 0; SFloat 1]);
                           ("fragment_separators", TArr DInt [1%nat] [SInt 2]);
                           ("provenance", TDict [("creator", TSc false (SStr "QCElemental")); ("version", TSc false (SStr "v1"))]);
                           ("connectivity", TList [bond 0 1; bond 2 0])].
Definition rec_c := TDict [("geom", TArr DFloat [3%nat] [SFloat 0; SFloat 0; SFloat 1]);
                           ("fragment_separators", TList [TSc true (SInt 2)]);
                           ("provenance", TDict [("creator", TSc false (SStr "QCElemental")); ("version", TSc false (SStr "v2"))]);
                           ("connectivity", TList [bond 1 0; bond 0 2])].
Example C19_ex_molrecs :
  compare_molrecs (r6 [] (EpBool false)) rec_e rec_c = Ok true /\
  compare_recursive (r6 [] (EpBool false)) rec_e rec_c = Ok false /\
  (exists t, massage true rec_e = Ok t /\ massage false t = Ok t /\ massage true t = Raise EKey).
Proof. repeat split. eexists. repeat split. Qed.

(** history: another model serialised with exclude=["molecule"; "id"], a Molecule-like class (skip defaults) converted with
    exclude_unset=false; then two inputs differing only in "molecule" are compared: False, as in a fresh process *)
Example C19_ex_history :
  let skipcls := {| skip_defaults := true; force_skip := false |} in
  let other : fields := [("molecule", (true, fl 9)); ("id", (false, TSc false SNone))] in
  let h : list call := [(protoflags0, serialize_kw (Some ["molecule"; "id"]) None, other);
                        (skipcls, {| kw_exclude := Some ["geometry"]; kw_exclude_unset := Some false |}, other)] in
  let a : fields := [("molecule", (true, fl 3)); ("driver", (true, TSc false (SStr "energy")))] in
  let b : fields := [("molecule", (true, fl 3.5)); ("driver", (true, TSc false (SStr "energy")))] in
  protomodel_compare_after h (r6 [] (EpBool false)) protoflags0 protoflags0 a b = Ok false /\
  protomodel_compare_after h (r6 ["molecule"] (EpBool false)) protoflags0 protoflags0 a b = Ok true /\
  protomodel_compare_after h (r6 [] (EpBool false)) protoflags0 protoflags0 a a = Ok true /\
  fst (pm_dict shared0 protoflags0 (serialize_kw (Some ["molecule"; "id"]) None) other) = TDict [].
Proof. cbv zeta. repeat split. Qed.

(** the generated ladder on the node types whose branch depends on the order of the isinstance tests or on a numpy
    subclass relation: np.complex128 (also an np.number) and np.str_ are exact leaves, np.int64 / np.float64 go through
    compare_values, bool (an int) and np.bool_ are exact, a set is not understood *)
Example C19_ex_ladder :
  gen_dispatch NpComplex = AExact /\ gen_dispatch NpStr = AExact /\ gen_dispatch NpInt = AValues /\
  gen_dispatch NpFloat = AValues /\ gen_dispatch PyBool = AExact /\ gen_dispatch NpBool = AExact /\
  gen_dispatch PyInt = AExact /\ gen_dispatch PySet = AUnknown /\ gen_dispatch PyNone = ANone /\
  gen_floating DFloat = true /\ gen_floating DCplx = false /\ gen_floating DInt = false.
Proof. repeat split. Qed.

(** NaN on request, and complex data on the real axis at the edge of C19_ex_edge *)
Example C19_ex_nan_axis :
  compare_values {| atol := atol o6; rtol := rtol o6; equal_nan := true; cv_phase := false; passnone := false |} (fl nan) (fl nan) = Ok true /\
  compare_values o6 (TSc false (SCplx 1 0)) (fl 0x1.000010c6f7a0bp+0) = Ok true /\
  compare_values o6 (TSc false (SCplx 1 0)) (fl 0x1.000010c6f7a0cp+0) = Ok false /\
  compare true (TList [TSc false (SInt 1)]) (TList [TSc false (SStr "a")]) = Ok false.
Proof. repeat split. Qed.

Print Assumptions C19_compare_values_spec.
Print Assumptions C19_isclose_real_band.
Print Assumptions C19_u64_value.
Print Assumptions C19_modulus_model_error.
Print Assumptions C19_compare_values_false_spec.
Print Assumptions C19_compare_values_total.
Print Assumptions C19_compare_values_raise_spec.
Print Assumptions C19_compare_values_raises_only.
Print Assumptions C19_ragged_is_false.
Print Assumptions C19_complex_computed_counts.
Print Assumptions C19_compare_spec.
Print Assumptions C19_compare_never_raises.
Print Assumptions C19_recursive_errors_are_failing_sites.
Print Assumptions C19_recursive_spec.
Print Assumptions C19_recursive_spec_sites.
Print Assumptions C19_name_is_site.
Print Assumptions C19_no_false_pass.
Print Assumptions C19_no_false_fail.
Print Assumptions C19_recursive_raise_spec.
Print Assumptions C19_molrecs_is_recursive.
Print Assumptions C19_molrecs_normalise_idempotent.
Print Assumptions C19_molrecs_version_forgiven.
Print Assumptions C19_molrecs_bond_orientation.
Print Assumptions C19_protomodel_compare.
Print Assumptions C19_float_leaf_spec.
Print Assumptions C19_forgive_key_boundary.
Print Assumptions C19_forgive_by_segments.
Print Assumptions C19_forgiven_by_segments.
Print Assumptions C19_forgive_descends.
Print Assumptions C19_options_inert.
Print Assumptions C19_handler_receives_verdict.
Print Assumptions C19_bool_leaf_exact.
Print Assumptions C19_compare_values_no_phase_spec.
Print Assumptions C19_nan_only_on_request.
Print Assumptions C19_complex_real_axis_is_real_rule.
Print Assumptions C19_compare_false_spec.
Print Assumptions C19_glue_defaults.
Print Assumptions C19_glue_ladder.
Print Assumptions C19_glue_tuple_as_list.
Print Assumptions C19_glue_leaf_options.
Print Assumptions C19_glue_isclose_calls.
Print Assumptions C19_glue_matching.
Print Assumptions C19_glue_compare_recursive.
Print Assumptions C19_glue_child_names.
Print Assumptions C19_glue_return_sites.
Print Assumptions C19_glue_molrecs.
Print Assumptions C19_molrecs_other_keys_untouched.
Print Assumptions C19_options_inert_molrecs.
Print Assumptions C19_handler_receives_verdict_molrecs.
Print Assumptions C19_public_verdicts.
Print Assumptions C19_dict_leaves_shared_config.
Print Assumptions C19_dict_exclude_spec.
Print Assumptions C19_model_compare_history_free.
Print Assumptions C19_model_no_false_pass_after_history.
Print Assumptions C19_glue_model_dict.
