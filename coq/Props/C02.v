(** C02 — CODATA constants are exact; derived QC aliases follow their definitions.
    Model: Model/Constants.v ([pc], [get], [getattr] = PhysicalConstantsContext.pc / .get / attribute access),
    Common/DecC02.v (Python Decimal at prec 28, half-even).  Tables Gen/Codata*.v, Gen/CodataRaw*.v,
    Gen/CodataJson2014.v, Gen/Aliases.v are regenerated from /repo on every run.
    Everything written by hand in THIS file (documented formulas, documented magnitudes, the attribute
    spelling rule, the list of extra names) comes from the docstring/comment block of context.py, not from
    its code.

    CLAUSE MAP (statement of C02 in properties.jsonl -> theorems here; "corr" = correspondence/oracle only)
    1. every published constant of either set is retrievable by its NIST name in any letter case: C02_table_is_nist (every
         row of codata-2014/2018.txt, ALL spellings equal up to case), C02_table_is_srd121_json, C02_get_case_insensitive,
         C02_get_upper_lower (for ALL strings); nothing else is offered: C02_no_undocumented_keys.
    2. ... and as the corresponding attribute: C02_table_is_nist (last conjunct), C02_mangle_is_documented (the table-driven
         translate IS the documented spelling rule, for ALL strings), C02_attr_is_mangled_label (every stored constant).
    3. Decimal value, unit (up to exponent markup), label, uncertainty string identical to NIST's table: C02_table_is_nist,
         C02_table_is_srd121_json (units exactly).
    4. the float form is the nearest double: C02_float_is_nearest (every value of both sets, incl. aliases and legacy names),
         C02_nearest64_ok_meaning (what "nearest" means, for all inputs); float(Decimal) of CPython itself: corr, bit for bit.
    5. each alias equals its documented arithmetic definition on the same set's constants: C02_alias_definitions (27 aliases,
         both sets, digit for digit in 28-digit Decimal arithmetic), C02_alias_power_of_ten_sanity (exact rationals),
         C02_alias_documented_magnitudes, C02_alias_lists_complete, C02_calorie_joule, C02_derived_2018_definitions (3 legacy
         constants); the Decimal arithmetic itself: C02_decimal_* (correct rounding for ALL operands).
    6. in the 2018 set the 2014 names of renamed constants remain retrievable with the 2018 values: C02_renames_2018 (26),
         C02_legacy_names_retrievable, C02_legacy_spelling, C02_legacy_tau_attribute.
    7. quantifier: get(), get(return_tuple), attribute, pc[...]: wave 3 C02_routes_agree (the four routes deliver the same
         Datum / the float of the same Decimal); both contexts: every theorem is for all [c]; the default singleton and the
         default constructor argument are CODATA2014: pinned verbatim by the translator (fail-closed) and corr (objects
         "default" and "noarg").  __init__ and get() are pinned verbatim by the translator; the model transcribes them.
    8. (wave 4) "every context a program builds", not only the first: the model's context is a function of the year alone
         ([ctx_of]); that the implementation's is too (no state shared between context objects through the module-level NIST
         tables behind raw_codata, class attributes or the units registry) is the verbatim pin of __init__ (it only READS
         raw_codata) + corr: streams oracle:history (2nd and 3rd context of each year built later in the same process, in
         both orders, each used for a unit conversion first; full enumeration, oracle and model) and oracle:afterwards (the
         first objects and the singleton asked again at the end, in shuffled order).  Failing histories are minimised by
         re-executing shorter ones in fresh processes.  Equivalent spellings of the get() call (positional / keyword
         return_tuple, keyword physical_constant) are drawn per mixed-case request: corr. *)
From Coq Require Import ZArith List String Ascii Bool QArith Qabs Qpower.
Require Import QV.Common.Outcome QV.Common.DecC02 QV.Common.StrC02.
Require Import QV.Gen.Codata2014 QV.Gen.Codata2018 QV.Gen.CodataRaw2014 QV.Gen.CodataRaw2018 QV.Gen.CodataJson2014 QV.Gen.Aliases.
Require Import QV.Model.Constants QV.Proofs.Constants QV.Proofs.DecimalC02 QV.Proofs.FloatC02.
Import ListNotations.
Open Scope string_scope.

(** ** Published constants *)

(** Every row of NIST's published ASCII table (2014 and 2018) is retrievable under its name in ANY letter case
    ([s] ranges over all strings equal to the name up to case) and delivers NIST's name as label, NIST's digits
    (blanks and, for exact constants, the "..." mark removed) as the Decimal value, NIST's unit up to the
    exponent braces, the uncertainty text, and the same value under the attribute spelled by [mangle]. *)
Theorem C02_table_is_nist : forall c name val unc unit s,
  In (name, val, unc, unit) (raw c) -> same_mod_case s name ->
  exists d, get c s = Ok d /\ d_label d = name /\ parse_dec (nist_value_text val unc) = Some (d_data d)
            /\ strip_braces (d_units d) = strip_braces unit /\ d_comment d = "uncertainty=" ++ unc
            /\ getattr c (mangle name) = Ok (d_data d).
Proof. exact table_is_nist. Qed.

(** The same against NIST's SRD-121 JSON (2014), units exactly. *)
Theorem C02_table_is_srd121_json : forall name val unc unit s,
  In (name, val, unc, unit) json_2014 -> same_mod_case s name ->
  exists d, get C2014 s = Ok d /\ d_label d = name /\ parse_dec (nist_value_text val unc) = Some (d_data d)
            /\ d_units d = unit /\ d_comment d = "uncertainty=" ++ unc
            /\ getattr C2014 (mangle name) = Ok (d_data d).
Proof. exact table_is_srd121_json. Qed.

(** Names that are documented besides the published tables. *)
Definition documented_extra_names : list string :=
  [ "calorie-joule relationship";
    "h"; "hbar"; "c"; "kb"; "R"; "bohr2angstroms"; "bohr2m"; "bohr2cm"; "amu2g"; "amu2kg"; "au2amu"; "hartree2J";
    "hartree2aJ"; "cal2J"; "dipmom_au2si"; "dipmom_au2debye"; "dipmom_debye2si"; "c_au"; "hartree2ev";
    "hartree2wavenumbers"; "hartree2kcalmol"; "hartree2kJmol"; "hartree2MHz"; "kcalmol2wavenumbers"; "e0"; "na"; "me";
    "molar Planck constant times c"; "Faraday constant for conventional electric current"; "elementary charge over h" ].

(** Conversely nothing else is offered: every key is a published name of the set, a published 2014 name
    (2018 set only) or a documented extra name. *)
Theorem C02_no_undocumented_keys : forall c k d, In (k, d) (pc c) ->
  In k (raw_names c) \/ (c = C2018 /\ In k (raw_names C2014)) \/ In k (map lower documented_extra_names).
Proof.
  intros c. apply no_extra_keys_b. destruct c; vm_compute; reflexivity.
Qed.

(** ** Letter case: for ALL strings *)
Theorem C02_get_case_insensitive : forall c s t, same_mod_case s t -> get c s = get c t.
Proof. exact get_case_insensitive. Qed.

Theorem C02_get_upper_lower : forall c s, get c (upper s) = get c s /\ get c (lower s) = get c s.
Proof. intros; split; [apply get_upper | apply get_lower]. Qed.

(** ** Attributes.  Documented spelling: blank, '-' and '{' become '_', '/' becomes 'p', and . , ( ) } vanish. *)
Definition doc_char (a : ascii) : option ascii :=
  if mem_ascii a ".,()}" then None
  else if mem_ascii a " -{" then Some "_"%char
  else if Ascii.eqb a "/" then Some "p"%char
  else Some a.

(** The table-driven [translate] of the code is that rule, for all strings. *)
Theorem C02_mangle_is_documented : forall s, mangle s = mangle_by doc_char s.
Proof.
  apply mangle_is_doc. intro a. destruct a as [[] [] [] [] [] [] [] []]; vm_compute; reflexivity.
Qed.

(** Every stored constant (published, legacy, alias) is the attribute spelled from its label. *)
Theorem C02_attr_is_mangled_label : forall c k d, In (k, d) (pc c) ->
  getattr c (mangle_by doc_char (d_label d)) = Ok (d_data d) /\ k = lower (d_label d).
Proof.
  intros c k d H. rewrite <- C02_mangle_is_documented. split; [eapply attrs_cover; eassumption | eapply keys_are_lower_labels; eassumption].
Qed.

(** ** The four access routes agree: pc[lower name] is get(name, return_tuple=True); get(name) and the attribute spelled from the label are
    the float of that same Decimal (C02_float_is_nearest says which float). *)
Theorem C02_routes_agree : forall c s d, get c s = Ok d ->
  getitem c (lower s) = Ok d /\ getattr c (mangle_by doc_char (d_label d)) = Ok (d_data d) /\ lower s = lower (d_label d).
Proof.
  intros c s d H. unfold get, getitem in *. destruct (pc_o c) as [l|] eqn:E; cbn [obind] in *; [|discriminate].
  split; [exact H|].
  destruct (od_get (lower s) l) as [d'|] eqn:G; [|discriminate]. injection H as ->.
  assert (Hin : In (lower s, d) (pc c)).
  { unfold pc. rewrite E. clear E. induction l as [|[k v] r IH]; cbn [od_get] in G; [discriminate|].
    destruct (String.eqb (lower s) k) eqn:K; [apply String.eqb_eq in K; injection G as ->; subst; left; reflexivity | right; apply IH; exact G]. }
  destruct (C02_attr_is_mangled_label c _ _ Hin) as [A B]. split; [exact A | exact B].
Qed.

(** ** Aliases.  Documented definitions (comment block "h 'hertz-joule relationship' ...", alias comments). *)
Definition K (nist_name : string) : dexpr := DConst (lower nist_name).
Definition pi36 : string := "3.14159265358979323846264338327950288".   (* "pi to 36 digits" *)

Definition hartree2kJmol_doc : dexpr := DMul (DMul (K "Hartree energy") (K "Avogadro constant")) (DLit "0.001").

Definition documented_aliases : list (string * dexpr) :=
  [ ("h", K "hertz-joule relationship");
    ("hbar", K "Planck constant over 2 pi");
    ("c", K "inverse meter-hertz relationship");
    ("kb", K "kelvin-joule relationship");
    ("R", K "molar gas constant");
    ("bohr2angstroms", DMul (K "Bohr radius") (DLit "1E10"));
    ("bohr2m", K "Bohr radius");
    ("bohr2cm", DMul (K "Bohr radius") (DLit "100"));
    ("amu2g", DMul (K "atomic mass constant") (DLit "1000"));
    ("amu2kg", K "atomic mass constant");
    ("au2amu", K "electron mass in u");
    ("hartree2J", K "Hartree energy");
    ("hartree2aJ", DMul (K "Hartree energy") (DLit "1E18"));
    ("cal2J", DLit "4.184");
    ("dipmom_au2si", K "atomic unit of electric dipole mom.");
    ("dipmom_au2debye", DDiv (K "atomic unit of electric dipole mom.") (DMul (K "hertz-inverse meter relationship") (DLit "1E-21")));
    ("dipmom_debye2si", DMul (K "hertz-inverse meter relationship") (DLit "1E-21"));
    ("c_au", K "inverse fine-structure constant");
    ("hartree2ev", K "Hartree energy in eV");
    ("hartree2wavenumbers", DMul (K "hartree-inverse meter relationship") (DLit "0.01"));
    ("hartree2kcalmol", DDiv hartree2kJmol_doc (K "calorie-joule relationship"));
    ("hartree2kJmol", hartree2kJmol_doc);
    ("hartree2MHz", DMul (K "hartree-hertz relationship") (DLit "1E-6"));
    ("kcalmol2wavenumbers", DDiv (DMul (DLit "10") (DLit "4.184")) (K "molar Planck constant times c"));
    ("e0", K "electric constant");
    ("na", K "Avogadro constant");
    ("me", K "electron mass") ].

(** The three constants of the 2014 vocabulary that the 2018 set derives. *)
Definition documented_derived_2018 : list (string * dexpr) :=
  [ ("molar Planck constant times c", DMul (K "molar Planck constant") (K "speed of light in vacuum"));
    ("Faraday constant for conventional electric current", DDiv (K "Faraday constant") (K "conventional value of coulomb-90"));
    ("elementary charge over h", DDiv (K "elementary charge over h-bar") (DMul (DInt 2) DPi)) ].

(** In BOTH sets each of the 27 aliases is stored under its own spelling and its Decimal value is, digit for
    digit, its documented definition evaluated in 28-digit Decimal arithmetic on the same set's constants. *)
Theorem C02_alias_definitions : forall c name f, In (name, f) documented_aliases ->
  exists d, get c name = Ok d /\ d_label d = name /\ eval_dec (pc_data (pc c)) pi36 f = Ok (d_data d).
Proof.
  intros c name f Hin. apply alias_ok_spec.
  assert (H : forallb (alias_ok pi36 c) documented_aliases = true) by (destruct c; vm_compute; reflexivity).
  exact (proj1 (forallb_forall _ _) H _ Hin).
Qed.

Theorem C02_derived_2018_definitions : forall name f, In (name, f) documented_derived_2018 ->
  exists d, get C2018 name = Ok d /\ d_label d = name /\ eval_dec (pc_data (pc C2018)) pi36 f = Ok (d_data d).
Proof.
  intros name f Hin. apply alias_ok_spec.
  assert (H : forallb (alias_ok pi36 C2018) documented_derived_2018 = true) by (vm_compute; reflexivity).
  exact (proj1 (forallb_forall _ _) H _ Hin).
Qed.

(** Power-of-ten sanity, independent of evaluation order and Decimal rounding: each alias (and derived constant)
    agrees with its definition evaluated in EXACT rational arithmetic to a relative 1e-26. *)
Theorem C02_alias_power_of_ten_sanity : forall c name f,
  In (name, f) documented_aliases \/ (c = C2018 /\ In (name, f) documented_derived_2018) ->
  exists d q, get c name = Ok d /\ eval_Q (pc_data (pc c)) pi36 f = Some q
              /\ (Qabs (dec2Q (d_data d) - q) <= (1 # 10 ^ 26) * Qabs q)%Q.
Proof.
  intros c name f [Hin | [-> Hin]]; apply alias_Q_ok_spec.
  - assert (H : forallb (alias_Q_ok pi36 (1 # 10 ^ 26) c) documented_aliases = true) by (destruct c; vm_compute; reflexivity).
    exact (proj1 (forallb_forall _ _) H _ Hin).
  - assert (H : forallb (alias_Q_ok pi36 (1 # 10 ^ 26) C2018) documented_derived_2018 = true) by (vm_compute; reflexivity).
    exact (proj1 (forallb_forall _ _) H _ Hin).
Qed.

(** Documented magnitudes: the numbers printed in the comment block (CODATA 2006 vintage; hbar and amu2g are not
    listed there and are h/2pi and 1000 amu2kg).  Every alias is within 1e-5 of its documented number in both sets:
    no alias is off by a power of ten or built from the wrong constant. *)
Definition dq (c e : Z) : Q := dec2Q (mkdec c e).
Definition documented_magnitudes : list (string * Q) :=
  [ ("h", dq 662606896 (-42)); ("hbar", dq 1054571628 (-43)); ("c", dq 299792458 0); ("kb", dq 13806504 (-30));
    ("R", dq 8314472 (-6)); ("bohr2angstroms", dq 52917720859 (-11)); ("bohr2m", dq 52917720859 (-21));
    ("bohr2cm", dq 52917720859 (-19)); ("amu2g", dq 1660538782 (-33)); ("amu2kg", dq 1660538782 (-36));
    ("au2amu", dq 5485799097 (-13)); ("hartree2J", dq 4359744 (-24)); ("hartree2aJ", dq 4359744 (-6));
    ("cal2J", dq 4184 (-3)); ("dipmom_au2si", dq 847835281 (-38)); ("dipmom_au2debye", dq 254174623 (-8));
    ("dipmom_debye2si", dq 3335640952 (-39)); ("c_au", dq 137035999679 (-9)); ("hartree2ev", dq 2721138 (-5));
    ("hartree2wavenumbers", dq 2194746 (-1)); ("hartree2kcalmol", dq 6275095 (-4)); ("hartree2kJmol", dq 2625500 (-3));
    ("hartree2MHz", dq 6579684 3); ("kcalmol2wavenumbers", dq 3497551 (-4)); ("e0", dq 8854187817 (-21));
    ("na", dq 602214179 15); ("me", dq 910938215 (-39)) ].

Theorem C02_alias_documented_magnitudes : forall c name v, In (name, v) documented_magnitudes ->
  exists d, get c name = Ok d /\ (Qabs (dec2Q (d_data d) - v) <= (1 # 100000) * Qabs v)%Q.
Proof.
  intros c name v Hin. apply near_ok_spec.
  assert (H : forallb (near_ok (1 # 100000) c) documented_magnitudes = true) by (destruct c; vm_compute; reflexivity).
  exact (proj1 (forallb_forall _ _) H _ Hin).
Qed.

(** The three lists speak about the same 27 names. *)
Theorem C02_alias_lists_complete :
  map fst documented_aliases = map fst documented_magnitudes /\ List.length documented_aliases = 27%nat
  /\ forall n, In n (map fst documented_aliases) -> In n documented_extra_names.
Proof.
  split; [reflexivity|]. split; [reflexivity|].
  intros n H. apply mem_str_In.
  assert (A : forallb (fun x => mem_str x documented_extra_names) (map fst documented_aliases) = true) by (vm_compute; reflexivity).
  exact (proj1 (forallb_forall _ _) A _ H).
Qed.

(** calorie = 4.184 J exactly *)
Theorem C02_calorie_joule : forall c,
  get c "calorie-joule relationship" = Ok (mkdatum "calorie-joule relationship" "J" (mkdec 4184 (-3)) "uncertainty=(exact)" None).
Proof. destruct c; vm_compute; reflexivity. Qed.

(** ** The 2018 set keeps the 2014 vocabulary *)

(** There are 26 renamed constants; for each, in the 2018 set the old name is retrievable, is not itself published
    in 2018 but was in 2014, and carries exactly the value NIST published in 2018 under the new name (same unit
    and uncertainty text as the new name; label = the old name as the code spells it); that value is within 1e-4
    of what the old name meant in 2014 (so no name was mapped to a different quantity). *)
Theorem C02_renames_2018 :
  List.length rename_2018_from_2014 = 26%nat /\
  forall new old, In (new, old) rename_2018_from_2014 -> rename_spec new old.
Proof. split; [reflexivity | exact renames_2018]. Qed.

(** Every key of the 2014 set (published names and aliases alike), in any letter case, is retrievable in the 2018
    set with a value within 5 %% of the 2014 one. *)
Theorem C02_legacy_names_retrievable : forall k d14 s, In (k, d14) (pc C2014) -> same_mod_case s k ->
  exists d, get C2018 s = Ok d /\ (Qabs (dec2Q (d_data d) - dec2Q (d_data d14)) <= (5 # 100) * Qabs (dec2Q (d_data d14)))%Q.
Proof. exact legacy_names_retrievable. Qed.

(** Each of the 26 legacy entries is labelled with NIST's 2014 spelling exactly (the old name IS a name published in the
    2014 table, character for character), so it has the same attribute as in the 2014 set, carrying the 2018 value.
    (Before fix 3f682e0 one old name was spelled "... in mev": finding C02-legacy-label-case.) *)
Theorem C02_legacy_spelling : forall new old, In (new, old) rename_2018_from_2014 ->
  In old names_2014
  /\ exists dold d14, get C2018 old = Ok dold /\ d_label dold = old
       /\ getattr C2018 (mangle_by doc_char old) = Ok (d_data dold)
       /\ getattr C2014 (mangle_by doc_char old) = Ok d14.
Proof.
  intros new old Hin.
  assert (A : forallb (fun p : string * string =>
             mem_str (snd p) names_2014
             && match od_get (lower (snd p)) (pc C2018), od_get (mangle (snd p)) (attrs C2018), od_get (mangle (snd p)) (attrs C2014) with
                | Some d, Some a18, Some _ => String.eqb (d_label d) (snd p) && dec_eqb a18 (d_data d)
                | _, _, _ => false end) rename_2018_from_2014 = true)
    by (vm_compute; reflexivity).
  pose proof (proj1 (forallb_forall _ _) A _ Hin) as H. cbn [snd] in H.
  apply andb_true_iff in H. destruct H as [H1 H2]. split; [apply mem_str_In; exact H1|].
  rewrite <- C02_mangle_is_documented.
  destruct (od_get (lower old) (pc C2018)) as [d|] eqn:E1; [|discriminate].
  destruct (od_get (mangle old) (attrs C2018)) as [a18|] eqn:E2; [|discriminate].
  destruct (od_get (mangle old) (attrs C2014)) as [a14|] eqn:E3; [|discriminate].
  apply andb_true_iff in H2. destruct H2 as [L V]. apply String.eqb_eq in L. apply dec_eqb_eq in V. subst a18.
  exists d, a14. split; [apply get_ok; exact E1|]. split; [exact L|]. split; apply getattr_ok; assumption.
Qed.

(** the formerly failing access, pinned: 2014 and 2018 both have the attribute, with their own set's value *)
Theorem C02_legacy_tau_attribute :
  getattr C2014 (mangle "tau mass energy equivalent in MeV") = Ok (mkdec 177682 (-2))
  /\ getattr C2018 (mangle "tau mass energy equivalent in MeV") = Ok (mkdec 177686 (-2)).
Proof. split; vm_compute; reflexivity. Qed.

(** ** The Decimal model, for all operands: multiplication commutes (so an operand swap in an alias formula is harmless), and
    a product whose exact coefficient has at most 28 digits is exact (the "* 1.E10", "* 100", "* 0.01" aliases lose nothing). *)
Theorem C02_decimal_mul_commutes : forall a b, dec_mul a b = dec_mul b a.
Proof. exact dec_mul_comm. Qed.

Theorem C02_decimal_short_product_exact : forall a b, (ndigits (coef a * coef b) <= 28)%Z ->
  dec_mul a b = mkdec (coef a * coef b) (dexp a + dexp b).
Proof. exact dec_mul_exact. Qed.

(** ** The Decimal arithmetic is a CORRECT ROUNDING — for all operands (unbounded coefficients and exponents).
    [ten ^ z] is 10^z in Q; [rhe] is round-half-even of a quotient of integers. *)

(** Decimal._fix: a coefficient of at most 28 digits is kept; otherwise the result is  sign * q1 * u  with
    u = 10^(exp + digits - 28) (one unit in the 28th digit), 10^27 <= q1 <= 10^28, within u/2 of the operand, and on an exact
    tie the kept coefficient q1 is even; the stored coefficient has at most 28 digits. *)
Theorem C02_decimal_fix_is_correct_rounding : forall d,
  ((ndigits (coef d) <= prec)%Z -> dec_fix d = d) /\
  ((prec < ndigits (coef d))%Z -> exists q1 : Z,
      let u := (ten ^ (dexp d + ndigits (coef d) - prec))%Q in
      (10 ^ 27 <= q1 <= 10 ^ 28)%Z
      /\ (dec2Q (dec_fix d) == inject_Z (Z.sgn (coef d) * q1) * u)%Q
      /\ (2 * Qabs (dec2Q (dec_fix d) - dec2Q d) <= u)%Q
      /\ ((2 * Qabs (dec2Q (dec_fix d) - dec2Q d) == u)%Q -> Z.even q1 = true)
      /\ (Z.abs (coef (dec_fix d)) < 10 ^ prec)%Z).
Proof. exact dec_fix_correct. Qed.

(** the digit count used by it is the true one *)
Theorem C02_decimal_ndigits : forall n, n <> 0%Z ->
  (1 <= ndigits n /\ 10 ^ (ndigits n - 1) <= Z.abs n < 10 ^ ndigits n)%Z.
Proof. exact ndigits_spec. Qed.

(** Decimal.__mul__: the correct rounding (above) of the exact product *)
Theorem C02_decimal_mul_rounds_exact_product : forall a b,
  exists p, dec_mul a b = dec_fix p /\ (dec2Q p == dec2Q a * dec2Q b)%Q.
Proof.
  intros a b. exists (mkdec (coef a * coef b) (dexp a + dexp b)). split; [reflexivity|].
  rewrite !dec2Q_val. cbn [coef dexp]. rewrite inject_Z_mult, (Qpower_plus ten _ _ ten_nz). ring.
Qed.

(** Decimal.__truediv__ (non-zero operands): the result is [dec_fix d1] where either d1 is the exact quotient (then the
    theorem above applies), or d1 has more than 28 digits and the result is STRICTLY within half a unit in its 28th digit of
    the exact quotient (so no tie can occur and the remainder trick never mis-rounds). *)
Theorem C02_decimal_div_is_correct_rounding : forall a b, coef a <> 0%Z -> coef b <> 0%Z ->
  exists d1, dec_div a b = Some (dec_fix d1)
    /\ ((dec2Q d1 == dec2Q a / dec2Q b)%Q
        \/ ((prec < ndigits (coef d1))%Z
            /\ (2 * Qabs (dec2Q (dec_fix d1) - dec2Q a / dec2Q b) < ten ^ (dexp d1 + ndigits (coef d1) - prec))%Q)).
Proof. exact dec_div_correct. Qed.

(** ** float(Decimal) *)

(** What the executable specification means: [m * 2^e] has a 53-bit mantissa and a binary64 exponent, carries the sign of
    the decimal, and NO number with a 53-bit mantissa (any exponent) is closer to |d|; if another one is equally close, m is even. *)
Theorem C02_nearest64_ok_meaning : forall neg m e d, nearest64_ok neg m e d = true ->
  mant m /\ (-1074 <= e <= 971)%Z /\ neg = (coef d <? 0)%Z /\ ~ (dec2Q d == 0)%Q /\
  forall m' e', mant m' ->
    (Qabs (Qabs (dec2Q d) - inject_Z m * two ^ e) <= Qabs (Qabs (dec2Q d) - inject_Z m' * two ^ e'))%Q
    /\ ((Qabs (Qabs (dec2Q d) - inject_Z m * two ^ e) == Qabs (Qabs (dec2Q d) - inject_Z m' * two ^ e'))%Q ->
        ~ (inject_Z m * two ^ e == inject_Z m' * two ^ e')%Q -> Z.even m = true).
Proof. exact nearest64_ok_meaning. Qed.

(** For EVERY constant of both sets (published, legacy, alias) the float form the model delivers — which the correspondence
    compares bit for bit with float(Decimal) of the implementation — is the double nearest to the Decimal value, ties to even. *)
Theorem C02_float_is_nearest : forall c k d, In (k, d) (pc c) ->
  exists neg m e, nearest64 (d_data d) = Some (neg, m, e) /\ nearest64_ok neg m e (d_data d) = true.
Proof.
  intros c k d Hin.
  assert (A : forallb (fun kv : string * datum =>
             match nearest64 (d_data (snd kv)) with Some (n, m, e) => nearest64_ok n m e (d_data (snd kv)) | None => false end) (pc c) = true)
    by (destruct c; vm_compute; reflexivity).
  pose proof (proj1 (forallb_forall _ _) A _ Hin) as H. cbn [snd] in H.
  destruct (nearest64 (d_data d)) as [[[n m] e]|]; [|discriminate]. exists n, m, e. split; [reflexivity | exact H].
Qed.

(** ** Examples (the hypotheses above are inhabited, on non-trivial values) *)
Example C02_ex_row : In ("speed of light in vacuum", "299 792 458", "(exact)", "m s^-1") (raw C2014)
  /\ In ("electric constant", "8.854 187 817... e-12", "(exact)", "F m^-1") (raw C2014)
  /\ nist_value_text "8.854 187 817... e-12" "(exact)" = "8.854187817e-12"
  /\ parse_dec "8.854187817e-12" = Some (mkdec 8854187817 (-21))
  /\ same_mod_case "SpEeD of LIGHT in vacuum" "speed of light in vacuum".
Proof.
  split; [apply In_row4; vm_compute; reflexivity|]. split; [apply In_row4; vm_compute; reflexivity|].
  repeat split; vm_compute; tauto.
Qed.
Example C02_ex_alias :
  get C2018 "HARTREE2KCALMOL" = Ok (mkdatum "hartree2kcalmol" "kcal mol^-1" (mkdec 6275094740630557856452198853 (-25))
                                           "Hartree to kcal mol$^{-1}$ conversion factor" None)
  /\ mangle_by doc_char "{220} lattice spacing of silicon" = "_220_lattice_spacing_of_silicon"
  /\ mangle_by doc_char "natural unit of mom.um in MeV/c" = "natural_unit_of_momum_in_MeVpc".
Proof. repeat split; vm_compute; reflexivity. Qed.
Example C02_ex_rename : In ("reduced Planck constant", "Planck constant over 2 pi") rename_2018_from_2014
  /\ od_get "hartree energy" (pc C2014) <> None.
Proof. split; [vm_compute; tauto | vm_compute; discriminate]. Qed.

Print Assumptions C02_table_is_nist.
Print Assumptions C02_table_is_srd121_json.
Print Assumptions C02_no_undocumented_keys.
Print Assumptions C02_get_case_insensitive.
Print Assumptions C02_get_upper_lower.
Print Assumptions C02_mangle_is_documented.
Print Assumptions C02_attr_is_mangled_label.
Print Assumptions C02_routes_agree.
Print Assumptions C02_alias_definitions.
Print Assumptions C02_derived_2018_definitions.
Print Assumptions C02_alias_power_of_ten_sanity.
Print Assumptions C02_alias_documented_magnitudes.
Print Assumptions C02_alias_lists_complete.
Print Assumptions C02_calorie_joule.
Print Assumptions C02_renames_2018.
Print Assumptions C02_legacy_names_retrievable.
Print Assumptions C02_legacy_spelling.
Print Assumptions C02_legacy_tau_attribute.
Print Assumptions C02_decimal_mul_commutes.
Print Assumptions C02_decimal_short_product_exact.
Print Assumptions C02_decimal_fix_is_correct_rounding.
Print Assumptions C02_decimal_ndigits.
Print Assumptions C02_decimal_mul_rounds_exact_product.
Print Assumptions C02_decimal_div_is_correct_rounding.
Print Assumptions C02_nearest64_ok_meaning.
Print Assumptions C02_float_is_nearest.
