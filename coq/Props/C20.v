(** C20 — Result models enforce array shapes and retention protocols idempotently.
    Property theorems only; proofs are in Proofs/Results*.v and Proofs/Basis.v.
    Models: Model/Results.v, Model/Basis.v interpreting the tables of Gen/KeepLists.v (regenerated from
    qcelemental/models/results.py, procedures.py, basis.py on every run).

    CLAUSE MAP (statement of C20 in properties.jsonl, clause by clause -> theorems below)
    1. "reshapes every array to the implied shape or rejects it if the size does not fit"
       - numpy reshape itself (all dims known / one unknown), flat = shaped, data unchanged:
           C20_shapes_accepted_iff_size_fits, C20_shapes_flat_shaped_idempotent                         [full]
       - gradient nat x 3, Hessian 3nat x 3nat, dipoles 3, quadrupole 3x3 (AtomicResultProperties):
           C20_property_arrays (per field), C20_properties_whole_object (the whole object = field-wise)  [full]
       - AO matrices nbf x nbf, orbitals nbf x *, vectors flat (WavefunctionProperties, every field of the
         generated table, with the basis the object itself carries): C20_wfn_arrays_shaped_or_rejected  [full]
           the rule attached to each field is compatible with its declared shape: C20_declared_shapes_enforced
           (finite, generated table); the two fields without a rule: C20_declared_shapes_enforced_refuted [finding]
       - return value per driver: C20_return_result_by_driver                                              [full]
       - WavefunctionProperties as a whole, acceptance as an IFF: C20_wfn_accepted_iff (accepted iff no unknown key, basis
         and restricted well-typed, every ruled array fits the rule for the object's own nbf, every pointer names an
         EARLIER-declared field that is present and not None); refusal field by field: C20_wfn_rejects_bad_field    [full]
       - at the public constructor AtomicResult(...): C20_atomic_result_is_its_stages (accepted iff the protocols
         are valid and the four governed fields pass their stage; error classes)                          [full]
    2. "keeps a basis set's function count equal to the count implied by its shells"
           C20_nbf_spec, C20_nbf_count_formulas, C20_basis_accepted_iff (accepted iff structurally valid, stored
           nbf = count, supplied nbf absent or equal; refusals are Validation or the escaping KeyError)    [full,
           for center_data with distinct keys = every Python dict]
    3. "retains exactly what the protocols allow"
       - wavefunction, at the filter: C20_wfn_kept_exactly, C20_wfn_dropped_only_by_none, C20_wfn_fails_closed [full]
       - wavefunction, at the public constructor (filter ; field validation, supplied or default protocol):
           C20_atomic_wfn_kept_exactly (keys exactly the documented set, payloads the supplied ones, no *_b
           when restricted, nothing appears from nowhere)                                                  [full]
       - stdout, native files: C20_stdout_native_protocols; at the constructor: C20_atomic_other_fields      [full]
       - trajectory: C20_trajectory_spec (default policy: C20_keep_lists_are_documented fixes the defaults)  [full]
       - the lists themselves = the documented ones: C20_keep_lists_are_documented (finite, generated)
    4. "everything not excluded is kept unchanged"
           C20_wfn_kept_exactly (3rd conjunct), C20_wfn_validation_keeps_payload (validation changes shapes only),
           C20_atomic_wfn_kept_exactly (2nd conjunct), C20_shapes_flat_shaped_idempotent (data)              [full]
    5. "validating the resulting object again changes nothing"
           C20_wfn_protocol_idempotent, C20_wfn_validation_idempotent, C20_wfn_stage_idempotent,
           C20_stdout_native_protocols, C20_trajectory_idempotent_total, C20_properties_whole_object (2nd),
           C20_basis_revalidation, C20_atomic_revalidation (whole AtomicResult, with the hypothesis that
           C20_revalidation_identity_refuted shows necessary)                                   [full / finding]
    Only correspondence / oracle (not a theorem): memory layouts and element types of supplied arrays (Fortran / strided /
    integer / big-endian / float32), the basis arriving as plain data or as an object, call histories (no state is shared
    between constructions; the caller's arrays and earlier results are left alone), pydantic plumbing, OptimizationResult
    fields other than `trajectory`. *)
From Coq Require Import ZArith List String Bool.
Require Import QV.Common.Outcome QV.Gen.KeepLists QV.Model.Results QV.Model.Basis QV.Proofs.Results QV.Proofs.Basis
  QV.Proofs.ResultsValidate QV.Proofs.ResultsCompose QV.Proofs.ResultsPublic QV.Proofs.ResultsAccept.
Import ListNotations.
Local Open Scope string_scope.
Local Open Scope list_scope.
Local Open Scope Z_scope.

(** Every table the models interpret equals the table written by hand from the documentation: the keep
    list of each wavefunction protocol (as a set), the native-file and trajectory branches (incl. the
    guard that makes an empty trajectory stay empty), the reshape rule attached to each wavefunction
    array, the ten return pointers, the enum members and the protocol defaults. *)
Theorem C20_keep_lists_are_documented : tables_documented = true.
Proof. exact tables_documented_true. Qed.

(** What the wavefunction protocol [p] retains of a supplied wavefunction [w], for EVERY dictionary [w]
    (any subset of arrays and pointers, any pointer targets): with w1 = w minus the *_b keys iff
    restricted, the result is exactly w1 (protocol all) or exactly the restriction of w1 to
    {restricted, basis} + the documented pointers present + their targets (keptb); every kept payload is
    the supplied one; no *_b key survives a restricted wavefunction. *)
Theorem C20_wfn_kept_exactly : forall p w w',
  wfn_pre (Some p) (Some w) = Ok (Some w') ->
  exists r, dget "restricted" w = Some r /\ r <> WNone /\
    let w1 := after_restricted r w in
    match assoc String.eqb p doc_wfn_keep with
    | Some KeepAll => forall k, dget k w' = dget k w1
    | Some (KeepList l) => forall k, dget k w' = if keptb l w1 k then dget k w1 else None
    | _ => False
    end
    /\ (forall k v, dget k w' = Some v -> dget k w = Some v)
    /\ (truthy r = true -> forall k, dget k w' <> None -> ends_with "_b" k = false).
Proof. exact wfn_kept_exactly. Qed.

(** The whole wavefunction is dropped only under protocol none. *)
Theorem C20_wfn_dropped_only_by_none : forall p w, wfn_pre (Some p) (Some w) = Ok None -> p = "none".
Proof. exact wfn_pre_none. Qed.

(** Filtering the filtered wavefunction again succeeds and changes no entry. *)
Theorem C20_wfn_protocol_idempotent : forall p w w',
  wfn_pre (Some p) (Some w) = Ok (Some w') ->
  exists w'', wfn_pre (Some p) (Some w') = Ok (Some w'') /\ forall k, dget k w'' = dget k w'.
Proof. exact wfn_pre_idempotent. Qed.

(** The `wavefunction` field fails closed: whatever the protocol filter, or the filter followed by the
    WavefunctionProperties validation, refuses, it refuses with a validation error (never a KeyError:
    this is the repaired defect C20-dangling-pointer-keyerror); and the pointer-following loop succeeds
    exactly when every selected pointer is absent, None, or names a key present after the restricted filter. *)
Theorem C20_wfn_fails_closed :
  (forall p v k, wfn_pre p v = Err k -> k = Validation)
  /\ (forall p v k, wfn_stage p v = Err k -> k = Validation)
  /\ (forall l w r, dget "restricted" w = Some r -> r <> WNone ->
        ((exists w', wfn_filter (KeepList l) w = Ok (Some w')) <-> forall rk, In rk l -> ptr_ok (after_restricted r w) rk)).
Proof. split; [exact wfn_pre_err|]. split; [exact wfn_stage_err|exact wfn_filter_succeeds_iff]. Qed.

(** the input that used to escape with a bare KeyError: an alpha pointer naming a beta array of a restricted wavefunction *)
Definition dangling_witness : wdict :=
  [("basis", WBasis 2); ("restricted", WBool true);
   ("scf_orbitals_b", WArr {| dat := [1; 2; 3; 4]; shp := [4] |}); ("orbitals_a", WStr "scf_orbitals_b")].
Example C20_ex_dangling : wfn_pre (Some "orbitals_and_eigenvalues") (Some dangling_witness) = Err Validation.
Proof. vm_compute. reflexivity. Qed.

(** stdout and native_files: what each policy returns, and applying the policy twice is applying it once. *)
Theorem C20_stdout_native_protocols :
  (forall v, stdout_protocol (Some true) v = Ok v /\ stdout_protocol (Some false) v = Ok None)
  /\ (forall p v v', stdout_protocol p v = Ok v' -> stdout_protocol p v' = Ok v')
  /\ (forall v : ndict, native_protocol "all" v = Ok v /\ native_protocol "none" v = Ok []
        /\ native_protocol "input" v = Ok [("input", match dget "input" v with Some x => x | None => None end)])
  /\ (forall p (v v' : ndict), native_protocol p v = Ok v' -> native_protocol p v' = Ok v').
Proof.
  split; [exact stdout_spec|]. split; [exact stdout_idempotent|]. split; [exact native_spec|exact native_idempotent].
Qed.

(** Trajectory protocol on a trajectory of ANY length and element type, empty and singleton cases explicit. *)
Theorem C20_trajectory_spec : forall A : Type,
  (forall v : list A, traj_protocol (Some "all") v = Ok v)
  /\ (forall v : list A, traj_protocol (Some "none") v = Ok [])
  /\ traj_protocol (Some "final") (@nil A) = Ok []
  /\ (forall (l : list A) y, traj_protocol (Some "final") (l ++ [y]) = Ok [y])
  /\ traj_protocol (Some "initial_and_final") (@nil A) = Ok []
  /\ (forall x : A, traj_protocol (Some "initial_and_final") [x] = Ok [x; x])
  /\ (forall (x : A) l y, traj_protocol (Some "initial_and_final") (x :: l ++ [y]) = Ok [x; y]).
Proof. intro A. exact traj_spec. Qed.

(** ... idempotent for every policy string, and it never raises anything but a validation error (no
    IndexError on the empty trajectory: this is the repaired defect C20-empty-trajectory). *)
Theorem C20_trajectory_idempotent_total : forall (A : Type) p (v : list A),
  (forall v', traj_protocol (Some p) v = Ok v' -> traj_protocol (Some p) v' = Ok v')
  /\ ((exists v', traj_protocol (Some p) v = Ok v') \/ traj_protocol (Some p) v = Err Validation).
Proof. intros A p v. split; [intro v'; apply traj_idempotent|apply traj_total]. Qed.

(** Shapes. (1) all dimensions known: accepted iff the size is the product, the result has the requested
    shape; (2) whatever is accepted holds exactly the data (product of the resulting shape = size);
    (3) one unknown dimension (`reshape(-1,3)`, `reshape(nbf,-1)`, `reshape(-1)`): accepted iff divisible. *)
Theorem C20_shapes_accepted_iff_size_fits :
  (forall a dims, Forall (fun d => 0 <= d) dims ->
     reshape a dims = if prodz dims =? zlen (dat a) then Ok {| dat := dat a; shp := dims |} else Err PyValueError)
  /\ (forall size dims s, reshape_dims size dims = Ok s -> prodz s = size /\ List.length s = List.length dims)
  /\ (forall a c, 0 < c -> reshape a [-1; c] =
        if zlen (dat a) mod c =? 0 then Ok {| dat := dat a; shp := [zlen (dat a) / c; c] |} else Err PyValueError)
  /\ (forall a n, 0 < n -> reshape a [n; -1] =
        if zlen (dat a) mod n =? 0 then Ok {| dat := dat a; shp := [n; zlen (dat a) / n] |} else Err PyValueError)
  /\ (forall a, reshape a [-1] = Ok {| dat := dat a; shp := [zlen (dat a)] |}).
Proof.
  split; [exact reshape_known|]. split; [exact reshape_dims_prod|]. split; [exact reshape_any_first|].
  split; [exact reshape_any_last|exact reshape_flatten].
Qed.

(** Flat and shaped inputs with the same elements give the same array; the elements are unchanged;
    reshaping the result again changes nothing. *)
Theorem C20_shapes_flat_shaped_idempotent :
  (forall a b dims, dat a = dat b -> reshape a dims = reshape b dims)
  /\ (forall a dims a', reshape a dims = Ok a' -> dat a' = dat a)
  /\ (forall a dims a', reshape a dims = Ok a' -> reshape a' dims = Ok a').
Proof. split; [exact reshape_flat_shaped|]. split; [exact reshape_data|exact reshape_idempotent]. Qed.

(** return_result per driver: gradient -> (size/3, 3) iff 3 | size; hessian -> (n, n) iff size = n*n;
    any other driver leaves the value alone. *)
Theorem C20_return_result_by_driver :
  (forall r, return_result "gradient" r =
     let a := to_arr (coerce_rr r) in
     if zlen (dat a) mod 3 =? 0 then Ok (RArr {| dat := dat a; shp := [zlen (dat a) / 3; 3] |}) else Err Validation)
  /\ (forall r x, return_result "hessian" r = Ok x <->
        exists n, 0 <= n /\ n * n = zlen (dat (to_arr (coerce_rr r)))
                  /\ x = RArr {| dat := dat (to_arr (coerce_rr r)); shp := [n; n] |})
  /\ (forall r, return_result "hessian" r = Err Validation \/ exists x, return_result "hessian" r = Ok x)
  /\ (forall driver r, driver <> "gradient" -> driver <> "hessian" -> return_result driver r = Ok (coerce_rr r)).
Proof. split; [exact rr_gradient|]. split; [exact rr_hessian|]. split; [exact rr_hessian_reject|exact rr_other]. Qed.

(** AtomicResultProperties: gradients nat x 3, Hessians 3nat x 3nat, dipoles 3, quadrupole 3 x 3 —
    accepted iff the size fits, rejected with a validation error otherwise (and without calcinfo_natom). *)
Theorem C20_property_arrays :
  (forall name n a, In name ["return_gradient"; "scf_total_gradient"] -> 0 <= n ->
     prop_field (Some n) (name, a) =
     if 3 * n =? zlen (dat a) then Ok (name, {| dat := dat a; shp := [n; 3] |}) else Err Validation)
  /\ (forall name n a, In name ["return_hessian"; "scf_total_hessian"] -> 0 <= n ->
     prop_field (Some n) (name, a) =
     if 9 * n * n =? zlen (dat a) then Ok (name, {| dat := dat a; shp := [3 * n; 3 * n] |}) else Err Validation)
  /\ (forall name a, In name ["return_gradient"; "scf_total_gradient"; "return_hessian"; "scf_total_hessian"] ->
     prop_field None (name, a) = Err Validation)
  /\ (forall name natom a,
     In name ["scf_dipole_moment"; "mp2_dipole_moment"; "ccsd_dipole_moment"; "ccsd_prt_pr_dipole_moment";
              "ccsdt_dipole_moment"; "ccsdtq_dipole_moment"] ->
     prop_field natom (name, a) = if 3 =? zlen (dat a) then Ok (name, {| dat := dat a; shp := [3] |}) else Err Validation)
  /\ (forall natom a, prop_field natom ("scf_quadrupole_moment", a) =
     if 9 =? zlen (dat a) then Ok ("scf_quadrupole_moment", {| dat := dat a; shp := [3; 3] |}) else Err Validation).
Proof.
  split; [exact prop_gradient|]. split; [exact prop_hessian|]. split; [exact prop_deriv_needs_natom|].
  split; [exact prop_dipole|exact prop_quadrupole].
Qed.

(** Every array field that declares a shape (wavefunction and properties) is covered by a reshape rule
    compatible with the declaration (nao = nbf, nmo = the free dimension, constants equal) — finite check
    over the regenerated field tables; the only exceptions are localized_fock_a/_b (next theorem). *)
Theorem C20_declared_shapes_enforced :
  forallb wfn_decl_ok wfn_fields = true /\ forallb prop_decl_ok prop_fields = true.
Proof. exact declared_shapes_enforced. Qed.

(** "Every array that declares a shape is reshaped to it or rejected" is still false for localized_fock_a/_b
    (declared nmo x nmo; nmo is unknown to the model, so no validator covers them): accepted as they
    come, any size (known finding C20-unvalidated-declared-shapes; replayed by the harness corpus). *)
Theorem C20_declared_shapes_enforced_refuted :
  exists w, In ("localized_fock_a", FArr None (Some [DNmo; DNmo])) wfn_fields
            /\ dget "localized_fock_a" w = Some (WArr {| dat := [1; 2; 3]; shp := [3] |})
            /\ wfn_validate w = Ok w.
Proof.
  exists [("basis", WBasis 2); ("restricted", WBool false); ("localized_fock_a", WArr {| dat := [1; 2; 3]; shp := [3] |})].
  repeat split; vm_compute; auto 40.
Qed.

(** Re-validating an accepted WavefunctionProperties dictionary (the reshape validators and the pointer
    existence check, over all fields in declaration order, with pydantic's error collection) returns
    it unchanged — for every dictionary, over the generated field table. *)
Theorem C20_wfn_validation_idempotent : forall w w', wfn_validate w = Ok w' -> wfn_validate w' = Ok w'.
Proof. exact wfn_validate_idempotent. Qed.

(** The whole `wavefunction` field (protocol filter, then WavefunctionProperties validation): the accepted
    result fed back through the same protocol is accepted and returned UNCHANGED — by a simulation
    argument: validation only reshapes arrays, which the filter cannot see, so the filter maps the
    validated dictionary to itself, and validation is idempotent. *)
Theorem C20_wfn_stage_idempotent : forall p w w',
  wfn_stage (Some p) (Some w) = Ok (Some w') -> wfn_stage (Some p) (Some w') = Ok (Some w').
Proof. exact wfn_stage_idempotent. Qed.

(** Re-validating an accepted AtomicResult (wavefunction, return_result, stdout, native_files fed back
    under the same protocols and driver) returns the same object, for every input — provided
    native_files was supplied, or was absent under a policy that maps {} to {} (all, none). The excluded
    case (absent under `input`) is the refuted statement at the end of this file. *)
Theorem C20_atomic_revalidation : forall i o,
  atomic_result i = Ok o ->
  (a_native i <> None \/ native_protocol (native_policy i) [] = Ok []) ->
  atomic_result (refeed i o) = Ok o.
Proof. exact atomic_revalidation. Qed.

(** WavefunctionProperties, every array field that has a reshape rule in the generated table (AO matrices
    nbf x nbf, orbitals nbf x *, vectors flat), with the basis the dictionary itself carries:
    accepted => the stored array has the supplied elements in the shape numpy's reshape gives for the rule
    instantiated with THAT nbf; a size that fits no such shape => the whole object is refused with a
    validation error; and, spelled out for the nbf x nbf rule: shape = [nbf; nbf] and size = nbf * nbf. *)
Theorem C20_wfn_arrays_shaped_or_rejected :
  (forall w w', wfn_validate w = Ok w' ->
     exists nbf, dget "basis" w' = Some (WBasis nbf) /\
     forall name t d a, In (name, FArr (Some t) d) wfn_fields -> dget name w = Some (WArr a) ->
       exists a', dget name w' = Some (WArr a') /\ dat a' = dat a
                  /\ reshape_dims (zlen (dat a)) (inst (if uses_nbf t then nbf else 0) 0 t) = Ok (shp a'))
  /\ (forall w name t d a nbf,
     In (name, FArr (Some t) d) wfn_fields -> dget name w = Some (WArr a) -> dget "basis" w = Some (WBasis nbf) ->
     (forall s, reshape_dims (zlen (dat a)) (inst (if uses_nbf t then nbf else 0) 0 t) <> Ok s) ->
     wfn_validate w = Err Validation)
  /\ (forall w w' name d a, wfn_validate w = Ok w' ->
     In (name, FArr (Some [DNbf; DNbf]) d) wfn_fields -> dget name w = Some (WArr a) ->
     exists nbf a', dget "basis" w' = Some (WBasis nbf) /\ dget name w' = Some (WArr a') /\ dat a' = dat a
                    /\ shp a' = [nbf; nbf] /\ nbf * nbf = zlen (dat a))
  /\ (forall w k, wfn_validate w = Err k -> k = Validation).
Proof.
  split; [exact wfn_validate_shapes|]. split; [exact wfn_validate_rejects_misfit|].
  split; [intros w w' name d a; apply wfn_matrix_shape|exact wfn_validate_err].
Qed.
(** the nbf x nbf rule is attached to twelve fields of the generated table, the nbf x * rule to four, the flat rule to four *)
Example C20_ex_rules :
  List.length (filter (fun f => match snd f with FArr (Some [DNbf; DNbf]) _ => true | _ => false end) wfn_fields) = 12%nat
  /\ List.length (filter (fun f => match snd f with FArr (Some [DNbf; DAny]) _ => true | _ => false end) wfn_fields) = 4%nat
  /\ List.length (filter (fun f => match snd f with FArr (Some [DAny]) _ => true | _ => false end) wfn_fields) = 4%nat.
Proof. vm_compute. auto. Qed.

(** Validation changes nothing but array shapes: the validated dictionary has exactly the supplied keys, every
    non-array value is the supplied one, every array holds the supplied elements. *)
Theorem C20_wfn_validation_keeps_payload : forall w w', wfn_validate w = Ok w' ->
  forall k, match dget k w, dget k w' with
            | None, None => True
            | Some v, Some v' => same_payload v v'
            | _, _ => False
            end.
Proof. exact wfn_validate_payload. Qed.

(** WavefunctionProperties built from ANY dictionary w is accepted  iff  w is acceptable, where [wfn_acceptable]
    (Proofs/ResultsAccept.v) reads the class field by field with no accumulator and no error flag: no unknown key; `basis` a
    basis set and `restricted` a bool; every array with a reshape rule absent or an array whose size fits the rule for the
    object's own nbf (explicit None is refused: the validator runs on it); arrays without a rule absent / None / any array; every
    return pointer absent or a string naming a field declared EARLIER in the generated table that is present and not None. *)
Theorem C20_wfn_accepted_iff : forall w, (exists w', wfn_validate w = Ok w') <-> wfn_acceptable w = true.
Proof. exact wfn_validate_accepts_iff. Qed.
(** satisfiable and not vacuous: fitting / misfitting Fock matrix, pointer to an absent array, to an earlier and to a later pointer *)
Example C20_ex_acceptable :
  wfn_acceptable (ex_w [1; 2; 3; 4] "scf_fock_a") = true /\ wfn_acceptable (ex_w [1; 2; 3] "scf_fock_a") = false
  /\ wfn_acceptable (ex_w [1; 2; 3; 4] "scf_density_a") = false
  /\ wfn_acceptable (ex_w [1; 2; 3; 4] "orbitals_a") = true /\ wfn_acceptable (ex_w [1; 2; 3; 4] "eigenvalues_a") = false.
Proof. exact ex_acceptable. Qed.
(** every array field is declared before every return pointer in the generated table: a pointer naming an ARRAY field is
    accepted iff that array is present and not None ("the arrays they point to") *)
Example C20_ex_arrays_before_pointers : arrays_before_pointers false wfn_fields = true.
Proof. exact wfn_arrays_before_pointers. Qed.

(** The refusing half, field by field and whatever the other fields hold: ONE field that is not ok (given the names declared
    before it) makes the whole dictionary a validation error; in particular a return pointer whose target is absent or None,
    and a ruled array that does not fit the rule for the object's own nbf or is given as something that is not an array. *)
Theorem C20_wfn_rejects_bad_field :
  (forall w nbf pre f post, wfn_fields = pre ++ f :: post -> dget "basis" w = Some (WBasis nbf) ->
     field_ok w nbf (keys pre) f = false -> wfn_validate w = Err Validation)
  /\ (forall w nbf name s, In (name, FPtr) wfn_fields -> dget "basis" w = Some (WBasis nbf) ->
     dget name w = Some (WStr s) -> nonnone (dget s w) = false -> wfn_validate w = Err Validation)
  /\ (forall w nbf name t d, In (name, FArr (Some t) d) wfn_fields -> dget "basis" w = Some (WBasis nbf) ->
     match dget name w with
     | Some (WArr a) => fits a (inst (if uses_nbf t then nbf else 0) 0 t) = false
     | Some _ => True
     | None => False
     end -> wfn_validate w = Err Validation).
Proof.
  split; [exact wfn_validate_rejects_field|]. split; [exact wfn_validate_rejects_dangling|exact wfn_validate_rejects_unfit].
Qed.

(** The public constructor AtomicResult(...), protocols supplied or defaulted: accepted with result o  iff  the
    protocols are valid and each of the four governed fields passes its stage with the corresponding field of o;
    a refusal is a validation error, except the KeyError of the unguarded `values['protocols']` in the
    native_files validator (invalid protocols together with supplied native_files). *)
Theorem C20_atomic_result_is_its_stages :
  (forall i o, atomic_result i = Ok o <->
     protocols_ok i = true
     /\ wfn_stage (Some (eff_pw i)) (a_wfn i) = Ok (o_wfn o)
     /\ return_result (a_driver i) (a_rr i) = Ok (o_rr o)
     /\ stdout_protocol (Some (eff_ps i)) (a_stdout i) = Ok (o_stdout o)
     /\ match a_native i with
        | None => o_native o = []
        | Some v => native_protocol (native_policy i) v = Ok (o_native o)
        end)
  /\ (forall i k, atomic_result i = Err k ->
     k = Validation \/ (k = PyKeyError /\ protocols_ok i = false /\ a_native i <> None)).
Proof. split; [exact atomic_result_ok_iff|exact atomic_result_err]. Qed.

(** What the `wavefunction` of an accepted AtomicResult holds — through the protocol filter AND the field
    validators, for every supplied dictionary and every protocol setting (eff_pw: supplied or default):
    nothing under `none`; otherwise exactly the keys of the documented keep list present after the restricted
    filter, each with the supplied payload (arrays: the supplied elements), no *_b key when restricted;
    and no wavefunction appears when none was supplied. *)
Theorem C20_atomic_wfn_kept_exactly :
  (forall i o w, atomic_result i = Ok o -> a_wfn i = Some w ->
     (eff_pw i = "none" /\ o_wfn o = None)
     \/ exists r w', dget "restricted" w = Some r /\ r <> WNone /\ o_wfn o = Some w' /\
          let w1 := after_restricted r w in
          match assoc String.eqb (eff_pw i) doc_wfn_keep with
          | Some KeepAll => forall k, is_some (dget k w') = is_some (dget k w1)
          | Some (KeepList l) => forall k, is_some (dget k w') = keptb l w1 k && is_some (dget k w1)
          | _ => False
          end
          /\ (forall k v', dget k w' = Some v' -> exists v, dget k w = Some v /\ same_payload v v')
          /\ (truthy r = true -> forall k, dget k w' <> None -> ends_with "_b" k = false))
  /\ (forall i o, atomic_result i = Ok o -> a_wfn i = None -> o_wfn o = None).
Proof. split; [exact atomic_wfn_kept_exactly|exact atomic_wfn_absent]. Qed.

(** stdout (kept iff the effective stdout protocol is True), return_result and native_files of an accepted AtomicResult *)
Theorem C20_atomic_other_fields : forall i o, atomic_result i = Ok o ->
  o_stdout o = (if eff_ps i then a_stdout i else None)
  /\ return_result (a_driver i) (a_rr i) = Ok (o_rr o)
  /\ match a_native i with
     | None => o_native o = []
     | Some v => native_protocol (native_policy i) v = Ok (o_native o)
     end.
Proof. exact atomic_other_fields. Qed.

(** AtomicResultProperties as a whole: accepted iff every supplied array field is accepted, holding the field-wise
    results; re-validating the accepted object changes nothing; a refusal is a validation error (PyAssertion is the
    UnboundLocalError of a validator attached to a field whose name has none of the expected suffixes: unreachable
    with the generated table, see C20_declared_shapes_enforced). *)
Theorem C20_properties_whole_object :
  (forall natom fs fs', props_fields natom fs = Ok fs' <-> Forall2 (fun f f' => prop_field natom f = Ok f') fs fs')
  /\ (forall natom fs fs', props_fields natom fs = Ok fs' -> props_fields natom fs' = Ok fs')
  /\ (forall natom fs k, props_fields natom fs = Err k -> k = Validation \/ k = PyAssertion).
Proof. split; [exact props_fields_ok_iff|]. split; [exact props_fields_revalidate|exact props_fields_err]. Qed.

(** Basis sets: the function count is the sum over the atoms of the sum over the center's shells of
    2L+1 (spherical) / (L+1)(L+2)/2 (cartesian) over all angular momenta of the shell (fused shells) —
    general contractions add nothing —, and a well-formed basis set is accepted iff the supplied nbf is
    absent or equals that count; the stored nbf is the count. *)
Theorem C20_nbf_spec : forall b,
  NoDup (keys (b_centers b)) -> structurally_valid b ->
  basis_validate b =
  match b_nbf b with
  | None => Ok (nbf_spec (b_atom_map b) (b_centers b))
  | Some v => if v =? nbf_spec (b_atom_map b) (b_centers b) then Ok v else Err Validation
  end.
Proof. exact basis_nbf_spec. Qed.

Theorem C20_nbf_count_formulas :
  (forall L, nf_spherical L = 2 * L + 1) /\ (forall L, nf_cartesian L = (L + 1) * (L + 2) / 2)
  /\ (forall s, nfunctions s = shell_count s)
  /\ (forall am cd, NoDup (keys cd) -> (forall c, In c am -> In c (keys cd)) -> calculate_nbf am cd = Ok (nbf_spec am cd)).
Proof.
  split; [exact nf_spherical_doc|]. split; [exact nf_cartesian_doc|]. split; [exact nfunctions_doc|exact calculate_nbf_spec].
Qed.

(** Re-validating an accepted basis set (which now carries its nbf) changes nothing. *)
Theorem C20_basis_revalidation : forall b n,
  NoDup (keys (b_centers b)) -> structurally_valid b -> basis_validate b = Ok n ->
  basis_validate {| b_centers := b_centers b; b_atom_map := b_atom_map b; b_nbf := Some n |} = Ok n.
Proof. exact basis_revalidate. Qed.

(** ... and the hypothesis `structurally_valid` is necessary as well: BasisSet(...) is accepted with stored count n
    iff it is structurally valid, n is the count implied by the shells and the supplied nbf is absent or n;
    a refusal is a validation error or the KeyError that escapes from a malformed shell. *)
Theorem C20_basis_accepted_iff :
  (forall b n, NoDup (keys (b_centers b)) ->
     (basis_validate b = Ok n <->
      structurally_valid b /\ n = nbf_spec (b_atom_map b) (b_centers b) /\ (b_nbf b = None \/ b_nbf b = Some n)))
  /\ (forall b k, basis_validate b = Err k -> k = Validation \/ k = PyKeyError).
Proof. split; [exact basis_accepted_iff|exact basis_validate_err]. Qed.

(** Re-validation of a whole AtomicResult is NOT always the identity: with native_files policy `input`
    and no native_files supplied the object holds {} (the validator does not run on the default), but
    its dict() passes {} explicitly and the second validation turns it into {'input': None} (known
    finding C20-native-input-default-not-idempotent). *)
Definition native_witness : ar_in :=
  {| a_driver := "energy"; a_pw := None; a_pstdout := None; a_pnative := Some "input"; a_wfn := None;
     a_rr := RFloat 5; a_stdout := Some "I ran."; a_native := None |}.
Theorem C20_revalidation_identity_refuted :
  exists i o o', atomic_result i = Ok o /\ atomic_result (refeed i o) = Ok o' /\ o_native o = [] /\ o_native o' = [("input", None)].
Proof.
  exists native_witness. eexists. eexists. split; [vm_compute; reflexivity|]. split; [vm_compute; reflexivity|].
  split; reflexivity.
Qed.

(** Non-vacuity: a restricted wavefunction with alpha and beta orbitals, eigenvalues and a Fock matrix
    under orbitals_and_eigenvalues keeps basis, restricted, the alpha orbital pointer and its target only. *)
Definition ex_wfn : wdict :=
  [("scf_fock_a", WArr {| dat := [1; 2; 3; 4]; shp := [4] |}); ("basis", WBasis 2); ("restricted", WBool true);
   ("scf_orbitals_a", WArr {| dat := [5; 6; 7; 8]; shp := [2; 2] |}); ("scf_orbitals_b", WArr {| dat := [9; 9; 9; 9]; shp := [4] |});
   ("orbitals_a", WStr "scf_orbitals_a"); ("orbitals_b", WStr "scf_orbitals_b"); ("fock_a", WStr "scf_fock_a")].
Example C20_ex_wfn :
  wfn_pre (Some "orbitals_and_eigenvalues") (Some ex_wfn)
  = Ok (Some [("restricted", WBool true); ("basis", WBasis 2); ("orbitals_a", WStr "scf_orbitals_a");
              ("scf_orbitals_a", WArr {| dat := [5; 6; 7; 8]; shp := [2; 2] |})]).
Proof. vm_compute. reflexivity. Qed.
Example C20_ex_atomic :
  atomic_result {| a_driver := "hessian"; a_pw := Some "all"; a_pstdout := Some false; a_pnative := Some "input";
                   a_wfn := Some ex_wfn; a_rr := RArr {| dat := [1; 2; 3; 4]; shp := [4] |}; a_stdout := Some "out";
                   a_native := Some [("input", Some "geom"); ("out", Some "o")] |}
  = Ok {| o_wfn := Some [("basis", WBasis 2); ("restricted", WBool true);
                         ("scf_orbitals_a", WArr {| dat := [5; 6; 7; 8]; shp := [2; 2] |});
                         ("scf_fock_a", WArr {| dat := [1; 2; 3; 4]; shp := [2; 2] |});
                         ("orbitals_a", WStr "scf_orbitals_a"); ("fock_a", WStr "scf_fock_a")];
          o_rr := RArr {| dat := [1; 2; 3; 4]; shp := [2; 2] |}; o_stdout := None; o_native := [("input", Some "geom")] |}.
Proof. vm_compute. reflexivity. Qed.
(** the water/STO-3G-like basis of the test-suite: s + fused cartesian sp + general-contraction s on O, s on H: 1+4+1+1+1 = 8 *)
Definition ex_basis : basis_in :=
  {| b_centers := [("o", [ {| sh_am := [0]; sh_spherical := true; sh_nexp := 3; sh_coef := [3] |};
                           {| sh_am := [0; 1]; sh_spherical := false; sh_nexp := 3; sh_coef := [3; 3] |};
                           {| sh_am := [0]; sh_spherical := false; sh_nexp := 3; sh_coef := [3; 3] |} ]);
                   ("h", [ {| sh_am := [0]; sh_spherical := true; sh_nexp := 3; sh_coef := [3] |} ])];
     b_atom_map := ["o"; "h"; "h"]; b_nbf := Some 8 |}.
Example C20_ex_basis : NoDup (keys (b_centers ex_basis)) /\ structurally_valid ex_basis /\ basis_validate ex_basis = Ok 8.
Proof.
  split; [repeat constructor; simpl; intuition discriminate|]. split; [|vm_compute; reflexivity].
  split.
  - intros k shells [E|[E|[]]]; inversion E; subst; (split; [discriminate|]); intros s Hs; simpl in Hs;
      repeat (destruct Hs as [<-|Hs]; [vm_compute; reflexivity|]); destruct Hs.
  - intros c Hc; simpl in *; intuition.
Qed.

Print Assumptions C20_keep_lists_are_documented.
Print Assumptions C20_wfn_kept_exactly.
Print Assumptions C20_wfn_dropped_only_by_none.
Print Assumptions C20_wfn_protocol_idempotent.
Print Assumptions C20_wfn_fails_closed.
Print Assumptions C20_stdout_native_protocols.
Print Assumptions C20_trajectory_spec.
Print Assumptions C20_trajectory_idempotent_total.
Print Assumptions C20_shapes_accepted_iff_size_fits.
Print Assumptions C20_shapes_flat_shaped_idempotent.
Print Assumptions C20_return_result_by_driver.
Print Assumptions C20_property_arrays.
Print Assumptions C20_declared_shapes_enforced.
Print Assumptions C20_declared_shapes_enforced_refuted.
Print Assumptions C20_wfn_validation_idempotent.
Print Assumptions C20_wfn_stage_idempotent.
Print Assumptions C20_atomic_revalidation.
Print Assumptions C20_wfn_arrays_shaped_or_rejected.
Print Assumptions C20_wfn_validation_keeps_payload.
Print Assumptions C20_wfn_accepted_iff.
Print Assumptions C20_wfn_rejects_bad_field.
Print Assumptions C20_atomic_result_is_its_stages.
Print Assumptions C20_atomic_wfn_kept_exactly.
Print Assumptions C20_atomic_other_fields.
Print Assumptions C20_properties_whole_object.
Print Assumptions C20_nbf_spec.
Print Assumptions C20_nbf_count_formulas.
Print Assumptions C20_basis_revalidation.
Print Assumptions C20_basis_accepted_iff.
Print Assumptions C20_revalidation_identity_refuted.
