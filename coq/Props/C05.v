(** C05 — Charge/multiplicity completion is sound, input-respecting and deterministic.
    Property theorems only; each is closed by [exact] of a lemma from Proofs/ChgMult.v.
    Model: Model/ChgMult.v ([fill] = validate_and_fill_chgmult on integer data). *)
From Coq Require Import ZArith List Bool.
Require Import QV.Common.Outcome QV.Model.ChgMult QV.Proofs.ChgMult.
Import ListNotations.
Open Scope Z_scope.

(** Soundness, for every number of fragments and every partial specification: a returned assignment
    has one entry per fragment, total charge = sum of fragment charges, positive multiplicities,
    enough electrons and the right parity (total and per fragment), keeps every supplied value of the
    specification the search ran on ([adjust i]: the caller's input, except that with
    zero_ghost_fragments and a ghost fragment present the totals are cleared and ghost fragments are
    pinned to (0,1) — as documented), all-ghost fragments are (0,1), and the total multiplicity is the
    high-spin sum unless total and all fragment multiplicities were supplied. *)
Theorem C05_sound : forall i r, wf_in i -> fill i = Ok r -> Spec (adjust i) r.
Proof. exact fill_sound. Qed.

(** Without the ghost override the specification searched is the caller's input itself. *)
Theorem C05_inputs_kept_verbatim : forall i, zgf i = false -> adjust i = i.
Proof. intros i H. unfold adjust. rewrite H. reflexivity. Qed.

(** A completed assignment fed back is returned unchanged. *)
Theorem C05_fixed_point : forall i r, wf_in i -> fill i = Ok r -> fill (respec i r) = Ok r.
Proof. exact fill_fixed_point. Qed.

(** Any fully specified assignment that obeys the rules is accepted as is. *)
Theorem C05_accepts_valid_full_spec : forall i r, rules_full i r = true -> fill (respec i r) = Ok r.
Proof. exact fill_accepts_full. Qed.

(** With nothing specified: neutral, lowest multiplicity per fragment, high-spin total. *)
Theorem C05_default_neutral_lowspin :
  forall fe, Forall (fun f => 0 <= zsum f) fe -> fill (blank fe false) = Ok (target fe).
Proof. exact fill_default. Qed.

(** It never returns anything but an assignment or a validation error. *)
Theorem C05_fails_closed : forall i, fill i = Err Validation \/ exists r, fill i = Ok r.
Proof. exact fill_fails_closed. Qed.

(** Non-vacuity: the docstring case N/Ne/N, total charge 1, quartet, middle fragment triplet. *)
Definition ex_in : cm_in :=
  {| felez := [[7]; [10]; [7]]; ic := Some 1; ifc := [None; None; None]; im := Some 4;
     ifm := [None; Some 3; None]; zgf := false |}.
Definition ex_out : cm_out := {| oc := 1; ofc := [1; 0; 0]; om := 4; ofm := [1; 3; 2] |}.
Example C05_ex_fill : wf_in ex_in /\ fill ex_in = Ok ex_out /\ rules_full ex_in ex_out = true.
Proof. repeat split; vm_compute; reflexivity. Qed.
Example C05_ex_default : fill (blank [[1]; [0; 0]; [8; 1; 1]] false) = Ok (target [[1]; [0; 0]; [8; 1; 1]])
                         /\ target [[1]; [0; 0]; [8; 1; 1]] = {| oc := 0; ofc := [0; 0; 0]; om := 2; ofm := [2; 1; 1] |}.
Proof. split; vm_compute; reflexivity. Qed.

Print Assumptions C05_sound.
Print Assumptions C05_inputs_kept_verbatim.
Print Assumptions C05_fixed_point.
Print Assumptions C05_accepts_valid_full_spec.
Print Assumptions C05_default_neutral_lowspin.
Print Assumptions C05_fails_closed.
