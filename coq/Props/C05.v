(** C05 — Charge/multiplicity completion is sound, input-respecting and deterministic.
    Property theorems only; each is closed by [exact] of a lemma from Proofs/ChgMult*.v.
    Models: Model/ChgMult.v ([fill] = validate_and_fill_chgmult on integer data) and Model/ChgMultD.v
    ([fillD D] = the same on rational charges / electron counts x/D, i.e. the float path; [fillD 1 = fill]).

    CLAUSE MAP (statement of C05 in properties.jsonl, clause by clause)
    1  "keeps every value the caller supplied"
         C05_sound / C05_sound_rational (fields sp_keep_c, sp_keep_fc, sp_keep_m, sp_keep_fm, relative to
         [adjust i]), C05_inputs_kept_verbatim ([adjust i = i] unless zero_ghost_fragments AND a ghost fragment is
         present), C05_ghost_override_keeps_real_fragments (what [adjust] changes: totals cleared, ghost fragments
         pinned to (0,1), every entry of a real fragment untouched).
    2  "total charge = sum of fragment charges"                      C05_sound (sp_sum)
    3  "positive integer multiplicity, enough electrons, right parity (each fragment and the whole)"
         C05_sound (sp_pos, sp_tot, sp_frag); for fractional charges C05_sound_rational (parity is a constraint
         only when the electron count z - c is integral: C05_parity_rule_rational).  Integrality of multiplicities is
         by typing of the model (Z); float-typed integral multiplicities (2.0) and the refusal of the others are
         only correspondence/oracle.
    4  "all-ghost fragments neutral singlets"                        C05_sound (sp_ghost)
    5  "high-spin coupling unless total and all fragment multiplicities were given"   C05_sound (sp_high)
    6  "same input, same answer"      definitional for the model (a Gallina function); for the implementation only
         correspondence: determinism / history / re-split / entry-point streams.
    7  "a completed assignment fed back is returned unchanged"       C05_fixed_point, C05_fixed_point_rational
    8  "any fully specified assignment that obeys these rules is accepted as is"
         C05_accepts_valid_full_spec (boolean rules), C05_accepts_spec / C05_accepts_spec_rational (the same [Spec] that
         soundness concludes: acceptance is the exact converse of soundness on complete assignments).
    9  "with nothing specified: neutral, lowest multiplicity per fragment"
         C05_default_neutral_lowspin (zero_ghost_fragments = False), C05_default_zgf_partial (zero_ghost_fragments =
         True without ghost fragment), C05_default_zgf (zero_ghost_fragments = True, ghost fragments or not: the
         override pins the ghost fragments to (0,1) and the search still ends in the same neutral / lowest-multiplicity
         assignment), C05_default_entries (what that assignment is, fragment by fragment).
    10 "when it cannot satisfy the rules it raises a validation error instead of returning a violating assignment"
         C05_fails_closed (+ C05_sound), C05_error_iff_no_solution_in_searched_space (an error is raised exactly when a
         non-positive multiplicity was supplied or NO assignment of the searched space -- described as a proposition,
         [in_space]: total charge = the supplied one or the sum of the supplied fragment charges; an unspecified
         fragment charge = 0 or the whole unallocated charge; total multiplicity supplied or between the all-singlet and
         all-doublet high-spin sums; an unspecified fragment multiplicity 1, 2 or the missing-multiplicity range --
         satisfies the rules), C05_error_iff_rational.  The unrestricted converse ("an error only if no assignment
         at all satisfies the rules") is FALSE of the code as documented (it searches S1-S7 only):
         C05_complete_unrestricted_refuted (H atom requested singlet: H+ singlet would obey every rule).
    TIE  C05_generated_rules_are_the_model: _apply_default, _high_spin_sum, _mult_ok, _sufficient_electrons_for_mult,
         _parity_ok are translated from chgmult.py on every run (Gen/ChgMultRules.v) and proved equal to the model's;
         candidate construction S1-S7, the rule list and the search are hand-written, tied by exact differential runs.
    +  which assignment is chosen: C05_first_match (the first element, in itertools.product order c, fc, m, fm, of
         the candidate list that satisfies the specification; everything before it violates it).  *)
From Coq Require Import ZArith List Bool.
Require Import QV.Common.Outcome QV.Model.ChgMult QV.Model.ChgMultD QV.Proofs.ChgMult QV.Proofs.ChgMultSpace
  QV.Proofs.ChgMultD QV.Gen.ChgMultRules QV.Proofs.ChgMultGen QV.Proofs.ChgMultGhost.
Import ListNotations.
Open Scope Z_scope.

(** Soundness, for every number of fragments and every partial specification: a returned assignment
    has one entry per fragment, total charge = sum of fragment charges, positive multiplicities,
    enough electrons and the right parity (total and per fragment), keeps every supplied value of the
    specification the search ran on ([adjust i]: the caller's input, except that with
    zero_ghost_fragments and a ghost fragment present the totals are cleared and ghost fragments are
    pinned to (0,1) — as documented), all-ghost fragments are (0,1), and the total multiplicity is the
    high-spin sum unless total and all fragment multiplicities were supplied. *)
Theorem C05_sound : forall i r, wf_in i -> fill i = Ok r -> Spec (adjust i) r.
Proof. exact fill_sound. Qed.

(** Without the ghost override (flag off, or no ghost fragment) the specification searched is the caller's input. *)
Theorem C05_inputs_kept_verbatim : forall i, zgf i = false \/ has_ghost i = false -> adjust i = i.
Proof. exact adjust_id. Qed.

(** What the ghost override changes: the totals are cleared, ghost fragments are pinned to (0, 1), and every
    entry belonging to a real fragment is left exactly as supplied. *)
Theorem C05_ghost_override_keeps_real_fragments : forall i, wf_in i -> zgf i = true -> has_ghost i = true ->
  felez (adjust i) = felez i /\ ic (adjust i) = None /\ im (adjust i) = None /\
  forall k g, nth_error (ghosts i) k = Some g ->
    nth_error (ifc (adjust i)) k = (if g then Some (Some 0) else nth_error (ifc i) k) /\
    nth_error (ifm (adjust i)) k = (if g then Some (Some 1) else nth_error (ifm i) k).
Proof. exact adjust_override. Qed.

(** A completed assignment fed back is returned unchanged. *)
Theorem C05_fixed_point : forall i r, wf_in i -> fill i = Ok r -> fill (respec i r) = Ok r.
Proof. exact fill_fixed_point. Qed.

(** Any fully specified assignment that obeys the rules is accepted as is. *)
Theorem C05_accepts_valid_full_spec : forall i r, rules_full i r = true -> fill (respec i r) = Ok r.
Proof. exact fill_accepts_full. Qed.

(** ... stated against the specification that soundness concludes (exact converse of C05_sound on complete input). *)
Theorem C05_accepts_spec : forall i r, Spec (adjust (respec i r)) r -> fill (respec i r) = Ok r.
Proof. exact fill_accepts_spec. Qed.

(** With nothing specified: neutral, lowest multiplicity per fragment, high-spin total. *)
Theorem C05_default_neutral_lowspin :
  forall fe, Forall (fun f => 0 <= zsum f) fe -> fill (blank fe false) = Ok (target fe).
Proof. exact fill_default. Qed.

Theorem C05_default_zgf_partial :
  forall fe, Forall (fun f => 0 <= zsum f) fe -> has_ghost (blank fe true) = false -> fill (blank fe true) = Ok (target fe).
Proof. exact fill_default_zgf_noghost. Qed.

(** ... and with zero_ghost_fragments = True in every case, in particular WITH ghost fragments (the override turns the
    blank specification into one that pins every ghost fragment to charge 0, multiplicity 1). *)
Theorem C05_default_zgf : forall fe, Forall (fun f => 0 <= zsum f) fe -> fill (blank fe true) = Ok (target fe).
Proof. exact fill_default_zgf. Qed.

(** The default answer fragment by fragment: charge 0; multiplicity 1 for a ghost fragment, otherwise the lowest one
    the electron count allows (1 for an even count, 2 for an odd one). *)
Theorem C05_default_entries : forall fe k f, nth_error fe k = Some f ->
  nth_error (ofc (target fe)) k = Some 0 /\
  nth_error (ofm (target fe)) k = Some (if is_ghost f then 1 else lowest (zsum f)).
Proof. exact target_ghost_entries. Qed.

(** It never returns anything but an assignment or a validation error. *)
Theorem C05_fails_closed : forall i, fill i = Err Validation \/ exists r, fill i = Ok r.
Proof. exact fill_fails_closed. Qed.

(** Completeness of the search: a validation error is raised exactly when a non-positive multiplicity was supplied
    or no assignment of the searched space satisfies the rules. *)
Theorem C05_error_iff_no_solution_in_searched_space : forall i, wf_in i ->
  (fill i = Err Validation <-> bad_supplied i \/ forall r, in_space (adjust i) r -> ~ Spec (adjust i) r).
Proof. exact fill_err_iff. Qed.

(** [in_space] is exactly membership in the candidate product the code iterates over. *)
Theorem C05_searched_space : forall i r, In r (candidates i) <-> in_space i r.
Proof. exact in_space_candidates. Qed.

(** The unrestricted reading of completeness is false (documented behaviour: only S1-S7 are searched). *)
Theorem C05_complete_unrestricted_refuted :
  exists i r, wf_in i /\ fill i = Err Validation /\ ~ bad_supplied i /\ Spec (adjust i) r.
Proof. exact fill_complete_unrestricted_refuted. Qed.

(** Which assignment is returned: the first one, in the order of the candidate product, that satisfies the
    specification. *)
Theorem C05_first_match : forall i r, wf_in i -> fill i = Ok r ->
  exists pre post, candidates (adjust i) = pre ++ r :: post
    /\ Forall (fun x => ~ Spec (adjust i) x) pre /\ Spec (adjust i) r.
Proof. exact fill_first_match. Qed.

(** Fractional charges (the float path).  [fillD D] works on charges and electron counts x/D. *)
Theorem C05_integer_case_of_rational : forall i, fillD 1 i = fill i.
Proof. exact fillD_1. Qed.

Theorem C05_sound_rational : forall D i r, 0 < D -> wf_in i -> fillD D i = Ok r -> SpecD D (adjust i) r.
Proof. exact fillD_sound. Qed.

(** The parity rule as evaluated by the code, `(m % 2) != ((z - c) % 2)`, constrains m exactly when the electron
    count (z - c)/D is an integer q, and then says that m and q have different parity. *)
Theorem C05_parity_rule_rational : forall D z c m, 0 < D ->
  (parity_okD D z c m = true <-> forall q, z - c = q * D -> m mod 2 <> q mod 2).
Proof. exact parity_okD_spec. Qed.

Theorem C05_fixed_point_rational : forall D i r, 0 < D -> wf_in i -> fillD D i = Ok r -> fillD D (respec i r) = Ok r.
Proof. exact fillD_fixed_point. Qed.

Theorem C05_accepts_spec_rational : forall D i r, 0 < D -> SpecD D (adjust (respec i r)) r -> fillD D (respec i r) = Ok r.
Proof. exact fillD_accepts_spec. Qed.

Theorem C05_error_iff_rational : forall D i, 0 < D -> wf_in i ->
  (fillD D i = Err Validation <-> bad_supplied i \/ forall r, in_space (adjust i) r -> ~ SpecD D (adjust i) r).
Proof. exact fillD_err_iff. Qed.

Theorem C05_first_match_rational : forall D i r, 0 < D -> wf_in i -> fillD D i = Ok r ->
  exists pre post, candidates (adjust i) = pre ++ r :: post
    /\ Forall (fun x => ~ SpecD D (adjust i) x) pre /\ SpecD D (adjust i) r.
Proof. exact fillD_first_match. Qed.

Theorem C05_fails_closed_rational : forall D i, fillD D i = Err Validation \/ exists r, fillD D i = Ok r.
Proof. exact fillD_fails_closed. Qed.

(** Tie: the helper functions translated from chgmult.py on every run (_apply_default, _high_spin_sum, _mult_ok,
    _sufficient_electrons_for_mult, _parity_ok; integer and rational reading) are the model's, for all arguments. *)
Theorem C05_generated_rules_are_the_model :
  (forall l d, gen_apply_default l d = apply_default l d) /\ (forall l, gen_hss l = hss l) /\
  (forall m, gen_mult_ok m = (1 <=? m)) /\
  (forall z c m, gen_sufficient z c m = sufficient z c m) /\ (forall z c m, gen_parity_ok z c m = parity_ok z c m) /\
  (forall D z c m, gen_sufficientD D z c m = sufficientD D z c m) /\
  (forall D z c m, gen_parity_okD D z c m = parity_okD D z c m).
Proof. exact gen_rules_tie. Qed.

(** Non-vacuity: the docstring case N/Ne/N, total charge 1, quartet, middle fragment triplet. *)
Definition ex_in : cm_in :=
  {| felez := [[7]; [10]; [7]]; ic := Some 1; ifc := [None; None; None]; im := Some 4;
     ifm := [None; Some 3; None]; zgf := false |}.
Definition ex_out : cm_out := {| oc := 1; ofc := [1; 0; 0]; om := 4; ofm := [1; 3; 2] |}.
Example C05_ex_fill : wf_in ex_in /\ fill ex_in = Ok ex_out /\ rules_full ex_in ex_out = true.
Proof. repeat split; vm_compute; reflexivity. Qed.
Example C05_ex_default : fill (blank [[1]; [0; 0]; [8; 1; 1]] false) = Ok (target [[1]; [0; 0]; [8; 1; 1]])
                         /\ target [[1]; [0; 0]; [8; 1; 1]] = {| oc := 0; ofc := [0; 0; 0]; om := 2; ofm := [2; 1; 1] |}.
Proof. split; vm_compute; reflexivity. Qed.
(** blank specification, zero_ghost_fragments, two ghost fragments (one of them without atoms) next to H and H2O *)
Example C05_ex_default_zgf : has_ghost (blank [[1]; [0; 0]; []; [8; 1; 1]] true) = true
  /\ fill (blank [[1]; [0; 0]; []; [8; 1; 1]] true) = Ok {| oc := 0; ofc := [0; 0; 0; 0]; om := 2; ofm := [2; 1; 1; 1] |}.
Proof. split; vm_compute; reflexivity. Qed.
(** the ghost override is exercised: Gh/He/Gh with total charge 1 and zero_ghost_fragments *)
Example C05_ex_override :
  fill {| felez := [[0]; [2]; [0]]; ic := Some 1; ifc := [None; None; None]; im := None; ifm := [None; None; None]; zgf := true |}
  = Ok {| oc := 0; ofc := [0; 0; 0]; om := 1; ofm := [1; 1; 1] |}.
Proof. vm_compute; reflexivity. Qed.
(** a validation error with every supplied multiplicity positive (so the second disjunct of the completeness theorem holds) *)
Example C05_ex_error : fill cx_in = Err Validation /\ ~ bad_supplied cx_in.
Proof. destruct fill_complete_unrestricted_refuted_facts as [A B]. split; assumption. Qed.
(** a half-integral charge: He(+1/2) may be a singlet (no parity constraint), D = 2 *)
Example C05_ex_half : fillD 2 {| felez := [[4]]; ic := None; ifc := [Some 1]; im := None; ifm := [None]; zgf := false |}
                      = Ok {| oc := 1; ofc := [1]; om := 1; ofm := [1] |}.
Proof. exact fillD_half. Qed.

Print Assumptions C05_sound.
Print Assumptions C05_inputs_kept_verbatim.
Print Assumptions C05_ghost_override_keeps_real_fragments.
Print Assumptions C05_fixed_point.
Print Assumptions C05_accepts_valid_full_spec.
Print Assumptions C05_accepts_spec.
Print Assumptions C05_default_neutral_lowspin.
Print Assumptions C05_default_zgf_partial.
Print Assumptions C05_default_zgf.
Print Assumptions C05_default_entries.
Print Assumptions C05_fails_closed.
Print Assumptions C05_error_iff_no_solution_in_searched_space.
Print Assumptions C05_searched_space.
Print Assumptions C05_complete_unrestricted_refuted.
Print Assumptions C05_first_match.
Print Assumptions C05_integer_case_of_rational.
Print Assumptions C05_sound_rational.
Print Assumptions C05_parity_rule_rational.
Print Assumptions C05_fixed_point_rational.
Print Assumptions C05_accepts_spec_rational.
Print Assumptions C05_error_iff_rational.
Print Assumptions C05_first_match_rational.
Print Assumptions C05_fails_closed_rational.
Print Assumptions C05_generated_rules_are_the_model.
