(** C15 — Fragment extraction and composition bookkeeping conserve atoms and electrons.
    Property theorems only; each is closed by [exact] of a lemma from Proofs/Fragment.v / FragmentMore.v / Formula.v.
    Models: Model/Fragment.v ([get_fragment] = the keyword arguments Molecule.get_fragment hands to the constructor,
    [sub_molecule] = that followed by the constructor's charge / multiplicity validation (the C05 model [fill]),
    [get_fragment_pub] / [sub_molecule_pub] / [nelectrons_pub] / [nre_terms_pub] = the public entry points with their
    argument glue and generated defaults (Gen/FragGlue.v), [terms_from] = the terms of nuclear_repulsion_energy) and
    Model/Formula.v ([formula], [order_formula], [mol_formula] = Molecule.get_molecular_formula).

    CLAUSE MAP (statement / quantifier of C15 in properties.jsonl -> theorems here)
    1. the sub-molecule contains exactly the atoms of the chosen fragments, same symbols / masses / coordinates
         -> C15_atoms_conserved_grouped, C15_atoms_conserved_ungrouped (what the constructor is handed),
            C15_fragment_bookkeeping_unconditional (the validated molecule carries those atoms and fragments);
            through the public call (index or list, ghost absent, defaults): C15_public_defaults, C15_public_glue,
            C15_public_sub_molecule.  orient=True: the constructor receives the same arguments (C15_public_glue, 4th part);
            the frame itself is C16; corr + oracle (pair distances).
    2. real ones first, or in original order      -> same two theorems (order of d_atoms; Forall2 over the new fragments)
    3. ghost fragments flagged ghost, neutral singlets; real fragments keep (c, m); totals from the real fragments
         -> C15_atoms_conserved_* (flags, d_fc, d_fm, d_cm), C15_fragment_bookkeeping (+ _unconditional),
            C15_electrons_conserved_ungrouped (2nd, 3rd part: totals of the order-preserving path = sum / high-spin over the
            real-selected fragments), C15_subsystem_validates_grouped / _ungrouped (the constructor accepts).
    4. electron counts = real nuclear charges minus the charge, whole and per fragment, additive
         -> C15_electrons_per_fragment, C15_electrons_additive, C15_nelectrons_ifr (the ifr argument, IndexError);
            conservation through extraction: C15_electrons_conserved_grouped, _grouped_per_fragment, _ungrouped.
    5. nuclear repulsion: real nuclei only, invariant under rigid motion and atom reordering
         -> C15_nre_real_only, C15_nre_rigid_invariant, C15_nre_reorder_invariant, C15_nre_sum_invariant (for every atom
            list, hence for the whole molecule and for a fragment: C15_nre_ifr); the float sum against the exact terms:
            C15_nre_inv_sqrt_enclosure + corr.  The square root itself is outside the model.
    6. the formula reports exactly the element counts in alphabetical / Hill order
         -> C15_formula_counts, C15_formula_ordered, C15_formula_parse_roundtrip, C15_title_wellformed, C15_formula_ext,
            C15_order_formula_consistent, C15_supported_orders (the generated list of order names), C15_molecule_formula
            (Molecule.get_molecular_formula with its defaults).
    Scope (documented behaviour, not a finding): a real selection un-ghosts parent ghost atoms; fractional charges are
    outside the model. *)
From Coq Require Import ZArith QArith List String Bool Permutation.
Require Import QV.Common.Outcome QV.Common.HFList QV.Model.ChgMult QV.Gen.FragGlue QV.Model.Fragment QV.Proofs.Fragment
               QV.Model.Formula QV.Proofs.Formula QV.Proofs.FragmentMore.
Import ListNotations.
Open Scope Z_scope.

(** group_fragments=True: exactly the atoms of the chosen fragments, real fragments first in the order given then
    the ghost fragments, flagged by selection; the k-th fragment of the result is a consecutive block holding the
    atoms of the k-th chosen fragment; real fragments keep (charge, multiplicity), ghost fragments are (0, 1); the
    totals handed to the constructor are the sum / high-spin sum over the real fragments. *)
Theorem C15_atoms_conserved_grouped : forall p real ghost d,
  get_fragment p real ghost true = Ok d ->
  d_atoms d = flat_map (frag_atoms p true) real ++ flat_map (frag_atoms p false) ghost
  /\ Forall2 (fun blk (e : nat * bool) => map (fun i => nth i (d_atoms d) dflt_atom) blk = frag_atoms p (snd e) (fst e))
             (d_frags d) (chosen_flags real ghost)
  /\ List.concat (d_frags d) = seq 0 (List.length (d_atoms d))
  /\ d_fc d = map (fc_at p) real ++ map (fun _ => 0) ghost
  /\ d_fm d = map (fm_at p) real ++ map (fun _ => 1) ghost
  /\ d_cm d = Some (zsum (map (fc_at p) real), 1 + zsum (map (fun f => fm_at p f - 1) real)).
Proof. exact grouped_conserves. Qed.

(** group_fragments=False: the atoms of the chosen fragments in the parent's atom order, flagged by selection; the
    chosen fragments in the parent's order, each new index list (the at2at remap) pointing at exactly the atoms of
    the parent's fragment; (charge, multiplicity) kept for real and (0, 1) for ghost fragments. *)
Theorem C15_atoms_conserved_ungrouped : forall p real ghost d,
  disjoint_frags p -> (forall i, In i (List.concat (p_frags p)) -> (i < List.length (p_atoms p))%nat) ->
  get_fragment p real ghost false = Ok d ->
  d_atoms d = flat_map (fun iat => if sel p real ghost iat then [set_real (sel_real p real iat) (atom_at p iat)] else [])
                       (seq 0 (List.length (p_atoms p)))
  /\ Forall2 (fun idx k => map (fun i => nth i (d_atoms d) dflt_atom) idx = frag_atoms p (memb k real) k)
             (d_frags d) (chosen_list p real ghost)
  /\ d_fc d = map (fun k => if memb k real then fc_at p k else 0) (chosen_list p real ghost)
  /\ d_fm d = map (fun k => if memb k real then fm_at p k else 1) (chosen_list p real ghost)
  /\ d_cm d = None.
Proof. exact ungrouped_conserves. Qed.

(** After the constructor's validation: same atoms and fragments, fragment charges / multiplicities unchanged, total
    charge = their sum, handed totals kept (grouped) or the high-spin multiplicity (order-preserving path), and every
    fragment made only of ghost atoms is a neutral singlet. *)
Theorem C15_fragment_bookkeeping : forall p real ghost group q,
  sub_molecule p real ghost group = Ok q ->
  exists d, get_fragment p real ghost group = Ok d
    /\ (lengths_ok d ->
        p_atoms q = d_atoms d /\ p_frags q = d_frags d /\ p_fc q = d_fc d /\ p_fm q = d_fm d
        /\ p_c q = zsum (p_fc q)
        /\ match d_cm d with
           | Some (c, m) => p_c q = c /\ p_m q = m
           | None => p_m q = 1 + zsum (map (fun m => m - 1) (p_fm q))
           end
        /\ (forall k fr c m, nth_error (d_frags d) k = Some fr -> nth_error (p_fc q) k = Some c -> nth_error (p_fm q) k = Some m ->
              forallb (fun i => zeff (nth i (d_atoms d) dflt_atom) =? 0) fr = true -> c = 0 /\ m = 1)).
Proof. exact sub_molecule_bookkeeping. Qed.

(** A regular grouped selection on a valid parent is accepted by the constructor's charge / multiplicity validation,
    with the totals formed from the real fragments — provided the real-selected fragments contain no parent ghost
    atoms (get_fragment makes every atom of a real-selected fragment real: documented; with parent ghosts inside, the
    electron count changes and the constructor may refuse).  [valid_frag] is what C05 guarantees of each fragment of a
    validated parent (multiplicity >= 1, enough electrons, parity), plus a positive nuclear charge. *)
Theorem C15_subsystem_validates_grouped : forall p real ghost d,
  get_fragment p real ghost true = Ok d ->
  Forall (fun f => valid_frag p f /\ all_real p f) real ->
  sub_molecule p real ghost true
  = Ok {| p_atoms := d_atoms d; p_frags := d_frags d; p_fc := d_fc d; p_fm := d_fm d;
          p_c := zsum (map (fc_at p) real); p_m := 1 + zsum (map (fun f => fm_at p f - 1) real) |}.
Proof. exact subsystem_validates. Qed.

(** The same for group_fragments=False, where no totals are handed over: the constructor's search settles on the sum
    of the fragment charges and the high-spin multiplicity.  [contiguous d] (the new fragments are consecutive and in
    order — true for parents whose own fragments are, as validation makes them) is what from_schema checks first. *)
Theorem C15_subsystem_validates_ungrouped : forall p real ghost d,
  disjoint_frags p -> (forall i, In i (List.concat (p_frags p)) -> (i < List.length (p_atoms p))%nat) ->
  get_fragment p real ghost false = Ok d -> contiguous d = true ->
  (forall f, In f (chosen_list p real ghost) -> memb f real = true -> valid_frag p f /\ all_real p f) ->
  sub_molecule p real ghost false
  = Ok {| p_atoms := d_atoms d; p_frags := d_frags d; p_fc := d_fc d; p_fm := d_fm d;
          p_c := zsum (d_fc d); p_m := hss (d_fm d) |}.
Proof. exact subsystem_validates_ungrouped. Qed.

(** Electron counts: per fragment the real nuclear charge minus the fragment charge; they add up to the molecule's
    count, which is the real nuclear charge minus the total charge. *)
Theorem C15_electrons_per_fragment : forall p k, partition_ok p ->
  nelectrons_frag p k = zsum (map (fun i => zeff (atom_at p i)) (frag_at p k)) - fc_at p k.
Proof. exact nelectrons_frag_spec. Qed.
Theorem C15_electrons_additive : forall p, partition_ok p ->
  List.length (p_fc p) = List.length (p_frags p) -> p_c p = zsum (p_fc p) ->
  zsum (map (nelectrons_frag p) (seq 0 (List.length (p_frags p)))) = nelectrons p
  /\ nelectrons p = zsum (map zeff (p_atoms p)) - p_c p.
Proof. exact electrons_additive. Qed.

(** Nuclear repulsion: the terms (Zeff_i·Zeff_j, d²_ij) with non-zero weight are exactly the terms of the atoms with
    non-zero effective charge (ghosts drop out); the term list is unchanged by an orthogonal map + shift of all
    atoms, and is permuted by a reordering of the atoms — so any sum over it (in particular sum w/sqrt(d²)) is
    invariant. *)
Theorem C15_nre_real_only : forall atoms, filter nz (terms_from [] atoms) = terms_from [] (filter charged atoms).
Proof. exact nre_real_only. Qed.
Theorem C15_nre_rigid_invariant : forall M atoms, orthogonal M -> terms_from [] (map (move M) atoms) = terms_from [] atoms.
Proof. exact nre_rigid_invariant. Qed.
Theorem C15_nre_reorder_invariant : forall l l', Permutation l l' -> Permutation (terms_from [] l) (terms_from [] l').
Proof. exact nre_reorder_invariant. Qed.
Theorem C15_nre_sum_invariant : forall (g : Z * Q -> Q) l l', Permutation l l' ->
  (qsum g (terms_from [] l) == qsum g (terms_from [] l'))%Q.
Proof. intros g l l' P. apply qsum_perm. apply nre_reorder_invariant. exact P. Qed.

(** The comparison of the implementation's float with the exact terms uses, per term, the rational pair
    (lo, hi) = inv_sqrt_lo_hi d2; it encloses 1/sqrt(d2): lo^2·d2 <= 1 <= hi^2·d2 with 0 < lo <= hi (for d2 >= 1e-60), so
    [nre_enclosure] = (sum w·lo, sum w·hi) brackets sum w/sqrt(d2) for non-negative weights. *)
Theorem C15_nre_inv_sqrt_enclosure : forall d2 : Q, 0 < Qnum d2 -> 1 <= Qnum d2 * 10 ^ 60 / Zpos (Qden d2) ->
  (0 < fst (inv_sqrt_lo_hi d2))%Q /\ (fst (inv_sqrt_lo_hi d2) <= snd (inv_sqrt_lo_hi d2))%Q
  /\ (fst (inv_sqrt_lo_hi d2) * fst (inv_sqrt_lo_hi d2) * d2 <= 1)%Q
  /\ (1 <= snd (inv_sqrt_lo_hi d2) * snd (inv_sqrt_lo_hi d2) * d2)%Q.
Proof. exact inv_sqrt_enclosure. Qed.

(** The formula lists every distinct (title-cased) symbol exactly once with its number of occurrences, in
    alphabetical order, or in Hill order (C, then H, then the rest alphabetically) when carbon is present. *)
Theorem C15_formula_counts : forall o syms,
  NoDup (map fst (formula_items o syms))
  /\ (forall k, In k (map fst (formula_items o syms)) <-> In k (map title syms))
  /\ (forall k n, In (k, n) (formula_items o syms) -> n = count_occ string_dec (map title syms) k /\ (1 <= n)%nat).
Proof. exact formula_counts. Qed.
Theorem C15_formula_ordered : forall syms,
  sorted (element_order Alphabetical syms)
  /\ (~ In "C"%string (map title syms) -> element_order Hill syms = element_order Alphabetical syms)
  /\ (In "C"%string (map title syms) ->
      exists rest, sorted rest /\ ~ In "C"%string rest /\ ~ In "H"%string rest
        /\ element_order Hill syms = "C"%string :: (if has "H" (map title syms) then ["H"%string] else []) ++ rest).
Proof. exact formula_ordered. Qed.

(** String level: reading the formula back (the two regular expressions of order_molecular_formula) returns exactly
    the (symbol, count) items, for symbols written as an upper-case letter followed by characters that are neither
    upper-case nor digits — which is how title() writes every non-empty alphabetic symbol. *)
Theorem C15_formula_parse_roundtrip : forall o syms, Forall wf_sym (map title syms) ->
  parse_items (formula o syms) None = formula_items o syms.
Proof. exact parse_formula_roundtrip. Qed.
Theorem C15_title_wellformed : forall s, s <> EmptyString -> all_cased s -> wf_sym (title s) /\ title (title s) = title s.
Proof. intros s N C. split; [apply title_wf; assumption|apply title_idem]. Qed.

(** The formula depends on the symbols only through the counts of their title-cased forms; and
    order_molecular_formula applied to a formula written here gives the formula of the same symbols in the requested
    order (so re-ordering into the same order is the identity, and alphabetical -> hill -> alphabetical returns). *)
Theorem C15_formula_ext : forall o syms syms',
  (forall k, count_in k (map title syms) = count_in k (map title syms')) -> formula o syms = formula o syms'.
Proof. exact formula_ext. Qed.
Theorem C15_order_formula_consistent : forall o o' syms name,
  Forall wf_sym (map title syms) -> parse_order name = Ok o ->
  order_formula (formula o' syms) name = Ok (formula o syms).
Proof. exact order_formula_of_formula. Qed.

(** ---- wave 3 ---- *)
(** The bookkeeping with no side condition: get_fragment always hands over one charge and one multiplicity per fragment. *)
Theorem C15_fragment_bookkeeping_unconditional : forall p real ghost group q,
  sub_molecule p real ghost group = Ok q ->
  exists d, get_fragment p real ghost group = Ok d /\ contiguous d = true
    /\ p_atoms q = d_atoms d /\ p_frags q = d_frags d /\ p_fc q = d_fc d /\ p_fm q = d_fm d
    /\ p_c q = zsum (p_fc q)
    /\ match d_cm d with
       | Some (c, m) => p_c q = c /\ p_m q = m
       | None => p_m q = 1 + zsum (map (fun m => m - 1) (p_fm q))
       end.
Proof. exact sub_molecule_bookkeeping_full. Qed.

(** Electrons are conserved by extraction: the sub-molecule has the electrons of the real-selected fragments (all their
    nuclei counted, minus their charges); ghost-selected fragments contribute none.  With no parent ghost atoms inside the
    real selection this is the sum of the parent's per-fragment counts. *)
Theorem C15_electrons_conserved_grouped : forall p real ghost q,
  sub_molecule p real ghost true = Ok q -> nelectrons q = zsum (map (fun f => znuc p f - fc_at p f) real).
Proof. exact electrons_conserved_grouped. Qed.
Theorem C15_electrons_conserved_grouped_per_fragment : forall p real ghost q, partition_ok p -> Forall (all_real p) real ->
  sub_molecule p real ghost true = Ok q -> nelectrons q = zsum (map (nelectrons_frag p) real).
Proof. exact electrons_conserved_grouped_frag. Qed.
(** group_fragments=False: the same, and the totals the constructor settles on are formed from the real-selected fragments. *)
Theorem C15_electrons_conserved_ungrouped : forall p real ghost q,
  disjoint_frags p -> (forall i, In i (List.concat (p_frags p)) -> (i < List.length (p_atoms p))%nat) ->
  sub_molecule p real ghost false = Ok q ->
  nelectrons q = zsum (map (fun f => znuc p f - fc_at p f) (real_chosen p real ghost))
  /\ p_c q = zsum (map (fc_at p) (real_chosen p real ghost))
  /\ p_m q = 1 + zsum (map (fun f => fm_at p f - 1) (real_chosen p real ghost)).
Proof. exact electrons_conserved_ungrouped. Qed.

(** The public entry point Molecule.get_fragment(real, ghost=None, orient=False, group_fragments=True): defaults (generated
    from the signature), index-or-list arguments, and `orient` reaching only the constructor. *)
Theorem C15_public_defaults : forall p real,
  get_fragment_pub p real None None None = obind (get_fragment p (sel_list real) [] true) (fun d => Ok (d, false)).
Proof. exact get_fragment_pub_defaults. Qed.
Theorem C15_public_glue : forall p (i : nat) orient group,
  (forall ghost, get_fragment_pub p (SInt i) ghost orient group = get_fragment_pub p (SList [i]) ghost orient group)
  /\ (forall real, get_fragment_pub p real (Some (SInt i)) orient group = get_fragment_pub p real (Some (SList [i])) orient group)
  /\ (forall real, get_fragment_pub p real None orient group = get_fragment_pub p real (Some (SList [])) orient group)
  /\ (forall r g o, match get_fragment_pub p r g o group, get_fragment_pub p r g None group with
                    | Ok (d, _), Ok (d', _) => d = d'
                    | Err e, Err e' => e = e'
                    | _, _ => False
                    end).
Proof. exact get_fragment_pub_glue. Qed.
Theorem C15_public_sub_molecule : forall p real ghost group,
  sub_molecule_pub p real ghost group = sub_molecule p (sel_list real) (ghost_list ghost) (match group with Some b => b | None => true end).
Proof. exact sub_molecule_pub_spec. Qed.

(** nelectrons(ifr) / nuclear_repulsion_energy(ifr). *)
Theorem C15_nelectrons_ifr : forall p, partition_ok p ->
  nelectrons_pub p None = Ok (zsum (map zeff (p_atoms p)) - p_c p)
  /\ (forall k, (k < List.length (p_frags p))%nat ->
        nelectrons_pub p (Some k) = Ok (zsum (map (fun i => zeff (atom_at p i)) (frag_at p k)) - fc_at p k))
  /\ (forall k, (List.length (p_frags p) <= k)%nat -> nelectrons_pub p (Some k) = Err PyIndexError).
Proof. exact nelectrons_pub_spec. Qed.
Theorem C15_nre_ifr : forall p,
  nre_terms_pub p None = Ok (terms_from [] (p_atoms p))
  /\ (forall k, (k < List.length (p_frags p))%nat -> nre_terms_pub p (Some k) = Ok (terms_from [] (map (atom_at p) (frag_at p k)))).
Proof. exact nre_terms_pub_spec. Qed.

(** The generated list of supported order names accepts exactly what the model's parse_order accepts; and
    Molecule.get_molecular_formula with its (generated) defaults is the alphabetical formula of the molecule's symbols. *)
Theorem C15_supported_orders : forall s, order_supported s = true <-> exists o, parse_order s = Ok o.
Proof. exact order_supported_iff. Qed.
Theorem C15_molecule_formula : forall syms c m,
  mol_formula syms c m None None = Ok (formula Alphabetical syms)
  /\ (forall order b, (b = Some false \/ b = None \/ (c = 0 /\ m = 1)) -> mol_formula syms c m (Some order) b = formula_from_symbols syms order)
  /\ formula_from_symbols syms mffs_default_order = Ok (formula Alphabetical syms).
Proof. exact mol_formula_spec. Qed.

(** Non-vacuity: He | @Ne H (+1) | Li O (-1); extraction of ([2,0] real, [1] ghost) in both paths. *)
Definition mk (s : string) (z : Z) (x y zc : Z) (r : bool) : atom :=
  {| a_sym := s; a_Z := z; a_mass := inject_Z z; a_x := inject_Z x; a_y := inject_Z y; a_z := inject_Z zc; a_real := r |}.
Definition ex_p : pmol :=
  {| p_atoms := [mk "He" 2 0 0 0 true; mk "Ne" 10 0 0 3 false; mk "H" 1 2 0 0 true; mk "Li" 3 2 2 0 true; mk "O" 8 0 2 2 true];
     p_frags := [[0]; [1; 2]; [3; 4]]%nat; p_fc := [0; 1; -1]; p_fm := [1; 1; 1]; p_c := 0; p_m := 1 |}.
Example C15_ex_fragment :
  partition_ok ex_p /\ disjoint_frags ex_p
  /\ (exists q, sub_molecule ex_p [2; 0]%nat [1]%nat true = Ok q
               /\ map a_sym (p_atoms q) = ["Li"; "O"; "He"; "Ne"; "H"]%string /\ map a_real (p_atoms q) = [true; true; true; false; false]
               /\ p_frags q = [[0; 1]; [2]; [3; 4]]%nat /\ p_fc q = [-1; 0; 0] /\ p_fm q = [1; 1; 1] /\ p_c q = -1 /\ p_m q = 1)
  /\ (exists q, sub_molecule ex_p [2; 0]%nat [1]%nat false = Ok q
               /\ map a_sym (p_atoms q) = ["He"; "Ne"; "H"; "Li"; "O"]%string /\ map a_real (p_atoms q) = [true; false; false; true; true]
               /\ p_frags q = [[0]; [1; 2]; [3; 4]]%nat /\ p_fc q = [0; 0; -1] /\ p_c q = -1)
  /\ nelectrons ex_p = 14 /\ map (nelectrons_frag ex_p) [0; 1; 2]%nat = [2; 0; 12]
  /\ List.length (filter nz (nre_terms ex_p)) = 6%nat /\ List.length (nre_terms ex_p) = 10%nat.
Proof.
  split; [vm_compute; apply Permutation_refl|]. split; [apply partition_disjoint; vm_compute; apply Permutation_refl|].
  split; [eexists; split; [vm_compute; reflexivity|repeat split]|].
  split; [eexists; split; [vm_compute; reflexivity|repeat split]|].
  repeat split; vm_compute; reflexivity.
Qed.
Example C15_ex_valid : Forall (fun f => valid_frag ex_p f /\ all_real ex_p f) [2; 0]%nat.
Proof.
  repeat constructor; try (vm_compute; congruence); try (vm_compute; reflexivity).
Qed.
Example C15_ex_motion :
  orthogonal {| r11 := 0; r12 := -1; r13 := 0; r21 := 3 # 5; r22 := 0; r23 := 4 # 5; r31 := 4 # 5; r32 := 0; r33 := -3 # 5;
                t1 := 1; t2 := -2; t3 := 1 # 3 |}.
Proof. repeat split; vm_compute; reflexivity. Qed.
Example C15_ex_formula :
  formula Hill ["h"; "C"; "CL"; "H"; "c"; "H"; "O"; "Ca"]%string = "C2H3CaClO"%string
  /\ formula Alphabetical ["h"; "C"; "CL"; "H"; "c"; "H"; "O"; "Ca"]%string = "C2CaClH3O"%string
  /\ formula Hill ["H"; "Cl"]%string = "ClH"%string
  /\ parse_items "C2H3CaClO" None = formula_items Hill ["h"; "C"; "CL"; "H"; "c"; "H"; "O"; "Ca"]%string
  /\ order_formula "C2H3CaClO" "Alphabetical" = Ok "C2CaClH3O"%string
  /\ order_formula "C12x3H2" "hill" = Ok "C12H2"%string /\ order_formula "h2" "hill" = Err PyValueError.
Proof. repeat split; vm_compute; reflexivity. Qed.
Example C15_ex_wf : Forall wf_sym (map title ["h"; "C"; "CL"; "Ca"]%string) /\ all_cased "CL" /\ parse_order "HILL" = Ok Hill.
Proof. split; [repeat constructor|split; [repeat constructor|reflexivity]]. Qed.
Example C15_ex_ungrouped : exists d, get_fragment ex_p [2; 0]%nat [1]%nat false = Ok d /\ contiguous d = true
  /\ (forall f, In f (chosen_list ex_p [2; 0]%nat [1]%nat) -> memb f [2; 0]%nat = true -> valid_frag ex_p f /\ all_real ex_p f).
Proof.
  eexists. split; [vm_compute; reflexivity|]. split; [vm_compute; reflexivity|].
  intros f Hf M. vm_compute in Hf. destruct Hf as [<-|[<-|[<-|[]]]]; try (vm_compute in M; discriminate M);
    (split; [repeat split; try (vm_compute; congruence); try (vm_compute; reflexivity); repeat constructor; vm_compute; congruence|repeat constructor]).
Qed.

Example C15_ex_wave3 :
  (exists q, sub_molecule ex_p [2; 0]%nat [1]%nat true = Ok q /\ nelectrons q = 14
             /\ zsum (map (fun f => znuc ex_p f - fc_at ex_p f) [2; 0]%nat) = 14)
  /\ real_chosen ex_p [2; 0]%nat [1]%nat = [0; 2]%nat
  /\ get_fragment_pub ex_p (SInt 2) None None None = obind (get_fragment ex_p [2]%nat [] true) (fun d => Ok (d, false))
  /\ nelectrons_pub ex_p (Some 3%nat) = Err PyIndexError /\ nelectrons_pub ex_p (Some 1%nat) = Ok 0
  /\ mol_formula ["h"; "C"; "H"; "O"]%string 1 2 None (Some true) = Ok "2^CH2O+"%string
  /\ mol_formula ["h"; "C"; "H"; "O"]%string (-2) 1 (Some "HILL"%string) (Some true) = Ok "CH2O--"%string
  /\ order_supported "Hill" = true /\ order_supported "iupac" = false.
Proof.
  split; [eexists; split; [vm_compute; reflexivity|split; vm_compute; reflexivity]|].
  repeat split; vm_compute; reflexivity.
Qed.

Print Assumptions C15_atoms_conserved_grouped.
Print Assumptions C15_atoms_conserved_ungrouped.
Print Assumptions C15_fragment_bookkeeping.
Print Assumptions C15_subsystem_validates_grouped.
Print Assumptions C15_subsystem_validates_ungrouped.
Print Assumptions C15_electrons_per_fragment.
Print Assumptions C15_electrons_additive.
Print Assumptions C15_nre_real_only.
Print Assumptions C15_nre_rigid_invariant.
Print Assumptions C15_nre_reorder_invariant.
Print Assumptions C15_nre_sum_invariant.
Print Assumptions C15_nre_inv_sqrt_enclosure.
Print Assumptions C15_formula_counts.
Print Assumptions C15_formula_ordered.
Print Assumptions C15_formula_parse_roundtrip.
Print Assumptions C15_title_wellformed.
Print Assumptions C15_formula_ext.
Print Assumptions C15_order_formula_consistent.
Print Assumptions C15_fragment_bookkeeping_unconditional.
Print Assumptions C15_electrons_conserved_grouped.
Print Assumptions C15_electrons_conserved_grouped_per_fragment.
Print Assumptions C15_electrons_conserved_ungrouped.
Print Assumptions C15_public_defaults.
Print Assumptions C15_public_glue.
Print Assumptions C15_public_sub_molecule.
Print Assumptions C15_nelectrons_ifr.
Print Assumptions C15_nre_ifr.
Print Assumptions C15_supported_orders.
Print Assumptions C15_molecule_formula.
