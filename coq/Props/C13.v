(** C13 — An alignment recipe transforms coordinates, gradients and Hessians covariantly.
    Property theorems only; each is closed by [exact] of a lemma from Proofs/Mill.v, Proofs/MillCalc.v,
    Proofs/MillGen.v or Proofs/Blockwise.v.
    Model: Model/Mill.v (AlignmentMill and np_blockwise over an arbitrary commutative ring [K] with
    Leibniz equality: Z, R, ...; the correspondence check runs the same definitions at Q).
    Tie: Gen/MillGen.v is regenerated on every run from the method bodies of models/align.py
    (harness/translate/millgen.py); the C13_translated_* theorems prove the generated functions equal to the
    model for all inputs; blockwise_expand/contract and the error behaviour are tied by correspondence.
    Vocabulary (Model/Mill.v): [Lmat m r c] is the linear part L of the recipe as a (3n x 3n) block
    operator, L[3i+a, 3j+b] = [j = atommap[i]] * s_b * rotation[b][a] with s = (1,-1,1) under mirror;
    [tvec m] = - shift . rotation;  [bsum n f] = f 0 + ... + f (n-1);  [flat3] flattens an (n,3) array.

    CLAUSE MAP (statement of C13 in properties.jsonl, clause by clause):
    (a) "for any rotation- and translation-invariant energy, the gradient ... at the aligned geometry equal[s] the
        aligned gradient":   C13_invariant_energy_gradient_covariant (any E, any grad characterised by directional
        derivatives, over R; mirror on or off; needs only rotation^T rotation = I and atommap a permutation);
        algebraic content: C13_coords_affine, C13_gradient_is_L, C13_L_orthogonal, C13_line_transport.
    (b) "... and aligned Hessian":   C13_invariant_energy_hessian_covariant; C13_hessian_is_LHLt (mirror included).
    (c) "per-atom arrays are permuted by the same atom map as the coordinates":   C13_atoms_same_map
        (forward and reverse transform).
    (d) "(for recipes without mirror) molecule-attached vectors and their nuclear derivatives rotate with the
        frame":   C13_vector_is_rotT, C13_vector_gradient_covariant, C13_covariant_vector_jacobian.
    (e) "Reordering a Hessian into 3x3 atom blocks and back is lossless":   C13_blockwise_lossless (every tile
        count); for the public blockwise_expand/blockwise_contract with ANY block shape:
        C13_blockwise_lossless_any_blockshape, C13_blockwise_unaligned_keeps_topleft,
        C13_blockwise_misaligned_refused, C13_blockwise_33_is_mill.
    (f) "one recipe (shift, rotation, atom map, optional mirror) ... forward and reverse":
        C13_reverse_inverts_forward; errors: C13_wellformed_total (a well-formed recipe never raises; ill-formed
        atom maps raise IndexError in the model and are compared by correspondence).
    (g) model = code:   C13_translated_coordinates_is_model, C13_translated_gradient_is_model,
        C13_translated_hessian_is_model, C13_translated_atoms_vector_datom_is_model,
        C13_translated_vector_gradient_loop_is_model (the whole method incl. its atom loop and the order of its
        exceptions; all generated from the source); np_blockwise and align_system / align_mini_system: only
        correspondence/oracle.
    No clause is missing; none of the theorems is _partial.  _refuted: C13_vector_rotates_with_frame_under_mirror_refuted
    (the "without mirror" restriction of clause (d) cannot be dropped; not a defect: the property excludes it). *)
From Coq Require Import List Arith Lia Reals ZArith.
From Coquelicot Require Import Coquelicot.
Require Import QV.Common.Outcome QV.Common.AlignAlg QV.Common.AlignAlgFacts QV.Common.AlignAlgR QV.Model.Mill QV.Proofs.Mill QV.Proofs.MillCalc
               QV.Model.MillOps QV.Model.MillLoop QV.Gen.MillGen QV.Proofs.MillGen QV.Model.Blockwise QV.Proofs.Blockwise.
Import ListNotations.

(** align_coordinates (forward) is the affine map  x |-> L x + t. *)
Theorem C13_coords_affine :
  forall (K : Type) (KO : Ops K) (KR : RingLaws K) (m : mill K) x y,
  align_coordinates m false x = Ok y ->
  length y = length (amap m) /\
  forall r, (r < 3 * length (amap m))%nat ->
    nth r (flat3 y) k0 = kadd (bsum (3 * length x) (fun c => kmul (Lmat m r c) (nth c (flat3 x) k0))) (comp (tvec m) (r mod 3)).
Proof. exact @coords_affine. Qed.

(** align_gradient is the linear map  g |-> L g  (mirror included). *)
Theorem C13_gradient_is_L :
  forall (K : Type) (KO : Ops K) (KR : RingLaws K) (m : mill K) g y,
  align_gradient m g = Ok y ->
  length y = length (amap m) /\
  forall r, (r < 3 * length (amap m))%nat ->
    nth r (flat3 y) k0 = bsum (3 * length g) (fun c => kmul (Lmat m r c) (nth c (flat3 g) k0)).
Proof. exact @gradient_is_L. Qed.

(** align_hessian (through blockwise_expand, the mirror sign flips, the per-block rotation, np.ix_ and
    blockwise_contract) is  H |-> L H L^T  — with the same L as the gradient, mirror on or off. *)
Theorem C13_hessian_is_LHLt :
  forall (K : Type) (KO : Ops K) (KR : RingLaws K) (m : mill K) n (H H' : list K),
  length (amap m) = n -> align_hessian m n H = Ok H' ->
  length H' = (3 * n * (3 * n))%nat /\
  forall r c, (r < 3 * n)%nat -> (c < 3 * n)%nat ->
    nth (r * (3 * n) + c) H' k0 =
    bsum (3 * n) (fun k => bsum (3 * n) (fun l => kmul (kmul (Lmat m r k) (nth (k * (3 * n) + l) H k0)) (Lmat m c l))).
Proof. exact @hessian_is_LHLt. Qed.

(** For an orthogonal rotation and a permutation atom map, L L^T = I. *)
Theorem C13_L_orthogonal :
  forall (K : Type) (KO : Ops K) (KR : RingLaws K) (m : mill K) n,
  mmul (mtrans (rot m)) (rot m) = mid -> is_perm n (amap m) ->
  forall r c, (r < 3 * n)%nat -> (c < 3 * n)%nat ->
    bsum (3 * n) (fun k => kmul (Lmat m r k) (Lmat m c k)) = kdelta r c.
Proof. exact @L_orthogonal. Qed.

(** Per-atom arrays are permuted by the same atom map as the coordinates: row i of the aligned
    geometry is the transformed row atommap[i], entry i of the aligned array is entry atommap[i]. *)
Theorem C13_atoms_same_map :
  forall (K : Type) (KO : Ops K) (A : Type) (m : mill K) rev x y (a b : list A),
  align_coordinates m rev x = Ok y -> align_atoms m a = Ok b ->
  length y = length (amap m) /\ length b = length (amap m) /\
  forall i, (i < length (amap m))%nat ->
    nth_error y i = option_map (if rev then rev_atom m else fwd_atom m) (nth_error x (nth i (amap m) O)) /\
    nth_error b i = nth_error a (nth i (amap m) O).
Proof. exact @atoms_same_map. Qed.

(** The coordinate transform maps the line x + s v onto the line T x + s (L v). *)
Theorem C13_line_transport :
  forall (K : Type) (KO : Ops K) (KR : RingLaws K) (m : mill K) x v y lv s,
  length x = length v ->
  align_coordinates m false x = Ok y -> align_gradient m v = Ok lv ->
  align_coordinates m false (ladd x (lscale s v)) = Ok (ladd y (lscale s lv)).
Proof. exact @line_transport. Qed.

(** The forward transform of the inverse recipe (same shift and mirror, rotation transposed, inverse
    atom map q) undoes the reverse transform (what Molecule.scramble applies). *)
Theorem C13_reverse_inverts_forward :
  forall (K : Type) (KO : Ops K) (KR : RingLaws K) (m : mill K) q x c z,
  mmul (rot m) (mtrans (rot m)) = mid ->
  length q = length x ->
  (forall j, (j < length x)%nat -> nth (nth j q O) (amap m) O = j /\ (nth j q O < length (amap m))%nat) ->
  align_coordinates m true x = Ok c ->
  align_coordinates (inv_mill m q) false c = Ok z ->
  z = x.
Proof. exact @reverse_inverts_forward. Qed.

(** align_vector is  v |-> rotation^T v  (no mirror, no shift). *)
Theorem C13_vector_is_rotT :
  forall (K : Type) (KO : Ops K) (KR : RingLaws K) (m : mill K) v a, (a < 3)%nat ->
  comp (align_vector m v) a = bsum 3 (fun k => kmul (ment (rot m) k a) (comp v k)).
Proof. exact @vector_is_rotT. Qed.

(** align_vector_gradient is  J |-> rotation^T J L^T  for recipes without mirror: exactly the
    Jacobian of a vector field with  mu'(T x) = rotation^T mu(x). *)
Theorem C13_vector_gradient_covariant :
  forall (K : Type) (KO : Ops K) (KR : RingLaws K) (m : mill K) mu out,
  align_vector_gradient m mu = Ok out ->
  let n := (length (sel3 0 mu) / 3)%nat in
  forall a r, (a < 3)%nat -> (r < 3 * n)%nat ->
    length (sel3 a out) = (3 * n)%nat /\
    (mirror m = false ->
     nth r (sel3 a out) k0 =
     bsum 3 (fun a' => kmul (ment (rot m) a' a) (bsum (3 * n) (fun c => kmul (Lmat m r c) (nth c (sel3 a' mu) k0))))).
Proof. exact @vector_gradient_covariant. Qed.

(** Reordering into 3x3 tiles and back is lossless, for every number of row and column tiles. *)
Theorem C13_blockwise_lossless :
  forall (K : Type) (KO : Ops K) gr gc (H : list K),
  length H = (3 * gr * (3 * gc))%nat -> contract gr gc (expand gr gc H) = H.
Proof. exact @blockwise_lossless. Qed.

(** A well-formed recipe never raises. *)
Theorem C13_wellformed_total :
  forall (K : Type) (KO : Ops K) (KR : RingLaws K) (m : mill K) n rev x g (H : list K),
  is_perm n (amap m) -> length x = n -> length g = n ->
  (exists y, align_coordinates m rev x = Ok y) /\ (exists y, align_gradient m g = Ok y) /\
  (exists H', align_hessian m n H = Ok H').
Proof.
  intros K KO KR m n rev x g H HP Lx Lg. split; [|split].
  - exact (coords_ok m n rev x HP Lx).
  - exact (gradient_ok m n g HP Lg).
  - exact (hessian_ok m n H HP).
Qed.

(** The physics link (over the reals).  Let the recipe be orthogonal with a permutation atom map, let
    E' at the aligned geometry equal E at the original one (an energy invariant under the rigid motion,
    with couplings carried along the atom map), and let grad/grad' be gradients of E/E' in the sense
    that the derivative of the energy along every line is <grad, direction>.  Then the gradient at the
    aligned geometry is the aligned gradient. *)
Theorem C13_invariant_energy_gradient_covariant :
  forall (m : mill R) (n : nat),
  mmul (mtrans (rot m)) (rot m) = mid -> is_perm n (amap m) ->
  forall E E' : list (vec3 R) -> R,
  (forall x y, length x = n -> align_coordinates m false x = Ok y -> E' y = E x) ->
  forall grad grad', grad_spec n E grad -> grad_spec n E' grad' ->
  forall x y, length x = n -> align_coordinates m false x = Ok y ->
    align_gradient m (grad x) = Ok (grad' y).
Proof. exact invariant_gradient_covariant. Qed.

(** ... and if hess/hess' are the derivatives of grad/grad' (each gradient component along every
    line), the Hessian at the aligned geometry is the aligned Hessian. *)
Theorem C13_invariant_energy_hessian_covariant :
  forall (m : mill R) (n : nat),
  mmul (mtrans (rot m)) (rot m) = mid -> is_perm n (amap m) ->
  forall E E' : list (vec3 R) -> R,
  (forall x y, length x = n -> align_coordinates m false x = Ok y -> E' y = E x) ->
  forall grad grad', grad_spec n E grad -> grad_spec n E' grad' ->
  forall hess hess', hess_spec n grad hess -> hess_spec n grad' hess' ->
  forall x y, length x = n -> align_coordinates m false x = Ok y ->
    align_hessian m n (hess x) = Ok (hess' y).
Proof. exact invariant_hessian_covariant. Qed.

(** The same for a molecule-attached vector field (recipes without mirror): if mu' at the aligned geometry is
    the aligned vector and J/J' are the Jacobians of mu/mu', then the Jacobian at the aligned geometry is
    align_vector_gradient of the original one. *)
Theorem C13_covariant_vector_jacobian :
  forall (m : mill R) (n : nat),
  mmul (mtrans (rot m)) (rot m) = mid -> is_perm n (amap m) -> mirror m = false ->
  forall mu mu' : list (vec3 R) -> vec3 R,
  (forall x y, length x = n -> align_coordinates m false x = Ok y -> mu' y = align_vector m (mu x)) ->
  forall J J', jac_spec n mu J -> jac_spec n mu' J' ->
  forall x y, length x = n -> align_coordinates m false x = Ok y ->
    align_vector_gradient m (J x) = Ok (J' y).
Proof. exact covariant_vector_jacobian. Qed.

(** ---- np_blockwise with ANY block shape (Model/Blockwise.v): the public blockwise_expand / blockwise_contract ---- *)
(** If the block shape (br, bc) divides the array shape, blocking succeeds (with or without
    require_aligned_blocks) and un-blocking gives the array back. *)
Theorem C13_blockwise_lossless_any_blockshape :
  forall (K : Type) (KO : Ops K) gr gc br bc al (H : list K),
  (0 < br)%nat -> (0 < bc)%nat -> length H = (gr * br * (gc * bc))%nat ->
  exists B, expand_g (gr * br) (gc * bc) br bc al H = Ok B /\ contract_g gr gc br bc B = H.
Proof. exact @blockwise_lossless_general. Qed.

(** In general (require_aligned_blocks=False lets the view discard the remainder) un-blocking returns the
    top-left (gr*br, gc*bc) part of the (h, w) array, gr = h // br, gc = w // bc, entry by entry. *)
Theorem C13_blockwise_unaligned_keeps_topleft :
  forall (K : Type) (KO : Ops K) h w br bc al (H B : list K),
  (0 < br)%nat -> (0 < bc)%nat -> expand_g h w br bc al H = Ok B ->
  let gr := (h / br)%nat in let gc := (w / bc)%nat in
  length (contract_g gr gc br bc B) = (gr * br * (gc * bc))%nat /\
  forall r c, (r < gr * br)%nat -> (c < gc * bc)%nat ->
    nth (r * (gc * bc) + c) (contract_g gr gc br bc B) k0 = nth (r * w + c) H k0.
Proof. exact @blockwise_roundtrip_general. Qed.

(** blockwise_expand raises (AssertionError) exactly when alignment is required and the block shape does not
    divide the array shape. *)
Theorem C13_blockwise_misaligned_refused :
  forall (K : Type) (KO : Ops K) h w br bc al (H : list K),
  expand_g h w br bc al H = Err PyAssertion <-> (al = true /\ ((h mod br <> 0)%nat \/ (w mod bc <> 0)%nat)).
Proof. exact @expand_g_error_iff. Qed.

(** At block shape (3,3) the general functions are the [expand]/[contract] that align_hessian uses. *)
Theorem C13_blockwise_33_is_mill :
  forall (K : Type) (KO : Ops K) gr gc al (H B : list K),
  expand_g (3 * gr) (3 * gc) 3 3 al H = Ok (expand gr gc H) /\ contract_g gr gc 3 3 B = contract gr gc B.
Proof. intros. split; [apply expand_g_33 | apply contract_g_33]. Qed.

(** ---- the translated method bodies (Gen/MillGen.v, regenerated from models/align.py on every run) ---- *)
(** The let-chains the translator produces from the numpy statements of each method are the hand-written
    model the theorems above are about, for every carrier, recipe and input: an operand swap, a dropped
    transpose, a mirror flip at another place or axis, a reordered step in the source changes the generated
    term and breaks these proofs. *)
Theorem C13_translated_coordinates_is_model :
  forall (K : Type) (KO : Ops K) (m : mill K) rev x, gen_align_coordinates m rev x = align_coordinates m rev x.
Proof. exact @gen_align_coordinates_is_model. Qed.

Theorem C13_translated_gradient_is_model :
  forall (K : Type) (KO : Ops K) (m : mill K) g, gen_align_gradient m g = align_gradient m g.
Proof. exact @gen_align_gradient_is_model. Qed.

Theorem C13_translated_hessian_is_model :
  forall (K : Type) (KO : Ops K) (m : mill K) n H, gen_align_hessian m n H = align_hessian m n H.
Proof. exact @gen_align_hessian_is_model. Qed.

Theorem C13_translated_atoms_vector_datom_is_model :
  forall (K : Type) (KO : Ops K) (m : mill K),
  (forall (A : Type) (a : list A), gen_align_atoms m a = align_atoms m a) /\
  (forall v, gen_align_vector m v = align_vector m v) /\
  (forall mu p, gen_datom m mu p = datom m mu p).
Proof.
  intros K KO m. split; [|split].
  - intros A a. apply gen_align_atoms_is_model.
  - apply gen_align_vector_is_model.
  - apply gen_datom_is_model.
Qed.

(** The WHOLE method align_vector_gradient as translated from the source - mu_x, mu_y, mu_z = mu_derivatives;
    nat = mu_x.shape[0] // 3; al_mu = zeros((3, 3*nat)); for at in range(nat): read self.atommap[at] (IndexError past
    the end), the three slices (ValueError when short), rotate, store the three rows into al_mu[c, 3*at:3*at+3];
    return al_mu - is the model, including which exception is raised first, whenever the three input rows have one
    length that is a multiple of 3 (other inputs are outside the modelled domain: the model answers Err PyTypeError). *)
Theorem C13_translated_vector_gradient_loop_is_model :
  forall (K : Type) (KO : Ops K) (m : mill K) (mx my mz : list K),
  length my = length mx -> length mz = length mx -> length mx = (3 * (length mx / 3))%nat ->
  gen_align_vector_gradient m (mx, my, mz) = align_vector_gradient m (mx, my, mz).
Proof. intros K KO m mx my mz. exact (gen_align_vector_gradient_is_model m (mx, my, mz)). Qed.

(** ---- non-vacuity ---- *)
#[local] Instance ZOps : Ops Z := {| k0 := 0%Z; k1 := 1%Z; kadd := Z.add; kmul := Z.mul; ksub := Z.sub; kopp := Z.opp |}.
#[local] Instance ZLaws : RingLaws Z := InitialRing.Zth.

(** The restriction to recipes WITHOUT mirror in the two vector theorems is necessary: align_vector (and
    align_vector_gradient) ignore the mirror flag, so for a mirror recipe the difference vector x0 - x1 of the
    aligned geometry is not the aligned difference vector.  (The property claims the vector transforms for
    recipes without mirror only; models/align.py itself marks this place as an open question.) *)
Theorem C13_vector_rotates_with_frame_under_mirror_refuted :
  exists (m : mill Z) (x y : list (vec3 Z)),
    mirror m = true /\ mmul (mtrans (rot m)) (rot m) = mid /\ is_perm 2 (amap m) /\
    align_coordinates m false x = Ok y /\
    vsub (nth 0 y v0) (nth 1 y v0) <> align_vector m (vsub (nth 0 x v0) (nth 1 x v0)).
Proof.
  exists {| shift := (0, 0, 0)%Z; rot := ((1, 0, 0), (0, 1, 0), (0, 0, 1))%Z; amap := [0; 1]%nat; mirror := true |},
         [(0, 0, 0); (1, 2, 3)]%Z, [(0, 0, 0); (1, -2, 3)]%Z.
  split; [reflexivity|]. split; [reflexivity|]. split.
  - split; [reflexivity|]. split; [repeat constructor; simpl; intuition lia | repeat constructor].
  - split; [vm_compute; reflexivity|]. vm_compute. discriminate.
Qed.


(* quarter turn about z, shift (1,2,3), cyclic atom map, mirror on: the recipe shape of finding C13-hessian-mirror *)
Definition ex_mill : mill Z :=
  {| shift := (1, 2, 3)%Z; rot := ((0, -1, 0), (1, 0, 0), (0, 0, 1))%Z; amap := [2; 0; 1]%nat; mirror := true |}.
(** the hypotheses of C13_translated_vector_gradient_loop_is_model are satisfiable and the loop does something:
    two atoms swapped by the recipe, a quarter turn about z; an atom map entry past the last atom raises ValueError
    (empty slice), a map shorter than the number of atoms raises IndexError - in the translated loop as in the model *)
Example C13_ex_vector_gradient_loop :
  let q := ((0, -1, 0), (1, 0, 0), (0, 0, 1))%Z in
  let mu := ([1; 2; 3; 4; 5; 6], [7; 8; 9; 10; 11; 12], [13; 14; 15; 16; 17; 18])%Z in
  gen_align_vector_gradient (Build_mill Z (0, 0, 0)%Z q [1; 0]%nat false) mu
    = Ok ([11; -10; 12; 8; -7; 9], [-5; 4; -6; -2; 1; -3], [17; -16; 18; 14; -13; 15])%Z /\
  gen_align_vector_gradient (Build_mill Z (0, 0, 0)%Z q [1; 2]%nat false) mu = Err PyValueError /\
  gen_align_vector_gradient (Build_mill Z (0, 0, 0)%Z q [1]%nat false) mu = Err PyIndexError.
Proof. vm_compute. repeat split. Qed.

Example C13_ex_wellformed :
  mmul (mtrans (rot ex_mill)) (rot ex_mill) = mid /\ mmul (rot ex_mill) (mtrans (rot ex_mill)) = mid /\ is_perm 3 (amap ex_mill).
Proof.
  split; [reflexivity|]. split; [reflexivity|]. split; [reflexivity|]. split.
  - repeat constructor; simpl; intuition lia.
  - repeat constructor.
Qed.
Example C13_ex_coords :
  align_coordinates ex_mill false [(1, 0, 0); (0, 2, 0); (0, 0, 5)]%Z = Ok [(-2, 1, 2); (-2, 0, -3); (-4, 1, -3)]%Z
  /\ align_gradient ex_mill [(1, 0, 0); (0, 2, 0); (0, 0, 5)]%Z = Ok [(0, 0, 5); (0, -1, 0); (-2, 0, 0)]%Z
  /\ align_atoms ex_mill [6; 1; 8]%Z = Ok [8; 6; 1]%Z.
Proof. repeat split; vm_compute; reflexivity. Qed.
Example C13_ex_hessian_mirror_matters :
  exists H H1 H2, align_hessian ex_mill 3 H = Ok H1
    /\ align_hessian {| shift := shift ex_mill; rot := rot ex_mill; amap := amap ex_mill; mirror := false |} 3 H = Ok H2
    /\ H1 <> H2 /\ length H = 81%nat.
Proof.
  exists (tab 81 (fun k => Z.of_nat (k * k mod 17))). eexists. eexists.
  split; [vm_compute; reflexivity|]. split; [vm_compute; reflexivity|]. split; [discriminate|reflexivity].
Qed.
Example C13_ex_inverse_recipe :
  forall x, length x = 3%nat ->
  exists c, align_coordinates ex_mill true x = Ok c /\ align_coordinates (inv_mill ex_mill [1; 2; 0]%nat) false c = Ok x.
Proof.
  intros x Hx.
  assert (P1 : is_perm 3 (amap ex_mill)) by exact (proj2 (proj2 C13_ex_wellformed)).
  assert (P2 : is_perm 3 (amap (inv_mill ex_mill [1; 2; 0]%nat))).
  { split; [reflexivity|]. split; [repeat constructor; simpl; intuition lia | repeat constructor]. }
  destruct (coords_ok ex_mill 3 true x P1 Hx) as [c Hc]. exists c. split; [exact Hc|].
  assert (Lc : length c = 3%nat) by (destruct (coords_atomwise _ _ _ _ Hc) as [L _]; exact L).
  destruct (coords_ok (inv_mill ex_mill [1; 2; 0]%nat) 3 false c P2 Lc) as [z Hz]. rewrite Hz. f_equal.
  apply (reverse_inverts_forward ex_mill [1; 2; 0]%nat x c z); try assumption.
  - reflexivity.
  - rewrite Hx. reflexivity.
  - rewrite Hx. intros j Hj. destruct j as [|[|[|j]]]; try lia; simpl; split; (reflexivity || lia).
Qed.

(* a rigid-motion invariant energy on two atoms: E = |x0 - x1|^2, with its gradient and Hessian *)
Definition exR_mill : mill R :=
  {| shift := (1, 2, 3)%R; rot := ((0, -1, 0), (1, 0, 0), (0, 0, 1))%R; amap := [1; 0]%nat; mirror := true |}.
Definition exE (x : list (vec3 R)) : R :=
  match x with
  | [(a1, a2, a3); (b1, b2, b3)] => ((a1 - b1) * (a1 - b1) + (a2 - b2) * (a2 - b2) + (a3 - b3) * (a3 - b3))%R
  | _ => 0%R
  end.
Definition exGrad (x : list (vec3 R)) : list (vec3 R) :=
  match x with
  | [(a1, a2, a3); (b1, b2, b3)] =>
      [((2 * (a1 - b1)), (2 * (a2 - b2)), (2 * (a3 - b3))); ((- 2 * (a1 - b1)), (- 2 * (a2 - b2)), (- 2 * (a3 - b3)))]%R
  | _ => [v0; v0]
  end.
Definition exHess (x : list (vec3 R)) : list R :=
  [2; 0; 0; -2; 0; 0;   0; 2; 0; 0; -2; 0;   0; 0; 2; 0; 0; -2;
   -2; 0; 0; 2; 0; 0;   0; -2; 0; 0; 2; 0;   0; 0; -2; 0; 0; 2]%R.

Example C13_ex_physics_hypotheses :
  mmul (mtrans (rot exR_mill)) (rot exR_mill) = mid /\ is_perm 2 (amap exR_mill) /\
  (forall x y, length x = 2%nat -> align_coordinates exR_mill false x = Ok y -> exE y = exE x) /\
  grad_spec 2 exE exGrad /\ hess_spec 2 exGrad exHess.
Proof.
  split; [|split; [|split; [|split]]].
  - cbv. repeat (f_equal; try ring).
  - split; [reflexivity|]. split; [repeat constructor; simpl; intuition lia | repeat constructor].
  - intros [|[[a1 a2] a3] [|[[b1 b2] b3] [|d x]]] y H; try discriminate. intros Hy.
    cbv in Hy. injection Hy as <-. cbv [exE]. ring.
  - intros [|[[a1 a2] a3] [|[[b1 b2] b3] [|d x]]] [|[[u1 u2] u3] [|[[w1 w2] w3] [|e v]]] Hy Hv; try discriminate.
    split; [reflexivity|].
    cbv [line ladd lscale map vadd vscale exE exGrad ldot dot3 kadd kmul ROps k0].
    auto_derive; [exact I|]. ring.
  - split; [intros; reflexivity|].
    intros [|[[a1 a2] a3] [|[[b1 b2] b3] [|d x]]] [|[[u1 u2] u3] [|[[w1 w2] w3] [|e v]]] r Hy Hv Hr; try discriminate.
    cbv [line ladd lscale map vadd vscale exGrad flat3 kadd kmul ROps k0].
    do 6 (destruct r as [|r]; [cbv [bsum nth exHess Nat.mul Nat.add kadd kmul ROps k0]; auto_derive; [exact I|ring]|]).
    lia.
Qed.

(* a translation-invariant, rotation-covariant vector field on two atoms: mu = x0 - x1 (mu' = y1 - y0 after the swap) *)
Definition exV_mill : mill R :=
  {| shift := (1, 2, 3)%R; rot := ((0, -1, 0), (1, 0, 0), (0, 0, 1))%R; amap := [1; 0]%nat; mirror := false |}.
Definition exMu (x : list (vec3 R)) : vec3 R := match x with [a; b] => vsub a b | _ => v0 end.
Definition exMu' (x : list (vec3 R)) : vec3 R := match x with [a; b] => vsub b a | _ => v0 end.
Definition exJ (x : list (vec3 R)) : list R * list R * list R :=
  ([1; 0; 0; -1; 0; 0], [0; 1; 0; 0; -1; 0], [0; 0; 1; 0; 0; -1])%R.
Definition exJ' (x : list (vec3 R)) : list R * list R * list R :=
  ([-1; 0; 0; 1; 0; 0], [0; -1; 0; 0; 1; 0], [0; 0; -1; 0; 0; 1])%R.
Example C13_ex_vector_hypotheses :
  mmul (mtrans (rot exV_mill)) (rot exV_mill) = mid /\ is_perm 2 (amap exV_mill) /\ mirror exV_mill = false /\
  (forall x y, length x = 2%nat -> align_coordinates exV_mill false x = Ok y -> exMu' y = align_vector exV_mill (exMu x)) /\
  jac_spec 2 exMu exJ /\ jac_spec 2 exMu' exJ'.
Proof.
  split; [|split; [|split; [|split; [|split]]]].
  - cbv. repeat (f_equal; try ring).
  - split; [reflexivity|]. split; [repeat constructor; simpl; intuition lia | repeat constructor].
  - reflexivity.
  - intros [|[[a1 a2] a3] [|[[b1 b2] b3] [|d x]]] y H; try discriminate. intros Hy.
    cbv in Hy. injection Hy as <-. cbv [exMu exMu' align_vector exV_mill rot vsub vmat dot3 mcol ment mrow comp kadd kmul ksub kopp k0 k1 ROps].
    repeat match goal with |- pair _ _ = pair _ _ => apply f_equal2 end; ring.
  - split; [intros y a _ Ha; destruct a as [|[|[|a]]]; try lia; reflexivity|].
    intros [|[[a1 a2] a3] [|[[b1 b2] b3] [|d x]]] [|[[u1 u2] u3] [|[[w1 w2] w3] [|e v]]] a Hy Hv Ha; try discriminate.
    cbv [line ladd lscale map vadd vscale exMu vsub flat3 exJ sel3 kadd kmul ksub ROps k0].
    do 3 (destruct a as [|a]; [cbv [comp bsum nth Nat.mul Nat.add kadd kmul ROps k0]; auto_derive; [exact I|ring]|]). lia.
  - split; [intros y a _ Ha; destruct a as [|[|[|a]]]; try lia; reflexivity|].
    intros [|[[a1 a2] a3] [|[[b1 b2] b3] [|d x]]] [|[[u1 u2] u3] [|[[w1 w2] w3] [|e v]]] a Hy Hv Ha; try discriminate.
    cbv [line ladd lscale map vadd vscale exMu' vsub flat3 exJ' sel3 kadd kmul ksub ROps k0].
    do 3 (destruct a as [|a]; [cbv [comp bsum nth Nat.mul Nat.add kadd kmul ROps k0]; auto_derive; [exact I|ring]|]). lia.
Qed.

(* a 4 x 5 array in 2 x 2 blocks: aligned blocking is refused, unaligned blocking drops the last column
   (the docstring example of blockwise_expand) *)
Example C13_ex_blockwise_general :
  expand_g 4 5 2 2 true (map Z.of_nat (seq 1 20)) = Err PyAssertion /\
  expand_g 4 5 2 2 false (map Z.of_nat (seq 1 20)) = Ok [1; 2; 6; 7; 3; 4; 8; 9; 11; 12; 16; 17; 13; 14; 18; 19]%Z /\
  contract_g 2 2 2 2 [1; 2; 6; 7; 3; 4; 8; 9; 11; 12; 16; 17; 13; 14; 18; 19]%Z = [1; 2; 3; 4; 6; 7; 8; 9; 11; 12; 13; 14; 16; 17; 18; 19]%Z.
Proof. repeat split; vm_compute; reflexivity. Qed.

Print Assumptions C13_coords_affine.
Print Assumptions C13_gradient_is_L.
Print Assumptions C13_hessian_is_LHLt.
Print Assumptions C13_L_orthogonal.
Print Assumptions C13_atoms_same_map.
Print Assumptions C13_line_transport.
Print Assumptions C13_reverse_inverts_forward.
Print Assumptions C13_vector_is_rotT.
Print Assumptions C13_vector_gradient_covariant.
Print Assumptions C13_blockwise_lossless.
Print Assumptions C13_wellformed_total.
Print Assumptions C13_invariant_energy_gradient_covariant.
Print Assumptions C13_invariant_energy_hessian_covariant.
Print Assumptions C13_covariant_vector_jacobian.
Print Assumptions C13_blockwise_lossless_any_blockshape.
Print Assumptions C13_blockwise_unaligned_keeps_topleft.
Print Assumptions C13_blockwise_misaligned_refused.
Print Assumptions C13_blockwise_33_is_mill.
Print Assumptions C13_translated_coordinates_is_model.
Print Assumptions C13_translated_gradient_is_model.
Print Assumptions C13_translated_hessian_is_model.
Print Assumptions C13_translated_atoms_vector_datom_is_model.
Print Assumptions C13_translated_vector_gradient_loop_is_model.
Print Assumptions C13_vector_rotates_with_frame_under_mirror_refuted.
